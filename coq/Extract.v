(* Extract.v — OCaml extraction of the executable model (ExtrOcamlBasic only). *)
From Coq Require Import Extraction ExtrOcamlBasic.
From AL Require Import Api MutexApi SemApi RwApi OnceApi BarrierApi.
Extraction Language OCaml.

Extraction "../driver/model.ml" mw0 mstep sw_init sstep rw0 rstep ow0 ostep bw_init bstep.
