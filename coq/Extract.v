(* Extract.v — OCaml extraction of the executable model (ExtrOcamlBasic only). *)
From Coq Require Import Extraction ExtrOcamlBasic.
From AL Require Import Api MutexApi SemApi RwApi OnceApi BarrierApi.
From AL.Sched Require SemEvSolo MutexEvSolo BarrierEvSolo OnceEvSolo RwReadEvSolo RwWriteEvSolo RwComp3Solo BarrierCompSolo.
Extraction Language OCaml.

Extraction "../driver/model.ml" mw0 mstep sw_init sstep rw0 rstep ow0 ostep bw_init bstep
  SemEvSolo.sw2_init SemEvSolo.sstep2 MutexEvSolo.mw2_init MutexEvSolo.mstep2 BarrierEvSolo.bw2_init BarrierEvSolo.bstep2
  OnceEvSolo.ow2_init OnceEvSolo.ostep2 RwReadEvSolo.rw2_init RwReadEvSolo.rstep2 RwWriteEvSolo.ww2_init RwWriteEvSolo.wstep2 RwComp3Solo.x3_init RwComp3Solo.xstep2 BarrierCompSolo.by2_init BarrierCompSolo.ystep2.
