(* Extract.v — OCaml extraction of the executable model (ExtrOcamlBasic only). *)
From Coq Require Import Extraction ExtrOcamlBasic.
From AL Require Import Api MutexApi SemApi RwApi OnceApi BarrierApi.
From AL.Sched Require SemEvSolo MutexEvSolo BarrierEvSolo.
Extraction Language OCaml.

Extraction "../driver/model.ml" mw0 mstep sw_init sstep rw0 rstep ow0 ostep bw_init bstep
  SemEvSolo.sw2_init SemEvSolo.sstep2 MutexEvSolo.mw2_init MutexEvSolo.mstep2 BarrierEvSolo.bw2_init BarrierEvSolo.bstep2.
