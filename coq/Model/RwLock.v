(* RwLock.v — src/rwlock/raw.rs. state = W1, inner mutex = (W0, E0),
   no_readers = E1, no_writer = E2. *)
From AL Require Export Base Mutex.

Definition WRITER_BIT : N := 1.
Definition ONE_READER : N := 2.
Definition has_writer (v : N) : bool := negb (N.land v WRITER_BIT =? 0).

Definition RFUEL : nat := 8.

(* increment the reader count: load / compare_exchange(state, state + ONE_READER) loop *)
Fixpoint inc_readers (fuel : nat) (st : N) (s : sh) : sh :=
  match fuel with
  | O => set_err s
  | S fuel =>
      let '(s, prev) := cas W1 st (wadd st ONE_READER) s in
      if prev =? st then s else inc_readers fuel prev s
  end.

Fixpoint try_read_loop (fuel : nat) (st : N) (s : sh) : sh * bool :=
  match fuel with
  | O => (set_err s, false)
  | S fuel =>
      if has_writer st then (s, false)
      else
        let s := if isize_max <? st then set_err s else s in
        let '(s, prev) := cas W1 st (wadd st ONE_READER) s in
        if prev =? st then (s, true) else try_read_loop fuel prev s
  end.
Definition rw_try_read (s : sh) : sh * bool := try_read_loop RFUEL (getw W1 s) s.

Definition rw_try_upgradable_read (s : sh) : sh * bool :=
  let '(s, ok) := try_lock W0 s in
  if negb ok then (s, false)
  else
    let st := getw W1 s in
    let s := if isize_max <? st then set_err s else s in
    (inc_readers RFUEL st s, true).

Definition rw_try_write (s : sh) : sh * bool :=
  let '(s, ok) := try_lock W0 s in
  if negb ok then (s, false)
  else
    let '(s, prev) := cas W1 0 WRITER_BIT s in
    if prev =? 0 then (s, true) else (unlock W0 E0 s, false).

Definition rw_try_upgrade (s : sh) : sh * bool :=
  let '(s, prev) := cas W1 ONE_READER WRITER_BIT s in (s, prev =? ONE_READER).

(* upgrade(): fetch_sub(ONE_READER - WRITER_BIT) *)
Definition rw_upgrade_start (s : sh) : sh := fst (fetch_sub W1 (ONE_READER - WRITER_BIT) s).

Definition rw_downgrade_upgradable_read (s : sh) : sh := unlock W0 E0 s.
Definition rw_downgrade_write (s : sh) : sh :=
  let '(s, _) := fetch_add W1 (ONE_READER - WRITER_BIT) s in
  notify E2 1 false (unlock W0 E0 s).
Definition rw_downgrade_to_upgradable (s : sh) : sh :=
  let '(s, _) := fetch_add W1 (ONE_READER - WRITER_BIT) s in
  notify E2 1 false s.
Definition rw_read_unlock (s : sh) : sh :=
  let '(s, prev) := fetch_sub W1 ONE_READER s in
  if N.ldiff prev WRITER_BIT =? ONE_READER then notify E1 1 false s else s.
Definition rw_upgradable_read_unlock (s : sh) : sh := unlock W0 E0 (rw_read_unlock s).
Definition rw_write_unlock (s : sh) : sh :=
  let '(s, _) := fetch_clear W1 WRITER_BIT s in
  unlock W0 E0 (notify E2 1 false s).

(* ---- RawRead ---- *)
Inductive pres (A : Type) := PReady (a : A) (s : sh) | PPending (a : A) (s : sh) | PFuel (a : A) (s : sh).
Arguments PReady {A}. Arguments PPending {A}. Arguments PFuel {A}.

Fixpoint read_loop (fuel : nat) (w : waker) (st : N) (l : option nat) (s : sh) : pres (N * option nat) :=
  match fuel with
  | O => PFuel (st, l) s
  | S fuel =>
      if negb (has_writer st) then
        let s := if isize_max <? st then set_err s else s in
        let '(s, prev) := cas W1 st (wadd st ONE_READER) s in
        if prev =? st then PReady (st, None) (drop_listener_opt E2 l s)
        else read_loop fuel w prev l s
      else
        match l with
        | None =>
            let '(s, id) := listen E2 s in
            read_loop fuel w (getw W1 s) (Some id) s
        | Some id =>
            let '(s, r) := poll_listener E2 id w s in
            if negb r then PPending (st, l) s
            else
              let st := getw W1 s in
              let s := if has_writer st then s else notify E2 1 false s in
              read_loop fuel w st None s
        end
  end.

(* ---- RawUpgradableRead ---- *)
Definition upread_poll (w : waker) (l : lockfut) (s : sh) : lockfut * sh * bool :=
  let '(l, s, r) := lock_poll W0 E0 w l s in
  if negb r then (l, s, false)
  else
    let st := getw W1 s in
    let s := if isize_max <? st then set_err s else s in
    (l, inc_readers RFUEL st s, true).

(* ---- RawWrite ---- *)
Inductive wstate := WAcquiring (l : lockfut) | WWaiting | WAcquired.

Fixpoint write_loop (fuel : nat) (w : waker) (nr : option nat) (ws : wstate) (s : sh)
  : pres (option nat * wstate) :=
  match fuel with
  | O => PFuel (nr, ws) s
  | S fuel =>
      match ws with
      | WAcquiring l =>
          let '(l, s, r) := lock_poll W0 E0 w l s in
          if negb r then PPending (nr, WAcquiring l) s
          else
            let '(s, prev) := fetch_or W1 WRITER_BIT s in
            if prev =? WRITER_BIT then PReady (nr, WAcquired) s
            else
              (* `*this.no_readers = Some(listen())`: the previous value (None here) is dropped after *)
              let '(s, id) := listen E1 s in
              let s := drop_listener_opt E1 nr s in
              write_loop fuel w (Some id) WWaiting s
      | WWaiting =>
          if getw W1 s =? WRITER_BIT then PReady (None, WAcquired) (drop_listener_opt E1 nr s)
          else
            match nr with
            | None => let '(s, id) := listen E1 s in write_loop fuel w (Some id) WWaiting s
            | Some id =>
                let '(s, r) := poll_listener E1 id w s in
                if negb r then PPending (nr, WWaiting) s
                else write_loop fuel w None WWaiting s
            end
      | WAcquired => PFuel (nr, ws) (set_err s)       (* panic!("Write lock already acquired") *)
      end
  end.

(* drop of a RawWrite: PinnedDrop, then no_readers, then state *)
Definition write_drop (nr : option nat) (ws : wstate) (s : sh) : sh :=
  let s := match ws with WWaiting => rw_write_unlock s | _ => s end in
  let s := drop_listener_opt E1 nr s in
  match ws with WAcquiring l => lock_drop W0 E0 l s | _ => s end.

(* ---- RawUpgrade ---- *)
Fixpoint upgrade_loop (fuel : nat) (w : waker) (l : option nat) (s : sh) : pres (option nat) :=
  match fuel with
  | O => PFuel l s
  | S fuel =>
      if getw W1 s =? WRITER_BIT then PReady None (drop_listener_opt E1 l s)
      else
        match l with
        | None => let '(s, id) := listen E1 s in upgrade_loop fuel w (Some id) s
        | Some id =>
            let '(s, r) := poll_listener E1 id w s in
            if negb r then PPending l s else upgrade_loop fuel w None s
        end
  end.

Definition upgrade_drop (has_lock : bool) (l : option nat) (s : sh) : sh :=
  let s := if has_lock then rw_write_unlock s else s in
  drop_listener_opt E1 l s.
