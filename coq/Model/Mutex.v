(* Mutex.v — src/mutex.rs: try_lock, unlock_unchecked, AcquireSlow, LockInner /
   LockArcInnards (the Arc flavour differs only in reference counting, which
   the API layer tracks). Parameterised by the word and the event it uses, so
   that RwLock and Barrier can embed it. *)
From AL Require Export Base.

Section Mutex.
Variables (mw : wid) (me : evid).

(* Mutex::try_lock / try_lock_arc: compare_exchange(0, 1). *)
Definition try_lock (s : sh) : sh * bool :=
  let '(s, prev) := cas mw 0 1 s in (s, prev =? 0).

(* Mutex::unlock_unchecked: fetch_sub(1); lock_ops.notify(1). *)
Definition unlock (s : sh) : sh :=
  let '(s, _) := fetch_sub mw 1 s in notify me 1 false s.

(* AcquireSlow { mutex: Option<B>, listener, starved } *)
Record acq := mkAcq { a_mutex : bool; a_lis : option nat; a_starved : bool }.
Definition acq_new : acq := mkAcq true None false.
Definition set_lis (o : option nat) (a : acq) : acq := mkAcq (a_mutex a) o (a_starved a).
Definition set_starved (a : acq) : acq := mkAcq (a_mutex a) (a_lis a) true.

(* AcquireSlow::take_mutex *)
Definition take_mutex (a : acq) (s : sh) : acq * sh :=
  let a' := mkAcq false (a_lis a) (a_starved a) in
  if a_mutex a && a_starved a then (a', fst (fetch_sub mw 2 s)) else (a', s).

Inductive lres :=
| LReady (a : acq) (s : sh)
| LPending (a : acq) (s : sh)
| LBreak (a : acq) (s : sh)
| LFuel (a : acq) (s : sh).

(* the "hot" loop of AcquireSlow::poll_with_strategy (not starved) *)
Fixpoint unstarved (fuel : nat) (w : waker) (a : acq) (s : sh) : lres :=
  match fuel with
  | O => LFuel a s
  | S fuel =>
    match a_lis a with
    | None =>
        let '(s, id) := listen me s in
        let a := set_lis (Some id) a in
        let '(s, prev) := cas mw 0 1 s in
        if prev =? 0 then
          let s := drop_listener me id s in               (* *this.listener = None (fix a3c1bed) *)
          let '(a, s) := take_mutex (set_lis None a) s in LReady a s
        else if prev =? 1 then unstarved fuel w a s
        else LBreak a s
    | Some id =>
        let '(s, r) := poll_listener me id w s in
        if negb r then LPending a s
        else
          let a := set_lis None a in
          let '(s, prev) := cas mw 0 1 s in
          if prev =? 0 then let '(a, s) := take_mutex a s in LReady a s
          else if prev =? 1 then
            let '(s, b) := oracle s in
            if b then LBreak a s else unstarved fuel w a s
          else LBreak a (notify me 1 false s)
    end
  end.

(* the fair loop *)
Fixpoint starved_loop (fuel : nat) (w : waker) (a : acq) (s : sh) : lres :=
  match fuel with
  | O => LFuel a s
  | S fuel =>
    match a_lis a with
    | None =>
        let '(s, id) := listen me s in
        let a := set_lis (Some id) a in
        let '(s, prev) := cas mw 2 3 s in
        if prev =? 2 then
          let s := drop_listener me id s in               (* *this.listener = None (fix a3c1bed) *)
          let '(a, s) := take_mutex (set_lis None a) s in LReady a s
        else if prev mod 2 =? 1 then starved_loop fuel w a s
        else starved_loop fuel w a (notify me 1 false s)
    | Some id =>
        let '(s, r) := poll_listener me id w s in
        if negb r then LPending a s
        else
          let a := set_lis None a in
          let '(s, prev) := fetch_or mw 1 s in
          if prev mod 2 =? 0 then let '(a, s) := take_mutex a s in LReady a s
          else starved_loop fuel w a s
    end
  end.

Definition FUEL : nat := 12.

(* AcquireSlow::poll_with_strategy; (future state, store, ready?) *)
Definition acq_poll (w : waker) (a : acq) (s : sh) : acq * sh * bool :=
  if negb (a_mutex a) then (a, set_err s, false)       (* "future polled after completion" *)
  else
  let go_starved a s :=
    match starved_loop FUEL w a s with
    | LReady a s => (a, s, true)
    | LPending a s => (a, s, false)
    | LBreak a s | LFuel a s => (a, set_err s, false)
    end in
  if a_starved a then go_starved a s
  else
    match unstarved FUEL w a s with
    | LReady a s => (a, s, true)
    | LPending a s => (a, s, false)
    | LFuel a s => (a, set_err s, false)
    | LBreak a s =>
        let '(s, prev) := fetch_add mw 2 s in
        let s := if usize_max / 2 <? prev then set_err s else s in   (* crate::abort() *)
        go_starved (set_starved a) s
    end.

(* Drop of an AcquireSlow: PinnedDrop (take_mutex) first, then the fields. *)
Definition acq_drop (a : acq) (s : sh) : sh :=
  let '(a, s) := take_mutex a s in drop_listener_opt me (a_lis a) s.

(* LockInner { acquire_slow: Option<AcquireSlow> } / LockArcInnards *)
Definition lockfut := option acq.
Definition lock_new : lockfut := None.

Definition lock_poll (w : waker) (f : lockfut) (s : sh) : lockfut * sh * bool :=
  match f with
  | None =>
      let '(s, ok) := try_lock s in
      if ok then (None, s, true)
      else let '(a, s, r) := acq_poll w acq_new s in (Some a, s, r)
  | Some a =>
      let '(a, s, r) := acq_poll w a s in (Some a, s, r)
  end.

Definition lock_drop (f : lockfut) (s : sh) : sh :=
  match f with None => s | Some a => acq_drop a s end.

End Mutex.
