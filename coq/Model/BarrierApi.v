(* BarrierApi.v — src/barrier.rs and its poll-granular machine.
   state mutex = (W0, E0), event = E1, count = W1, generation_id = W2 (u64). *)
From AL Require Export Api Mutex.

Inductive bstate := BInit | BWaiting (g : N) | BReacq (g : N).
Record bfutst := mkBf { b_lock : option lockfut; b_evl : option nat; b_state : bstate }.
Record bfut := mkBfut { bf_st : bfutst; bf_meta : fmeta }.

Record bworld := mkBw {
  b_n : N;
  b_sh : sh;
  b_futs : list (nat * bfut);
  b_nf : nat
}.
Definition bw_init (n : N) : bworld := mkBw n sh0 [] 0.

Inductive bop := BStart | BPoll (f k : nat) | BDropFut (f : nat).

Inductive bres := BReady (leader : bool) (f : bfutst) (s : sh) | BPending (f : bfutst) (s : sh) | BFuel (f : bfutst) (s : sh).

Definition BFUEL : nat := 8.

Definition drop_lock_opt (l : option lockfut) (s : sh) : sh :=
  match l with Some l => lock_drop W0 E0 l s | None => s end.

Fixpoint bar_loop (fuel : nat) (n : N) (w : waker) (f : bfutst) (s : sh) : bres :=
  match fuel with
  | O => BFuel f s
  | S fuel =>
      match b_state f with
      | BInit =>
          match b_lock f with
          | None => BFuel f (set_err s)                            (* unwrap on None *)
          | Some l =>
              let '(l, s, r) := lock_poll W0 E0 w l s in
              if negb r then BPending (mkBf (Some l) (b_evl f) BInit) s
              else
                let s := lock_drop W0 E0 l s in                    (* this.lock.set(None) *)
                let g := getw W2 s in
                let c := wadd (getw W1 s) 1 in
                let s := setw W1 c s in
                if c <? n then
                  let '(s, id) := listen E1 s in
                  let s := drop_listener_opt E1 (b_evl f) s in
                  let s := unlock W0 E0 s in
                  bar_loop fuel n w (mkBf None (Some id) (BWaiting g)) s
                else
                  let s := setw W1 0 s in
                  let s := setw W2 (wadd g 1) s in
                  let s := notify E1 usize_max false s in
                  let s := unlock W0 E0 s in
                  BReady true (mkBf None (b_evl f) BInit) s
          end
      | BWaiting g =>
          match b_evl f with
          | None => BFuel f (set_err s)                            (* poll of an empty Option *)
          | Some id =>
              let '(s, r) := poll_listener E1 id w s in
              if negb r then BPending f s
              else
                let s := drop_lock_opt (b_lock f) s in
                bar_loop fuel n w (mkBf (Some lock_new) None (BReacq g)) s
          end
      | BReacq g =>
          match b_lock f with
          | None => BFuel f (set_err s)
          | Some l =>
              let '(l, s, r) := lock_poll W0 E0 w l s in
              if negb r then BPending (mkBf (Some l) (b_evl f) (BReacq g)) s
              else
                let s := lock_drop W0 E0 l s in
                if (g =? getw W2 s) && (getw W1 s <? n) then
                  let '(s, id) := listen E1 s in
                  let s := drop_listener_opt E1 (b_evl f) s in
                  let s := unlock W0 E0 s in
                  bar_loop fuel n w (mkBf None (Some id) (BWaiting g)) s
                else
                  BReady false (mkBf None (b_evl f) (BReacq g)) (unlock W0 E0 s)
          end
      end
  end.

Definition bfut_drop (f : bfutst) (s : sh) : sh :=
  drop_listener_opt E1 (b_evl f) (drop_lock_opt (b_lock f) s).

Definition b_upd (x : bworld) (s : sh) (fu : list (nat * bfut)) : bworld := mkBw (b_n x) s fu (b_nf x).

Definition b_dump (x : bworld) : list N :=
  let s := b_sh x in
  [sw1 s; sw2 s; sw0 s; N.of_nat (length (se0 s)); N.of_nat (length (se1 s))].

Definition b_wake_all (wk : list waker) (x : bworld) : bworld :=
  b_upd x (b_sh x) (map (fun p => (fst p, mkBfut (bf_st (snd p)) (meta_wake wk (bf_meta (snd p))))) (b_futs x)).

Definition bstep_core (x : bworld) (o : bop) : bworld * res :=
  let s := b_sh x in
  match o with
  | BStart =>
      (mkBw (b_n x) s (b_futs x ++ [(b_nf x, mkBfut (mkBf (Some lock_new) None BInit) meta0)]) (S (b_nf x)), RUnit)
  | BPoll fid k =>
      match alookup fid (b_futs x) with
      | None => (x, RInvalid)
      | Some f =>
          if fstatus_eqb (fm_st (bf_meta f)) FDone || Nat.leb 4 k then (x, RInvalid) else
          let w := wtag fid k in
          match bar_loop BFUEL (b_n x) w (bf_st f) s with
          | BReady ld st s =>
              (b_upd x s (aupdate fid (mkBfut st (mkMeta FDone (Some w) false)) (b_futs x)), RLeader ld)
          | BPending st s =>
              (b_upd x s (aupdate fid (mkBfut st (mkMeta FPending (Some w) false)) (b_futs x)), RPending)
          | BFuel st s =>
              (b_upd x (set_err s) (aupdate fid (mkBfut st (mkMeta FPending (Some w) false)) (b_futs x)), RPending)
          end
      end
  | BDropFut fid =>
      match alookup fid (b_futs x) with
      | None => (x, RInvalid)
      | Some f => (b_upd x (bfut_drop (bf_st f) s) (aremove fid (b_futs x)), RUnit)
      end
  end.

Definition bstep (x : bworld) (o : bop) : bworld * obs :=
  let x0 := b_upd x (set_wk [] (b_sh x)) (b_futs x) in
  let '(x1, r) := bstep_core x0 o in
  let wk := swk (b_sh x1) in
  let x2 := b_wake_all wk x1 in
  (x2, mkObs r wk (b_dump x2)).

Definition brun (n : N) (ops : list bop) : bworld := fold_left (fun x o => fst (bstep x o)) ops (bw_init n).
Fixpoint btrace (x : bworld) (ops : list bop) : list obs :=
  match ops with
  | [] => []
  | o :: r => let '(x', ob) := bstep x o in ob :: btrace x' r
  end.
