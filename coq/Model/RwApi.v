(* RwApi.v — poll-granular machine for one Arc<RwLock<T>>. *)
From AL Require Export Api RwLock.

Inductive rkind := KRead | KUpRead | KWrite.
Inductive gkind := GR | GU | GW.
Definition gkind_eqb (a b : gkind) : bool :=
  match a, b with GR, GR | GU, GU | GW, GW => true | _, _ => false end.

Inductive rfutst :=
| FRead (cached : N) (lis : option nat)
| FUpRead (l : lockfut)
| FWrite (nr : option nat) (ws : wstate)
| FUpgrade (has_lock : bool) (lis : option nat).

Record rfut := mkRfut {
  rf_arc : bool;
  rf_st : rfutst;
  rf_owns : bool;          (* owns an Arc clone (UpgradeArc until it completes) *)
  rf_meta : fmeta
}.

Record rworld := mkRw {
  r_sh : sh;
  r_futs : list (nat * rfut);
  r_guards : list (nat * (gkind * bool));
  r_nf : nat; r_ng : nat;
  r_handles : nat; r_strong : nat; r_dropped : nat;
  r_val : N                         (* the protected value *)
}.
Definition rw0 : rworld := mkRw sh0 [] [] 0 0 1 1 0 0.

Inductive rop :=
| RStart (k : rkind) (arc : bool)
| RUpgrade (g : nat)
| RPoll (f k : nat)
| RDropFut (f : nat)
| RTry (k : rkind) (arc : bool)
| RTryUpgrade (g : nat)
| RDowngrade (g : nat)
| RDowngradeUp (g : nat)
| RDropGuard (g : nat)
| RRead (g : nat)
| RBump (g : nat)
| RCloneArc
| RDropArc.

Definition r_upd (x : rworld) (s : sh) (fu : list (nat * rfut)) (gu : list (nat * (gkind * bool))) : rworld :=
  mkRw s fu gu (r_nf x) (r_ng x) (r_handles x) (r_strong x) (r_dropped x) (r_val x).
Definition r_dec (x : rworld) : rworld :=
  let n := pred (r_strong x) in
  mkRw (r_sh x) (r_futs x) (r_guards x) (r_nf x) (r_ng x) (r_handles x) n
       (if Nat.eqb n 0 then S (r_dropped x) else r_dropped x) (r_val x).
Definition r_inc (x : rworld) : rworld :=
  mkRw (r_sh x) (r_futs x) (r_guards x) (r_nf x) (r_ng x) (r_handles x) (S (r_strong x)) (r_dropped x) (r_val x).
Definition r_bump_g (x : rworld) : rworld :=
  mkRw (r_sh x) (r_futs x) (r_guards x) (r_nf x) (S (r_ng x)) (r_handles x) (r_strong x) (r_dropped x) (r_val x).
Definition r_bump_f (x : rworld) : rworld :=
  mkRw (r_sh x) (r_futs x) (r_guards x) (S (r_nf x)) (r_ng x) (r_handles x) (r_strong x) (r_dropped x) (r_val x).
Definition r_set_handles (h : nat) (x : rworld) : rworld :=
  mkRw (r_sh x) (r_futs x) (r_guards x) (r_nf x) (r_ng x) h (r_strong x) (r_dropped x) (r_val x).
Definition r_set_val (v : N) (x : rworld) : rworld :=
  mkRw (r_sh x) (r_futs x) (r_guards x) (r_nf x) (r_ng x) (r_handles x) (r_strong x) (r_dropped x) v.

(* every future except an UpgradeArc borrows the lock or a handle; so does every borrowed guard *)
Definition r_borrowed_alive (x : rworld) : bool :=
  existsb (fun p => negb (rf_arc (snd p) && match rf_st (snd p) with FUpgrade _ _ => true | _ => false end))
          (r_futs x) ||
  existsb (fun p => negb (snd (snd p))) (r_guards x).

Definition r_dump (x : rworld) : list N :=
  if Nat.eqb (r_strong x) 0 then [0; 0; 0; 0; 0; 0; N.of_nat (r_dropped x)]
  else let s := r_sh x in
       [sw1 s; sw0 s; N.of_nat (length (se0 s)); N.of_nat (length (se1 s)); N.of_nat (length (se2 s));
        N.of_nat (r_strong x); N.of_nat (r_dropped x)].

Definition r_wake_all (wk : list waker) (x : rworld) : rworld :=
  r_upd x (r_sh x)
    (map (fun p => (fst p, mkRfut (rf_arc (snd p)) (rf_st (snd p)) (rf_owns (snd p))
                                  (meta_wake wk (rf_meta (snd p))))) (r_futs x))
    (r_guards x).

Definition RWFUEL : nat := 10.

(* poll the raw future; (new state, store, Some guard-kind if Ready) *)
Definition rfut_poll (w : waker) (st : rfutst) (s : sh) : rfutst * sh * option gkind :=
  match st with
  | FRead c l =>
      match read_loop RWFUEL w c l s with
      | PReady (c, l) s => (FRead c l, s, Some GR)
      | PPending (c, l) s => (FRead c l, s, None)
      | PFuel (c, l) s => (FRead c l, set_err s, None)
      end
  | FUpRead l =>
      let '(l, s, r) := upread_poll w l s in (FUpRead l, s, if r then Some GU else None)
  | FWrite nr ws =>
      match write_loop RWFUEL w nr ws s with
      | PReady (nr, ws) s => (FWrite nr ws, s, Some GW)
      | PPending (nr, ws) s => (FWrite nr ws, s, None)
      | PFuel (nr, ws) s => (FWrite nr ws, set_err s, None)
      end
  | FUpgrade hl l =>
      if negb hl then (st, set_err s, None) else
      match upgrade_loop RWFUEL w l s with
      | PReady l s => (FUpgrade false l, s, Some GW)
      | PPending l s => (FUpgrade true l, s, None)
      | PFuel l s => (FUpgrade true l, set_err s, None)
      end
  end.

Definition rfut_drop (st : rfutst) (s : sh) : sh :=
  match st with
  | FRead _ l => drop_listener_opt E2 l s
  | FUpRead l => lock_drop W0 E0 l s
  | FWrite nr ws => write_drop nr ws s
  | FUpgrade hl l => upgrade_drop hl l s
  end.

Definition rstep_core (x : rworld) (o : rop) : rworld * res :=
  let s := r_sh x in
  match o with
  | RStart k arc =>
      if Nat.eqb (r_handles x) 0 then (x, RInvalid) else
      let st := match k with
                | KRead => FRead (getw W1 s) None
                | KUpRead => FUpRead lock_new
                | KWrite => FWrite None (WAcquiring lock_new)
                end in
      (r_bump_f (r_upd x s (r_futs x ++ [(r_nf x, mkRfut arc st false meta0)]) (r_guards x)), RUnit)
  | RUpgrade g =>
      match alookup g (r_guards x) with
      | Some (GU, arc) =>
          let s := rw_upgrade_start s in
          (r_bump_f (r_upd x s (r_futs x ++ [(r_nf x, mkRfut arc (FUpgrade true None) arc meta0)])
                           (aremove g (r_guards x))), RUnit)
      | _ => (x, RInvalid)
      end
  | RPoll fid k =>
      match alookup fid (r_futs x) with
      | None => (x, RInvalid)
      | Some f =>
          if fstatus_eqb (fm_st (rf_meta f)) FDone || Nat.leb 4 k then (x, RInvalid) else
          let w := wtag fid k in
          let g := r_ng x in
          let '(st, s, r) := rfut_poll w (rf_st f) s in
          match r with
          | Some gk =>
              let f' := mkRfut (rf_arc f) st false (mkMeta FDone (Some w) false) in
              let x' := r_bump_g (r_upd x s (aupdate fid f' (r_futs x)) (r_guards x ++ [(g, (gk, rf_arc f))])) in
              (* ReadArc / UpgradableReadArc / WriteArc clone the Arc; UpgradeArc hands its own over *)
              ((if rf_arc f && negb (rf_owns f) then r_inc x' else x'), RReady g)
          | None =>
              let f' := mkRfut (rf_arc f) st (rf_owns f) (mkMeta FPending (Some w) false) in
              (r_upd x s (aupdate fid f' (r_futs x)) (r_guards x), RPending)
          end
      end
  | RDropFut fid =>
      match alookup fid (r_futs x) with
      | None => (x, RInvalid)
      | Some f =>
          let s := rfut_drop (rf_st f) s in
          let x := r_upd x s (aremove fid (r_futs x)) (r_guards x) in
          ((if rf_owns f then r_dec x else x), RUnit)
      end
  | RTry k arc =>
      if Nat.eqb (r_handles x) 0 then (x, RInvalid) else
      let g := r_ng x in
      let '(s, ok) := match k with
                      | KRead => rw_try_read s
                      | KUpRead => rw_try_upgradable_read s
                      | KWrite => rw_try_write s
                      end in
      let gk := match k with KRead => GR | KUpRead => GU | KWrite => GW end in
      if ok then
        let x := r_bump_g (r_upd x s (r_futs x) (r_guards x ++ [(g, (gk, arc))])) in
        ((if arc then r_inc x else x), RSome g)
      else (r_upd x s (r_futs x) (r_guards x), RNone)
  | RTryUpgrade g =>
      match alookup g (r_guards x) with
      | Some (GU, arc) =>
          let '(s, ok) := rw_try_upgrade s in
          if ok then (r_upd x s (r_futs x) (aupdate g (GW, arc) (r_guards x)), RSome g)
          else (r_upd x s (r_futs x) (r_guards x), RNone)
      | _ => (x, RInvalid)
      end
  | RDowngrade g =>
      match alookup g (r_guards x) with
      | Some (GU, arc) =>
          (r_upd x (rw_downgrade_upgradable_read s) (r_futs x) (aupdate g (GR, arc) (r_guards x)), RUnit)
      | Some (GW, arc) =>
          (r_upd x (rw_downgrade_write s) (r_futs x) (aupdate g (GR, arc) (r_guards x)), RUnit)
      | _ => (x, RInvalid)
      end
  | RDowngradeUp g =>
      match alookup g (r_guards x) with
      | Some (GW, arc) =>
          (r_upd x (rw_downgrade_to_upgradable s) (r_futs x) (aupdate g (GU, arc) (r_guards x)), RUnit)
      | _ => (x, RInvalid)
      end
  | RDropGuard g =>
      match alookup g (r_guards x) with
      | None => (x, RInvalid)
      | Some (gk, arc) =>
          let s := match gk with
                   | GR => rw_read_unlock s
                   | GU => rw_upgradable_read_unlock s
                   | GW => rw_write_unlock s
                   end in
          let x := r_upd x s (r_futs x) (aremove g (r_guards x)) in
          ((if arc then r_dec x else x), RUnit)
      end
  | RRead g =>
      match alookup g (r_guards x) with
      | None => (x, RInvalid)
      | Some _ => (x, RVal (r_val x))
      end
  | RBump g =>
      match alookup g (r_guards x) with
      | Some (GW, _) => let v := r_val x + 1 in (r_set_val v x, RVal v)
      | _ => (x, RInvalid)
      end
  | RCloneArc =>
      if Nat.eqb (r_handles x) 0 then (x, RInvalid) else
      (r_inc (r_set_handles (S (r_handles x)) x), RUnit)
  | RDropArc =>
      if Nat.eqb (r_handles x) 0 then (x, RInvalid)
      else if Nat.eqb (r_handles x) 1 && r_borrowed_alive x then (x, RInvalid)
      else (r_dec (r_set_handles (pred (r_handles x)) x), RUnit)
  end.

Definition rstep (x : rworld) (o : rop) : rworld * obs :=
  let x0 := r_upd x (set_wk [] (r_sh x)) (r_futs x) (r_guards x) in
  let '(x1, r) := rstep_core x0 o in
  let wk := swk (r_sh x1) in
  let x2 := r_wake_all wk x1 in
  (x2, mkObs r wk (r_dump x2)).

Definition rrun (ops : list rop) : rworld := fold_left (fun x o => fst (rstep x o)) ops rw0.
Fixpoint rtrace (x : rworld) (ops : list rop) : list obs :=
  match ops with
  | [] => []
  | o :: r => let '(x', ob) := rstep x o in ob :: rtrace x' r
  end.
