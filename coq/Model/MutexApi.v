(* MutexApi.v — the poll-granular machine for one Arc<Mutex<T>>:
   lock / lock_arc futures, try_lock(_arc), guards, cancellation, the oracle,
   Arc handles. The mutex is word W0 / event E0 of the store. *)
From AL Require Export Api Mutex.

Record mfut := mkMfut {
  mf_arc : bool;          (* LockArc (owns a strong count until it completes) *)
  mf_lock : lockfut;
  mf_owns : bool;         (* still owns its Arc clone *)
  mf_meta : fmeta
}.

Record mworld := mkMw {
  m_sh : sh;
  m_futs : list (nat * mfut);
  m_guards : list (nat * bool);     (* guard id, Arc-owned? *)
  m_nf : nat; m_ng : nat;
  m_handles : nat;                   (* Arc handles the user holds *)
  m_strong : nat;                    (* Arc strong count, maintained clone by clone *)
  m_dropped : nat                    (* how often the Mutex (and its payload) was dropped *)
}.

Definition mw0 : mworld := mkMw sh0 [] [] 0 0 1 1 0.

Inductive mop :=
| MLock (arc : bool)
| MPoll (f k : nat)
| MDropFut (f : nat)
| MTry (arc : bool)
| MDropGuard (g : nat)
| MSetOracle (bs : list bool)
| MCloneArc
| MDropArc.

Definition m_set_sh (s : sh) (x : mworld) : mworld :=
  mkMw s (m_futs x) (m_guards x) (m_nf x) (m_ng x) (m_handles x) (m_strong x) (m_dropped x).
Definition m_set_futs (l : list (nat * mfut)) (x : mworld) : mworld :=
  mkMw (m_sh x) l (m_guards x) (m_nf x) (m_ng x) (m_handles x) (m_strong x) (m_dropped x).

(* strong count decrement; reaching zero drops the Mutex *)
Definition m_dec (x : mworld) : mworld :=
  let n := pred (m_strong x) in
  mkMw (m_sh x) (m_futs x) (m_guards x) (m_nf x) (m_ng x) (m_handles x) n
       (if Nat.eqb n 0 then S (m_dropped x) else m_dropped x).
Definition m_inc (x : mworld) : mworld :=
  mkMw (m_sh x) (m_futs x) (m_guards x) (m_nf x) (m_ng x) (m_handles x) (S (m_strong x)) (m_dropped x).

Definition borrowed_alive (x : mworld) : bool :=
  existsb (fun p => negb (mf_arc (snd p))) (m_futs x) ||
  existsb (fun p => negb (snd p)) (m_guards x).

Definition m_dump (x : mworld) : list N :=
  if Nat.eqb (m_strong x) 0 then [0; 0; 0; N.of_nat (m_dropped x)]
  else [sw0 (m_sh x); N.of_nat (length (se0 (m_sh x))); N.of_nat (m_strong x); N.of_nat (m_dropped x)].

Definition m_wake_all (wk : list waker) (x : mworld) : mworld :=
  m_set_futs (map (fun p => (fst p, mkMfut (mf_arc (snd p)) (mf_lock (snd p)) (mf_owns (snd p))
                                       (meta_wake wk (mf_meta (snd p))))) (m_futs x)) x.

Definition m_invalid (x : mworld) : mworld * res := (x, RInvalid).

Definition mstep_core (x : mworld) (o : mop) : mworld * res :=
  let s := m_sh x in
  match o with
  | MLock arc =>
      if Nat.eqb (m_handles x) 0 then m_invalid x else
      let f := mkMfut arc lock_new arc meta0 in
      let x := mkMw s (m_futs x ++ [(m_nf x, f)]) (m_guards x) (S (m_nf x)) (m_ng x)
                    (m_handles x) (m_strong x) (m_dropped x) in
      ((if arc then m_inc x else x), RUnit)
  | MPoll fid k =>
      match alookup fid (m_futs x) with
      | None => m_invalid x
      | Some f =>
          if fstatus_eqb (fm_st (mf_meta f)) FDone || Nat.leb 4 k then m_invalid x else
          let w := wtag fid k in
          let '(l, s, r) := lock_poll W0 E0 w (mf_lock f) s in
          if r then
            let f' := mkMfut (mf_arc f) l false (mkMeta FDone (Some w) false) in
            (mkMw s (aupdate fid f' (m_futs x)) (m_guards x ++ [(m_ng x, mf_arc f)])
                  (m_nf x) (S (m_ng x)) (m_handles x) (m_strong x) (m_dropped x),
             RReady (m_ng x))
          else
            let f' := mkMfut (mf_arc f) l (mf_owns f) (mkMeta FPending (Some w) false) in
            (m_set_futs (aupdate fid f' (m_futs x)) (m_set_sh s x), RPending)
      end
  | MDropFut fid =>
      match alookup fid (m_futs x) with
      | None => m_invalid x
      | Some f =>
          let s := lock_drop W0 E0 (mf_lock f) s in
          let x := m_set_futs (aremove fid (m_futs x)) (m_set_sh s x) in
          ((if mf_owns f then m_dec x else x), RUnit)
      end
  | MTry arc =>
      if Nat.eqb (m_handles x) 0 then m_invalid x else
      let '(s, ok) := try_lock W0 s in
      let g := m_ng x in
      if ok then
        let x := mkMw s (m_futs x) (m_guards x ++ [(m_ng x, arc)]) (m_nf x) (S (m_ng x))
                      (m_handles x) (m_strong x) (m_dropped x) in
        ((if arc then m_inc x else x), RSome g)
      else (m_set_sh s x, RNone)
  | MDropGuard g =>
      match alookup g (m_guards x) with
      | None => m_invalid x
      | Some arc =>
          let s := unlock W0 E0 s in
          let x := mkMw s (m_futs x) (aremove g (m_guards x)) (m_nf x) (m_ng x)
                        (m_handles x) (m_strong x) (m_dropped x) in
          ((if arc then m_dec x else x), RUnit)
      end
  | MSetOracle bs => (m_set_sh (set_orc bs s) x, RUnit)
  | MCloneArc =>
      if Nat.eqb (m_handles x) 0 then m_invalid x else
      (m_inc (mkMw s (m_futs x) (m_guards x) (m_nf x) (m_ng x) (S (m_handles x)) (m_strong x) (m_dropped x)), RUnit)
  | MDropArc =>
      if Nat.eqb (m_handles x) 0 then m_invalid x
      else if Nat.eqb (m_handles x) 1 && borrowed_alive x then m_invalid x
      else (m_dec (mkMw s (m_futs x) (m_guards x) (m_nf x) (m_ng x) (pred (m_handles x)) (m_strong x) (m_dropped x)), RUnit)
  end.

Definition mstep (x : mworld) (o : mop) : mworld * obs :=
  let x0 := m_set_sh (set_wk [] (m_sh x)) x in
  let '(x1, r) := mstep_core x0 o in
  let wk := swk (m_sh x1) in
  let x2 := m_wake_all wk x1 in
  (x2, mkObs r wk (m_dump x2)).

Definition mrun (ops : list mop) : mworld := fold_left (fun x o => fst (mstep x o)) ops mw0.
Fixpoint mtrace (x : mworld) (ops : list mop) : list obs :=
  match ops with
  | [] => []
  | o :: r => let '(x', ob) := mstep x o in ob :: mtrace x' r
  end.
