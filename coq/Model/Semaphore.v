(* Semaphore.v — src/semaphore.rs. count = W0, event = E0. *)
From AL Require Export Base.

(* try_acquire / try_acquire_arc: load; loop { if 0 → None; compare_exchange_weak(c, c-1) }.
   Poll-granularly the CAS sees the value just loaded, so one iteration decides
   (a spurious failure of the weak CAS retries with the same value). *)
Definition sem_try (s : sh) : sh * bool :=
  let c := getw W0 s in
  if c =? 0 then (s, false)
  else let '(s, _) := cas W0 c (c - 1) s in (s, true).

(* SemaphoreGuard::drop: fetch_add(1); notify(1) *)
Definition sem_release (s : sh) : sh :=
  let '(s, _) := fetch_add W0 1 s in notify E0 1 false s.

(* add_permits(n): fetch_add(n); notify(n) *)
Definition sem_add (n : N) (s : sh) : sh :=
  let '(s, _) := fetch_add W0 n s in notify E0 n false s.

Inductive sres := SReady (l : option nat) (s : sh) | SPending (l : option nat) (s : sh) | SFuel (l : option nat) (s : sh).

(* AcquireInner::poll_with_strategy *)
Fixpoint sem_poll_loop (fuel : nat) (w : waker) (l : option nat) (s : sh) : sres :=
  match fuel with
  | O => SFuel l s
  | S fuel =>
      let '(s, ok) := sem_try s in
      if ok then
        let s := drop_listener_opt E0 l s in                 (* *this.listener = None *)
        (* permits left: pass the baton on (the notification just held may have absorbed releases) *)
        let s := if 0 <? getw W0 s then notify E0 1 false s else s in
        SReady None s
      else match l with
           | None => let '(s, id) := listen E0 s in sem_poll_loop fuel w (Some id) s
           | Some id =>
               let '(s, r) := poll_listener E0 id w s in
               if r then sem_poll_loop fuel w None s else SPending l s
           end
  end.

Definition SFUEL : nat := 8.
Definition sem_poll (w : waker) (l : option nat) (s : sh) : option nat * sh * bool :=
  match sem_poll_loop SFUEL w l s with
  | SReady l s => (l, s, true)
  | SPending l s => (l, s, false)
  | SFuel l s => (l, set_err s, false)
  end.
