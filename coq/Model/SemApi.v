(* SemApi.v — poll-granular machine for one Arc<Semaphore>. *)
From AL Require Export Api Semaphore.

Record sfut := mkSfut { sf_arc : bool; sf_lis : option nat; sf_meta : fmeta }.

Record sworld := mkSw {
  s_sh : sh;
  s_futs : list (nat * sfut);
  s_guards : list (nat * bool);
  s_nf : nat; s_ng : nat;
  s_handles : nat; s_strong : nat; s_dropped : nat;
  s_forgot : nat;                 (* permits forgotten *)
  s_total : N                     (* initial + added (ghost, for statements) *)
}.

Definition sw_init (n : N) : sworld := mkSw (setw W0 n sh0) [] [] 0 0 1 1 0 0 n.

Inductive sop :=
| SAcquire (arc : bool)
| SPoll (f k : nat)
| SDropFut (f : nat)
| STry (arc : bool)
| SDropGuard (g : nat)
| SForget (g : nat)
| SAdd (n : N)
| SCloneArc
| SDropArc.

Definition s_upd (x : sworld) (s : sh) (fu : list (nat * sfut)) (gu : list (nat * bool)) : sworld :=
  mkSw s fu gu (s_nf x) (s_ng x) (s_handles x) (s_strong x) (s_dropped x) (s_forgot x) (s_total x).
Definition s_dec (x : sworld) : sworld :=
  let n := pred (s_strong x) in
  mkSw (s_sh x) (s_futs x) (s_guards x) (s_nf x) (s_ng x) (s_handles x) n
       (if Nat.eqb n 0 then S (s_dropped x) else s_dropped x) (s_forgot x) (s_total x).
Definition s_inc (x : sworld) : sworld :=
  mkSw (s_sh x) (s_futs x) (s_guards x) (s_nf x) (s_ng x) (s_handles x) (S (s_strong x))
       (s_dropped x) (s_forgot x) (s_total x).
Definition s_bump_g (x : sworld) : sworld :=
  mkSw (s_sh x) (s_futs x) (s_guards x) (s_nf x) (S (s_ng x)) (s_handles x) (s_strong x)
       (s_dropped x) (s_forgot x) (s_total x).
Definition s_bump_f (x : sworld) : sworld :=
  mkSw (s_sh x) (s_futs x) (s_guards x) (S (s_nf x)) (s_ng x) (s_handles x) (s_strong x)
       (s_dropped x) (s_forgot x) (s_total x).
Definition s_set_handles (h : nat) (x : sworld) : sworld :=
  mkSw (s_sh x) (s_futs x) (s_guards x) (s_nf x) (s_ng x) h (s_strong x)
       (s_dropped x) (s_forgot x) (s_total x).

Definition s_borrowed_alive (x : sworld) : bool :=
  existsb (fun p => negb (sf_arc (snd p))) (s_futs x) ||
  existsb (fun p => negb (snd p)) (s_guards x).

Definition s_dump (x : sworld) : list N :=
  if Nat.eqb (s_strong x) 0 then [0; 0; 0; N.of_nat (s_dropped x)]
  else [sw0 (s_sh x); N.of_nat (length (se0 (s_sh x))); N.of_nat (s_strong x); N.of_nat (s_dropped x)].

Definition s_wake_all (wk : list waker) (x : sworld) : sworld :=
  s_upd x (s_sh x)
    (map (fun p => (fst p, mkSfut (sf_arc (snd p)) (sf_lis (snd p)) (meta_wake wk (sf_meta (snd p))))) (s_futs x))
    (s_guards x).

Definition sstep_core (x : sworld) (o : sop) : sworld * res :=
  let s := s_sh x in
  match o with
  | SAcquire arc =>
      if Nat.eqb (s_handles x) 0 then (x, RInvalid) else
      let x := s_bump_f (s_upd x s (s_futs x ++ [(s_nf x, mkSfut arc None meta0)]) (s_guards x)) in
      ((if arc then s_inc x else x), RUnit)
  | SPoll fid k =>
      match alookup fid (s_futs x) with
      | None => (x, RInvalid)
      | Some f =>
          if fstatus_eqb (fm_st (sf_meta f)) FDone || Nat.leb 4 k then (x, RInvalid) else
          let w := wtag fid k in
          let g := s_ng x in
          let '(l, s, r) := sem_poll w (sf_lis f) s in
          if r then
            let f' := mkSfut (sf_arc f) l (mkMeta FDone (Some w) false) in
            let x := s_bump_g (s_upd x s (aupdate fid f' (s_futs x)) (s_guards x ++ [(g, sf_arc f)])) in
            (* try_acquire_arc clones the Arc for the guard; the future keeps its own *)
            ((if sf_arc f then s_inc x else x), RReady g)
          else
            let f' := mkSfut (sf_arc f) l (mkMeta FPending (Some w) false) in
            (s_upd x s (aupdate fid f' (s_futs x)) (s_guards x), RPending)
      end
  | SDropFut fid =>
      match alookup fid (s_futs x) with
      | None => (x, RInvalid)
      | Some f =>
          let s := drop_listener_opt E0 (sf_lis f) s in
          let x := s_upd x s (aremove fid (s_futs x)) (s_guards x) in
          ((if sf_arc f then s_dec x else x), RUnit)
      end
  | STry arc =>
      if Nat.eqb (s_handles x) 0 then (x, RInvalid) else
      let g := s_ng x in
      let '(s, ok) := sem_try s in
      if ok then
        let x := s_bump_g (s_upd x s (s_futs x) (s_guards x ++ [(g, arc)])) in
        ((if arc then s_inc x else x), RSome g)
      else (s_upd x s (s_futs x) (s_guards x), RNone)
  | SDropGuard g =>
      match alookup g (s_guards x) with
      | None => (x, RInvalid)
      | Some arc =>
          let s := sem_release s in
          let x := s_upd x s (s_futs x) (aremove g (s_guards x)) in
          ((if arc then s_dec x else x), RUnit)
      end
  | SForget g =>
      match alookup g (s_guards x) with
      | None => (x, RInvalid)
      | Some arc =>
          let x := mkSw s (s_futs x) (aremove g (s_guards x)) (s_nf x) (s_ng x) (s_handles x)
                        (s_strong x) (s_dropped x) (S (s_forgot x)) (s_total x) in
          ((if arc then s_dec x else x), RUnit)
      end
  | SAdd n =>
      if Nat.eqb (s_handles x) 0 then (x, RInvalid) else
      (mkSw (sem_add n s) (s_futs x) (s_guards x) (s_nf x) (s_ng x) (s_handles x)
            (s_strong x) (s_dropped x) (s_forgot x) (s_total x + n), RUnit)
  | SCloneArc =>
      if Nat.eqb (s_handles x) 0 then (x, RInvalid) else
      (s_inc (s_set_handles (S (s_handles x)) x), RUnit)
  | SDropArc =>
      if Nat.eqb (s_handles x) 0 then (x, RInvalid)
      else if Nat.eqb (s_handles x) 1 && s_borrowed_alive x then (x, RInvalid)
      else (s_dec (s_set_handles (pred (s_handles x)) x), RUnit)
  end.

Definition sstep (x : sworld) (o : sop) : sworld * obs :=
  let x0 := s_upd x (set_wk [] (s_sh x)) (s_futs x) (s_guards x) in
  let '(x1, r) := sstep_core x0 o in
  let wk := swk (s_sh x1) in
  let x2 := s_wake_all wk x1 in
  (x2, mkObs r wk (s_dump x2)).

Definition srun (n : N) (ops : list sop) : sworld := fold_left (fun x o => fst (sstep x o)) ops (sw_init n).
Fixpoint strace (x : sworld) (ops : list sop) : list obs :=
  match ops with
  | [] => []
  | o :: r => let '(x', ob) := sstep x o in ob :: strace x' r
  end.
