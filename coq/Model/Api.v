(* Api.v — bookkeeping shared by the poll-granular API machines of all
   primitives: futures' life-cycle, wakers, "woken" flags, observations. *)
From AL Require Export Base.

Inductive fstatus := FUnpolled | FPending | FDone.
Definition fstatus_eqb (a b : fstatus) : bool :=
  match a, b with
  | FUnpolled, FUnpolled | FPending, FPending | FDone, FDone => true
  | _, _ => false
  end.

(* What the harness tracks for every future it keeps: its status, the waker it
   was last polled with, and whether that waker has been called since. *)
Record fmeta := mkMeta { fm_st : fstatus; fm_w : option waker; fm_woken : bool }.
Definition meta0 : fmeta := mkMeta FUnpolled None false.

(* waker tags: future f polled with "waker number k" (k < 4) uses tag 4f+k *)
Definition wtag (f k : nat) : waker := (4 * f + k)%nat.

Inductive res :=
| RUnit                       (* operation has no result *)
| RInvalid                    (* ill-formed operation: rejected, state unchanged *)
| RPending
| RReady (g : nat)            (* future completed; id of the guard/result it produced *)
| RNone
| RSome (g : nat)
| RVal (v : N)                (* a value read / returned *)
| RErr (v : N)                (* error / rejected value handed back *)
| RPanic
| RLeader (b : bool).

Record obs := mkObs { o_res : res; o_wakes : list waker; o_dump : list N }.

(* assoc lists keyed by nat *)
Fixpoint alookup {A} (k : nat) (l : list (nat * A)) : option A :=
  match l with
  | [] => None
  | (k', v) :: r => if Nat.eqb k k' then Some v else alookup k r
  end.
Fixpoint aupdate {A} (k : nat) (v : A) (l : list (nat * A)) : list (nat * A) :=
  match l with
  | [] => []
  | (k', v') :: r => if Nat.eqb k k' then (k, v) :: r else (k', v') :: aupdate k v r
  end.
Fixpoint aremove {A} (k : nat) (l : list (nat * A)) : list (nat * A) :=
  match l with
  | [] => []
  | (k', v') :: r => if Nat.eqb k k' then r else (k', v') :: aremove k r
  end.

Definition mem_nat (x : nat) (l : list nat) : bool := existsb (Nat.eqb x) l.

(* after an operation: a pending future whose current waker is among the
   wakers woken by the operation becomes "woken" *)
Definition meta_wake (wk : list waker) (m : fmeta) : fmeta :=
  match fm_st m, fm_w m with
  | FPending, Some w => if mem_nat w wk then mkMeta FPending (Some w) true else m
  | _, _ => m
  end.
