(* Base.v — shared store, atomic operations on usize words, and the model of
   event-listener 5.4.2 (Event / EventListener) used by every primitive.
   Definitions only; proofs live under Proofs/. *)
From Coq Require Export List NArith Bool Arith Lia.
Export ListNotations.
Open Scope N_scope.

(* ---------- usize arithmetic (wrapping, 64-bit) ---------- *)
Definition USZ : N := 18446744073709551616.          (* 2^64 *)
Definition usize_max : N := 18446744073709551615.
Definition isize_max : N := 9223372036854775807.
Definition wrap (n : N) : N := n mod USZ.
Definition wadd (a b : N) : N := wrap (a + b).
Definition wsub (a b : N) : N := wrap (a + USZ - wrap b).

(* ---------- event-listener ---------- *)
Definition waker := nat.
Inductive estate := Created | Task (w : waker) | Notified (additional : bool).
Record entry := mkEntry { eid : nat; est : estate }.
Definition event := list entry.

Definition is_notified (e : entry) : bool :=
  match est e with Notified _ => true | _ => false end.
Definition wake_of (e : entry) : list waker :=
  match est e with Task w => [w] | _ => [] end.

Fixpoint count_notified (l : event) : nat :=
  match l with
  | [] => 0%nat
  | e :: r => ((if is_notified e then 1 else 0) + count_notified r)%nat
  end.

(* Inner::notify's loop: mark the next k un-notified entries, in list order. *)
Fixpoint mark (add : bool) (k : N) (l : event) : event * list waker :=
  match l with
  | [] => ([], [])
  | e :: r =>
      if is_notified e then
        let '(r', ws) := mark add k r in (e :: r', ws)
      else if k =? 0 then (l, [])
      else let '(r', ws) := mark add (k - 1) r in
           (mkEntry (eid e) (Notified add) :: r', wake_of e ++ ws)
  end.

(* Event::notify(n) / notify_additional(n). *)
Definition ev_notify (n : N) (add : bool) (l : event) : event * list waker :=
  if add then mark add n l
  else let c := N.of_nat (count_notified l) in
       if n <? c then (l, []) else mark add (n - c) l.

Definition ev_listen (id : nat) (l : event) : event := l ++ [mkEntry id Created].

Fixpoint ev_find (id : nat) (l : event) : option estate :=
  match l with
  | [] => None
  | e :: r => if Nat.eqb (eid e) id then Some (est e) else ev_find id r
  end.

Fixpoint ev_remove (id : nat) (l : event) : event :=
  match l with
  | [] => []
  | e :: r => if Nat.eqb (eid e) id then r else e :: ev_remove id r
  end.

Fixpoint ev_set (id : nat) (st : estate) (l : event) : event :=
  match l with
  | [] => []
  | e :: r => if Nat.eqb (eid e) id then mkEntry id st :: r else e :: ev_set id st r
  end.

(* Listener poll (register): Ready iff notified (entry removed, no propagation);
   otherwise the waker is stored. [None]: the entry does not exist. *)
Definition ev_poll (id : nat) (w : waker) (l : event) : option (event * bool) :=
  match ev_find id l with
  | None => None
  | Some (Notified _) => Some (ev_remove id l, true)
  | Some _ => Some (ev_set id (Task w) l, false)
  end.

(* Listener drop: remove; a notified entry forwards its notification. *)
Definition ev_drop (id : nat) (l : event) : event * list waker :=
  match ev_find id l with
  | None => (l, [])
  | Some (Notified add) => ev_notify 1 add (ev_remove id l)
  | Some _ => (ev_remove id l, [])
  end.

(* ---------- the shared store ---------- *)
Inductive wid := W0 | W1 | W2.
Inductive evid := E0 | E1 | E2.

Record sh := mkSh {
  sw0 : N; sw1 : N; sw2 : N;
  se0 : event; se1 : event; se2 : event;
  snid : nat;              (* next listener id *)
  sorc : list bool;        (* starvation oracle: answers still queued *)
  swk : list waker;        (* wakers woken during the current operation, in order *)
  serr : bool              (* the model took a branch the code treats as unreachable/abort *)
}.

Definition sh0 : sh := mkSh 0 0 0 [] [] [] 0 [] [] false.

Definition getw (w : wid) (s : sh) : N :=
  match w with W0 => sw0 s | W1 => sw1 s | W2 => sw2 s end.
Definition setw (w : wid) (v : N) (s : sh) : sh :=
  match w with
  | W0 => mkSh v (sw1 s) (sw2 s) (se0 s) (se1 s) (se2 s) (snid s) (sorc s) (swk s) (serr s)
  | W1 => mkSh (sw0 s) v (sw2 s) (se0 s) (se1 s) (se2 s) (snid s) (sorc s) (swk s) (serr s)
  | W2 => mkSh (sw0 s) (sw1 s) v (se0 s) (se1 s) (se2 s) (snid s) (sorc s) (swk s) (serr s)
  end.
Definition gete (e : evid) (s : sh) : event :=
  match e with E0 => se0 s | E1 => se1 s | E2 => se2 s end.
Definition sete (e : evid) (v : event) (s : sh) : sh :=
  match e with
  | E0 => mkSh (sw0 s) (sw1 s) (sw2 s) v (se1 s) (se2 s) (snid s) (sorc s) (swk s) (serr s)
  | E1 => mkSh (sw0 s) (sw1 s) (sw2 s) (se0 s) v (se2 s) (snid s) (sorc s) (swk s) (serr s)
  | E2 => mkSh (sw0 s) (sw1 s) (sw2 s) (se0 s) (se1 s) v (snid s) (sorc s) (swk s) (serr s)
  end.
Definition set_nid (n : nat) (s : sh) : sh :=
  mkSh (sw0 s) (sw1 s) (sw2 s) (se0 s) (se1 s) (se2 s) n (sorc s) (swk s) (serr s).
Definition set_orc (o : list bool) (s : sh) : sh :=
  mkSh (sw0 s) (sw1 s) (sw2 s) (se0 s) (se1 s) (se2 s) (snid s) o (swk s) (serr s).
Definition set_wk (k : list waker) (s : sh) : sh :=
  mkSh (sw0 s) (sw1 s) (sw2 s) (se0 s) (se1 s) (se2 s) (snid s) (sorc s) k (serr s).
Definition set_err (s : sh) : sh :=
  mkSh (sw0 s) (sw1 s) (sw2 s) (se0 s) (se1 s) (se2 s) (snid s) (sorc s) (swk s) true.

(* ---------- atomic operations (each is one shared action) ---------- *)
(* compare_exchange: returns the previous value; it succeeded iff prev = expect. *)
Definition cas (w : wid) (expect new : N) (s : sh) : sh * N :=
  let v := getw w s in
  if v =? expect then (setw w new s, v) else (s, v).
Definition fetch_add (w : wid) (n : N) (s : sh) : sh * N :=
  let v := getw w s in (setw w (wadd v n) s, v).
Definition fetch_sub (w : wid) (n : N) (s : sh) : sh * N :=
  let v := getw w s in (setw w (wsub v n) s, v).
Definition fetch_or (w : wid) (n : N) (s : sh) : sh * N :=
  let v := getw w s in (setw w (N.lor v n) s, v).
(* fetch_and(!n) *)
Definition fetch_clear (w : wid) (n : N) (s : sh) : sh * N :=
  let v := getw w s in (setw w (N.ldiff v n) s, v).
Definition store (w : wid) (v : N) (s : sh) : sh := setw w v s.

(* ---------- Event operations on the store ---------- *)
Definition listen (e : evid) (s : sh) : sh * nat :=
  let id := snid s in
  (set_nid (S id) (sete e (ev_listen id (gete e s)) s), id).
Definition notify (e : evid) (n : N) (add : bool) (s : sh) : sh :=
  let '(l, ws) := ev_notify n add (gete e s) in
  set_wk (swk s ++ ws) (sete e l s).
(* strategy.poll(&mut Option<listener>): true = Ready (the Option becomes None). *)
Definition poll_listener (e : evid) (id : nat) (w : waker) (s : sh) : sh * bool :=
  match ev_poll id w (gete e s) with
  | None => (set_err s, false)
  | Some (l, r) => (sete e l s, r)
  end.
Definition drop_listener (e : evid) (id : nat) (s : sh) : sh :=
  let '(l, ws) := ev_drop id (gete e s) in
  set_wk (swk s ++ ws) (sete e l s).
Definition drop_listener_opt (e : evid) (o : option nat) (s : sh) : sh :=
  match o with Some id => drop_listener e id s | None => s end.
Definition oracle (s : sh) : sh * bool :=
  match sorc s with
  | [] => (s, false)
  | b :: r => (set_orc r s, b)
  end.
