(* OnceApi.v — src/once_cell.rs and its poll-granular machine.
   state = W0 (0 uninitialised, 1 initialising, 2 initialised),
   active_initializers = E0, passive_waiters = E1. *)
From AL Require Export Api.

Definition ST_UNINIT : N := 0.
Definition ST_INITING : N := 1.
Definition ST_INIT : N := 2.

Inductive outcome := OOk (v : N) | OErr (e : N) | OPanic.
Inductive ikind := IKTry | IKInit | IKSet (x : N).

(* the async fn `wait` *)
Inductive wst := WUnpolled | WAwait (id : nat) | WFin.
(* get_or_try_init / get_or_init / set  →  initialize_or_wait *)
Inductive ist := IUnpolled | IWait (id : nat) | IRunning (el : option nat) | IFin.

Inductive ofutst := OFWait (st : wst) | OFInit (k : ikind) (st : ist) (gate : option outcome).

Record ofut := mkOfut { of_st : ofutst; of_meta : fmeta }.

Record oworld := mkOw {
  o_sh : sh;
  o_value : option N;              (* contents of the cell's slot *)
  o_futs : list (nat * ofut);
  o_nf : nat;
  o_drops : nat;                   (* payload values dropped so far *)
  o_alive : bool;                  (* the cell itself has not been dropped *)
  (* ghost history, for statements *)
  o_inits : nat;                   (* successful initialisations since the last take *)
  o_started : nat                  (* closures started *)
}.
Definition ow0 : oworld := mkOw sh0 None [] 0 0 true 0 0.

Inductive oop :=
| OStartWait
| OStartInit (k : ikind)
| OPoll (f k : nat)
| OResolve (f : nat) (r : outcome)
| ODropFut (f : nat)
| OGet
| OTake
| ODropCell.

Definition o_upd (x : oworld) (s : sh) (v : option N) (fu : list (nat * ofut)) : oworld :=
  mkOw s v fu (o_nf x) (o_drops x) (o_alive x) (o_inits x) (o_started x).
Definition o_add_drop (x : oworld) : oworld :=
  mkOw (o_sh x) (o_value x) (o_futs x) (o_nf x) (S (o_drops x)) (o_alive x) (o_inits x) (o_started x).
Definition o_note_init (x : oworld) : oworld :=
  mkOw (o_sh x) (o_value x) (o_futs x) (o_nf x) (o_drops x) (o_alive x) (S (o_inits x)) (o_started x).
Definition o_note_start (x : oworld) : oworld :=
  mkOw (o_sh x) (o_value x) (o_futs x) (o_nf x) (o_drops x) (o_alive x) (o_inits x) (S (o_started x)).

Definition o_dump (x : oworld) : list N :=
  if negb (o_alive x) then [0; 0; 0; 0; N.of_nat (o_drops x)]
  else let s := o_sh x in
       [sw0 s; N.of_nat (length (se0 s)); N.of_nat (length (se1 s));
        (if sw0 s =? ST_INIT then match o_value x with Some v => v | None => 0 end else 0);
        N.of_nat (o_drops x)].

Definition o_wake_all (wk : list waker) (x : oworld) : oworld :=
  o_upd x (o_sh x) (o_value x)
    (map (fun p => (fst p, mkOfut (of_st (snd p)) (meta_wake wk (of_meta (snd p))))) (o_futs x)).

Definition cell_val (x : oworld) : N := match o_value x with Some v => v | None => 0 end.

(* Guard::drop: store(Uninitialized); active_initializers.notify(1) *)
Definition guard_drop (s : sh) : sh := notify E0 1 false (store W0 ST_UNINIT s).

(* result of a poll of an init future *)
Inductive ires :=
| IRPending (st : ist)
| IRDone (r : res) (ran_own : bool).   (* completed; ran_own: its own closure initialised the cell *)

(* the closure's future has produced [r]: the tail of the Uninitialized arm *)
Definition init_finish (k : ikind) (r : outcome) (el : option nat) (x : oworld) : oworld * ires :=
  let s := o_sh x in
  match r with
  | OOk v =>
      let s := store W0 ST_INIT s in
      let s := notify E0 usize_max true s in
      let s := notify E1 usize_max true s in
      let s := drop_listener_opt E0 el s in
      (o_note_init (o_upd x s (Some v) (o_futs x)), IRDone (RVal v) true)
  | OErr e =>
      let s := drop_listener_opt E0 el (guard_drop s) in
      (o_upd x s (o_value x) (o_futs x), IRDone (RErr e) false)
  | OPanic =>
      let s := drop_listener_opt E0 el (guard_drop s) in
      (o_upd x s (o_value x) (o_futs x), IRDone RPanic false)
  end.

Definition OFUEL : nat := 8.

(* the loop of initialize_or_wait, entered with `event_listener = el` *)
Fixpoint init_loop (fuel : nat) (w : waker) (k : ikind) (gate : option outcome) (el : option nat)
         (x : oworld) : oworld * ires :=
  match fuel with
  | O => (o_upd x (set_err (o_sh x)) (o_value x) (o_futs x), IRPending IUnpolled)
  | S fuel =>
      let s := o_sh x in
      let st := getw W0 s in
      if st =? ST_INIT then
        (* return Ok(()): locals dropped *)
        let s := drop_listener_opt E0 el s in
        (o_upd x s (o_value x) (o_futs x), IRDone (RVal (cell_val x)) false)
      else if st =? ST_INITING then
        match el with
        | Some id =>
            let '(s, r) := poll_listener E0 id w s in
            let x := o_upd x s (o_value x) (o_futs x) in
            if r then init_loop fuel w k gate None x else (x, IRPending (IWait id))
        | None =>
            let '(s, id) := listen E0 s in
            init_loop fuel w k gate (Some id) (o_upd x s (o_value x) (o_futs x))
        end
      else if st =? ST_UNINIT then
        let '(s, prev) := cas W0 ST_UNINIT ST_INITING s in
        let x := o_upd x s (o_value x) (o_futs x) in
        if negb (prev =? ST_UNINIT) then init_loop fuel w k gate el x
        else
          let x := o_note_start x in
          match k, gate with
          | IKSet v, _ => init_finish k (OOk v) el x
          | _, Some r => init_finish k r el x
          | _, None => (x, IRPending (IRunning el))
          end
      else (o_upd x (set_err s) (o_value x) (o_futs x), IRPending IUnpolled)
  end.

Definition init_poll (w : waker) (k : ikind) (st : ist) (gate : option outcome) (x : oworld)
  : oworld * ires :=
  match st with
  | IUnpolled =>
      if getw W0 (o_sh x) =? ST_INIT then (x, IRDone (RVal (cell_val x)) false)
      else init_loop OFUEL w k gate None x
  | IWait id =>
      let '(s, r) := poll_listener E0 id w (o_sh x) in
      let x := o_upd x s (o_value x) (o_futs x) in
      if r then init_loop OFUEL w k gate None x else (x, IRPending (IWait id))
  | IRunning el =>
      match gate with
      | None => (x, IRPending (IRunning el))
      | Some r => init_finish k r el x
      end
  | IFin => (o_upd x (set_err (o_sh x)) (o_value x) (o_futs x), IRPending IFin)
  end.

(* cancellation *)
Definition ofut_drop (st : ofutst) (x : oworld) : oworld :=
  let s := o_sh x in
  match st with
  | OFWait (WAwait id) => o_upd x (drop_listener E1 id s) (o_value x) (o_futs x)
  | OFWait _ => x
  | OFInit k ist _ =>
      let x := match ist with
               | IWait id => o_upd x (drop_listener E0 id s) (o_value x) (o_futs x)
               | IRunning el => o_upd x (drop_listener_opt E0 el (guard_drop s)) (o_value x) (o_futs x)
               | _ => x
               end in
      (* a `set` future that never ran its closure still owns its argument *)
      match k, ist with
      | IKSet _, IFin => x
      | IKSet _, _ => o_add_drop x
      | _, _ => x
      end
  end.

Definition ostep_core (x : oworld) (o : oop) : oworld * res :=
  if negb (o_alive x) then (x, RInvalid) else
  let s := o_sh x in
  match o with
  | OStartWait =>
      (mkOw s (o_value x) (o_futs x ++ [(o_nf x, mkOfut (OFWait WUnpolled) meta0)]) (S (o_nf x))
            (o_drops x) true (o_inits x) (o_started x), RUnit)
  | OStartInit k =>
      (mkOw s (o_value x) (o_futs x ++ [(o_nf x, mkOfut (OFInit k IUnpolled None) meta0)]) (S (o_nf x))
            (o_drops x) true (o_inits x) (o_started x), RUnit)
  | OPoll fid kk =>
      match alookup fid (o_futs x) with
      | None => (x, RInvalid)
      | Some f =>
          if fstatus_eqb (fm_st (of_meta f)) FDone || Nat.leb 4 kk then (x, RInvalid) else
          let w := wtag fid kk in
          let pend st x := (o_upd x (o_sh x) (o_value x)
                              (aupdate fid (mkOfut st (mkMeta FPending (Some w) false)) (o_futs x)), RPending) in
          let fin st (r : res) x := (o_upd x (o_sh x) (o_value x)
                              (aupdate fid (mkOfut st (mkMeta FDone (Some w) false)) (o_futs x)), r) in
          match of_st f with
          | OFWait WUnpolled =>
              if getw W0 s =? ST_INIT then fin (OFWait WFin) (RVal (cell_val x)) x
              else
                let '(s, id) := listen E1 s in
                if getw W0 s =? ST_INIT then
                  fin (OFWait WFin) (RVal (cell_val x)) (o_upd x (drop_listener E1 id s) (o_value x) (o_futs x))
                else
                  let '(s, r) := poll_listener E1 id w s in
                  let x := o_upd x s (o_value x) (o_futs x) in
                  if r then fin (OFWait WFin) (RVal (cell_val x)) x      (* not reachable: fresh entry *)
                  else pend (OFWait (WAwait id)) x
          | OFWait (WAwait id) =>
              let '(s, r) := poll_listener E1 id w s in
              let s := if r && negb (getw W0 s =? ST_INIT) then set_err s else s in   (* debug_assert! *)
              let x := o_upd x s (o_value x) (o_futs x) in
              if r then fin (OFWait WFin) (RVal (cell_val x)) x else pend (OFWait (WAwait id)) x
          | OFWait WFin => (x, RInvalid)
          | OFInit k ist gate =>
              let '(x, ir) := init_poll w k ist gate x in
              match ir with
              | IRPending ist' => pend (OFInit k ist' gate) x
              | IRDone r ran =>
                  match k with
                  | IKSet v =>
                      (* set: Ok(&T) if its own closure took the value, else Err(value) — the
                         harness drops a value handed back at once *)
                      if ran then fin (OFInit k IFin gate) r x
                      else fin (OFInit k IFin gate) (RErr v) (o_add_drop x)
                  | _ => fin (OFInit k IFin gate) r x
                  end
              end
          end
      end
  | OResolve fid r =>
      match alookup fid (o_futs x) with
      | Some (mkOfut (OFInit k ist None) m) =>
          let ok := match k, r with
                    | IKSet _, _ => false
                    | IKInit, OErr _ => false
                    | _, _ => true
                    end in
          let live := match ist with IFin => false | _ => true end in
          if ok && live then
            let s := match ist, fm_w m with
                     | IRunning _, Some w => set_wk (swk s ++ [w]) s     (* the gate wakes its task *)
                     | _, _ => s
                     end in
            (o_upd x s (o_value x) (aupdate fid (mkOfut (OFInit k ist (Some r)) m) (o_futs x)), RUnit)
          else (x, RInvalid)
      | _ => (x, RInvalid)
      end
  | ODropFut fid =>
      match alookup fid (o_futs x) with
      | None => (x, RInvalid)
      | Some f =>
          let x := ofut_drop (of_st f) x in
          (o_upd x (o_sh x) (o_value x) (aremove fid (o_futs x)), RUnit)
      end
  | OGet =>
      if getw W0 s =? ST_INIT then (x, RVal (cell_val x)) else (x, RNone)
  | OTake =>
      match o_futs x with
      | _ :: _ => (x, RInvalid)                       (* needs &mut self *)
      | [] =>
          if getw W0 s =? ST_INIT then
            (mkOw (store W0 ST_UNINIT s) None [] (o_nf x) (S (o_drops x)) true 0 (o_started x),
             RVal (cell_val x))
          else (x, RNone)
      end
  | ODropCell =>
      match o_futs x with
      | _ :: _ => (x, RInvalid)
      | [] =>
          (mkOw s (o_value x) [] (o_nf x)
                (if getw W0 s =? ST_INIT then S (o_drops x) else o_drops x) false (o_inits x) (o_started x),
           RUnit)
      end
  end.

Definition ostep (x : oworld) (o : oop) : oworld * obs :=
  let x0 := o_upd x (set_wk [] (o_sh x)) (o_value x) (o_futs x) in
  let '(x1, r) := ostep_core x0 o in
  let wk := swk (o_sh x1) in
  let x2 := o_wake_all wk x1 in
  (x2, mkObs r wk (o_dump x2)).

Definition orun (ops : list oop) : oworld := fold_left (fun x o => fst (ostep x o)) ops ow0.
Fixpoint otrace (x : oworld) (ops : list oop) : list obs :=
  match ops with
  | [] => []
  | o :: r => let '(x', ob) := ostep x o in ob :: otrace x' r
  end.
