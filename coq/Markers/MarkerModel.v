(* MarkerModel.v — C16: the thread-safety markers and variance of the public types, computed
   from the tables that tools/extract reads from the source (Gen/Markers.v):
   * [declared tr X k]: is X<T> Send / Sync for a T of kind k — the explicit `unsafe impl` if there is
     one, else the auto-trait derivation over the field types (a small re-implementation of rustc's
     rules for the type constructors this crate uses; validated against rustc itself, see Tie16);
   * [required tr X]: the bounds on T that the property demands, from what X (or anything X can be
     converted into) can do: hand out &mut T / drop T (T: Send), let two threads hold &T (T: Sync);
   * [covariant X]: variance in T from the field types. *)
From Coq Require Import List String Bool Arith.
From AL.Gen Require Import Markers.
Import ListNotations.
Open Scope string_scope.

Inductive kind := KSS | KS | KY | KN.
Definition k_send (k : kind) := match k with KSS | KS => true | _ => false end.
Definition k_sync (k : kind) := match k with KSS | KY => true | _ => false end.
Definition kind_name (k : kind) := match k with KSS => "SS" | KS => "S" | KY => "Y" | KN => "N" end.
Definition all_kinds := [KSS; KS; KY; KN].

Definition mem_s (x : string) (l : list string) : bool := existsb (String.eqb x) l.
Fixpoint assoc {A} (x : string) (l : list (string * A)) : option A :=
  match l with [] => None | (k, v) :: r => if String.eqb x k then Some v else assoc x r end.

Definition find_ty (n : string) : option tydef := find (fun t => String.eqb (t_name t) n) types.
Definition find_marker (tr n : string) : option marker :=
  find (fun m => String.eqb (m_trait m) tr && String.eqb (m_type m) n) markers.

Fixpoint index_of (x : string) (l : list string) : nat :=
  match l with [] => 0 | y :: r => if String.eqb x y then 0 else S (index_of x r) end.

(* type constructors of std / event-listener that occur in field types *)
Definition transparent := ["Option"; "ManuallyDrop"; "MaybeUninit"; "PhantomData"; "Pin"; "Box"].
Definition always_ok := ["AtomicUsize"; "Event"; "EventListener"; "bool"; "usize"; "u64"; "u8"; "PhantomPinned"; "Instant"].

(* [holds fuel ptr_ok send k sub t]: does type t (with the enclosing item's parameters bound by [sub];
   an unbound parameter is the payload T of kind k) implement Send (send = true) / Sync?
   [ptr_ok]: treat raw pointers / NonNull as harmless (structural mode) instead of !Send + !Sync. *)
Fixpoint holds (fuel : nat) (ptr_ok send : bool) (k : kind) (sub : list (string * ty)) (t : ty) : bool :=
  match fuel with
  | O => false
  | S fuel =>
    let go := holds fuel ptr_ok in
    match t with
    | TParam p => match assoc p sub with
                  | Some t' => go send k [] t'
                  | None => if send then k_send k else k_sync k
                  end
    | TRef m x => if send then (if m then go true k sub x else go false k sub x) else go false k sub x
    | TPtr _ _ => ptr_ok
    | TTuple l => forallb (go send k sub) l
    | TOther _ => false
    | TApp n args =>
        if String.eqb n "Arc" then forallb (fun a => go true k sub a && go false k sub a) args
        else if mem_s n transparent then forallb (go send k sub) args
        else if String.eqb n "UnsafeCell" || String.eqb n "Cell" then
          (if send then forallb (go true k sub) args else ptr_ok)
        else if String.eqb n "NonNull" then ptr_ok
        else if mem_s n always_ok then true
        else match find_ty n with
             | None => false
             | Some td =>
                 let sub' := combine (t_params td) (map (fun a => match a with
                                                                  | TParam p => match assoc p sub with Some t' => t' | None => a end
                                                                  | _ => a end) args) in
                 match find_marker (if send then "Send" else "Sync") n with
                 | Some m =>
                     forallb (fun b => if String.eqb b "Send" then go true k sub' (TParam "T")
                                       else if String.eqb b "Sync" then go false k sub' (TParam "T") else true)
                             (m_bounds m)
                 | None => forallb (fun f => go send k sub' (fd_ast f)) (t_fields td)
                 end
             end
    end
  end.

Definition FUEL := 24.
Definition self_ty (td : tydef) : ty := TApp (t_name td) (map TParam (t_params td)).
Definition declared (send : bool) (n : string) (k : kind) : bool :=
  match find_ty n with Some td => holds FUEL false send k [] (self_ty td) | None => false end.
(* what the fields alone would require if raw pointers were harmless: references to / Arcs of locks *)
Definition structural (send : bool) (n : string) (k : kind) : bool :=
  match find_ty n with
  | Some td => forallb (fun f => holds FUEL true send k (combine (t_params td) (map TParam (t_params td))) (fd_ast f)) (t_fields td)
  | None => false
  end.

(* ---- capabilities ---- *)
Definition has_impl (tr n : string) : bool :=
  existsb (fun p => String.eqb (fst p) tr && String.eqb (snd p) n) trait_impls.

Fixpoint mentions_T (fuel : nat) (t : ty) : bool :=
  match fuel with O => true | S fuel =>
    match t with
    | TParam p => String.eqb p "T"
    | TApp _ args | TTuple args => existsb (mentions_T fuel) args
    | TRef _ x | TPtr _ x => mentions_T fuel x
    | TOther _ => true
    end end.

(* owns the payload: a field UnsafeCell<..T..> by value *)
Definition owns_payload (n : string) : bool :=
  match find_ty n with
  | Some td => existsb (fun f => match fd_ast f with TApp c args => String.eqb c "UnsafeCell" && existsb (mentions_T 8) args | _ => false end) (t_fields td)
  | None => false
  end.

(* owns (by value, not behind a reference) an Arc of a payload owner: dropping it may drop T *)
Fixpoint owns_arc (fuel : nat) (t : ty) : bool :=
  match fuel with O => false | S fuel =>
    match t with
    | TApp n args =>
        if String.eqb n "Arc" then existsb (fun a => match a with TApp l _ => owns_payload l | _ => false end) args
        else if mem_s n transparent then existsb (owns_arc fuel) args
        else existsb (owns_arc fuel) args ||
             match find_ty n with Some td => existsb (fun f => owns_arc fuel (fd_ast f)) (t_fields td) | None => false end
    | TTuple l => existsb (owns_arc fuel) l
    | _ => false
    end end.
(* RwLockReadGuardArc keeps its Arc as a raw pointer (Arc::into_raw): modelled, not derived *)
Definition raw_arc_owners := ["RwLockReadGuardArc"].
Definition arc_owner (n : string) : bool :=
  mem_s n raw_arc_owners ||
  match find_ty n with Some td => existsb (fun f => owns_arc 10 (fd_ast f)) (t_fields td) | None => false end.

(* guards that coexist with other guards giving &T (C02: read and upgradable guards), and locks
   through which two threads holding &L can both obtain &T *)
Definition coexisting := ["RwLockReadGuard"; "RwLockReadGuardArc"; "RwLockUpgradableReadGuard"; "RwLockUpgradableReadGuardArc"].
Definition shares_via_ref := ["RwLock"; "OnceCell"].

Definition public_names : list string := map t_name (filter t_public types).

(* substring test *)
Fixpoint contains (fuel : nat) (p s : string) : bool :=
  match fuel with O => false | S fuel =>
    String.prefix p s || match s with EmptyString => false | String _ r => contains fuel p r end end.

(* one conversion step: by-value methods returning another public type, and future => output *)
Definition steps (n : string) : list string :=
  (flat_map (fun gm => match gm with (x, _, _, ret) =>
      if String.eqb x n then filter (fun y => contains 200 (y ++ "<") ret) public_names else [] end) guard_methods)
  ++ (flat_map (fun w => match w with (f, _, out) => if String.eqb f n then [out] else [] end) wrappers).

Fixpoint reach (fuel : nat) (front seen : list string) : list string :=
  match fuel with O => seen | S fuel =>
    let new := filter (fun y => negb (mem_s y seen)) (flat_map steps front) in
    match new with [] => seen | _ => reach fuel new (seen ++ new) end end.
Definition reachable (n : string) : list string := reach 8 [n] [n].

Definition mutish (n : string) : bool := has_impl "DerefMut" n || owns_payload n || arc_owner n.

(* the bounds on T the property demands for X: Send *)
Definition required_send (n : string) : list string :=
  let r := reachable n in
  (if existsb mutish r then ["Send"] else []) ++ (if existsb (fun y => mem_s y coexisting) r then ["Sync"] else []).
(* ... and for X: Sync (sharing &X between threads) *)
Definition required_sync (n : string) : list string :=
  (if has_impl "Deref" n || mem_s n shares_via_ref then ["Sync"] else []) ++
  (if owns_payload n then ["Send"] else []).

Definition sat (bounds : list string) (k : kind) : bool :=
  forallb (fun b => if String.eqb b "Send" then k_send k else if String.eqb b "Sync" then k_sync k else true) bounds.

Definition has_T (n : string) : bool := match find_ty n with Some td => mem_s "T" (t_params td) | None => false end.
Definition public_T : list string := filter has_T public_names.

(* soundness of one (type, kind) row *)
Definition send_row_ok (n : string) (k : kind) : bool :=
  implb (declared true n k) (sat (required_send n) k && structural true n k).
(* for Sync only the capability rule is demanded: what a shared reference to X exposes is decided by X's
   public API (Deref, the lock operations), not by its private fields *)
Definition sync_row_ok (n : string) (k : kind) : bool :=
  implb (declared false n k) (sat (required_sync n) k).

(* ---- variance in T ---- *)
Definition invariant_ctor := ["UnsafeCell"; "Cell"].
Fixpoint covariant (fuel : nat) (t : ty) : bool :=
  match fuel with O => false | S fuel =>
    match t with
    | TParam _ => true
    | TRef m x | TPtr m x => if m then negb (mentions_T 8 x) else covariant fuel x
    | TTuple l => forallb (covariant fuel) l
    | TOther _ => false
    | TApp n args =>
        if negb (existsb (mentions_T 8) args) then true
        else if mem_s n invariant_ctor then false
        else if mem_s n transparent || String.eqb n "Arc" || String.eqb n "NonNull" then forallb (covariant fuel) args
        else match find_ty n with
             | Some td => forallb (covariant fuel) args && forallb (fun f => covariant fuel (fd_ast f)) (t_fields td)
             | None => false
             end
    end end.
Definition covariant_ty (n : string) : bool :=
  match find_ty n with Some td => forallb (fun f => covariant 12 (fd_ast f)) (t_fields td) | None => false end.

Definition guards := filter (fun n => has_impl "Deref" n) public_T.
(* a guard that can give &mut T (itself or after conversion) must be invariant in T *)
Definition variance_row_ok (n : string) : bool :=
  implb (existsb (fun y => has_impl "DerefMut" y) (reachable n)) (negb (covariant_ty n)).
