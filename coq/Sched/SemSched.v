(* SemSched.v — the Semaphore at the granularity of single atomic operations on its counter, for ANY
   number of threads and EVERY schedule (C03, schedule half).

   Sites (src/semaphore.rs, pinned by Tie_Semaphore): try_acquire / the fast path of AcquireInner::poll =
   `count.load` followed by `compare_exchange(c, c - 1)` in a loop; SemaphoreGuard::drop and add_permits =
   `count.fetch_add(n)`; forget = no atomic operation. Control flow is over-approximated: a thread may
   attempt the compare_exchange with ANY expected value c > 0 at any time (whatever it loaded, however
   stale), may release only a permit it holds, may forget only a permit it holds; add_permits(n) may be
   called at any time. Event operations do not touch the counter. The counter is an unbounded N here: the
   2^64 wrap of add_permits is modelled in the history machine (C03_conserve), not in this one. *)
From Coq Require Import List NArith Bool Arith Lia.
Import ListNotations.
Open Scope N_scope.

Inductive saction :=
| SCas (c : N)        (* compare_exchange(c, c - 1), attempted only for c > 0 *)
| SRelease            (* guard drop: fetch_add(1) *)
| SForget             (* SemaphoreGuard::forget *)
| SAdd (n : N).       (* add_permits(n): fetch_add(n) *)

Record sgst := mkSG {
  sg_count : N;
  sg_held : list N;          (* permits held by each thread *)
  sg_forgot : N;
  sg_total : N               (* ghost: initial + added *)
}.
Definition sg0 (init : N) (nthreads : nat) : sgst := mkSG init (repeat 0 nthreads) 0 init.

Fixpoint upd_n (i : nat) (v : N) (l : list N) : list N :=
  match l, i with
  | [], _ => []
  | _ :: r, O => v :: r
  | x :: r, S i => x :: upd_n i v r
  end.
Fixpoint sumN (l : list N) : N := match l with [] => 0 | x :: r => x + sumN r end.

Definition sstep (g : sgst) (i : nat) (a : saction) : sgst :=
  match nth_error (sg_held g) i with
  | None => g
  | Some h =>
    match a with
    | SCas c =>
        if (0 <? c) && (sg_count g =? c)
        then mkSG (c - 1) (upd_n i (h + 1) (sg_held g)) (sg_forgot g) (sg_total g)
        else g                                             (* failed compare_exchange: a load *)
    | SRelease =>
        if 0 <? h then mkSG (sg_count g + 1) (upd_n i (h - 1) (sg_held g)) (sg_forgot g) (sg_total g) else g
    | SForget =>
        if 0 <? h then mkSG (sg_count g) (upd_n i (h - 1) (sg_held g)) (sg_forgot g + 1) (sg_total g) else g
    | SAdd n => mkSG (sg_count g + n) (sg_held g) (sg_forgot g) (sg_total g + n)
    end
  end.

Definition srun (init : N) (n : nat) (sched : list (nat * saction)) : sgst :=
  fold_left (fun g p => sstep g (fst p) (snd p)) sched (sg0 init n).

Definition Cons (g : sgst) : Prop := sg_count g + sumN (sg_held g) + sg_forgot g = sg_total g.

Lemma sum_upd i v h l : nth_error l i = Some h -> sumN (upd_n i v l) + h = sumN l + v.
Proof.
  revert i. induction l as [|x r IH]; intros [|i] H; cbn in H; try discriminate.
  - inversion H; subst. cbn. lia.
  - specialize (IH i H). cbn [upd_n sumN]. lia.
Qed.

Lemma sstep_Cons g i a : Cons g -> Cons (sstep g i a).
Proof.
  unfold Cons, sstep. intro C. destruct (nth_error (sg_held g) i) as [h|] eqn:E; [|exact C].
  destruct a as [c| | |n].
  - destruct ((0 <? c) && (sg_count g =? c)) eqn:Q; [|exact C]. apply andb_true_iff in Q. destruct Q as (Q1 & Q2).
    apply N.ltb_lt in Q1. apply N.eqb_eq in Q2. cbn. pose proof (sum_upd i (h + 1) h _ E). lia.
  - destruct (0 <? h) eqn:Q; [|exact C]. apply N.ltb_lt in Q. cbn. pose proof (sum_upd i (h - 1) h _ E). lia.
  - destruct (0 <? h) eqn:Q; [|exact C]. apply N.ltb_lt in Q. cbn. pose proof (sum_upd i (h - 1) h _ E). lia.
  - cbn. lia.
Qed.

Lemma sum_repeat0 n : sumN (repeat 0 n) = 0.
Proof. induction n; cbn; [reflexivity | exact IHn]. Qed.

Theorem srun_Cons init n sched : Cons (srun init n sched).
Proof.
  unfold srun. assert (H : Cons (sg0 init n)) by (unfold Cons, sg0; cbn; rewrite sum_repeat0; lia).
  revert H. generalize (sg0 init n). induction sched as [|[i a] l IH]; intros g H; cbn [fold_left]; [exact H|].
  apply IH. apply sstep_Cons. exact H.
Qed.

(* a successful compare_exchange found a permit: permits are never created by acquiring *)
Lemma scas_needs_permit g i c h : nth_error (sg_held g) i = Some h ->
  sumN (sg_held (sstep g i (SCas c))) = sumN (sg_held g) + 1 -> 0 < sg_count g /\ sg_count (sstep g i (SCas c)) = sg_count g - 1.
Proof.
  unfold sstep. intros E. rewrite E. destruct ((0 <? c) && (sg_count g =? c)) eqn:Q; [|intro H; lia].
  apply andb_true_iff in Q. destruct Q as (Q1 & Q2). apply N.ltb_lt in Q1. apply N.eqb_eq in Q2. cbn. intros _. subst c. split; [exact Q1 | reflexivity].
Qed.

(* C14, every schedule: a try_acquire (its compare_exchange, with whatever expected value) that changes anything found a
   permit: it never succeeds on an empty semaphore, and it takes exactly one *)
Theorem sem_sched_try_acquire_exact init n sched i c :
  let g := srun init n sched in
  sstep g i (SCas c) <> g -> 0 < sg_count g /\ sg_count (sstep g i (SCas c)) = sg_count g - 1.
Proof.
  intros g Ch. unfold sstep in *. destruct (nth_error (sg_held g) i) as [h|]; [|contradiction].
  destruct ((0 <? c) && (sg_count g =? c)) eqn:Q; [|contradiction].
  apply andb_true_iff in Q. destruct Q as (Q1 & Q2). apply N.ltb_lt in Q1. apply N.eqb_eq in Q2. subst c. cbn. split; [exact Q1 | reflexivity].
Qed.
