(* MutexEvSolo.v — tie between the micro-step machine of the Mutex (MutexEvSched.v) and the poll-granular model
   (MutexApi.v), hence — through the correspondence check, which runs this on every history the real crate executed —
   between the micro-step machine and the implementation on sequential schedules.
   [mstep2] runs an operation on the poll-granular model and, when the model accepts it, the same operation on the
   micro-step machine WITHOUT interleaving (a poll = its atomic actions in program order, the starvation clock
   answering from the model's oracle stream; a guard drop = fetch_sub then notify; a future drop = take_mutex then
   the listener), then compares the two states: the word, the event list entry by entry, next listener id, guards,
   and per future: unpolled / pending / done, listener, starved flag, woken flag.
   Executable definitions only (extracted into the driver). *)
From AL Require Import Base Api Mutex MutexApi.
From AL.Sched Require MutexEvSched.
From Coq Require Import Lia.
Import MutexEvSched.
Open Scope N_scope.
Open Scope list_scope.

Definition NFUTS : nat := 64.

(* the poll (or drop) of future i in progress run to its end without interleaving; the clock answers from [orc] *)
Fixpoint solo (fuel : nat) (bt : bool) (s : gst) (i : nat) (orc : list bool) : gst * list bool :=
  match fuel with
  | O => (s, orc)
  | S k =>
      match getf s i with
      | Some f =>
          match fpc f with
          | PIdle | PParked | PDone | PGone => (s, orc)
          | PUCas2 =>
              if g_w s =? 1 then
                match orc with
                | [] => solo k bt (step bt s (AStep i false)) i []
                | b :: r => solo k bt (step bt s (AStep i b)) i r
                end
              else solo k bt (step bt s (AStep i false)) i orc
          | _ => solo k bt (step bt s (AStep i false)) i orc
          end
      | None => (s, orc)
      end
  end.

Definition micro_op (bt : bool) (s : gst) (orc : list bool) (o : mop) : gst :=
  match o with
  | MLock _ => s
  | MPoll f _ => fst (solo 40 bt (step bt s (APoll f)) f orc)
  | MDropFut f => fst (solo 8 bt (step bt s (ACancel f)) f orc)
  | MTry _ => if g_w s =? 0 then step bt s ATry else s
  | MDropGuard _ => step bt (step bt s ARelease) APend
  | MSetOracle _ | MCloneArc | MDropArc => s
  end.

Definition norm_entry (e : entry) : entry :=
  match est e with
  | Task w => mkEntry (eid e) (Task (Nat.div w 4))
  | _ => e
  end.
Definition estate_eqb (a b : estate) : bool :=
  match a, b with
  | Created, Created => true
  | Task v, Task w => Nat.eqb v w
  | Notified x, Notified y => Bool.eqb x y
  | _, _ => false
  end.
Fixpoint event_eqb (a b : event) : bool :=
  match a, b with
  | [], [] => true
  | x :: r, y :: r' => Nat.eqb (eid x) (eid y) && estate_eqb (est x) (est y) && event_eqb r r'
  | _, _ => false
  end.
Definition optnat_eqb (a b : option nat) : bool :=
  match a, b with Some x, Some y => Nat.eqb x y | None, None => true | _, _ => false end.

Definition fut_rel (x : mworld) (s : gst) (fid : nat) : bool :=
  match alookup fid (m_futs x), getf s fid with
  | Some f, Some g =>
      match fm_st (mf_meta f), fpc g with
      | FUnpolled, PIdle => match mf_lock f with None => true | Some _ => false end
      | FPending, PParked =>
          match mf_lock f with
          | Some a => optnat_eqb (a_lis a) (flis g) && Bool.eqb (a_starved a) (fstv g) && Bool.eqb (fm_woken (mf_meta f)) (fwok g)
          | None => false
          end
      | FDone, PDone =>
          match mf_lock f with
          | Some a => optnat_eqb (a_lis a) (flis g)
          | None => match flis g with None => true | Some _ => false end
          end
      | _, _ => false
      end
  | None, Some g => match fpc g with PIdle | PGone => true | _ => false end
  | _, None => false
  end.
Definition simrel (x : mworld) (s : gst) : bool :=
  (sw0 (m_sh x) =? g_w s) && event_eqb (map norm_entry (se0 (m_sh x))) (g_ev s) && Nat.eqb (snid (m_sh x)) (g_nid s) &&
  (N.of_nat (length (m_guards x)) =? g_guards s) && forallb (fut_rel x s) (seq 0 (m_nf x)) && (g_pend s =? 0).

Definition mw2_init : mworld * gst := (mw0, g0 NFUTS).
Definition mstep2 (bt : bool) (xs : mworld * gst) (o : mop) : (mworld * gst) * obs * bool :=
  let '(x, s) := xs in
  let orc := sorc (m_sh x) in
  let '(x', ob) := mstep x o in
  let s' := match o_res ob with RInvalid => s | _ => micro_op bt s orc o end in
  let out_of_scope := Nat.leb NFUTS (m_nf x') in
  ((x', s'), ob, out_of_scope || simrel x' s').

Fixpoint first_diff (bt : bool) (xs : mworld * gst) (ops : list mop) (k : N) : N :=
  match ops with
  | [] => 0
  | o :: r => let '(xs', _, ok) := mstep2 bt xs o in if ok then first_diff bt xs' r (k + 1) else k + 1
  end.
Definition mutex_micro_check (bt : bool) (ops : list mop) : N := first_diff bt mw2_init ops 0.
