(* SemEvInv.v — C07, schedule half: on the micro-step machine of SemEvSched.v WITH the baton (the repaired
   code), for every schedule, any number of futures and threads, no wake-up is lost.
   Two invariants: ownership of the event's entries by the futures (OwnP), and "a permit and a waiter imply
   something in flight" (Inv1): whenever count > 0 and the event has an entry, a thread is between its fetch_add
   and its notify, or an entry is notified, or a future is inside a poll at a point from which it will run
   try_acquire / the baton check. *)
From AL Require Import Base BaseFacts EventFacts.
From AL.Sched Require Import SemEvSched.
From Coq Require Import Lia.
Open Scope N_scope.
Open Scope list_scope.

(* ---------- lists ---------- *)
Lemma nth_set_same {A} i (x y : A) l : nth_error l i = Some y -> nth_error (set_nth i x l) i = Some x.
Proof. revert i. induction l as [|a r IH]; intros [|i] H; cbn in *; try discriminate; [reflexivity | apply IH; exact H]. Qed.
Lemma nth_set_other {A} i j (x : A) l : i <> j -> nth_error (set_nth i x l) j = nth_error l j.
Proof. revert i j. induction l as [|a r IH]; intros [|i] [|j] H; cbn; try reflexivity; [contradiction | apply IH; congruence]. Qed.
Lemma nth_set_inv {A} i j (x y g : A) l : nth_error l i = Some y -> nth_error (set_nth i x l) j = Some g ->
  (j = i /\ g = x) \/ (j <> i /\ nth_error l j = Some g).
Proof.
  intros L H. destruct (Nat.eq_dec j i) as [->|N].
  - rewrite (nth_set_same _ _ _ _ L) in H. inversion H. left. split; reflexivity.
  - rewrite nth_set_other in H by congruence. right. split; assumption.
Qed.
Lemma nth_wake k ws l i : nth_error (wake_from k ws l) i = option_map (fun f => if memb (k + i) ws then fwake f else f) (nth_error l i).
Proof.
  revert k i. induction l as [|a r IH]; intros k [|i]; cbn [wake_from nth_error option_map]; try reflexivity.
  - rewrite Nat.add_0_r. reflexivity.
  - rewrite IH. replace (S k + i)%nat with (k + S i)%nat by lia. reflexivity.
Qed.
Lemma memb_In x l : memb x l = true <-> In x l.
Proof.
  unfold memb. rewrite existsb_exists. split.
  - intros (y & Hy & E). apply Nat.eqb_eq in E. subst. exact Hy.
  - intro H. exists x. split; [exact H | apply Nat.eqb_refl].
Qed.

(* ---------- ownership ---------- *)
Definition ent_ok (i : nat) (f : fut) (e : entry) : Prop :=
  match est e with
  | Created => fpc f <> PParked
  | Task w => w = i
  | Notified _ => fpc f = PParked -> fwok f = true
  end.
Definition pc_ok (f : fut) : Prop :=
  match fpc f with
  | PParked => flis f <> None
  | PIdle | PBaton | PNotify | PDone | PGone => flis f = None
  | _ => True
  end.

Record OwnP (l : event) (nid : nat) (fs : list fut) : Prop := mkOwn {
  ow_nd : NoDup (ids l);
  ow_fresh : forall id, In id (ids l) -> (id < nid)%nat;
  ow_owner : forall e, In e l -> exists i f, nth_error fs i = Some f /\ flis f = Some (eid e) /\ ent_ok i f e;
  ow_listed : forall i f id, nth_error fs i = Some f -> flis f = Some id -> In id (ids l);
  ow_inj : forall i j f g id, nth_error fs i = Some f -> nth_error fs j = Some g -> flis f = Some id -> flis g = Some id -> i = j;
  ow_pc : forall i f, nth_error fs i = Some f -> pc_ok f
}.
Definition Own (s : gst) : Prop := OwnP (g_ev s) (g_nid s) (g_futs s).

Lemma ent_ok_wake i f e : ent_ok i f e -> ent_ok i (fwake f) e.
Proof. unfold ent_ok, fwake. cbn. destruct (est e); auto. Qed.
Lemma pc_ok_wake f : pc_ok f -> pc_ok (fwake f).
Proof. unfold pc_ok, fwake. cbn. auto. Qed.

(* future i changes, keeping its listener *)
Lemma OwnP_upd_fut l nid fs i f f' : OwnP l nid fs -> nth_error fs i = Some f -> flis f' = flis f -> pc_ok f' ->
  (forall e, In e l -> flis f = Some (eid e) -> ent_ok i f e -> ent_ok i f' e) -> OwnP l nid (set_nth i f' fs).
Proof.
  intros [A B C D E P] L HL HP HE. constructor; auto.
  - intros e He. destruct (C e He) as (j & g & Lg & Sg & Ok). destruct (Nat.eq_dec j i) as [->|N].
    + rewrite L in Lg. inversion Lg; subst g. exists i, f'. split; [apply (nth_set_same _ _ _ _ L)|]. split; [congruence | apply HE; assumption].
    + exists j, g. split; [rewrite nth_set_other by congruence; exact Lg | split; assumption].
  - intros j g id Lg Sg. destruct (nth_set_inv _ _ _ _ _ _ L Lg) as [(-> & ->)|(N & Lg')]; [apply (D i f id L); congruence | apply (D j g id Lg' Sg)].
  - intros j1 j2 a1 a2 id L1 L2 S1 S2.
    assert (T : forall j a, nth_error (set_nth i f' fs) j = Some a -> flis a = Some id -> exists a0, nth_error fs j = Some a0 /\ flis a0 = Some id).
    { intros j a La Sa. destruct (nth_set_inv _ _ _ _ _ _ L La) as [(-> & ->)|(N & La')]; [exists f; split; [exact L | congruence] | exists a; split; assumption]. }
    destruct (T j1 a1 L1 S1) as (b1 & M1 & T1). destruct (T j2 a2 L2 S2) as (b2 & M2 & T2). apply (E j1 j2 b1 b2 id); assumption.
  - intros j g Lg. destruct (nth_set_inv _ _ _ _ _ _ L Lg) as [(-> & ->)|(N & Lg')]; [exact HP | apply (P j g Lg')].
Qed.

(* wakers are called: flags only *)
Lemma OwnP_wake l nid fs ws : OwnP l nid fs -> OwnP l nid (wake_from 0 ws fs).
Proof.
  intros [A B C D E P]. constructor; auto.
  - intros e He. destruct (C e He) as (j & g & Lg & Sg & Ok). exists j, (if memb j ws then fwake g else g).
    rewrite nth_wake, Lg. cbn. split; [reflexivity|]. destruct (memb j ws); [split; [exact Sg | apply ent_ok_wake; exact Ok] | split; assumption].
  - intros j g id Lg Sg. rewrite nth_wake in Lg. destruct (nth_error fs j) as [g0|] eqn:Q; [|discriminate]. cbn in Lg. inversion Lg; subst g.
    apply (D j g0 id Q). destruct (memb j ws); exact Sg.
  - intros j1 j2 a1 a2 id L1 L2 S1 S2. rewrite nth_wake in L1, L2.
    destruct (nth_error fs j1) as [b1|] eqn:Q1; [|discriminate]. destruct (nth_error fs j2) as [b2|] eqn:Q2; [|discriminate].
    cbn in L1, L2. inversion L1; inversion L2; subst. apply (E j1 j2 b1 b2 id Q1 Q2); [destruct (memb j1 ws); exact S1 | destruct (memb j2 ws); exact S2].
  - intros j g Lg. rewrite nth_wake in Lg. destruct (nth_error fs j) as [g0|] eqn:Q; [|discriminate]. cbn in Lg. inversion Lg.
    destruct (memb j ws); [apply pc_ok_wake|]; apply (P j g0 Q).
Qed.

(* a notify: entries are marked, the wakers of the marked entries called *)
Lemma OwnP_upd add ws l l' nid fs : Forall2 (upd add ws) l l' -> OwnP l nid fs -> OwnP l' nid (wake_from 0 ws fs).
Proof.
  intros R [A B C D E P]. pose proof (upd_ids _ _ _ _ R) as I.
  pose proof (OwnP_wake l nid fs ws (mkOwn _ _ _ A B C D E P)) as [A' B' C' D' E' P'].
  constructor; auto.
  - rewrite I. exact A.
  - rewrite I. exact B.
  - intros e' He'. destruct (upd_In _ _ _ _ _ R He') as (e & He & U). destruct U as [->|(Nn & -> & W)]; [apply C'; exact He|].
    destruct (C e He) as (j & g & Lg & Sg & Ok). exists j, (if memb j ws then fwake g else g). rewrite nth_wake, Lg. cbn [option_map Nat.add].
    split; [reflexivity|]. split; [destruct (memb j ws); exact Sg|].
    unfold ent_ok in *. cbn [est]. unfold is_notified in Nn. destruct (est e) as [|w|a] eqn:Q; try discriminate.
    + destruct (memb j ws); cbn; intro H; contradiction.
    + subst w. assert (M : memb j ws = true). { apply memb_In. apply W. unfold wake_of. rewrite Q. left. reflexivity. }
      rewrite M. intros _. reflexivity.
  - intros j g id Lg Sg. rewrite I. apply (D' j g id Lg Sg).
Qed.
Lemma OwnP_notify n add l nid fs : OwnP l nid fs ->
  OwnP (fst (ev_notify n add l)) nid (wake_from 0 (snd (ev_notify n add l)) fs).
Proof.
  intro O. pose proof (notify_rel n add l) as R. destruct (ev_notify n add l) as [l' ws]. cbn [fst snd]. apply (OwnP_upd add ws l l'); assumption.
Qed.

(* future i gives up its listener id: the entry is removed *)
Lemma OwnP_remove l nid fs i f f' id : OwnP l nid fs -> nth_error fs i = Some f -> flis f = Some id -> flis f' = None -> pc_ok f' ->
  OwnP (ev_remove id l) nid (set_nth i f' fs).
Proof.
  intros [A B C D E P] L Ls Ln HP. constructor.
  - apply NoDup_remove_ev. exact A.
  - intros x Hx. apply ids_remove_incl in Hx. apply B. exact Hx.
  - intros e He. pose proof (In_remove_entry_neq _ _ _ A He) as Ne. apply In_remove_entry in He.
    destruct (C e He) as (j & g & Lg & Sg & Ok). assert (N : j <> i). { intros ->. rewrite L in Lg. inversion Lg; subst g. congruence. }
    exists j, g. split; [rewrite nth_set_other by congruence; exact Lg | split; assumption].
  - intros j g x Lg Sg. destruct (nth_set_inv _ _ _ _ _ _ L Lg) as [(-> & ->)|(N & Lg')]; [congruence|].
    apply In_remove; [exact A|]. split; [apply (D j g x Lg' Sg)|]. intros ->. apply N. apply (E j i g f id Lg' L Sg Ls).
  - intros j1 j2 a1 a2 x L1 L2 S1 S2.
    destruct (nth_set_inv _ _ _ _ _ _ L L1) as [(-> & ->)|(N1 & L1')]; [congruence|].
    destruct (nth_set_inv _ _ _ _ _ _ L L2) as [(-> & ->)|(N2 & L2')]; [congruence|]. apply (E j1 j2 a1 a2 x); assumption.
  - intros j g Lg. destruct (nth_set_inv _ _ _ _ _ _ L Lg) as [(-> & ->)|(N & Lg')]; [exact HP | apply (P j g Lg')].
Qed.

(* future i (without a listener) registers a new one *)
Lemma OwnP_listen l nid fs i f w : OwnP l nid fs -> nth_error fs i = Some f -> flis f = None ->
  OwnP (ev_listen nid l) (S nid) (set_nth i (mkF PTry (Some nid) w) fs).
Proof.
  intros [A B C D E P] L Ln. unfold ev_listen.
  assert (NI : ~ In nid (ids l)) by (intro H; apply B in H; lia).
  constructor.
  - rewrite map_app. cbn. apply NoDup_app_fresh; assumption.
  - intros x Hx. rewrite map_app in Hx. apply in_app_or in Hx. cbn in Hx. destruct Hx as [Hx|[<-|[]]]; [apply B in Hx; lia | lia].
  - intros e He. apply in_app_or in He. destruct He as [He|[<-|[]]].
    + destruct (C e He) as (j & g & Lg & Sg & Ok). assert (N : j <> i) by (intros ->; rewrite L in Lg; inversion Lg; subst g; congruence).
      exists j, g. split; [rewrite nth_set_other by congruence; exact Lg | split; assumption].
    + exists i, (mkF PTry (Some nid) w). split; [apply (nth_set_same _ _ _ _ L)|]. split; [reflexivity|]. unfold ent_ok. cbn. discriminate.
  - intros j g x Lg Sg. rewrite map_app. apply in_or_app. destruct (nth_set_inv _ _ _ _ _ _ L Lg) as [(-> & ->)|(N & Lg')].
    + right. cbn in Sg. inversion Sg. left. reflexivity.
    + left. apply (D j g x Lg' Sg).
  - intros j1 j2 a1 a2 x L1 L2 S1 S2.
    destruct (nth_set_inv _ _ _ _ _ _ L L1) as [(-> & ->)|(N1 & L1')]; destruct (nth_set_inv _ _ _ _ _ _ L L2) as [(-> & ->)|(N2 & L2')]; try reflexivity.
    + cbn in S1. inversion S1; subst x. exfalso. apply NI. apply (D j2 a2 nid L2' S2).
    + cbn in S2. inversion S2; subst x. exfalso. apply NI. apply (D j1 a1 nid L1' S1).
    + apply (E j1 j2 a1 a2 x); assumption.
  - intros j g Lg. destruct (nth_set_inv _ _ _ _ _ _ L Lg) as [(-> & ->)|(N & Lg')]; [exact Logic.I | apply (P j g Lg')].
Qed.

(* future i polls its listener id, which is not notified: its waker is stored and the poll returns Pending *)
Lemma OwnP_set_task l nid fs i f id : OwnP l nid fs -> nth_error fs i = Some f -> flis f = Some id ->
  OwnP (ev_set id (Task i) l) nid (set_nth i (mkF PParked (Some id) (fwok f)) fs).
Proof.
  intros [A B C D E P] L Ls. constructor.
  - rewrite ids_set. exact A.
  - rewrite ids_set. exact B.
  - intros e He. destruct (In_set _ _ _ _ A He) as [(-> & Hin)|(He' & Ne)].
    + exists i, (mkF PParked (Some id) (fwok f)). split; [apply (nth_set_same _ _ _ _ L)|]. split; reflexivity.
    + destruct (C e He') as (j & g & Lg & Sg & Ok). assert (N : j <> i) by (intros ->; rewrite L in Lg; inversion Lg; subst g; congruence).
      exists j, g. split; [rewrite nth_set_other by congruence; exact Lg | split; assumption].
  - intros j g x Lg Sg. rewrite ids_set. destruct (nth_set_inv _ _ _ _ _ _ L Lg) as [(-> & ->)|(N & Lg')]; [apply (D i f x L); cbn in Sg; congruence | apply (D j g x Lg' Sg)].
  - intros j1 j2 a1 a2 x L1 L2 S1 S2.
    assert (T : forall j a, nth_error (set_nth i (mkF PParked (Some id) (fwok f)) fs) j = Some a -> flis a = Some x -> exists a0, nth_error fs j = Some a0 /\ flis a0 = Some x).
    { intros j a La Sa. destruct (nth_set_inv _ _ _ _ _ _ L La) as [(-> & ->)|(N & La')]; [exists f; split; [exact L | cbn in Sa; congruence] | exists a; split; assumption]. }
    destruct (T j1 a1 L1 S1) as (b1 & M1 & T1). destruct (T j2 a2 L2 S2) as (b2 & M2 & T2). apply (E j1 j2 b1 b2 x); assumption.
  - intros j g Lg. destruct (nth_set_inv _ _ _ _ _ _ L Lg) as [(-> & ->)|(N & Lg')]; [unfold pc_ok; cbn; discriminate | apply (P j g Lg')].
Qed.

(* future i drops its listener (if any): removed, a notification it holds is forwarded *)
Lemma OwnP_drop l nid fs i f f' : OwnP l nid fs -> nth_error fs i = Some f -> flis f' = None -> pc_ok f' ->
  OwnP (fst (ev_drop_opt (flis f) l)) nid (wake_from 0 (snd (ev_drop_opt (flis f) l)) (set_nth i f' fs)).
Proof.
  intros O L Ln HP. destruct (flis f) as [id|] eqn:Ls; cbn [ev_drop_opt fst snd].
  2:{ apply OwnP_wake. apply (OwnP_upd_fut l nid fs i f f' O L); [congruence | exact HP|]. intros e _ Q. congruence. }
  pose proof (OwnP_remove l nid fs i f f' id O L Ls Ln HP) as OR.
  unfold ev_drop. destruct (ev_find id l) as [[|w0|a]|] eqn:Fd; cbn [fst snd].
  - apply OwnP_wake. exact OR.
  - apply OwnP_wake. exact OR.
  - apply OwnP_notify. exact OR.
  - exfalso. pose proof (ow_listed _ _ _ O i f id L Ls) as Hin. apply ev_find_None in Fd. contradiction.
Qed.

Lemma Own_g0 p n : Own (g0 p n).
Proof.
  unfold Own, g0. cbn. constructor; cbn; try (intros; contradiction); [constructor| | |].
  - intros i f id L S. apply nth_error_In in L. apply repeat_spec in L. subst f. discriminate.
  - intros i j f g id L _ S _. apply nth_error_In in L. apply repeat_spec in L. subst f. discriminate.
  - intros i f L. apply nth_error_In in L. apply repeat_spec in L. subst f. reflexivity.
Qed.

Lemma Own_step bt s a : Own s -> Own (step bt s a).
Proof.
  intro O. unfold Own in *. destruct a as [i|i|i|i|i|i|i| |n|k| | |i]; cbn [step].
  - (* APoll *)
    unfold getf. destruct (nth_error (g_futs s) i) as [f|] eqn:L; [|exact O].
    assert (G : fpc f = PIdle \/ fpc f = PParked -> OwnP (g_ev s) (g_nid s) (set_nth i (mkF PTry (flis f) false) (g_futs s))).
    { intros H. apply (OwnP_upd_fut _ _ _ i f _ O L); [reflexivity | exact Logic.I|].
      intros e He Q Ok. unfold ent_ok in *. cbn. destruct (est e); [discriminate | exact Ok | discriminate]. }
    destruct (fpc f) eqn:Pc; try exact O; apply G; auto.
  - (* ACas *)
    unfold getf. destruct (nth_error (g_futs s) i) as [f|] eqn:L; [|exact O]. destruct (fpc f) eqn:Pc; try exact O.
    destruct (0 <? g_cnt s); [|exact O]. cbn [g_ev g_nid g_futs].
    apply (OwnP_upd_fut _ _ _ i f _ O L); [reflexivity | exact Logic.I|].
    intros e He Q Ok. unfold ent_ok in *. cbn. destruct (est e); [discriminate | exact Ok | discriminate].
  - (* AZero *)
    unfold getf. destruct (nth_error (g_futs s) i) as [f|] eqn:L; [|exact O]. destruct (fpc f) eqn:Pc; try exact O.
    destruct (g_cnt s =? 0); [|exact O]. cbn [with_fut g_ev g_nid g_futs].
    apply (OwnP_upd_fut _ _ _ i f _ O L); [reflexivity | exact Logic.I|].
    intros e He Q Ok. unfold ent_ok in *. cbn. destruct (est e); [discriminate | exact Ok | discriminate].
  - (* AWait *)
    unfold getf. destruct (nth_error (g_futs s) i) as [f|] eqn:L; [|exact O]. destruct (fpc f) eqn:Pc; try exact O.
    destruct (flis f) as [id|] eqn:Ls.
    + unfold ev_poll. destruct (ev_find id (g_ev s)) as [[|w0|a]|] eqn:Fd; cbn [g_ev g_nid g_futs]; try exact O.
      * apply (OwnP_set_task _ _ _ i f id O L Ls).
      * apply (OwnP_set_task _ _ _ i f id O L Ls).
      * apply (OwnP_remove _ _ _ i f _ id O L Ls); [reflexivity | exact Logic.I].
    + cbn [g_ev g_nid g_futs]. apply (OwnP_listen _ _ _ i f _ O L Ls).
  - (* ADropLis *)
    unfold getf. destruct (nth_error (g_futs s) i) as [f|] eqn:L; [|exact O]. destruct (fpc f) eqn:Pc; try exact O.
    unfold do_drop, with_fut. cbn [g_ev g_nid g_futs g_cnt g_pend g_held].
    pose proof (OwnP_drop _ _ _ i f (mkF (if bt then PBaton else PDone) None (fwok f)) O L eq_refl) as G.
    destruct (ev_drop_opt (flis f) (g_ev s)) as [l' ws]. cbn [fst snd] in G. unfold with_ev. cbn [g_ev g_nid g_futs]. apply G.
    unfold pc_ok. cbn. destruct bt; reflexivity.
  - (* ABaton *)
    unfold getf. destruct (nth_error (g_futs s) i) as [f|] eqn:L; [|exact O]. destruct (fpc f) eqn:Pc; try exact O.
    cbn [with_fut g_ev g_nid g_futs]. pose proof (ow_pc _ _ _ O i f L) as Pf. unfold pc_ok in Pf. rewrite Pc in Pf.
    apply (OwnP_upd_fut _ _ _ i f _ O L); [reflexivity | unfold pc_ok; cbn; destruct (0 <? g_cnt s); exact Pf|].
    intros e He Q Ok. congruence.
  - (* ANotify *)
    unfold getf. destruct (nth_error (g_futs s) i) as [f|] eqn:L; [|exact O]. destruct (fpc f) eqn:Pc; try exact O.
    pose proof (ow_pc _ _ _ O i f L) as Pf. unfold pc_ok in Pf. rewrite Pc in Pf.
    assert (O1 : OwnP (g_ev s) (g_nid s) (set_nth i (mkF PDone (flis f) (fwok f)) (g_futs s))).
    { apply (OwnP_upd_fut _ _ _ i f _ O L); [reflexivity | exact Pf|]. intros e He Q Ok. congruence. }
    unfold do_notify, with_fut. cbn [g_ev g_nid g_futs g_cnt g_pend g_held].
    pose proof (OwnP_notify 1 false _ _ _ O1) as G. destruct (ev_notify 1 false (g_ev s)) as [l' ws]. exact G.
  - destruct (0 <? g_held s); exact O.
  - exact O.
  - (* APend *)
    destruct (nth_error (g_pend s) k) as [n|]; [|exact O]. unfold do_notify. cbn [g_ev g_nid g_futs g_cnt g_pend g_held].
    pose proof (OwnP_notify n false _ _ _ O) as G. destruct (ev_notify n false (g_ev s)) as [l' ws]. exact G.
  - destruct (0 <? g_cnt s); exact O.
  - destruct (0 <? g_held s); exact O.
  - (* ACancel *)
    unfold getf. destruct (nth_error (g_futs s) i) as [f|] eqn:L; [|exact O].
    assert (G : OwnP (g_ev (do_drop (flis f) (with_fut s i (mkF PGone None false)))) (g_nid (do_drop (flis f) (with_fut s i (mkF PGone None false))))
                     (g_futs (do_drop (flis f) (with_fut s i (mkF PGone None false))))).
    { unfold do_drop, with_fut. cbn [g_ev g_nid g_futs g_cnt g_pend g_held].
      pose proof (OwnP_drop _ _ _ i f (mkF PGone None false) O L eq_refl eq_refl) as G.
      destruct (ev_drop_opt (flis f) (g_ev s)) as [l' ws]. exact G. }
    destruct (fpc f); try exact O; exact G.
Qed.

(* ---------- something is in flight ---------- *)
Definition tokpc (p : pcs) : bool := match p with PTry | PGot | PBaton | PNotify => true | _ => false end.
Definition tokf (fs : list fut) : bool := existsb (fun f => tokpc (fpc f)) fs.
Definition tokp (pn : list N) : bool := existsb (fun n => 1 <=? n) pn.
Definition inflight (s : gst) : bool := tokp (g_pend s) || has_notified (g_ev s) || tokf (g_futs s).
Definition Inv1 (s : gst) : Prop := 0 < g_cnt s -> g_ev s <> [] -> inflight s = true.

Lemma tokf_wake k ws fs : tokf (wake_from k ws fs) = tokf fs.
Proof. unfold tokf. revert k. induction fs as [|f r IH]; intro k; cbn; [reflexivity|]. rewrite IH. destruct (memb k ws); reflexivity. Qed.
Lemma tokf_set_true i x f fs : nth_error fs i = Some f -> tokpc (fpc x) = true -> tokf (set_nth i x fs) = true.
Proof.
  intros L T. unfold tokf. apply existsb_exists. exists x. split; [|exact T]. apply (nth_error_In _ i). apply (nth_set_same _ _ _ _ L).
Qed.
Lemma tokf_set_keep i x f fs : nth_error fs i = Some f -> tokpc (fpc f) = false -> tokf fs = true -> tokf (set_nth i x fs) = true.
Proof.
  intros L T H. unfold tokf in *. apply existsb_exists in H. destruct H as (g & Hg & Tg). apply In_nth_error in Hg. destruct Hg as (j & Lj).
  apply existsb_exists. exists g. split; [|exact Tg]. apply (nth_error_In _ j). rewrite nth_set_other; [exact Lj|]. intros ->. congruence.
Qed.
Lemma tokp_app pn n : tokp (pn ++ [n]) = tokp pn || (1 <=? n).
Proof. unfold tokp. rewrite existsb_app. cbn. rewrite Bool.orb_false_r. reflexivity. Qed.
Lemma tokp_del k pn n : nth_error pn k = Some n -> (1 <=? n) = false -> tokp (del_nth k pn) = tokp pn.
Proof.
  unfold tokp. revert k. induction pn as [|a r IH]; intros [|k] L Z; cbn in *; try discriminate.
  - inversion L; subst a. rewrite Z. reflexivity.
  - rewrite (IH k L Z). reflexivity.
Qed.
Lemma has_set id w l : (forall a, ev_find id l <> Some (Notified a)) -> has_notified l = true -> has_notified (ev_set id (Task w) l) = true.
Proof.
  unfold has_notified. induction l as [|e r IH]; cbn; intros NF H; [discriminate|].
  destruct (Nat.eqb (eid e) id) eqn:Q.
  - cbn. apply Bool.orb_true_iff in H. destruct H as [H|H]; [|exact H].
    exfalso. unfold is_notified in H. destruct (est e) as [| |a] eqn:Se; try discriminate. apply (NF a). reflexivity.
  - cbn. apply Bool.orb_true_iff in H. destruct H as [H|H]; [rewrite H; reflexivity|]. rewrite IH; [apply Bool.orb_true_r | exact NF | exact H].
Qed.
Lemma notify0 l : ev_notify 0 false l = (l, []).
Proof.
  unfold ev_notify. destruct (0 <? N.of_nat (count_notified l)); [reflexivity|].
  replace (0 - N.of_nat (count_notified l)) with 0 by lia.
  induction l as [|e r IH]; cbn; [reflexivity|]. destruct (is_notified e); [rewrite IH; reflexivity | reflexivity].
Qed.
Lemma wake_nil k fs : wake_from k [] fs = fs.
Proof. revert k. induction fs as [|f r IH]; intro k; cbn; [reflexivity|]. rewrite IH. reflexivity. Qed.
Lemma notify_ne n add l : fst (ev_notify n add l) <> [] -> l <> [].
Proof. intros H ->. apply H. unfold ev_notify. destruct add; [reflexivity|]. destruct (n <? N.of_nat (count_notified [])); reflexivity. Qed.
(* after a drop: what was in flight on the event still is *)
Lemma drop_has o l : NoDup (ids l) -> has_notified l = true ->
  fst (ev_drop_opt o l) = [] \/ has_notified (fst (ev_drop_opt o l)) = true.
Proof.
  intros ND H. destruct o as [id|]; cbn [ev_drop_opt fst]; [|right; exact H].
  unfold ev_drop. destruct (ev_find id l) as [[|w0|a]|] eqn:Fd; cbn [fst].
  - right. apply has_notified_remove; auto. intros st Q. rewrite Fd in Q. inversion Q; subst. exact Logic.I.
  - right. apply has_notified_remove; auto. intros st Q. rewrite Fd in Q. inversion Q; subst. exact Logic.I.
  - destruct (ev_remove id l) as [|e r] eqn:Q; [left; destruct a; reflexivity|]. right. destruct a.
    + unfold ev_notify. apply mark_has; [lia | discriminate].
    + apply notify_has; [lia | discriminate].
  - right. exact H.
Qed.

Lemma or3 a b c : c = true -> a || b || c = true.
Proof. intros ->. rewrite Bool.orb_true_r. reflexivity. Qed.
Lemma or2 a b c : b = true -> a || b || c = true.
Proof. intros ->. rewrite Bool.orb_true_r. reflexivity. Qed.
Lemma or1 a b c : a = true -> a || b || c = true.
Proof. intros ->. reflexivity. Qed.

Lemma Inv1_step s a : Own s -> Inv1 s -> Inv1 (step true s a).
Proof.
  intros O I. unfold Own in O. destruct a as [i|i|i|i|i|i|i| |n|k| | |i]; cbn [step].
  - (* APoll *)
    unfold getf. destruct (nth_error (g_futs s) i) as [f|] eqn:L; [|exact I].
    assert (G : Inv1 (with_fut s i (mkF PTry (flis f) false))).
    { intros _ _. unfold inflight, with_fut. cbn [g_futs g_ev g_pend]. apply or3. apply (tokf_set_true _ _ _ _ L). reflexivity. }
    destruct (fpc f); try exact I; exact G.
  - (* ACas *)
    unfold getf. destruct (nth_error (g_futs s) i) as [f|] eqn:L; [|exact I]. destruct (fpc f) eqn:Pc; try exact I.
    destruct (0 <? g_cnt s); [|exact I]. intros _ _. unfold inflight. cbn [g_futs g_ev g_pend]. apply or3. apply (tokf_set_true _ _ _ _ L). reflexivity.
  - (* AZero *)
    unfold getf. destruct (nth_error (g_futs s) i) as [f|] eqn:L; [|exact I]. destruct (fpc f) eqn:Pc; try exact I.
    destruct (g_cnt s =? 0) eqn:Z; [|exact I]. intros C _. unfold with_fut in C. cbn [g_cnt] in C. apply N.eqb_eq in Z. lia.
  - (* AWait *)
    unfold getf. destruct (nth_error (g_futs s) i) as [f|] eqn:L; [|exact I]. destruct (fpc f) eqn:Pc; try exact I.
    destruct (flis f) as [id|] eqn:Ls.
    + unfold ev_poll. destruct (ev_find id (g_ev s)) as [[|w0|a]|] eqn:Fd; try exact I.
      * intros C NE. cbn [g_cnt g_ev] in C, NE. unfold inflight. cbn [g_futs g_ev g_pend].
        assert (NE0 : g_ev s <> []) by (intro Q; rewrite Q in Fd; discriminate). specialize (I C NE0). unfold inflight in I.
        apply Bool.orb_true_iff in I. destruct I as [I|I]; [apply Bool.orb_true_iff in I; destruct I as [I|I]|].
        -- apply or1. exact I.
        -- apply or2. apply has_set; [intros a Q; congruence | exact I].
        -- apply or3. apply (tokf_set_keep _ _ _ _ L); [rewrite Pc; reflexivity | exact I].
      * intros C NE. cbn [g_cnt g_ev] in C, NE. unfold inflight. cbn [g_futs g_ev g_pend].
        assert (NE0 : g_ev s <> []) by (intro Q; rewrite Q in Fd; discriminate). specialize (I C NE0). unfold inflight in I.
        apply Bool.orb_true_iff in I. destruct I as [I|I]; [apply Bool.orb_true_iff in I; destruct I as [I|I]|].
        -- apply or1. exact I.
        -- apply or2. apply has_set; [intros a Q; congruence | exact I].
        -- apply or3. apply (tokf_set_keep _ _ _ _ L); [rewrite Pc; reflexivity | exact I].
      * intros _ _. unfold inflight. cbn [g_futs g_ev g_pend]. apply or3. apply (tokf_set_true _ _ _ _ L). reflexivity.
    + intros _ _. unfold inflight. cbn [g_futs g_ev g_pend]. apply or3. apply (tokf_set_true _ _ _ _ L). reflexivity.
  - (* ADropLis: the future itself goes on to the baton check *)
    unfold getf. destruct (nth_error (g_futs s) i) as [f|] eqn:L; [|exact I]. destruct (fpc f) eqn:Pc; try exact I.
    unfold do_drop, with_fut. cbn [g_ev g_nid g_futs g_cnt g_pend g_held]. destruct (ev_drop_opt (flis f) (g_ev s)) as [l' ws].
    intros _ _. unfold inflight, with_ev. cbn [g_futs g_ev g_pend]. apply or3. rewrite tokf_wake. apply (tokf_set_true _ _ _ _ L). reflexivity.
  - (* ABaton *)
    unfold getf. destruct (nth_error (g_futs s) i) as [f|] eqn:L; [|exact I]. destruct (fpc f) eqn:Pc; try exact I.
    intros C _. unfold with_fut in *. cbn [g_cnt] in C. unfold inflight. cbn [g_futs g_ev g_pend]. apply N.ltb_lt in C. rewrite C.
    apply or3. apply (tokf_set_true _ _ _ _ L). reflexivity.
  - (* ANotify *)
    unfold getf. destruct (nth_error (g_futs s) i) as [f|] eqn:L; [|exact I]. destruct (fpc f) eqn:Pc; try exact I.
    unfold do_notify, with_fut. cbn [g_ev g_nid g_futs g_cnt g_pend g_held].
    pose proof (notify_has 1 (g_ev s)) as NH. pose proof (notify_ne 1 false (g_ev s)) as NN. destruct (ev_notify 1 false (g_ev s)) as [l' ws]. cbn [fst] in NH, NN.
    intros _ NE. unfold with_ev in *. cbn [g_ev] in NE. unfold inflight. cbn [g_futs g_ev g_pend]. apply or2. apply NH; [lia | apply NN; exact NE].
  - (* ARelease *)
    destruct (0 <? g_held s); [|exact I]. intros _ _. unfold inflight. cbn [g_futs g_ev g_pend]. apply or1. rewrite tokp_app. apply Bool.orb_true_r.
  - (* AAdd *)
    intros C NE. cbn [g_cnt g_ev] in C, NE. unfold inflight. cbn [g_futs g_ev g_pend]. rewrite tokp_app.
    destruct (1 <=? n) eqn:Z; [rewrite Bool.orb_true_r; reflexivity|]. apply N.leb_gt in Z. assert (n = 0) by lia. subst n.
    rewrite N.add_0_r in C. specialize (I C NE). unfold inflight in I. rewrite Bool.orb_false_r. exact I.
  - (* APend *)
    destruct (nth_error (g_pend s) k) as [n|] eqn:Lk; [|exact I]. unfold do_notify. cbn [g_ev g_nid g_futs g_cnt g_pend g_held].
    destruct (1 <=? n) eqn:Z.
    + pose proof (notify_has n (g_ev s)) as NH. pose proof (notify_ne n false (g_ev s)) as NN. destruct (ev_notify n false (g_ev s)) as [l' ws]. cbn [fst] in NH, NN.
      intros _ NE. unfold with_ev in *. cbn [g_ev] in NE. unfold inflight. cbn [g_futs g_ev g_pend]. apply or2. apply NH; [apply N.leb_le; exact Z | apply NN; exact NE].
    + assert (n = 0) by (apply N.leb_gt in Z; lia). subst n. rewrite notify0. unfold with_ev. cbn [g_ev g_nid g_futs g_cnt g_pend g_held]. rewrite wake_nil.
      intros C NE. cbn [g_cnt g_ev] in C, NE. specialize (I C NE). unfold inflight in *. cbn [g_futs g_ev g_pend]. rewrite (tokp_del _ _ _ Lk Z). exact I.
  - (* ATry *)
    destruct (0 <? g_cnt s) eqn:Z; [|exact I]. intros C NE. cbn [g_cnt g_ev] in C, NE. apply N.ltb_lt in Z. specialize (I Z NE). exact I.
  - destruct (0 <? g_held s); exact I.
  - (* ACancel: a future between polls is not what is in flight; a notification it holds is passed on *)
    unfold getf. destruct (nth_error (g_futs s) i) as [f|] eqn:L; [|exact I].
    assert (G : tokpc (fpc f) = false -> Inv1 (do_drop (flis f) (with_fut s i (mkF PGone None false)))).
    { intro T. unfold do_drop, with_fut. cbn [g_ev g_nid g_futs g_cnt g_pend g_held].
      pose proof (drop_has (flis f) (g_ev s) (ow_nd _ _ _ O)) as DH.
      assert (NE0 : fst (ev_drop_opt (flis f) (g_ev s)) <> [] -> g_ev s <> []).
      { intros H Q. apply H. rewrite Q. destruct (flis f); reflexivity. }
      destruct (ev_drop_opt (flis f) (g_ev s)) as [l' ws]. cbn [fst] in DH, NE0.
      intros C NE. unfold with_ev in *. cbn [g_cnt g_ev] in C, NE. specialize (I C (NE0 NE)). unfold inflight in *. cbn [g_futs g_ev g_pend].
      apply Bool.orb_true_iff in I. destruct I as [I|I]; [apply Bool.orb_true_iff in I; destruct I as [I|I]|].
      - apply or1. exact I.
      - apply or2. destruct (DH I) as [E|H]; [contradiction | exact H].
      - apply or3. rewrite tokf_wake. apply (tokf_set_keep _ _ _ _ L T I). }
    destruct (fpc f) eqn:Pc; try exact I; apply G; reflexivity.
Qed.

Lemma Inv1_g0 p n : Inv1 (g0 p n).
Proof. intros _ H. exfalso. apply H. reflexivity. Qed.

Theorem run_inv sched p n : Own (run true p n sched) /\ Inv1 (run true p n sched).
Proof.
  unfold run. generalize (Own_g0 p n) (Inv1_g0 p n). generalize (g0 p n).
  induction sched as [|a r IH]; intros s O I; cbn [fold_left]; [split; assumption|].
  apply IH; [apply Own_step; exact O | apply Inv1_step; assumption].
Qed.

(* ---------- the property ---------- *)
(* in every reachable state: a permit is available and a polled future waits => something is in flight that will
   run try_acquire / notify, or a waiter has been notified *)
Theorem sem_sched_inflight sched p n : let s := run true p n sched in
  0 < g_cnt s -> existsb parked (g_futs s) = true -> inflight s = true.
Proof.
  intros s C H. destruct (run_inv sched p n) as (O & I). fold s in O, I. apply I; [exact C|].
  apply existsb_exists in H. destruct H as (f & Hf & Pf). apply In_nth_error in Hf. destruct Hf as (i & L).
  pose proof (ow_pc _ _ _ O i f L) as Pc. unfold pc_ok, parked in *. destruct (fpc f); try discriminate.
  destruct (flis f) as [id|] eqn:Ls; [|contradiction]. pose proof (ow_listed _ _ _ O i f id L Ls) as Hin.
  intro Q. rewrite Q in Hin. contradiction.
Qed.

(* no lost wake-up: when nothing is in flight (no thread inside a poll or between fetch_add and notify, every woken
   future polled again) and a permit is available, no polled future waits — for every schedule *)
Theorem sem_sched_no_lost_wakeup sched p n : lostb (run true p n sched) = false.
Proof.
  destruct (lostb (run true p n sched)) eqn:LB; [exfalso|reflexivity]. unfold lostb in LB.
  apply Bool.andb_true_iff in LB. destruct LB as (LB & PK). apply Bool.andb_true_iff in LB. destruct LB as (C & Q).
  apply N.ltb_lt in C. pose proof (sem_sched_inflight sched p n C PK) as F. destruct (run_inv sched p n) as (O & _).
  set (s := run true p n sched) in *. unfold quiescentb in Q. apply Bool.andb_true_iff in Q. destruct Q as (QF & QP).
  rewrite forallb_forall in QF. unfold inflight in F.
  apply Bool.orb_true_iff in F. destruct F as [F|F]; [apply Bool.orb_true_iff in F; destruct F as [F|F]|].
  - destruct (g_pend s); [discriminate F | discriminate QP].
  - unfold has_notified in F. apply existsb_exists in F. destruct F as (e & He & Ne).
    destruct (ow_owner _ _ _ O e He) as (i & f & L & Ls & Ok). pose proof (ow_pc _ _ _ O i f L) as Pc.
    specialize (QF f (nth_error_In _ _ L)). unfold at_rest in QF. unfold pc_ok in Pc. unfold ent_ok in Ok. unfold is_notified in Ne.
    destruct (est e); try discriminate. destruct (fpc f); try discriminate; try congruence.
    rewrite (Ok eq_refl) in QF. discriminate.
  - unfold tokf in F. apply existsb_exists in F. destruct F as (f & Hf & Tf). specialize (QF f Hf). unfold at_rest in QF.
    destruct (fpc f); discriminate.
Qed.

(* the code without the baton (finding F5) loses a wake-up on the schedule of the finding *)
Lemma sem_sched_prefix_refuted : lostb (run false 2 2 f5_schedule) = true.
Proof. vm_compute. reflexivity. Qed.
(* the statement is not vacuous: with the baton the same schedule, continued, wakes the waiter *)
Example sem_sched_f5_repaired :
  let s := run true 2 2 (f5_schedule ++ [ABaton 0; ANotify 0]) in
  g_cnt s = 1 /\ nth_error (g_futs s) 1 = Some (mkF PParked (Some 1%nat) true).
Proof. vm_compute. split; reflexivity. Qed.
