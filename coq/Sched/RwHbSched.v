(* RwHbSched.v — the RwLock micro-step machine of RwSched.v with release/acquire views on the state word (C02, the two
   happens-before clauses): everything done under a write guard happens-before everything done under any later guard,
   and everything done under read (and upgradable-read) guards happens-before the next writer's accesses — for ANY
   number of threads and EVERY schedule.

   The roles evolve exactly as in RwSched.v ([rstep]); this file adds, in the same operational release/acquire semantics
   as MutexSched.v: a view (a set of tickets) per thread and a message view V of the state word. Every site on the word
   is a read-modify-write, a compare_exchange or a load. An RMW / successful compare_exchange whose ordering includes
   Acquire lets the thread's view absorb V; one that includes Release lets V absorb the thread's view; a load with an
   Acquire ordering absorbs V (it reads the latest value: the value WRITER_BIT it waits for can only be the latest one,
   the reader count never grows while the bit is set). Dropping a write guard (write_unlock, the two downgrades) issues a
   fresh WRITE ticket into the dropper's view before its releasing operation; dropping a read or upgradable-read guard
   issues a fresh READ ticket. A ticket stands for everything the thread did to the value under that guard.
   Which sites acquire / release is a parameter ([rwflags]); [gen_rwflags] reads them from Gen/Sites.v.
   Event operations and the inner mutex transfer no view here (they are not needed). *)
From Coq Require Import List NArith Bool Arith Lia String.
From AL Require Import Base BaseFacts.
From AL.Gen Require Import Sites.
From AL.Tie Require Import TieLib.
From AL.Sched Require Import RwSched.
Import ListNotations.
Open Scope N_scope.
Open Scope list_scope.

Record rwflags := mkRwF {
  a_read : bool;      (* the compare_exchange of try_read and of RawRead acquires *)
  a_up : bool;        (* the compare_exchange of try_upgradable_read and of RawUpgradableRead acquires *)
  a_trywrite : bool;  (* compare_exchange(0, WRITER_BIT) of try_write acquires *)
  a_tryup : bool;     (* compare_exchange(ONE_READER, WRITER_BIT) of try_upgrade acquires *)
  a_obs : bool;       (* fetch_or(WRITER_BIT) of RawWrite and the loads of RawWrite / RawUpgrade acquire *)
  r_runl : bool;      (* fetch_sub(ONE_READER) of read_unlock releases *)
  r_uunl : bool;      (* fetch_sub(ONE_READER) of upgradable_read_unlock releases *)
  r_wunl : bool;      (* fetch_and(!WRITER_BIT) of write_unlock releases *)
  r_dgw : bool;       (* fetch_add of downgrade_write releases *)
  r_dgu : bool        (* fetch_add of downgrade_to_upgradable releases *)
}.

Record hbst := mkHB {
  h_g : rgst;                  (* roles and the word: the machine of RwSched.v *)
  h_V : list nat;              (* message view of the word *)
  h_tv : list (list nat);      (* thread views *)
  h_wt : list nat;             (* write tickets issued so far *)
  h_rt : list nat;             (* read tickets issued so far *)
  h_next : nat
}.
Definition hb0 (n : nat) : hbst := mkHB (rg0 n) [] (repeat [] n) [] [] 0.

Fixpoint upd_v (i : nat) (v : list nat) (l : list (list nat)) : list (list nat) :=
  match l, i with
  | [], _ => []
  | _ :: r, O => v :: r
  | x :: r, S i => x :: upd_v i v r
  end.

Definition enabled (g : rgst) (t : rtst) (a : raction) : bool :=
  match a with
  | RReadCas c => (c mod 2 =? 0) && (rg_w g =? c)
  | RReadUnlock => 0 <? rt_reads t
  | RMutexLock => negb (rg_m g) && negb (rt_m t)
  | RMutexUnlock => norole t
  | RUpCas c => norole t && (rg_w g =? c)
  | RUpDec => rt_up t
  | RDowngradeUp => rt_up t
  | RAnnounce => norole t
  | RObserve => rt_ann t && (rg_w g =? 1)
  | RTryWriteCas => norole t && (rg_w g =? 0)
  | RClear => rt_ann t
  | RUpgradeStart => rt_up t
  | RTryUpgrade => rt_up t && (rg_w g =? 2)
  | RDowngradeWrite => rt_w t
  | RDowngradeToUp => rt_w t
  end.

Section Machine.
Variable F : rwflags.

(* (acquires?, issues a write ticket?, issues a read ticket?, releases?) of an enabled action of a thread in state t *)
Definition effect (t : rtst) (a : raction) : bool * bool * bool * bool :=
  match a with
  | RReadCas _ => (a_read F, false, false, false)
  | RReadUnlock => (false, false, true, r_runl F)
  | RUpCas _ => (a_up F, false, false, false)
  | RUpDec => (false, false, true, r_uunl F)
  | RAnnounce => (a_obs F, false, false, false)
  | RObserve => (a_obs F, false, false, false)
  | RTryWriteCas => (a_trywrite F, false, false, false)
  | RTryUpgrade => (a_tryup F, false, false, false)
  | RClear => (false, rt_w t, false, r_wunl F)
  | RDowngradeWrite => (false, true, false, r_dgw F)
  | RDowngradeToUp => (false, true, false, r_dgu F)
  | RMutexLock | RMutexUnlock | RDowngradeUp | RUpgradeStart => (false, false, false, false)
  end.

Definition hstep (h : hbst) (i : nat) (a : raction) : hbst :=
  match nth_error (rg_thr (h_g h)) i with
  | Some t =>
      if enabled (h_g h) t a then
        let v := nth i (h_tv h) [] in
        let '(acq, wtk, rtk, rel) := effect t a in
        let v1 := if acq then v ++ h_V h else v in
        let tk := h_next h in
        let v2 := if wtk || rtk then tk :: v1 else v1 in
        let V' := if rel then h_V h ++ v2 else h_V h in
        mkHB (rstep (h_g h) i a) V' (upd_v i v2 (h_tv h))
             (if wtk then tk :: h_wt h else h_wt h) (if rtk then tk :: h_rt h else h_rt h)
             (if wtk || rtk then S tk else tk)
      else h
  | None => h
  end.

Definition hrun (n : nat) (sched : list (nat * raction)) : hbst :=
  fold_left (fun h p => hstep h (fst p) (snd p)) sched (hb0 n).

(* ---------- the happens-before statement ---------- *)
Definition holds (t : rtst) : bool := (0 <? rt_reads t) || rt_up t || rt_w t.
Definition Hb (h : hbst) : Prop :=
  incl (h_wt h) (h_V h) /\ incl (h_rt h) (h_V h) /\
  (forall i t v, nth_error (rg_thr (h_g h)) i = Some t -> nth_error (h_tv h) i = Some v ->
     (holds t = true -> incl (h_wt h) v) /\ (rt_w t = true -> incl (h_rt h) v)) /\
  length (h_tv h) = length (rg_thr (h_g h)).

Definition all_flags : bool :=
  a_read F && a_up F && a_trywrite F && a_tryup F && a_obs F && r_runl F && r_uunl F && r_wunl F && r_dgw F && r_dgu F.

Lemma enabled_sound g i t a : nth_error (rg_thr g) i = Some t -> enabled g t a = false -> rstep g i a = g.
Proof.
  intros L E. unfold rstep. rewrite L. destruct a; cbn [enabled] in E; rewrite E; reflexivity.
Qed.

Lemma nth_updv_same i v v' l : nth_error l i = Some v -> nth_error (upd_v i v' l) i = Some v'.
Proof. revert i. induction l as [|x r IH]; intros [|i] H; cbn in *; try discriminate; [reflexivity | apply IH; exact H]. Qed.
Lemma nth_updv_other i j v' l : i <> j -> nth_error (upd_v i v' l) j = nth_error l j.
Proof. revert i j. induction l as [|x r IH]; intros [|i] [|j] H; cbn; try reflexivity; [contradiction | apply IH; congruence]. Qed.
Lemma len_updv i v l : length (upd_v i v l) = length l.
Proof. revert i. induction l as [|x r IH]; intros [|i]; cbn; try reflexivity. rewrite IH. reflexivity. Qed.
Lemma len_updr i t l : length (upd_r i t l) = length l.
Proof. revert i. induction l as [|x r IH]; intros [|i]; cbn; try reflexivity. rewrite IH. reflexivity. Qed.
Lemma rstep_len g i a : length (rg_thr (rstep g i a)) = length (rg_thr g).
Proof.
  unfold rstep. destruct (nth_error (rg_thr g) i) as [t|]; [|reflexivity].
  destruct a; cbn; repeat match goal with |- context [if ?c then _ else _] => destruct c end; cbn; try rewrite len_updr; reflexivity.
Qed.

(* the roles of the other threads do not change; the acting thread's new role is what rstep says *)
Lemma rstep_other g i a j : i <> j -> nth_error (rg_thr (rstep g i a)) j = nth_error (rg_thr g) j.
Proof.
  intro N. unfold rstep. destruct (nth_error (rg_thr g) i) as [t|]; [|reflexivity].
  destruct a; cbn; repeat match goal with |- context [if ?c then _ else _] => destruct c end; cbn; try rewrite nth_updr_other by exact N; reflexivity.
Qed.

Lemma cnt0_all f l i t : cnt f l = 0 -> nth_error l i = Some t -> f t = 0.
Proof. intros C L. pose proof (cnt_In f i t l L). lia. Qed.

(* while a writer is active nobody else holds anything, and there is one writer *)
Lemma writer_alone g i t : RExcl g -> nth_error (rg_thr g) i = Some t -> rt_w t = true ->
  forall j tj, j <> i -> nth_error (rg_thr g) j = Some tj -> holds tj = false.
Proof.
  intros (W & M & T & X) L Wt j tj N Lj.
  assert (W1 : 1 <= cnt fW (rg_thr g)). { pose proof (cnt_In fW i t _ L). unfold fW in *. rewrite Wt in *. cbn in *. lia. }
  destruct (X W1) as (R0 & U0).
  pose proof (cnt0_all fR _ j tj R0 Lj) as A1. pose proof (cnt0_all fU _ j tj U0 Lj) as A2.
  pose proof (roles_le_mutex _ T) as (RL & WL).
  assert (M1 : cnt fM (rg_thr g) <= 1) by (rewrite M; destruct (rg_m g); cbn; lia).
  assert (WJ : fW tj = 0).
  { destruct (rt_w tj) eqn:Q; [|unfold fW; rewrite Q; reflexivity]. exfalso.
    (* two writers: cnt fW >= 2 *)
    assert (2 <= cnt fW (rg_thr g)).
    { clear - L Lj N Wt Q. revert i j L Lj N. induction (rg_thr g) as [|x r IH]; intros [|i] [|j] L Lj N; cbn in L, Lj; try discriminate; try contradiction.
      - inversion L; subst. cbn. unfold fW at 1. rewrite Wt. cbn. pose proof (cnt_In fW j tj r Lj). unfold fW in H at 1. rewrite Q in H. cbn in H. lia.
      - inversion Lj; subst. cbn. unfold fW at 1. rewrite Q. cbn. pose proof (cnt_In fW i t r L). unfold fW in H at 1. rewrite Wt in H. cbn in H. lia.
      - assert (N' : j <> i) by congruence. specialize (IH i j L Lj N'). cbn. lia. }
    lia. }
  unfold holds, fR, fU, fW in *. destruct (rt_up tj), (rt_w tj); cbn in *; try discriminate.
  rewrite A1. reflexivity.
Qed.
(* a thread that reads excludes writers *)
Lemma reader_no_writer g i t : RExcl g -> nth_error (rg_thr g) i = Some t -> (0 <? rt_reads t) || rt_up t = true ->
  forall j tj, nth_error (rg_thr g) j = Some tj -> rt_w tj = false.
Proof.
  intros (W & M & T & X) L H j tj Lj. destruct (rt_w tj) eqn:Q; [|reflexivity]. exfalso.
  assert (W1 : 1 <= cnt fW (rg_thr g)). { pose proof (cnt_In fW j tj _ Lj). unfold fW in *. rewrite Q in *. cbn in *. lia. }
  destruct (X W1) as (R0 & U0).
  pose proof (cnt0_all fR _ i t R0 L) as A1. pose proof (cnt0_all fU _ i t U0 L) as A2. unfold fR, fU in *.
  apply Bool.orb_true_iff in H. destruct H as [H|H]; [apply N.ltb_lt in H; lia | rewrite H in A2; discriminate].
Qed.

Lemma incl_cons_r {A} (x : A) l l' : incl l l' -> incl l (x :: l').
Proof. intros H y Hy. right. apply H. exact Hy. Qed.
Lemma incl_app_r {A} (l a b : list A) : incl l b -> incl l (a ++ b).
Proof. intros H y Hy. apply in_or_app. right. apply H. exact Hy. Qed.
Lemma incl_app_l {A} (l a b : list A) : incl l a -> incl l (a ++ b).
Proof. intros H y Hy. apply in_or_app. left. apply H. exact Hy. Qed.

Lemma hstep_Hb h i a : all_flags = true -> RExcl (h_g h) -> Hb h -> Hb (hstep h i a).
Proof.
  intros AF EX (H0w & H0r & HT & HL). unfold hstep.
  destruct (nth_error (rg_thr (h_g h)) i) as [t|] eqn:L; [|split; [exact H0w | split; [exact H0r | split; [exact HT | exact HL]]]].
  destruct (enabled (h_g h) t a) eqn:EN; [|split; [exact H0w | split; [exact H0r | split; [exact HT | exact HL]]]].
  assert (Lv' : exists v, nth_error (h_tv h) i = Some v).
  { assert (Hl : (i < length (h_tv h))%nat) by (rewrite HL; apply nth_error_Some; congruence).
    destruct (nth_error (h_tv h) i) eqn:Q; [eexists; reflexivity | apply nth_error_None in Q; lia]. }
  destruct Lv' as (v & Lv). rewrite (nth_error_nth _ _ [] Lv).
  unfold all_flags in AF. repeat (apply Bool.andb_true_iff in AF; destruct AF as (AF & ?)).
  destruct (HT i t v L Lv) as (HI1 & HI2).
  pose proof (rrun_RExcl) as _.
  pose proof (rstep_RExcl (h_g h) i a EX) as EX'.
  assert (LEN : length (upd_v i (v) (h_tv h)) = length (rg_thr (rstep (h_g h) i a))) by (rewrite len_updv, rstep_len; exact HL).
  (* the acting thread's new role *)
  assert (NEWROLE : exists t', nth_error (rg_thr (rstep (h_g h) i a)) i = Some t').
  { assert (Hl : (i < length (rg_thr (rstep (h_g h) i a)))%nat) by (rewrite rstep_len; apply nth_error_Some; congruence).
    destruct (nth_error (rg_thr (rstep (h_g h) i a)) i) eqn:Q; [eexists; reflexivity | apply nth_error_None in Q; lia]. }
  destruct NEWROLE as (t' & Lt').
  (* generic finish: given the new view v2 of thread i and facts about it *)
  assert (FIN : forall V' v2 wt' rt' nx,
            incl wt' V' -> incl rt' V' ->
            (holds t' = true -> incl wt' v2) -> (rt_w t' = true -> incl rt' v2) ->
            (forall j tj vj, j <> i -> nth_error (rg_thr (h_g h)) j = Some tj -> nth_error (h_tv h) j = Some vj ->
               (holds tj = true -> incl wt' vj) /\ (rt_w tj = true -> incl rt' vj)) ->
            Hb (mkHB (rstep (h_g h) i a) V' (upd_v i v2 (h_tv h)) wt' rt' nx)).
  { intros V' v2 wt' rt' nx A1 A2 A3 A4 A5. split; [exact A1|]. split; [exact A2|]. split.
    - intros j tj vj Lj Lvj. cbn [h_g h_tv h_wt h_rt] in *. destruct (Nat.eq_dec j i) as [->|N].
      + rewrite Lt' in Lj. inversion Lj; subst tj. rewrite (nth_updv_same _ _ _ _ Lv) in Lvj. inversion Lvj; subst vj. split; assumption.
      + rewrite rstep_other in Lj by congruence. rewrite nth_updv_other in Lvj by congruence. apply (A5 j tj vj N Lj Lvj).
    - cbn [h_g h_tv]. rewrite len_updv, rstep_len. exact HL. }
  (* the others keep what they had when no ticket is issued *)
  assert (OTH : forall j tj vj, j <> i -> nth_error (rg_thr (h_g h)) j = Some tj -> nth_error (h_tv h) j = Some vj ->
            (holds tj = true -> incl (h_wt h) vj) /\ (rt_w tj = true -> incl (h_rt h) vj)).
  { intros j tj vj _ Lj Lvj. apply (HT j tj vj Lj Lvj). }
  (* what the new role is, action by action *)
  unfold rstep in Lt'. rewrite L in Lt'.
  destruct a; cbn [enabled] in EN; cbn [effect]; rewrite ?EN in Lt'; cbn [rg_thr] in Lt'; rewrite (nth_updr_same _ _ _ _ L) in Lt'; inversion Lt'; subst t'; clear Lt';
    repeat match goal with H : ?b = true |- _ => rewrite H end; cbn [orb].
  - (* RReadCas: becomes / stays a reader, acquires *)
    apply FIN; [exact H0w | exact H0r | | | exact OTH].
    + intros _. apply incl_app_r. exact H0w.
    + cbn [rt_w]. intro Q. apply incl_app_l. apply HI2. exact Q.
  - (* RReadUnlock: a read ticket, released *)
    assert (NW : forall j tj, nth_error (rg_thr (h_g h)) j = Some tj -> rt_w tj = false).
    { apply (reader_no_writer (h_g h) i t EX L). rewrite EN. reflexivity. }
    apply FIN.
    + apply incl_app_l. exact H0w.
    + intros x [<-|Hx]; [apply in_or_app; right; left; reflexivity | apply in_or_app; left; apply H0r; exact Hx].
    + intros _. apply incl_cons_r. apply HI1. unfold holds. rewrite EN. reflexivity.
    + cbn [rt_w]. intro Q. rewrite (NW i t L) in Q. discriminate.
    + intros j tj vj N Lj Lvj. destruct (HT j tj vj Lj Lvj) as (B1 & B2). split; [exact B1|].
      intro Q. rewrite (NW j tj Lj) in Q. discriminate.
  - (* RMutexLock *)
    apply FIN; [exact H0w | exact H0r | | | exact OTH].
    + unfold holds. cbn [rt_reads rt_up rt_w]. exact HI1.
    + cbn [rt_w]. exact HI2.
  - (* RMutexUnlock: the thread had no role; its read guards, if any, stay *)
    apply FIN; [exact H0w | exact H0r | | | exact OTH].
    + unfold holds. cbn [rt_reads rt_up rt_w]. intro Q. apply HI1. unfold holds. rewrite !Bool.orb_false_r in Q. rewrite Q. reflexivity.
    + cbn [rt_w]. intro Q. discriminate.
  - (* RUpCas *)
    apply FIN; [exact H0w | exact H0r | | | exact OTH].
    + intros _. apply incl_app_r. exact H0w.
    + cbn [rt_w]. intro Q. discriminate.
  - (* RUpDec: a read ticket, released *)
    assert (NW : forall j tj, nth_error (rg_thr (h_g h)) j = Some tj -> rt_w tj = false).
    { apply (reader_no_writer (h_g h) i t EX L). rewrite EN. apply Bool.orb_true_r. }
    apply FIN.
    + apply incl_app_l. exact H0w.
    + intros x [<-|Hx]; [apply in_or_app; right; left; reflexivity | apply in_or_app; left; apply H0r; exact Hx].
    + intros _. apply incl_cons_r. apply HI1. unfold holds. rewrite EN. rewrite Bool.orb_true_r. reflexivity.
    + cbn [rt_w]. intro Q. rewrite (NW i t L) in Q. discriminate.
    + intros j tj vj N Lj Lvj. destruct (HT j tj vj Lj Lvj) as (B1 & B2). split; [exact B1|].
      intro Q. rewrite (NW j tj Lj) in Q. discriminate.
  - (* RDowngradeUp *)
    apply FIN; [exact H0w | exact H0r | | | exact OTH].
    + intros _. apply HI1. unfold holds. rewrite EN. rewrite Bool.orb_true_r. reflexivity.
    + cbn [rt_w]. exact HI2.
  - (* RAnnounce: acquires *)
    apply FIN; [exact H0w | exact H0r | | | exact OTH].
    + intros _. apply incl_app_r. exact H0w.
    + cbn [rt_w]. intro Q. discriminate.
  - (* RObserve: becomes the writer, acquires *)
    apply FIN; [exact H0w | exact H0r | | | exact OTH].
    + intros _. apply incl_app_r. exact H0w.
    + intros _. apply incl_app_r. exact H0r.
  - (* RTryWriteCas *)
    apply FIN; [exact H0w | exact H0r | | | exact OTH].
    + intros _. apply incl_app_r. exact H0w.
    + intros _. apply incl_app_r. exact H0r.
  - (* RClear: if it was the writer, a write ticket; released *)
    destruct (rt_w t) eqn:Wt; cbn [orb].
    + apply FIN.
      * intros x [<-|Hx]; [apply in_or_app; right; left; reflexivity | apply in_or_app; left; apply H0w; exact Hx].
      * apply incl_app_l. exact H0r.
      * intros _. apply incl_cons; [left; reflexivity|]. apply incl_cons_r. apply HI1. unfold holds. rewrite Wt. apply Bool.orb_true_r.
      * cbn [rt_w]. intro Q. discriminate.
      * intros j tj vj N Lj Lvj. pose proof (writer_alone (h_g h) i t EX L Wt j tj N Lj) as NH. split; [intro Q; congruence|].
        intro Q. unfold holds in NH. rewrite Q in NH. rewrite Bool.orb_true_r in NH. discriminate.
    + apply FIN; [apply incl_app_l; exact H0w | apply incl_app_l; exact H0r | | | exact OTH].
      * unfold holds. cbn [rt_reads rt_up rt_w]. intro Q. apply HI1. unfold holds. rewrite Wt. exact Q.
      * cbn [rt_w]. intro Q. discriminate.
  - (* RUpgradeStart *)
    apply FIN; [exact H0w | exact H0r | | | exact OTH].
    + intros _. apply HI1. unfold holds. rewrite EN. rewrite Bool.orb_true_r. reflexivity.
    + cbn [rt_w]. intro Q. discriminate.
  - (* RTryUpgrade *)
    apply FIN; [exact H0w | exact H0r | | | exact OTH].
    + intros _. apply incl_app_r. exact H0w.
    + intros _. apply incl_app_r. exact H0r.
  - (* RDowngradeWrite: a write ticket, released; the writer becomes a reader *)
    apply FIN.
    + intros x [<-|Hx]; [apply in_or_app; right; left; reflexivity | apply in_or_app; left; apply H0w; exact Hx].
    + apply incl_app_l. exact H0r.
    + intros _. apply incl_cons; [left; reflexivity|]. apply incl_cons_r. apply HI1. unfold holds. rewrite EN. apply Bool.orb_true_r.
    + cbn [rt_w]. intro Q. discriminate.
    + intros j tj vj N Lj Lvj. pose proof (writer_alone (h_g h) i t EX L EN j tj N Lj) as NH. split; [intro Q; congruence|].
      intro Q. unfold holds in NH. rewrite Q in NH. rewrite Bool.orb_true_r in NH. discriminate.
  - (* RDowngradeToUp *)
    apply FIN.
    + intros x [<-|Hx]; [apply in_or_app; right; left; reflexivity | apply in_or_app; left; apply H0w; exact Hx].
    + apply incl_app_l. exact H0r.
    + intros _. apply incl_cons; [left; reflexivity|]. apply incl_cons_r. apply HI1. unfold holds. rewrite EN. apply Bool.orb_true_r.
    + cbn [rt_w]. intro Q. discriminate.
    + intros j tj vj N Lj Lvj. pose proof (writer_alone (h_g h) i t EX L EN j tj N Lj) as NH. split; [intro Q; congruence|].
      intro Q. unfold holds in NH. rewrite Q in NH. rewrite Bool.orb_true_r in NH. discriminate.
Qed.

Lemma hstep_g h i a : h_g (hstep h i a) = rstep (h_g h) i a.
Proof.
  unfold hstep. destruct (nth_error (rg_thr (h_g h)) i) as [t|] eqn:L.
  - destruct (enabled (h_g h) t a) eqn:EN; [destruct (effect t a) as [[[acq wtk] rtk] rel]; reflexivity|].
    symmetry. apply (enabled_sound _ _ _ _ L EN).
  - unfold rstep. rewrite L. reflexivity.
Qed.

Lemma Hb_init n : Hb (hb0 n).
Proof.
  unfold Hb, hb0. cbn. split; [intros x []|]. split; [intros x []|]. split.
  - intros i t v _ _. split; intros _ x [].
  - rewrite !repeat_length. reflexivity.
Qed.

Theorem hrun_Hb n sched : all_flags = true -> Hb (hrun n sched) /\ RExcl (h_g (hrun n sched)).
Proof.
  intro AF. unfold hrun.
  assert (G : forall h, RExcl (h_g h) -> Hb h -> Hb (fold_left (fun h p => hstep h (fst p) (snd p)) sched h) /\
                                               RExcl (h_g (fold_left (fun h p => hstep h (fst p) (snd p)) sched h))).
  { induction sched as [|[i a] r IH]; intros h Ex Hh; cbn [fold_left]; [split; assumption|].
    apply IH; [rewrite hstep_g; apply rstep_RExcl; exact Ex | apply hstep_Hb; assumption]. }
  apply G; [apply RExcl_init | apply Hb_init].
Qed.
End Machine.

(* ---------- instantiation with the orderings read from the source ---------- *)
Open Scope string_scope.
Definition sites_of (fn : string) : list site :=
  match find_fn fn fns with Some f => f_sites f | None => [] end.
Definition list_string_eqb (a b : list string) : bool :=
  Nat.eqb (List.length a) (List.length b) && forallb (fun p => String.eqb (fst p) (snd p)) (combine a b).
(* the ordering of the k-th site of [fn] with this kind and these operands (Relaxed if there is none) *)
Definition ord_of (fn kind : string) (args : list string) (k arg : nat) : ord :=
  match nth_error (filter (fun s => String.eqb (s_kind s) kind && list_string_eqb (s_args s) args) (sites_of fn)) k with
  | Some s => nth arg (s_ords s) Relaxed
  | None => Relaxed
  end.
Definition contains (s sub : string) : bool := match String.index 0 sub s with Some _ => true | None => false end.
(* an ordering that is a variable of the function (`load_ordering = if .. { Ordering::Acquire } else { Ordering::SeqCst }`):
   it acquires if none of the alternatives it names is Relaxed or Release *)
Definition is_acq (o : ord) : bool :=
  match o with
  | OrdVar e => contains e "Ordering::" && negb (contains e "Relaxed") && negb (contains e "Ordering::Release")
  | _ => is_acquire o
  end.
Definition is_rel (o : ord) : bool := match o with OrdVar _ => false | _ => is_release o end.

Definition RAW := "rwlock::raw::RawRwLock::".
Definition gen_rwflags : rwflags := mkRwF
  (is_acq (ord_of (String.append RAW "try_read") "compare_exchange" ["state"; "state+2"] 0 0) &&
   is_acq (ord_of "rwlock::raw::RawRead::poll_with_strategy" "compare_exchange" ["*this.state"; "*this.state+2"] 0 0))
  (is_acq (ord_of (String.append RAW "try_upgradable_read") "compare_exchange" ["state"; "state+2"] 0 0) &&
   is_acq (ord_of "rwlock::raw::RawUpgradableRead::poll_with_strategy" "compare_exchange" ["state"; "state+2"] 0 0))
  (is_acq (ord_of (String.append RAW "try_write") "compare_exchange" ["0"; "1"] 0 0))
  (is_acq (ord_of (String.append RAW "try_upgrade") "compare_exchange" ["2"; "1"] 0 0))
  (is_acq (ord_of "rwlock::raw::RawWrite::poll_with_strategy" "fetch_or" ["1"] 0 0) &&
   is_acq (ord_of "rwlock::raw::RawWrite::poll_with_strategy" "load" [] 0 0) &&
   is_acq (ord_of "rwlock::raw::RawUpgrade::poll_with_strategy" "load" [] 0 0))
  (is_rel (ord_of (String.append RAW "read_unlock") "fetch_sub" ["2"] 0 0))
  (is_rel (ord_of (String.append RAW "upgradable_read_unlock") "fetch_sub" ["2"] 0 0))
  (is_rel (ord_of (String.append RAW "write_unlock") "fetch_and" ["!1"] 0 0))
  (is_rel (ord_of (String.append RAW "downgrade_write") "fetch_add" ["1"] 0 0))
  (is_rel (ord_of (String.append RAW "downgrade_to_upgradable") "fetch_add" ["1"] 0 0)).
Definition rw_ord_ok : bool := all_flags gen_rwflags.

Open Scope list_scope.
(* ---------- search support: an executable form of Hb and candidate schedules, one per edge ----------
   (used only when [rw_ord_premises] no longer checks; it is not part of any proof) *)
Definition inclb (a b : list nat) : bool := forallb (fun x => existsb (Nat.eqb x) b) a.
Definition hb_okb (h : hbst) : bool :=
  inclb (h_wt h) (h_V h) && inclb (h_rt h) (h_V h) &&
  forallb (fun p => (if holds (fst p) then inclb (h_wt h) (snd p) else true) && (if rt_w (fst p) then inclb (h_rt h) (snd p) else true))
          (combine (rg_thr (h_g h)) (h_tv h)).
Definition wr0 : list (nat * raction) := [(0%nat, RMutexLock); (0%nat, RTryWriteCas)].
Definition candidates : list (list (nat * raction)) :=
  [ wr0 ++ [(0%nat, RClear); (0%nat, RMutexUnlock); (1%nat, RReadCas 0)];                                   (* write, then read *)
    wr0 ++ [(0%nat, RClear); (0%nat, RMutexUnlock); (1%nat, RMutexLock); (1%nat, RUpCas 0)];                 (* write, then upgradable read *)
    wr0 ++ [(0%nat, RClear); (0%nat, RMutexUnlock); (1%nat, RMutexLock); (1%nat, RTryWriteCas)];             (* write, then try_write *)
    wr0 ++ [(0%nat, RClear); (0%nat, RMutexUnlock); (1%nat, RMutexLock); (1%nat, RAnnounce); (1%nat, RObserve)]; (* write, then write() *)
    wr0 ++ [(0%nat, RDowngradeWrite); (0%nat, RMutexUnlock); (1%nat, RReadCas 2)];                           (* downgrade, then read *)
    wr0 ++ [(0%nat, RDowngradeToUp); (1%nat, RReadCas 2)];                                                  (* downgrade_to_upgradable, then read *)
    [(1%nat, RReadCas 0); (1%nat, RReadUnlock); (0%nat, RMutexLock); (0%nat, RTryWriteCas)];                 (* read, then try_write *)
    [(1%nat, RReadCas 0); (1%nat, RReadUnlock); (0%nat, RMutexLock); (0%nat, RAnnounce); (0%nat, RObserve)]; (* read, then write() *)
    [(1%nat, RMutexLock); (1%nat, RUpCas 0); (1%nat, RUpDec); (1%nat, RMutexUnlock); (0%nat, RMutexLock); (0%nat, RTryWriteCas)]; (* upgradable read, then try_write *)
    [(1%nat, RReadCas 0); (0%nat, RMutexLock); (0%nat, RUpCas 2); (1%nat, RReadUnlock); (0%nat, RTryUpgrade)] ]. (* read, then try_upgrade *)
Definition bad_schedule : option (list (nat * raction)) :=
  find (fun sc => negb (hb_okb (hrun gen_rwflags 2 sc))) candidates.
Definition ord_report : list (string * bool) :=
  [("try_read / RawRead compare_exchange(state, state+2): Acquire", a_read gen_rwflags);
   ("try_upgradable_read / RawUpgradableRead compare_exchange(state, state+2): Acquire", a_up gen_rwflags);
   ("try_write compare_exchange(0, WRITER_BIT): Acquire", a_trywrite gen_rwflags);
   ("try_upgrade compare_exchange(ONE_READER, WRITER_BIT): Acquire", a_tryup gen_rwflags);
   ("RawWrite fetch_or(WRITER_BIT) and the loads of RawWrite / RawUpgrade: Acquire", a_obs gen_rwflags);
   ("read_unlock fetch_sub(ONE_READER): Release", r_runl gen_rwflags);
   ("upgradable_read_unlock fetch_sub(ONE_READER): Release", r_uunl gen_rwflags);
   ("write_unlock fetch_and(!WRITER_BIT): Release", r_wunl gen_rwflags);
   ("downgrade_write fetch_add: Release", r_dgw gen_rwflags);
   ("downgrade_to_upgradable fetch_add: Release", r_dgu gen_rwflags)].

(* the candidates are real edges: with an ordering weakened the statement fails on them *)
Example rw_hb_teeth_release :
  hb_okb (hrun (mkRwF true true true true true true true false true true) 2 (nth 0 candidates [])) = false.
Proof. vm_compute. reflexivity. Qed.
Example rw_hb_teeth_acquire :
  hb_okb (hrun (mkRwF true true false true true true true true true true) 2 (nth 6 candidates [])) = false.
Proof. vm_compute. reflexivity. Qed.
Example rw_hb_candidates_ok : forallb (fun sc => hb_okb (hrun (mkRwF true true true true true true true true true true) 2 sc)) candidates = true.
Proof. vm_compute. reflexivity. Qed.
(* and each candidate really ends with the second thread holding a guard *)
Example rw_hb_candidates_hold :
  forallb (fun sc => existsb holds (rg_thr (h_g (hrun (mkRwF true true true true true true true true true true) 2 sc)))) candidates = true.
Proof. vm_compute. reflexivity. Qed.
