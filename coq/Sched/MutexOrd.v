(* MutexOrd.v — the only facts about the source's Orderings that the happens-before theorem of the
   Mutex needs: every acquiring site has an Acquire success ordering and unlock is a Release.
   [gen_mords] is read from Gen/Sites.v, i.e. from the source, on every run. *)
From AL.Sched Require Import MutexSched.
Lemma mutex_ord_premises : ord_premises gen_mords = true.
Proof. vm_compute. reflexivity. Qed.
