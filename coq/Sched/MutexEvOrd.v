(* MutexEvOrd.v — the only fact about the source that the schedule-level theorem of the Mutex (C05) needs: in
   AcquireSlow::poll_with_strategy each of the two listen() sites is followed by its compare_exchange and then by
   `*this.listener = None`. [gen_mutex_bt] is read from Gen/Sites.v, i.e. from the source, on every run. *)
From AL.Sched Require Import MutexEvSched.
Lemma mutex_bt_premise : gen_mutex_bt = true.
Proof. vm_compute. reflexivity. Qed.
