(* SemEvSolo.v — tie between the micro-step machine of the Semaphore (SemEvSched.v) and the poll-granular model
   (SemApi.v), hence — through the correspondence check, which runs this on every history the real crate executed —
   between the micro-step machine and the implementation on sequential schedules.
   [sstep2] runs an operation on the poll-granular model and, when the model accepts it, the same operation on the
   micro-step machine WITHOUT interleaving (a poll = its atomic actions in program order; a guard drop = fetch_add
   then notify), then compares the two states: counter, the event list entry by entry (ids, Created / Task of which
   future / Notified), next listener id, and per future: unpolled / pending / done, listener, woken flag.
   Executable definitions only (extracted into the driver). *)
From AL Require Import Base Api Semaphore SemApi.
From AL.Sched Require SemEvSched.
From Coq Require Import Lia.
Import SemEvSched.
Open Scope N_scope.
Open Scope list_scope.

Definition NFUTS : nat := 64.

(* a poll of future i run to its end without interleaving *)
Fixpoint solo (fuel : nat) (bt : bool) (s : gst) (i : nat) : gst :=
  match fuel with
  | O => s
  | S k =>
      match getf s i with
      | Some f =>
          match fpc f with
          | PTry => solo k bt (step bt s (if 0 <? g_cnt s then ACas i else AZero i)) i
          | PNone => solo k bt (step bt s (AWait i)) i
          | PGot => solo k bt (step bt s (ADropLis i)) i
          | PBaton => solo k bt (step bt s (ABaton i)) i
          | PNotify => solo k bt (step bt s (ANotify i)) i
          | _ => s
          end
      | None => s
      end
  end.

Definition micro_op (bt : bool) (s : gst) (o : sop) : gst :=
  match o with
  | SAcquire _ => s
  | SPoll f _ => solo 12 bt (step bt s (APoll f)) f
  | SDropFut f => step bt s (ACancel f)
  | STry _ => if 0 <? g_cnt s then step bt s ATry else s
  | SDropGuard _ => step bt (step bt s ARelease) (APend 0)
  | SForget _ => step bt s AForget
  | SAdd n => step bt (step bt s (AAdd n)) (APend 0)
  | SCloneArc | SDropArc => s
  end.

(* the model's entry with the waker tag 4f+k replaced by the future f *)
Definition norm_entry (e : entry) : entry :=
  match est e with
  | Task w => mkEntry (eid e) (Task (Nat.div w 4))
  | _ => e
  end.
Definition estate_eqb (a b : estate) : bool :=
  match a, b with
  | Created, Created => true
  | Task v, Task w => Nat.eqb v w
  | Notified x, Notified y => Bool.eqb x y
  | _, _ => false
  end.
Fixpoint event_eqb (a b : event) : bool :=
  match a, b with
  | [], [] => true
  | x :: r, y :: r' => Nat.eqb (eid x) (eid y) && estate_eqb (est x) (est y) && event_eqb r r'
  | _, _ => false
  end.
Definition optnat_eqb (a b : option nat) : bool :=
  match a, b with Some x, Some y => Nat.eqb x y | None, None => true | _, _ => false end.

(* future fid of the model against slot fid of the machine *)
Definition fut_rel (x : sworld) (s : gst) (fid : nat) : bool :=
  match alookup fid (s_futs x), getf s fid with
  | Some f, Some g =>
      optnat_eqb (sf_lis f) (flis g) &&
      match fm_st (sf_meta f), fpc g with
      | FUnpolled, PIdle => true
      | FPending, PParked => Bool.eqb (fm_woken (sf_meta f)) (fwok g)
      | FDone, PDone => true
      | _, _ => false
      end
  | None, Some g => match fpc g with PIdle | PGone => true | _ => false end
  | _, None => false
  end.
Definition simrel (x : sworld) (s : gst) : bool :=
  (sw0 (s_sh x) =? g_cnt s) && event_eqb (map norm_entry (se0 (s_sh x))) (g_ev s) && Nat.eqb (snid (s_sh x)) (g_nid s) &&
  (N.of_nat (length (s_guards x)) =? g_held s) && forallb (fut_rel x s) (seq 0 (s_nf x)) &&
  match g_pend s with [] => true | _ => false end.

Definition sw2_init (n : N) : sworld * gst := (sw_init n, g0 n NFUTS).
(* (new states, the model's observation, do the two states agree?) — the comparison stops (answers true) once the
   machine's preallocated futures are used up or the permits exceed 2^64 (the machine's counter is unbounded) *)
Definition sstep2 (bt : bool) (xs : sworld * gst) (o : sop) : (sworld * gst) * obs * bool :=
  let '(x, s) := xs in
  let '(x', ob) := sstep x o in
  let s' := match o_res ob with RInvalid => s | _ => micro_op bt s o end in
  let out_of_scope := Nat.leb NFUTS (s_nf x') || (USZ <=? s_total x') in
  ((x', s'), ob, out_of_scope || simrel x' s').

(* search support for the statement "they always agree": the index (from 1) of the first operation after which
   the states differ, 0 if none *)
Fixpoint first_diff (bt : bool) (xs : sworld * gst) (ops : list sop) (k : N) : N :=
  match ops with
  | [] => 0
  | o :: r => let '(xs', _, ok) := sstep2 bt xs o in if ok then first_diff bt xs' r (k + 1) else k + 1
  end.
Definition sem_micro_check (bt : bool) (n : N) (ops : list sop) : N := first_diff bt (sw2_init n) ops 0.
