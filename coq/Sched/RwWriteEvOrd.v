(* RwWriteEvOrd.v — the only fact about the source that the schedule-level theorem of the RwLock's writer side (C06 (d))
   needs: RawWrite and RawUpgrade drop their listener (`*this.no_readers = None` / `*this.listener = None`) when they
   complete. [gen_wr_bt] is read from Gen/Sites.v, i.e. from the source, on every run. *)
From AL.Sched Require Import RwWriteEvSched.
Lemma wr_bt_premise : gen_wr_bt = true.
Proof. vm_compute. reflexivity. Qed.
