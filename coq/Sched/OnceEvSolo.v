(* OnceEvSolo.v — tie between the micro-step machine of the OnceCell (OnceEvSched.v) and the poll-granular model
   (OnceApi.v), hence — through the correspondence check, which runs this on every history the real crate executed —
   between the micro-step machine and the implementation on sequential schedules. [ostep2] runs an operation on the model
   and, when the model accepts it, on the machine without interleaving (the closure of an initialiser does what the
   model's gate says: pending until resolved, then Ok / Err / panic; `set` succeeds at once), then compares the states:
   the state word, the entries of active_initializers in order (Created / Task of which future / Notified; listener ids
   are not compared: the model numbers the listeners of both events from one supply), and per get_or_init /
   get_or_try_init / set future: unpolled / waiting (position of its listener, woken flag) / initialising (position of a
   stale listener) / done. wait() futures and `take` are outside the machine (after a successful take the comparison
   stops). Executable definitions only (extracted into the driver). *)
From AL Require Import Base Api OnceApi.
From AL.Sched Require OnceEvSched.
From Coq Require Import Lia.
Import OnceEvSched.
Open Scope N_scope.
Open Scope list_scope.

Definition NFUTS : nat := 64.

Fixpoint solo (fuel : nat) (s : gst) (i : nat) (c : nat) : gst :=
  match fuel with
  | O => s
  | S k =>
      match getf s i with
      | Some f => match fpc f with
                  | OLoad | OCas | OListen | OPollL | ORun | OStoreD | ONotA | OStoreU | ONot1 | ORet => solo k (step true true s (AStep i c)) i c
                  | _ => s
                  end
      | None => s
      end
  end.

(* what the closure of future [fid] does when it is polled *)
Definition closure_choice (x : oworld) (fid : nat) : nat :=
  match alookup fid (o_futs x) with
  | Some (mkOfut (OFInit (IKSet _) _ _) _) => 1%nat
  | Some (mkOfut (OFInit _ _ (Some (OOk _))) _) => 1%nat
  | Some (mkOfut (OFInit _ _ (Some _)) _) => 2%nat
  | _ => 0%nat
  end.
Definition is_init (x : oworld) (fid : nat) : bool :=
  match alookup fid (o_futs x) with Some (mkOfut (OFInit _ _ _) _) => true | _ => false end.

Definition micro_op (x : oworld) (s : gst) (o : oop) : gst :=
  match o with
  | OPoll f _ => if is_init x f then solo 24 (step true true s (APoll f)) f (closure_choice x f) else s
  | ODropFut f => if is_init x f then solo 8 (step true true s (ACancel f)) f 0 else s
  | _ => s
  end.

Definition norm_est (e : estate) : estate := match e with Task w => Task (Nat.div w 4) | _ => e end.
Definition estate_eqb (a b : estate) : bool :=
  match a, b with
  | Created, Created => true
  | Task v, Task w => Nat.eqb v w
  | Notified x, Notified y => Bool.eqb x y
  | _, _ => false
  end.
Fixpoint states_eqb (a b : event) : bool :=
  match a, b with
  | [], [] => true
  | x :: r, y :: r' => estate_eqb (norm_est (est x)) (est y) && states_eqb r r'
  | _, _ => false
  end.
Fixpoint pos (id : nat) (l : event) : option nat :=
  match l with
  | [] => None
  | e :: r => if Nat.eqb (eid e) id then Some 0%nat else option_map S (pos id r)
  end.
Definition optnat_eqb (a b : option nat) : bool :=
  match a, b with Some x, Some y => Nat.eqb x y | None, None => true | _, _ => false end.
Definition lpos (o : option nat) (l : event) : option nat := match o with Some id => pos id l | None => None end.

Definition fut_rel (x : oworld) (s : gst) (fid : nat) : bool :=
  match alookup fid (o_futs x), getf s fid with
  | Some (mkOfut (OFWait _) _), Some g => match fpc g with OIdle => true | _ => false end
  | Some (mkOfut (OFInit _ ist _) m), Some g =>
      match ist, fpc g with
      | IUnpolled, OIdle => true
      | IWait id, OParked => optnat_eqb (pos id (se0 (o_sh x))) (lpos (flis g) (g_ev s)) && Bool.eqb (fm_woken m) (fwok g)
      | IRunning el, ORunP => optnat_eqb (lpos el (se0 (o_sh x))) (lpos (flis g) (g_ev s))
      | IFin, ODone => match flis g with None => true | Some _ => false end
      | _, _ => false
      end
  | None, Some g => match fpc g with OIdle | OGone => true | _ => false end
  | _, None => false
  end.
Definition st_rel (w : N) (c : cst) : bool :=
  match c with SU => w =? ST_UNINIT | SI => w =? ST_INITING | SD => w =? ST_INIT end.
Definition simrel (x : oworld) (s : gst) : bool :=
  st_rel (sw0 (o_sh x)) (g_st s) && states_eqb (se0 (o_sh x)) (g_ev s) && forallb (fut_rel x s) (seq 0 (o_nf x)).

Definition ow2_init : oworld * gst * bool := (ow0, g0 NFUTS, true).
Definition ostep2 (xs : oworld * gst * bool) (o : oop) : (oworld * gst * bool) * obs * bool :=
  let '(x, s, inscope) := xs in
  let '(x', ob) := ostep x o in
  let s' := match o_res ob with RInvalid => s | _ => micro_op x s o end in
  let took := match o, o_res ob with OTake, RVal _ => true | ODropCell, RUnit => true | _, _ => false end in
  let inscope' := inscope && negb took && Nat.ltb (o_nf x') NFUTS in
  ((x', s', inscope'), ob, negb inscope' || simrel x' s').

Fixpoint first_diff (xs : oworld * gst * bool) (ops : list oop) (k : N) : N :=
  match ops with
  | [] => 0
  | o :: r => let '(xs', _, ok) := ostep2 xs o in if ok then first_diff xs' r (k + 1) else k + 1
  end.
Definition once_micro_check (ops : list oop) : N := first_diff ow2_init ops 0.
