(* RwComp.v — the reader-side and the writer-side machines of the RwLock run TOGETHER on one WRITER_BIT (C06, schedule
   half, clauses (b) and (d) in terms of what is alive rather than of the bit).

   RwReadEvSched.v keeps the bit and no_writer and treats the writers as an abstract environment (AWSet / AWClear / APend);
   RwWriteEvSched.v keeps the reader count, the bit and no_readers and treats the readers as an abstract environment
   (ARead / ARUnlock / APend). Their theorems hold for EVERY schedule of their environment. Here the two environments are
   each other: a composed action is translated — depending on the composed state — into the actions of the two machines
   that the corresponding atomic step of the code consists of:
     a reader's successful compare_exchange        = its AStep        + the writer side's ARead
     write(): fetch_or after the inner mutex       = AEnter           + the reader side's AWSet
     upgrade(): fetch_sub(ONE_READER - WRITER_BIT) = AEnter (upgrade) + AWSet
     write_unlock of a guard / of a cancelled future = AUnlock / ACancel + AWClear (the clearing thread then owes
                                                      no_writer.notify(1): CPendNW)
     downgrade of a write guard: fetch_add(ONE_READER - WRITER_BIT) = AUnlock + ARead + AWClear
     a reader / upgradable guard dropped           = ARUnlock (the last one then owes no_readers.notify(1): CPendNR)
   Each component of a composed run IS a run of that component's machine (on the translated schedule), so both
   no-lost-wake-up theorems hold of it; the coherence invariant says that the two copies of WRITER_BIT agree and equal
   "some future is past the inner mutex" — which turns clause (b) into a statement about writers. The inner mutex stays
   abstract (as in RwWriteEvSched.v): C05_sched is about it. *)
From AL Require Import Base BaseFacts EventFacts.
From AL.Sched Require Import EvOwn.
From AL.Sched Require RwReadEvSched RwWriteEvSched RwReadEvInv RwWriteEvInv.
From Coq Require Import Lia.
Module R := RwReadEvSched.
Module W := RwWriteEvSched.
Module RI := RwReadEvInv.
Module WI := RwWriteEvInv.
Open Scope N_scope.
Open Scope list_scope.

Inductive cact :=
| CRPoll (i : nat) (lw0 : bool) | CRStep (i : nat) (fail : bool) | CRCancel (i : nat)
| CRUnlock | CURead | CPendNR
| CWEnter (j : nat) (up : bool) | CWPoll (j : nat) | CWStep (j : nat) | CWCancel (j : nat) | CWUnlock (j : nat) | CWDowngrade (j : nat)
| CPendNW.

Record cst := mkC { cR : R.gst; cW : W.gst; aR : list R.act; aW : list W.act }.

Definition wpc (s : W.gst) (j : nat) : option W.pcs := option_map W.fpc (W.getf s j).
Definition enter_ok (s : W.gst) (j : nat) (up : bool) : bool :=
  match wpc s j with
  | Some W.WIdle => negb (W.g_act s || (up && (W.g_rd s =? 0)))
  | _ => false
  end.
Definition read_succeeds (s : R.gst) (i : nat) (fail : bool) : bool :=
  match R.getf s i with
  | Some f => match R.fpc f with R.R0 => negb (R.flw f) && negb (R.g_wb s) && negb fail | _ => false end
  | None => false
  end.

Definition tr (s : cst) (a : cact) : list R.act * list W.act :=
  match a with
  | CRPoll i lw0 => ([R.APoll i lw0], [])
  | CRStep i fail => ([R.AStep i fail], if read_succeeds (cR s) i fail then [W.ARead] else [])
  | CRCancel i => ([R.ACancel i], [])
  | CRUnlock => ([], [W.ARUnlock])
  | CURead => ([], [W.ARead])
  | CPendNR => ([], [W.APend])
  | CWEnter j up => if enter_ok (cW s) j up then ([R.AWSet], [W.AEnter j up]) else ([], [])
  | CWPoll j => ([], [W.APoll j])
  | CWStep j => ([], [W.AStep j])
  | CWCancel j => match wpc (cW s) j with
                  | Some W.WParked | Some W.WNew => ([R.AWClear], [W.ACancel j])
                  | _ => ([], [W.ACancel j])
                  end
  | CWUnlock j => match wpc (cW s) j with Some W.WDone => ([R.AWClear], [W.AUnlock j]) | _ => ([], []) end
  | CWDowngrade j => match wpc (cW s) j with Some W.WDone => ([R.AWClear], [W.AUnlock j; W.ARead]) | _ => ([], []) end
  | CPendNW => ([R.APend], [])
  end.

Definition cstep (s : cst) (a : cact) : cst :=
  let '(ra, wa) := tr s a in
  mkC (fold_left (R.step true) ra (cR s)) (fold_left (W.step true) wa (cW s)) (aR s ++ ra) (aW s ++ wa).
Definition c0 (nr nw : nat) : cst := mkC (R.g0 nr) (W.g0 0 nw) [] [].
Definition crun (nr nw : nat) (sched : list cact) : cst := fold_left cstep sched (c0 nr nw).

(* ---------- each component of a composed run is a run of that component's machine ---------- *)
Lemma crun_components nr nw sched :
  cR (crun nr nw sched) = R.run true nr (aR (crun nr nw sched)) /\ cW (crun nr nw sched) = W.run true 0 nw (aW (crun nr nw sched)).
Proof.
  unfold crun. assert (H : cR (c0 nr nw) = R.run true nr (aR (c0 nr nw)) /\ cW (c0 nr nw) = W.run true 0 nw (aW (c0 nr nw))) by (split; reflexivity).
  revert H. generalize (c0 nr nw). induction sched as [|a l IH]; intros s H; cbn [fold_left]; [exact H|].
  apply IH. destruct H as (HR & HW). unfold cstep. destruct (tr s a) as [ra wa]. cbn [cR cW aR aW].
  unfold R.run, W.run in *. rewrite !fold_left_app. rewrite <- HR, <- HW. split; reflexivity.
Qed.

(* ---------- what the actions do to the bit ---------- *)
Lemma R_wb_step s a : R.g_wb (R.step true s a) = match a with R.AWSet => true | R.AWClear => false | _ => R.g_wb s end.
Proof.
  destruct a as [i lw0|i fail|i| | |]; cbn [R.step].
  - destruct (R.getf s i) as [f|]; [|reflexivity]. destruct (R.fpc f); reflexivity.
  - destruct (R.getf s i) as [f|]; [|reflexivity]. destruct (R.fpc f); try reflexivity.
    + destruct (negb (R.flw f)); [destruct (negb (R.g_wb s) && negb fail); reflexivity|].
      destruct (R.flis f) as [id|]; [|reflexivity]. destruct (ev_poll id i (R.g_ev s)) as [[l [|]]|]; reflexivity.
    + unfold R.do_notify. cbn [R.g_ev R.with_fut]. destruct (ev_notify 1 false (R.g_ev s)). reflexivity.
    + unfold R.do_drop. cbn [R.g_ev]. destruct (ev_drop_opt (R.flis f) (R.g_ev s)). reflexivity.
  - destruct (R.getf s i) as [f|]; [|reflexivity]. destruct (R.fpc f); try reflexivity;
      unfold R.do_drop; cbn [R.g_ev R.with_fut]; destruct (ev_drop_opt (R.flis f) (R.g_ev s)); reflexivity.
  - destruct (R.g_wb s) eqn:E; [exact E | reflexivity].
  - destruct (R.g_wb s) eqn:E; [reflexivity | exact E].
  - destruct (0 <? R.g_pend s); [|reflexivity]. unfold R.do_notify. cbn [R.g_ev]. destruct (ev_notify 1 false (R.g_ev s)). reflexivity.
Qed.

Definition wbit (s : W.gst) : bool * bool := (W.g_wb s, W.g_act s).
Lemma W_wb_step s a : wbit (W.step true s a) =
  match a with
  | W.AEnter j up => if enter_ok s j up then (true, true) else wbit s
  | W.ACancel j => match wpc s j with Some W.WParked | Some W.WNew => (false, false) | _ => wbit s end
  | W.AUnlock j => match wpc s j with Some W.WDone => (false, false) | _ => wbit s end
  | _ => wbit s
  end.
Proof.
  unfold wbit, enter_ok, wpc. destruct a as [i up|i|i|i|i| | |]; cbn [W.step].
  - destruct (W.getf s i) as [f|]; cbn [option_map]; [|reflexivity]. destruct (W.fpc f); try reflexivity.
    destruct (W.g_act s || (up && (W.g_rd s =? 0))); reflexivity.
  - destruct (W.getf s i) as [f|]; [|reflexivity]. destruct (W.fpc f); reflexivity.
  - destruct (W.getf s i) as [f|]; [|reflexivity]. destruct (W.fpc f); try reflexivity.
    + destruct (W.g_rd s =? 0); reflexivity.
    + destruct (W.flis f) as [id|]; [|reflexivity]. destruct (ev_poll id i (W.g_ev s)) as [[l [|]]|]; reflexivity.
    + unfold W.do_drop. cbn [W.g_ev W.with_fut]. destruct (ev_drop_opt (W.flis f) (W.g_ev s)). reflexivity.
    + unfold W.do_drop. cbn [W.g_ev W.with_fut]. destruct (ev_drop_opt (W.flis f) (W.g_ev s)). reflexivity.
  - destruct (W.getf s i) as [f|]; cbn [option_map]; [|reflexivity]. destruct (W.fpc f); reflexivity.
  - destruct (W.getf s i) as [f|]; cbn [option_map]; [|reflexivity]. destruct (W.fpc f); reflexivity.
  - destruct (W.g_wb s) eqn:E; cbn [W.g_wb W.g_act]; rewrite ?E; reflexivity.
  - destruct (0 <? W.g_rd s); reflexivity.
  - destruct (0 <? W.g_pend s); [|reflexivity]. unfold W.do_notify. cbn [W.g_ev]. destruct (ev_notify 1 false (W.g_ev s)). reflexivity.
Qed.

(* ---------- coherence ---------- *)
Definition wspec (s : W.gst) (a : W.act) : bool * bool :=
  match a with
  | W.AEnter j up => if enter_ok s j up then (true, true) else wbit s
  | W.ACancel j => match wpc s j with Some W.WParked | Some W.WNew => (false, false) | _ => wbit s end
  | W.AUnlock j => match wpc s j with Some W.WDone => (false, false) | _ => wbit s end
  | _ => wbit s
  end.
Lemma W_bits s a : W.g_wb (W.step true s a) = fst (wspec s a) /\ W.g_act (W.step true s a) = snd (wspec s a).
Proof. pose proof (W_wb_step s a) as Q. fold (wspec s a) in Q. unfold wbit in Q at 1. rewrite <- Q. split; reflexivity. Qed.

Definition Coh (s : cst) : Prop := R.g_wb (cR s) = W.g_wb (cW s) /\ W.g_act (cW s) = W.g_wb (cW s).

Ltac wb1 a := match goal with |- context [W.step true ?x a] =>
  rewrite (proj1 (W_bits x a)), (proj2 (W_bits x a)); cbn [wspec wbit fst snd] end.

Lemma cstep_Coh s a : Coh s -> Coh (cstep s a).
Proof.
  intros (C1 & C2). unfold Coh, cstep.
  destruct a as [i lw0|i fail|i| | | |j up|j|j|j|j|j|]; cbn [tr].
  - cbn [fold_left cR cW]. rewrite R_wb_step. split; assumption.
  - destruct (read_succeeds (cR s) i fail); cbn [fold_left cR cW]; rewrite R_wb_step; [wb1 W.ARead|]; split; assumption.
  - cbn [fold_left cR cW]. rewrite R_wb_step. split; assumption.
  - cbn [fold_left cR cW]. wb1 W.ARUnlock. split; assumption.
  - cbn [fold_left cR cW]. wb1 W.ARead. split; assumption.
  - cbn [fold_left cR cW]. wb1 W.APend. split; assumption.
  - destruct (enter_ok (cW s) j up) eqn:E; cbn [fold_left cR cW]; [|split; assumption].
    rewrite R_wb_step. wb1 (W.AEnter j up). rewrite E. cbn [fst snd]. split; reflexivity.
  - cbn [fold_left cR cW]. wb1 (W.APoll j). split; assumption.
  - cbn [fold_left cR cW]. wb1 (W.AStep j). split; assumption.
  - destruct (wpc (cW s) j) as [[]|] eqn:E; cbn [fold_left cR cW]; try rewrite R_wb_step; wb1 (W.ACancel j); rewrite E; cbn [wbit fst snd]; split; try reflexivity; assumption.
  - destruct (wpc (cW s) j) as [[]|] eqn:E; cbn [fold_left cR cW]; try (split; assumption).
    rewrite R_wb_step. wb1 (W.AUnlock j). rewrite E. cbn [fst snd]. split; reflexivity.
  - destruct (wpc (cW s) j) as [[]|] eqn:E; cbn [fold_left cR cW]; try (split; assumption).
    rewrite R_wb_step. wb1 W.ARead. wb1 (W.AUnlock j). rewrite E. cbn [fst snd]. split; reflexivity.
  - cbn [fold_left cR cW]. rewrite R_wb_step. split; assumption.
Qed.

Theorem crun_Coh nr nw sched : Coh (crun nr nw sched).
Proof.
  unfold crun. assert (H : Coh (c0 nr nw)) by (split; reflexivity). revert H. generalize (c0 nr nw).
  induction sched as [|a l IH]; intros s H; cbn [fold_left]; [exact H|]. apply IH. apply cstep_Coh. exact H.
Qed.

(* ---------- C06 on the composed run ---------- *)
(* both component theorems hold of every composed run *)
Theorem rw_comp_no_lost_wakeup nr nw sched :
  R.lostb (cR (crun nr nw sched)) = false /\ W.lostb (cW (crun nr nw sched)) = false.
Proof.
  destruct (crun_components nr nw sched) as (HR & HW). rewrite HR, HW.
  split; [apply RI.rw_read_sched_no_lost_wakeup | apply WI.rw_write_sched_no_lost_wakeup].
Qed.

(* clause (b), in terms of writers: no future is past the inner mutex (no write() announced, no upgrade pending, no write
   guard alive: nothing between its fetch_or / fetch_sub and the end of its guard), the reader side is at rest ==> no
   polled read() waits *)
Theorem rw_comp_readers nr nw sched :
  let s := crun nr nw sched in
  WI.cntb WI.actpc (W.g_futs (cW s)) = 0 -> R.quiescentb (cR s) = true -> existsb R.parkedb (R.g_futs (cR s)) = false.
Proof.
  intros s A Q. destruct (crun_Coh nr nw sched) as (C1 & C2). fold s in C1, C2.
  destruct (crun_components nr nw sched) as (_ & HW). fold s in HW.
  pose proof (WI.run_inv (aW s) 0 nw) as (_ & Ai & _). rewrite <- HW in Ai. unfold WI.Ainv in Ai. rewrite A in Ai.
  assert (Act : W.g_act (cW s) = false) by (destruct (W.g_act (cW s)); [cbn in Ai; discriminate | reflexivity]).
  assert (Wb : R.g_wb (cR s) = false) by (rewrite C1, <- C2; exact Act).
  destruct (rw_comp_no_lost_wakeup nr nw sched) as (LR & _). fold s in LR. unfold R.lostb in LR. rewrite Wb, Q in LR. cbn [negb andb] in LR. exact LR.
Qed.

(* clause (d): no reader is left and the writer side is at rest ==> no polled write() / upgrade() waits *)
Theorem rw_comp_writer nr nw sched :
  let s := crun nr nw sched in
  W.g_rd (cW s) = 0 -> W.quiescentb (cW s) = true -> existsb W.parkedb (W.g_futs (cW s)) = false.
Proof.
  intros s Z Q. destruct (rw_comp_no_lost_wakeup nr nw sched) as (_ & LW). fold s in LW. unfold W.lostb in LW.
  rewrite Z, Q in LW. cbn in LW. exact LW.
Qed.

(* non-vacuity: a reader holds; a write() is announced and parks; a read() parks behind it; the reader leaves and notifies;
   the writer completes, its guard is dropped: the read() is woken and completes *)
Example rw_comp_example :
  let s := crun 2 1 [CRPoll 0 false; CRStep 0 false; CRStep 0 false;                      (* reader 0 gets in *)
                     CWEnter 0 false; CWStep 0; CWStep 0; CWStep 0; CWStep 0;             (* write(): announced, listens, parks *)
                     CRPoll 1 true; CRStep 1 false; CRStep 1 false; CRStep 1 false;       (* read() 1: listens, parks *)
                     CRUnlock; CPendNR; CWPoll 0; CWStep 0; CWStep 0;                     (* last reader leaves; the writer completes *)
                     CWUnlock 0; CPendNW; CRPoll 1 true; CRStep 1 false; CRStep 1 false; CRStep 1 false; CRStep 1 false; CRStep 1 false] in
  R.g_wb (cR s) = false /\ W.g_rd (cW s) = 1 /\ option_map R.fpc (R.getf (cR s) 1) = Some R.RDone /\ option_map W.fpc (W.getf (cW s) 0) = Some W.WGone.
Proof. vm_compute. repeat split. Qed.
