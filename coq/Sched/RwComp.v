(* RwComp.v — the reader-side and the writer-side machines of the RwLock run TOGETHER on one WRITER_BIT (C06, schedule
   half, clauses (b) and (d) in terms of what is alive rather than of the bit).

   RwReadEvSched.v keeps the bit and no_writer and treats the writers as an abstract environment (AWSet / AWClear / APend);
   RwWriteEvSched.v keeps the reader count, the bit and no_readers and treats the readers as an abstract environment
   (ARead / ARUnlock / APend). Their theorems hold for EVERY schedule of their environment. Here the two environments are
   each other: a composed action is translated — depending on the composed state — into the actions of the two machines
   that the corresponding atomic step of the code consists of:
     a reader's successful compare_exchange        = its AStep        + the writer side's ARead
     write(): fetch_or after the inner mutex       = AEnter           + the reader side's AWSet
     upgrade(): fetch_sub(ONE_READER - WRITER_BIT) = AEnter (upgrade) + AWSet
     write_unlock of a guard / of a cancelled future = AUnlock / ACancel + AWClear (the clearing thread then owes
                                                      no_writer.notify(1): CPendNW)
     downgrade of a write guard: fetch_add(ONE_READER - WRITER_BIT) = AUnlock + ARead + AWClear
     a reader / upgradable guard dropped           = ARUnlock (the last one then owes no_readers.notify(1): CPendNR)
   Each component of a composed run IS a run of that component's machine (on the translated schedule), so both
   no-lost-wake-up theorems hold of it; the coherence invariant says that the two copies of WRITER_BIT agree and equal
   "some future is past the inner mutex" — which turns clause (b) into a statement about writers. The inner mutex stays
   abstract (as in RwWriteEvSched.v): C05_sched is about it. *)
From AL Require Import Base BaseFacts EventFacts.
From AL.Sched Require Import EvOwn.
From AL.Sched Require RwReadEvSched RwWriteEvSched RwReadEvInv RwWriteEvInv.
From Coq Require Import Lia.
Open Scope N_scope.
Open Scope list_scope.

Inductive cact :=
| CRPoll (i : nat) (lw0 : bool) | CRStep (i : nat) (fail : bool) | CRCancel (i : nat)
| CRUnlock | CURead | CPendNR
| CWEnter (j : nat) (up : bool) | CWPoll (j : nat) | CWStep (j : nat) | CWCancel (j : nat) | CWUnlock (j : nat) | CWDowngrade (j : nat)
| CPendNW.

Record cst := mkC { cR : RwReadEvSched.gst; cW : RwWriteEvSched.gst; aR : list RwReadEvSched.act; aW : list RwWriteEvSched.act }.

Definition wpc (s : RwWriteEvSched.gst) (j : nat) : option RwWriteEvSched.pcs := option_map RwWriteEvSched.fpc (RwWriteEvSched.getf s j).
Definition enter_ok (s : RwWriteEvSched.gst) (j : nat) (up : bool) : bool :=
  match wpc s j with
  | Some RwWriteEvSched.WIdle => negb (RwWriteEvSched.g_act s || (up && (RwWriteEvSched.g_rd s =? 0)))
  | _ => false
  end.
Definition read_succeeds (s : RwReadEvSched.gst) (i : nat) (fail : bool) : bool :=
  match RwReadEvSched.getf s i with
  | Some f => match RwReadEvSched.fpc f with RwReadEvSched.R0 => negb (RwReadEvSched.flw f) && negb (RwReadEvSched.g_wb s) && negb fail | _ => false end
  | None => false
  end.

Definition tr (s : cst) (a : cact) : list RwReadEvSched.act * list RwWriteEvSched.act :=
  match a with
  | CRPoll i lw0 => ([RwReadEvSched.APoll i lw0], [])
  | CRStep i fail => ([RwReadEvSched.AStep i fail], if read_succeeds (cR s) i fail then [RwWriteEvSched.ARead] else [])
  | CRCancel i => ([RwReadEvSched.ACancel i], [])
  | CRUnlock => ([], [RwWriteEvSched.ARUnlock])
  | CURead => ([], [RwWriteEvSched.ARead])
  | CPendNR => ([], [RwWriteEvSched.APend])
  | CWEnter j up => if enter_ok (cW s) j up then ([RwReadEvSched.AWSet], [RwWriteEvSched.AEnter j up]) else ([], [])
  | CWPoll j => ([], [RwWriteEvSched.APoll j])
  | CWStep j => ([], [RwWriteEvSched.AStep j])
  | CWCancel j => match wpc (cW s) j with
                  | Some RwWriteEvSched.WParked | Some RwWriteEvSched.WNew => ([RwReadEvSched.AWClear], [RwWriteEvSched.ACancel j])
                  | _ => ([], [RwWriteEvSched.ACancel j])
                  end
  | CWUnlock j => match wpc (cW s) j with Some RwWriteEvSched.WDone => ([RwReadEvSched.AWClear], [RwWriteEvSched.AUnlock j]) | _ => ([], []) end
  | CWDowngrade j => match wpc (cW s) j with Some RwWriteEvSched.WDone => ([RwReadEvSched.AWClear], [RwWriteEvSched.AUnlock j; RwWriteEvSched.ARead]) | _ => ([], []) end
  | CPendNW => ([RwReadEvSched.APend], [])
  end.

Definition cstep (s : cst) (a : cact) : cst :=
  let '(ra, wa) := tr s a in
  mkC (fold_left (RwReadEvSched.step true) ra (cR s)) (fold_left (RwWriteEvSched.step true) wa (cW s)) (aR s ++ ra) (aW s ++ wa).
Definition c0 (nr nw : nat) : cst := mkC (RwReadEvSched.g0 nr) (RwWriteEvSched.g0 0 nw) [] [].
Definition crun (nr nw : nat) (sched : list cact) : cst := fold_left cstep sched (c0 nr nw).

(* ---------- each component of a composed run is a run of that component's machine ---------- *)
Lemma crun_components nr nw sched :
  cR (crun nr nw sched) = RwReadEvSched.run true nr (aR (crun nr nw sched)) /\ cW (crun nr nw sched) = RwWriteEvSched.run true 0 nw (aW (crun nr nw sched)).
Proof.
  unfold crun. assert (H : cR (c0 nr nw) = RwReadEvSched.run true nr (aR (c0 nr nw)) /\ cW (c0 nr nw) = RwWriteEvSched.run true 0 nw (aW (c0 nr nw))) by (split; reflexivity).
  revert H. generalize (c0 nr nw). induction sched as [|a l IH]; intros s H; cbn [fold_left]; [exact H|].
  apply IH. destruct H as (HR & HW). unfold cstep. destruct (tr s a) as [ra wa]. cbn [cR cW aR aW].
  unfold RwReadEvSched.run, RwWriteEvSched.run in *. rewrite !fold_left_app. rewrite <- HR, <- HW. split; reflexivity.
Qed.

(* ---------- what the actions do to the bit ---------- *)
Lemma R_wb_step s a : RwReadEvSched.g_wb (RwReadEvSched.step true s a) = match a with RwReadEvSched.AWSet => true | RwReadEvSched.AWClear => false | _ => RwReadEvSched.g_wb s end.
Proof.
  destruct a as [i lw0|i fail|i| | |]; cbn [RwReadEvSched.step].
  - destruct (RwReadEvSched.getf s i) as [f|]; [|reflexivity]. destruct (RwReadEvSched.fpc f); reflexivity.
  - destruct (RwReadEvSched.getf s i) as [f|]; [|reflexivity]. destruct (RwReadEvSched.fpc f); try reflexivity.
    + destruct (negb (RwReadEvSched.flw f)); [destruct (negb (RwReadEvSched.g_wb s) && negb fail); reflexivity|].
      destruct (RwReadEvSched.flis f) as [id|]; [|reflexivity]. destruct (ev_poll id i (RwReadEvSched.g_ev s)) as [[l [|]]|]; reflexivity.
    + unfold RwReadEvSched.do_notify. cbn [RwReadEvSched.g_ev RwReadEvSched.with_fut]. destruct (ev_notify 1 false (RwReadEvSched.g_ev s)). reflexivity.
    + unfold RwReadEvSched.do_drop. cbn [RwReadEvSched.g_ev]. destruct (ev_drop_opt (RwReadEvSched.flis f) (RwReadEvSched.g_ev s)). reflexivity.
  - destruct (RwReadEvSched.getf s i) as [f|]; [|reflexivity]. destruct (RwReadEvSched.fpc f); try reflexivity;
      unfold RwReadEvSched.do_drop; cbn [RwReadEvSched.g_ev RwReadEvSched.with_fut]; destruct (ev_drop_opt (RwReadEvSched.flis f) (RwReadEvSched.g_ev s)); reflexivity.
  - destruct (RwReadEvSched.g_wb s) eqn:E; [exact E | reflexivity].
  - destruct (RwReadEvSched.g_wb s) eqn:E; [reflexivity | exact E].
  - destruct (0 <? RwReadEvSched.g_pend s); [|reflexivity]. unfold RwReadEvSched.do_notify. cbn [RwReadEvSched.g_ev]. destruct (ev_notify 1 false (RwReadEvSched.g_ev s)). reflexivity.
Qed.

Definition wbit (s : RwWriteEvSched.gst) : bool * bool := (RwWriteEvSched.g_wb s, RwWriteEvSched.g_act s).
Lemma W_wb_step s a : wbit (RwWriteEvSched.step true s a) =
  match a with
  | RwWriteEvSched.AEnter j up => if enter_ok s j up then (true, true) else wbit s
  | RwWriteEvSched.ACancel j => match wpc s j with Some RwWriteEvSched.WParked | Some RwWriteEvSched.WNew => (false, false) | _ => wbit s end
  | RwWriteEvSched.AUnlock j => match wpc s j with Some RwWriteEvSched.WDone => (false, false) | _ => wbit s end
  | _ => wbit s
  end.
Proof.
  unfold wbit, enter_ok, wpc. destruct a as [i up|i|i|i|i| | |]; cbn [RwWriteEvSched.step].
  - destruct (RwWriteEvSched.getf s i) as [f|]; cbn [option_map]; [|reflexivity]. destruct (RwWriteEvSched.fpc f); try reflexivity.
    destruct (RwWriteEvSched.g_act s || (up && (RwWriteEvSched.g_rd s =? 0))); reflexivity.
  - destruct (RwWriteEvSched.getf s i) as [f|]; [|reflexivity]. destruct (RwWriteEvSched.fpc f); reflexivity.
  - destruct (RwWriteEvSched.getf s i) as [f|]; [|reflexivity]. destruct (RwWriteEvSched.fpc f); try reflexivity.
    + destruct (RwWriteEvSched.g_rd s =? 0); reflexivity.
    + destruct (RwWriteEvSched.flis f) as [id|]; [|reflexivity]. destruct (ev_poll id i (RwWriteEvSched.g_ev s)) as [[l [|]]|]; reflexivity.
    + unfold RwWriteEvSched.do_drop. cbn [RwWriteEvSched.g_ev RwWriteEvSched.with_fut]. destruct (ev_drop_opt (RwWriteEvSched.flis f) (RwWriteEvSched.g_ev s)). reflexivity.
    + unfold RwWriteEvSched.do_drop. cbn [RwWriteEvSched.g_ev RwWriteEvSched.with_fut]. destruct (ev_drop_opt (RwWriteEvSched.flis f) (RwWriteEvSched.g_ev s)). reflexivity.
  - destruct (RwWriteEvSched.getf s i) as [f|]; cbn [option_map]; [|reflexivity]. destruct (RwWriteEvSched.fpc f); reflexivity.
  - destruct (RwWriteEvSched.getf s i) as [f|]; cbn [option_map]; [|reflexivity]. destruct (RwWriteEvSched.fpc f); reflexivity.
  - destruct (RwWriteEvSched.g_wb s) eqn:E; cbn [RwWriteEvSched.g_wb RwWriteEvSched.g_act]; rewrite ?E; reflexivity.
  - destruct (0 <? RwWriteEvSched.g_rd s); reflexivity.
  - destruct (0 <? RwWriteEvSched.g_pend s); [|reflexivity]. unfold RwWriteEvSched.do_notify. cbn [RwWriteEvSched.g_ev]. destruct (ev_notify 1 false (RwWriteEvSched.g_ev s)). reflexivity.
Qed.

(* ---------- coherence ---------- *)
Definition wspec (s : RwWriteEvSched.gst) (a : RwWriteEvSched.act) : bool * bool :=
  match a with
  | RwWriteEvSched.AEnter j up => if enter_ok s j up then (true, true) else wbit s
  | RwWriteEvSched.ACancel j => match wpc s j with Some RwWriteEvSched.WParked | Some RwWriteEvSched.WNew => (false, false) | _ => wbit s end
  | RwWriteEvSched.AUnlock j => match wpc s j with Some RwWriteEvSched.WDone => (false, false) | _ => wbit s end
  | _ => wbit s
  end.
Lemma W_bits s a : RwWriteEvSched.g_wb (RwWriteEvSched.step true s a) = fst (wspec s a) /\ RwWriteEvSched.g_act (RwWriteEvSched.step true s a) = snd (wspec s a).
Proof. pose proof (W_wb_step s a) as Q. fold (wspec s a) in Q. unfold wbit in Q at 1. rewrite <- Q. split; reflexivity. Qed.

Definition Coh (s : cst) : Prop := RwReadEvSched.g_wb (cR s) = RwWriteEvSched.g_wb (cW s) /\ RwWriteEvSched.g_act (cW s) = RwWriteEvSched.g_wb (cW s).

Ltac wb1 a := match goal with |- context [RwWriteEvSched.step true ?x a] =>
  rewrite (proj1 (W_bits x a)), (proj2 (W_bits x a)); cbn [wspec wbit fst snd] end.

Lemma cstep_Coh s a : Coh s -> Coh (cstep s a).
Proof.
  intros (C1 & C2). unfold Coh, cstep.
  destruct a as [i lw0|i fail|i| | | |j up|j|j|j|j|j|]; cbn [tr].
  - cbn [fold_left cR cW]. rewrite R_wb_step. split; assumption.
  - destruct (read_succeeds (cR s) i fail); cbn [fold_left cR cW]; rewrite R_wb_step; [wb1 RwWriteEvSched.ARead|]; split; assumption.
  - cbn [fold_left cR cW]. rewrite R_wb_step. split; assumption.
  - cbn [fold_left cR cW]. wb1 RwWriteEvSched.ARUnlock. split; assumption.
  - cbn [fold_left cR cW]. wb1 RwWriteEvSched.ARead. split; assumption.
  - cbn [fold_left cR cW]. wb1 RwWriteEvSched.APend. split; assumption.
  - destruct (enter_ok (cW s) j up) eqn:E; cbn [fold_left cR cW]; [|split; assumption].
    rewrite R_wb_step. wb1 (RwWriteEvSched.AEnter j up). rewrite E. cbn [fst snd]. split; reflexivity.
  - cbn [fold_left cR cW]. wb1 (RwWriteEvSched.APoll j). split; assumption.
  - cbn [fold_left cR cW]. wb1 (RwWriteEvSched.AStep j). split; assumption.
  - destruct (wpc (cW s) j) as [[]|] eqn:E; cbn [fold_left cR cW]; try rewrite R_wb_step; wb1 (RwWriteEvSched.ACancel j); rewrite E; cbn [wbit fst snd]; split; try reflexivity; assumption.
  - destruct (wpc (cW s) j) as [[]|] eqn:E; cbn [fold_left cR cW]; try (split; assumption).
    rewrite R_wb_step. wb1 (RwWriteEvSched.AUnlock j). rewrite E. cbn [fst snd]. split; reflexivity.
  - destruct (wpc (cW s) j) as [[]|] eqn:E; cbn [fold_left cR cW]; try (split; assumption).
    rewrite R_wb_step. wb1 RwWriteEvSched.ARead. wb1 (RwWriteEvSched.AUnlock j). rewrite E. cbn [fst snd]. split; reflexivity.
  - cbn [fold_left cR cW]. rewrite R_wb_step. split; assumption.
Qed.

Theorem crun_Coh nr nw sched : Coh (crun nr nw sched).
Proof.
  unfold crun. assert (H : Coh (c0 nr nw)) by (split; reflexivity). revert H. generalize (c0 nr nw).
  induction sched as [|a l IH]; intros s H; cbn [fold_left]; [exact H|]. apply IH. apply cstep_Coh. exact H.
Qed.

(* ---------- C06 on the composed run ---------- *)
(* both component theorems hold of every composed run *)
Theorem rw_comp_no_lost_wakeup nr nw sched :
  RwReadEvSched.lostb (cR (crun nr nw sched)) = false /\ RwWriteEvSched.lostb (cW (crun nr nw sched)) = false.
Proof.
  destruct (crun_components nr nw sched) as (HR & HW). rewrite HR, HW.
  split; [apply RwReadEvInv.rw_read_sched_no_lost_wakeup | apply RwWriteEvInv.rw_write_sched_no_lost_wakeup].
Qed.

(* clause (b), in terms of writers: no future is past the inner mutex (no write() announced, no upgrade pending, no write
   guard alive: nothing between its fetch_or / fetch_sub and the end of its guard), the reader side is at rest ==> no
   polled read() waits *)
Theorem rw_comp_readers nr nw sched :
  let s := crun nr nw sched in
  RwWriteEvInv.cntb RwWriteEvInv.actpc (RwWriteEvSched.g_futs (cW s)) = 0 -> RwReadEvSched.quiescentb (cR s) = true -> existsb RwReadEvSched.parkedb (RwReadEvSched.g_futs (cR s)) = false.
Proof.
  intros s A Q. destruct (crun_Coh nr nw sched) as (C1 & C2). fold s in C1, C2.
  destruct (crun_components nr nw sched) as (_ & HW). fold s in HW.
  pose proof (RwWriteEvInv.run_inv (aW s) 0 nw) as (_ & Ai & _). rewrite <- HW in Ai. unfold RwWriteEvInv.Ainv in Ai. rewrite A in Ai.
  assert (Act : RwWriteEvSched.g_act (cW s) = false) by (destruct (RwWriteEvSched.g_act (cW s)); [cbn in Ai; discriminate | reflexivity]).
  assert (Wb : RwReadEvSched.g_wb (cR s) = false) by (rewrite C1, <- C2; exact Act).
  destruct (rw_comp_no_lost_wakeup nr nw sched) as (LR & _). fold s in LR. unfold RwReadEvSched.lostb in LR. rewrite Wb, Q in LR. cbn [negb andb] in LR. exact LR.
Qed.

(* clause (d): no reader is left and the writer side is at rest ==> no polled write() / upgrade() waits *)
Theorem rw_comp_writer nr nw sched :
  let s := crun nr nw sched in
  RwWriteEvSched.g_rd (cW s) = 0 -> RwWriteEvSched.quiescentb (cW s) = true -> existsb RwWriteEvSched.parkedb (RwWriteEvSched.g_futs (cW s)) = false.
Proof.
  intros s Z Q. destruct (rw_comp_no_lost_wakeup nr nw sched) as (_ & LW). fold s in LW. unfold RwWriteEvSched.lostb in LW.
  rewrite Z, Q in LW. cbn in LW. exact LW.
Qed.

(* non-vacuity: a reader holds; a write() is announced and parks; a read() parks behind it; the reader leaves and notifies;
   the writer completes, its guard is dropped: the read() is woken and completes *)
Example rw_comp_example :
  let s := crun 2 1 [CRPoll 0 false; CRStep 0 false; CRStep 0 false;                      (* reader 0 gets in *)
                     CWEnter 0 false; CWStep 0; CWStep 0; CWStep 0; CWStep 0;             (* write(): announced, listens, parks *)
                     CRPoll 1 true; CRStep 1 false; CRStep 1 false; CRStep 1 false;       (* read() 1: listens, parks *)
                     CRUnlock; CPendNR; CWPoll 0; CWStep 0; CWStep 0;                     (* last reader leaves; the writer completes *)
                     CWUnlock 0; CPendNW; CRPoll 1 true; CRStep 1 false; CRStep 1 false; CRStep 1 false; CRStep 1 false; CRStep 1 false] in
  RwReadEvSched.g_wb (cR s) = false /\ RwWriteEvSched.g_rd (cW s) = 1 /\ option_map RwReadEvSched.fpc (RwReadEvSched.getf (cR s) 1) = Some RwReadEvSched.RDone /\ option_map RwWriteEvSched.fpc (RwWriteEvSched.getf (cW s) 0) = Some RwWriteEvSched.WGone.
Proof. vm_compute. repeat split. Qed.
