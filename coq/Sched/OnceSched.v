(* OnceSched.v — the OnceCell at the granularity of single atomic operations on its state word, for ANY
   number of threads and EVERY schedule, with release/acquire views (C04, schedule and happens-before half).

   Sites (src/once_cell.rs, pinned by Tie_OnceCell; Orderings read from Gen/Sites.v):
     OLoad      `state.load(o_load)`            — is_initialized() (get, wait, get_or_init ...) and the top of the loop
                                                  of initialize_or_wait; if it reads Initialized the thread is
                                                  handed `&T` (get_unchecked)
     OCas       `state.compare_exchange(Uninitialized, Initializing, o_cas, _)` — becoming THE initialiser
     OWrite     the initialiser writes the value into the slot (plain, non-atomic write)
     OStoreInit `state.store(Initialized, o_store)` — after the write; the guard is forgotten
     OGuardDrop `state.store(Uninitialized, o_guard)` — Guard::drop: closure failed / panicked / cancelled
   Control flow is over-approximated: any thread may load or attempt the CAS at any time; only the thread
   that won the CAS may write, publish or give up. A value write issues a ticket (standing for the complete
   write) into the writer's view. A store with Release makes the word's message view the storer's view; a
   load with Acquire absorbs it. take() / into_inner() / get_mut() need `&mut self` and are outside. *)
From Coq Require Import List NArith Bool Arith Lia String.
From AL Require Import Base BaseFacts.
From AL.Gen Require Import Sites.
From AL.Tie Require Import TieLib.
Import ListNotations.
Open Scope list_scope.
Open Scope N_scope.

Record oords := mkOords { oo_load : ord; oo_cas : ord; oo_store : ord; oo_guard : ord }.

Inductive oaction := OLoad | OCas | OWrite | OStoreInit | OGuardDrop.

Record otst := mkOT {
  ot_running : bool;          (* won the CAS, has not published or given up yet *)
  ot_wrote : bool;            (* has written the value in this run *)
  ot_view : list nat;
  ot_refs : list nat          (* value tickets this thread was handed a reference to *)
}.
Definition ot0 : otst := mkOT false false [] [].

Record ogst := mkOG {
  og_st : N;                  (* 0 Uninitialized, 1 Initializing, 2 Initialized *)
  og_V : list nat;            (* message view of the state word *)
  og_val : option nat;        (* ticket of the value currently in the slot *)
  og_thr : list otst;
  og_inits : nat;             (* completed initialisations *)
  og_next : nat
}.
Definition og0 (n : nat) : ogst := mkOG 0 [] None (repeat ot0 n) 0 0.

Fixpoint upd_o (i : nat) (t : otst) (l : list otst) : list otst :=
  match l, i with
  | [], _ => []
  | _ :: r, O => t :: r
  | x :: r, S i => x :: upd_o i t r
  end.

Section Machine.
Variable O : oords.

Definition ostep (g : ogst) (i : nat) (a : oaction) : ogst :=
  match nth_error (og_thr g) i with
  | None => g
  | Some t =>
    match a with
    | OLoad =>
        let v := if is_acquire (oo_load O) then ot_view t ++ og_V g else ot_view t in
        let refs := if og_st g =? 2 then match og_val g with Some tk => tk :: ot_refs t | None => ot_refs t end else ot_refs t in
        mkOG (og_st g) (og_V g) (og_val g) (upd_o i (mkOT (ot_running t) (ot_wrote t) v refs) (og_thr g)) (og_inits g) (og_next g)
    | OCas =>
        if ot_running t then g else
        if og_st g =? 0 then
          let v := if is_acquire (oo_cas O) then ot_view t ++ og_V g else ot_view t in
          let V := if is_release (oo_cas O) then og_V g ++ ot_view t else og_V g in
          mkOG 1 V (og_val g) (upd_o i (mkOT true false v (ot_refs t)) (og_thr g)) (og_inits g) (og_next g)
        else g
    | OWrite =>
        if ot_running t && negb (ot_wrote t) then
          let tk := og_next g in
          mkOG (og_st g) (og_V g) (Some tk) (upd_o i (mkOT true true (tk :: ot_view t) (ot_refs t)) (og_thr g)) (og_inits g) (S tk)
        else g
    | OStoreInit =>
        if ot_running t && ot_wrote t then
          let V := if is_release (oo_store O) then og_V g ++ ot_view t else og_V g in
          mkOG 2 V (og_val g) (upd_o i (mkOT false false (ot_view t) (ot_refs t)) (og_thr g)) (S (og_inits g)) (og_next g)
        else g
    | OGuardDrop =>
        if ot_running t && negb (ot_wrote t) then
          let V := if is_release (oo_guard O) then og_V g ++ ot_view t else og_V g in
          mkOG 0 V (og_val g) (upd_o i (mkOT false false (ot_view t) (ot_refs t)) (og_thr g)) (og_inits g) (og_next g)
        else g
    end
  end.

Definition orun (n : nat) (sched : list (nat * oaction)) : ogst :=
  fold_left (fun g p => ostep g (fst p) (snd p)) sched (og0 n).

Definition b2N (b : bool) : N := if b then 1 else 0.
Fixpoint runners (l : list otst) : N := match l with [] => 0 | t :: r => b2N (ot_running t) + runners r end.

(* safety: one initialiser at a time, exactly while Initializing; initialised at most once; the slot is
   written only by the initialiser and holds a value once Initialized *)
Definition OExcl (g : ogst) : Prop :=
  runners (og_thr g) = (if og_st g =? 1 then 1 else 0) /\
  (og_st g = 0 \/ og_st g = 1 \/ og_st g = 2) /\
  (og_st g = 2 -> og_val g <> None) /\
  og_inits g = (if (og_st g =? 2)%N then 1%nat else 0%nat) /\
  (forall i t, nth_error (og_thr g) i = Some t -> ot_wrote t = true -> ot_running t = true /\ og_val g <> None).

(* happens-before: once Initialized the word's message view contains the value's ticket, and every reference
   handed out is to a value whose complete write is in the receiving thread's view *)
Definition OHb (g : ogst) : Prop :=
  (og_st g = 2 -> forall tk, og_val g = Some tk -> In tk (og_V g)) /\
  (forall i t, nth_error (og_thr g) i = Some t -> ot_wrote t = true -> forall tk, og_val g = Some tk -> In tk (ot_view t)) /\
  (forall i t, nth_error (og_thr g) i = Some t -> forall tk, In tk (ot_refs t) -> In tk (ot_view t)).

Lemma runners_upd i t t' l : nth_error l i = Some t ->
  runners (upd_o i t' l) + b2N (ot_running t) = runners l + b2N (ot_running t').
Proof.
  revert i. induction l as [|x r IH]; intros [|i] H; cbn in H; try discriminate.
  - inversion H; subst. cbn. lia.
  - specialize (IH i H). cbn [upd_o runners]. lia.
Qed.
Lemma runners_In i t l : nth_error l i = Some t -> b2N (ot_running t) <= runners l.
Proof. revert i. induction l as [|x r IH]; intros [|i] H; cbn in H; try discriminate; [inversion H; subst; cbn; lia | specialize (IH i H); cbn; lia]. Qed.
Lemma nth_updo_same i t t' l : nth_error l i = Some t -> nth_error (upd_o i t' l) i = Some t'.
Proof. revert i. induction l as [|x r IH]; intros [|i] H; cbn in *; try discriminate; [reflexivity | apply IH; exact H]. Qed.
Lemma nth_updo_other i j t' l : i <> j -> nth_error (upd_o i t' l) j = nth_error l j.
Proof.
  revert i j. induction l as [|x r IH]; intros [|i] [|j] H; cbn; try reflexivity; try contradiction.
  apply IH. intro; subst; contradiction.
Qed.

Lemma nth_updo_cases i j t t' l tj : nth_error l i = Some t -> nth_error (upd_o i t' l) j = Some tj ->
  (j = i /\ tj = t') \/ (j <> i /\ nth_error l j = Some tj).
Proof.
  intros H Hj. destruct (Nat.eq_dec i j) as [<-|N].
  - rewrite (nth_updo_same _ _ _ _ H) in Hj. inversion Hj. left. split; reflexivity.
  - rewrite (nth_updo_other _ _ _ _ N) in Hj. right. split; [intro; subst; contradiction | exact Hj].
Qed.

Lemma ostep_OExcl g i a : OExcl g -> OExcl (ostep g i a).
Proof.
  intros HE. pose proof HE as (R & W & V & Ini & Wr). unfold ostep. cbv zeta. destruct (nth_error (og_thr g) i) as [t|] eqn:N; [|exact HE].
  pose proof (runners_In _ _ _ N) as RI.
  destruct a.
  - (* load *)
    set (t' := mkOT (ot_running t) (ot_wrote t) _ _).
    pose proof (runners_upd i t t' _ N) as RU. cbn [ot_running t'] in RU.
    unfold OExcl. cbn [og_st og_thr og_val og_inits]. split; [lia|]. split; [exact W|]. split; [exact V|]. split; [exact Ini|].
    intros j tj Hj Hw. destruct (nth_updo_cases _ _ _ _ _ _ N Hj) as [(-> & ->)|(_ & Hj')]; [cbn in *; apply (Wr i t N Hw) | apply (Wr j tj Hj' Hw)].
  - (* cas *)
    destruct (ot_running t) eqn:Rt; [exact HE|].
    destruct (og_st g =? 0) eqn:Z; [|exact HE]. apply N.eqb_eq in Z.
    set (t' := mkOT true false _ _).
    pose proof (runners_upd i t t' _ N) as RU. cbn [ot_running t'] in RU. rewrite Rt in RU. rewrite Z in R, Ini. change (0 =? 1) with false in R. change (0 =? 2) with false in Ini. cbv iota in R, Ini. cbn [b2N] in RU.
    unfold OExcl. cbn [og_st og_thr og_val og_inits]. change (1 =? 1) with true. change (1 =? 2) with false. cbv iota.
    split; [lia|]. split; [right; left; reflexivity|]. split; [intro H; discriminate H|]. split; [exact Ini|].
    intros j tj Hj Hw. destruct (nth_updo_cases _ _ _ _ _ _ N Hj) as [(-> & ->)|(_ & Hj')]; [discriminate Hw | apply (Wr j tj Hj' Hw)].
  - (* write *)
    destruct (ot_running t && negb (ot_wrote t)) eqn:C; [|exact HE].
    apply andb_true_iff in C. destruct C as (Rt & _).
    set (t' := mkOT true true _ _).
    pose proof (runners_upd i t t' _ N) as RU. cbn [ot_running t'] in RU. rewrite Rt in RU.
    unfold OExcl. cbn [og_st og_thr og_val og_inits]. split; [lia|]. split; [exact W|]. split; [intros _ H; discriminate H|]. split; [exact Ini|].
    intros j tj Hj Hw. split; [|intro H; discriminate H].
    destruct (nth_updo_cases _ _ _ _ _ _ N Hj) as [(-> & ->)|(_ & Hj')]; [reflexivity | apply (Wr j tj Hj' Hw)].
  - (* publish *)
    destruct (ot_running t && ot_wrote t) eqn:C; [|exact HE].
    apply andb_true_iff in C. destruct C as (Rt & Wt).
    set (t' := mkOT false false _ _).
    pose proof (runners_upd i t t' _ N) as RU. cbn [ot_running t'] in RU. rewrite Rt in RU, RI. cbn [b2N] in RU, RI.
    assert (Z : og_st g = 1) by (destruct (og_st g =? 1) eqn:Q; [apply N.eqb_eq in Q; exact Q | rewrite R in RI; clear - RI; lia]).
    rewrite Z in R, Ini. change (1 =? 1) with true in R. change (1 =? 2) with false in Ini. cbv iota in R, Ini.
    unfold OExcl. cbn [og_st og_thr og_val og_inits]. change (2 =? 1) with false. change (2 =? 2) with true. cbv iota.
    split; [lia|]. split; [right; right; reflexivity|]. split; [intros _; apply (Wr i t N Wt)|].
    split; [rewrite Ini; reflexivity|].
    intros j tj Hj Hw. destruct (nth_updo_cases _ _ _ _ _ _ N Hj) as [(-> & ->)|(_ & Hj')]; [discriminate Hw | apply (Wr j tj Hj' Hw)].
  - (* give up *)
    destruct (ot_running t && negb (ot_wrote t)) eqn:C; [|exact HE].
    apply andb_true_iff in C. destruct C as (Rt & Wt).
    set (t' := mkOT false false _ _).
    pose proof (runners_upd i t t' _ N) as RU. cbn [ot_running t'] in RU. rewrite Rt in RU, RI. cbn [b2N] in RU, RI.
    assert (Z : og_st g = 1) by (destruct (og_st g =? 1) eqn:Q; [apply N.eqb_eq in Q; exact Q | rewrite R in RI; clear - RI; lia]).
    rewrite Z in R, Ini. change (1 =? 1) with true in R. change (1 =? 2) with false in Ini. cbv iota in R, Ini.
    unfold OExcl. cbn [og_st og_thr og_val og_inits]. change (0 =? 1) with false. change (0 =? 2) with false. cbv iota.
    split; [lia|]. split; [left; reflexivity|]. split; [intro H; discriminate H|]. split; [exact Ini|].
    intros j tj Hj Hw. destruct (nth_updo_cases _ _ _ _ _ _ N Hj) as [(-> & ->)|(_ & Hj')]; [discriminate Hw | apply (Wr j tj Hj' Hw)].
Qed.

Lemma runners_repeat0 n : runners (repeat ot0 n) = 0.
Proof. induction n; cbn; [reflexivity | exact IHn]. Qed.
Lemma nth_repeat0 n i t : nth_error (repeat ot0 n) i = Some t -> t = ot0.
Proof. revert i. induction n; intros [|i] H; cbn in H; try discriminate; [inversion H; reflexivity | apply (IHn i H)]. Qed.

Lemma OExcl_init n : OExcl (og0 n).
Proof.
  unfold OExcl, og0. cbn. rewrite runners_repeat0. split; [reflexivity|]. split; [left; reflexivity|]. split; [intro H; discriminate H|]. split; [reflexivity|].
  intros i t H Hw. apply nth_repeat0 in H. subst. discriminate Hw.
Qed.

Theorem orun_OExcl n sched : OExcl (orun n sched).
Proof.
  unfold orun. generalize (OExcl_init n). generalize (og0 n).
  induction sched as [|[i a] l IH]; intros g H; cbn [fold_left]; [exact H|]. apply IH. apply ostep_OExcl. exact H.
Qed.

(* ---------- happens-before ---------- *)
Definition oord_premises : bool := is_acquire (oo_load O) && is_release (oo_store O).

Lemma ostep_OHb g i a : oord_premises = true -> OExcl g -> OHb g -> OHb (ostep g i a).
Proof.
  intros P (R & W & V & Ini & Wr) HH. pose proof HH as (H1 & H2 & H3). apply andb_true_iff in P. destruct P as (PA & PR).
  unfold ostep. cbv zeta. destruct (nth_error (og_thr g) i) as [t|] eqn:N; [|exact HH].
  pose proof (runners_In _ _ _ N) as RI.
  destruct a.
  - (* load (Acquire): the view absorbs the word's message view; a reference is handed out iff Initialized *)
    rewrite PA. unfold OHb. cbn [og_st og_V og_val og_thr].
    split; [exact H1|]. split.
    + intros j tj Hj Hw tk Hv. destruct (nth_updo_cases _ _ _ _ _ _ N Hj) as [(-> & ->)|(_ & Hj')].
      * cbn in *. apply in_or_app. left. apply (H2 i t N Hw tk Hv).
      * apply (H2 j tj Hj' Hw tk Hv).
    + intros j tj Hj tk Hr. destruct (nth_updo_cases _ _ _ _ _ _ N Hj) as [(-> & ->)|(_ & Hj')]; [|apply (H3 j tj Hj' tk Hr)].
      cbn [ot_refs ot_view] in *. destruct (og_st g =? 2) eqn:Z.
      * apply N.eqb_eq in Z. destruct (og_val g) as [tk0|] eqn:Q.
        -- destruct Hr as [<-|Hr]; [apply in_or_app; right; apply (H1 Z tk0 eq_refl) | apply in_or_app; left; apply (H3 i t N tk Hr)].
        -- apply in_or_app. left. apply (H3 i t N tk Hr).
      * apply in_or_app. left. apply (H3 i t N tk Hr).
  - (* cas *)
    destruct (ot_running t) eqn:Rt; [exact HH|].
    destruct (og_st g =? 0) eqn:Z; [|exact HH].
    unfold OHb. cbn [og_st og_V og_val og_thr]. split; [intro H; discriminate H|]. split.
    + intros j tj Hj Hw tk Hv. destruct (nth_updo_cases _ _ _ _ _ _ N Hj) as [(-> & ->)|(_ & Hj')]; [discriminate Hw | apply (H2 j tj Hj' Hw tk Hv)].
    + intros j tj Hj tk Hr. destruct (nth_updo_cases _ _ _ _ _ _ N Hj) as [(-> & ->)|(_ & Hj')]; [|apply (H3 j tj Hj' tk Hr)].
      cbn [ot_refs ot_view] in *. destruct (is_acquire (oo_cas O)); [apply in_or_app; left|]; apply (H3 i t N tk Hr).
  - (* write: a fresh ticket in the writer's view *)
    destruct (ot_running t && negb (ot_wrote t)) eqn:C; [|exact HH].
    apply andb_true_iff in C. destruct C as (Rt & Wt). apply negb_true_iff in Wt.
    assert (Z : og_st g = 1) by (destruct (og_st g =? 1) eqn:Q; [apply N.eqb_eq in Q; exact Q | rewrite R, Rt in RI; cbn [b2N] in RI; clear - RI; lia]).
    (* nobody else is running, hence nobody else has written *)
    assert (ONLY : forall j tj, nth_error (og_thr g) j = Some tj -> j <> i -> ot_wrote tj = false).
    { intros j tj Hj NE. destruct (ot_wrote tj) eqn:Q; [|reflexivity]. exfalso. destruct (Wr j tj Hj Q) as (Rj & _).
      rewrite Z in R. change (1 =? 1) with true in R. cbv iota in R. clear - R N Hj NE Rt Rj.
      assert (G : forall l a b ta tb, nth_error l a = Some ta -> nth_error l b = Some tb -> a <> b -> ot_running ta = true -> ot_running tb = true -> 2 <= runners l).
      { induction l as [|x r IH]; intros [|a] [|b] ta tb Ha Hb NE' Ra Rb; cbn in Ha, Hb; try discriminate; try contradiction.
        - inversion Ha; subst. pose proof (runners_In _ _ _ Hb). rewrite Rb in H. cbn in *. rewrite Ra. cbn. lia.
        - inversion Hb; subst. pose proof (runners_In _ _ _ Ha). rewrite Ra in H. cbn in *. rewrite Rb. cbn. lia.
        - assert (a <> b) by (intro; subst; contradiction). specialize (IH a b ta tb Ha Hb H Ra Rb). cbn. lia. }
      specialize (G _ _ _ _ _ Hj N NE Rj Rt). lia. }
    unfold OHb. cbn [og_st og_V og_val og_thr]. split; [intro H; rewrite Z in H; discriminate H|]. split.
    + intros j tj Hj Hw tk Hv. inversion Hv; subst tk. destruct (nth_updo_cases _ _ _ _ _ _ N Hj) as [(-> & ->)|(NE & Hj')]; [left; reflexivity|].
      rewrite (ONLY j tj Hj' NE) in Hw. discriminate Hw.
    + intros j tj Hj tk Hr. destruct (nth_updo_cases _ _ _ _ _ _ N Hj) as [(-> & ->)|(_ & Hj')]; [right; apply (H3 i t N tk Hr) | apply (H3 j tj Hj' tk Hr)].
  - (* publish (Release): the word's message view gets the writer's view, which contains the ticket *)
    destruct (ot_running t && ot_wrote t) eqn:C; [|exact HH].
    apply andb_true_iff in C. destruct C as (Rt & Wt). rewrite PR.
    unfold OHb. cbn [og_st og_V og_val og_thr]. split; [|split].
    + intros _ tk Hv. apply in_or_app. right. apply (H2 i t N Wt tk Hv).
    + intros j tj Hj Hw tk Hv. destruct (nth_updo_cases _ _ _ _ _ _ N Hj) as [(-> & ->)|(_ & Hj')]; [discriminate Hw | apply (H2 j tj Hj' Hw tk Hv)].
    + intros j tj Hj tk Hr. destruct (nth_updo_cases _ _ _ _ _ _ N Hj) as [(-> & ->)|(_ & Hj')]; [apply (H3 i t N tk Hr) | apply (H3 j tj Hj' tk Hr)].
  - (* give up *)
    destruct (ot_running t && negb (ot_wrote t)) eqn:C; [|exact HH].
    unfold OHb. cbn [og_st og_V og_val og_thr]. split; [intro H; discriminate H|]. split.
    + intros j tj Hj Hw tk Hv. destruct (nth_updo_cases _ _ _ _ _ _ N Hj) as [(-> & ->)|(_ & Hj')]; [discriminate Hw | apply (H2 j tj Hj' Hw tk Hv)].
    + intros j tj Hj tk Hr. destruct (nth_updo_cases _ _ _ _ _ _ N Hj) as [(-> & ->)|(_ & Hj')]; [apply (H3 i t N tk Hr) | apply (H3 j tj Hj' tk Hr)].
Qed.

Lemma OHb_init n : OHb (og0 n).
Proof.
  unfold OHb, og0. cbn. split; [intro H; discriminate H|]. split.
  - intros i t H Hw. apply nth_repeat0 in H. subst. discriminate Hw.
  - intros i t H tk Hr. apply nth_repeat0 in H. subst. destruct Hr.
Qed.

Theorem orun_OHb n sched : oord_premises = true -> OHb (orun n sched).
Proof.
  intro P. unfold orun.
  assert (G : forall l g, OExcl g -> OHb g -> OHb (fold_left (fun g p => ostep g (fst p) (snd p)) l g)).
  { induction l as [|[i a] l IH]; intros g E H; cbn [fold_left]; [exact H|]. apply IH; [apply ostep_OExcl; exact E | apply ostep_OHb; assumption]. }
  apply G; [apply OExcl_init | apply OHb_init].
Qed.
End Machine.

(* ---------- instantiation with the Orderings read from the source ---------- *)
Definition oord_at (fn : string) (site arg : nat) : ord := nth arg (nth site (fn_ords fn) []) Relaxed.
Definition gen_oords : oords := mkOords
  (oord_at "once_cell::OnceCell::is_initialized" 0 0)
  (oord_at "once_cell::OnceCell::initialize_or_wait" 4 0)
  (oord_at "once_cell::OnceCell::initialize_or_wait" 5 0)
  (oord_at "once_cell::Guard::drop" 0 0).
(* the load at the top of initialize_or_wait must be an Acquire too: it also leads to get_unchecked *)
Definition once_ord_ok : bool :=
  oord_premises gen_oords && is_acquire (oord_at "once_cell::OnceCell::initialize_or_wait" 0 0).

(* ---------- search support: an executable form of OHb and a bounded schedule search ----------
   (used only when [once_ord_premises] no longer checks, to exhibit a schedule of the model on which the
   happens-before statement fails; it is not part of any proof) *)
Definition inclb (a b : list nat) : bool := forallb (fun x => existsb (Nat.eqb x) b) a.
Definition hb_okb (g : ogst) : bool := forallb (fun t => inclb (ot_refs t) (ot_view t)) (og_thr g).
Definition all_actions : list oaction := [OLoad; OCas; OWrite; OStoreInit; OGuardDrop].
Definition moves (n : nat) : list (nat * oaction) := list_prod (seq 0 n) all_actions.
Fixpoint search (O : oords) (n depth : nat) (g : ogst) (pre : list (nat * oaction)) : option (list (nat * oaction)) :=
  if negb (hb_okb g) then Some (rev pre) else
  match depth with
  | O => None
  | S d => fold_left (fun acc m => match acc with Some _ => acc | None => search O n d (ostep O g (fst m) (snd m)) (m :: pre) end) (moves n) None
  end.
Definition bad_schedule : option (list (nat * oaction)) := search gen_oords 2 4 (og0 2) [].
Definition ord_report : list (string * ord * bool) :=
  [("once_cell::OnceCell::is_initialized load", oo_load gen_oords, is_acquire (oo_load gen_oords));
   ("once_cell::OnceCell::initialize_or_wait load", oord_at "once_cell::OnceCell::initialize_or_wait" 0 0, is_acquire (oord_at "once_cell::OnceCell::initialize_or_wait" 0 0));
   ("once_cell::OnceCell::initialize_or_wait store(Initialized)", oo_store gen_oords, is_release (oo_store gen_oords))].
