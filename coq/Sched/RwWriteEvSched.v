(* RwWriteEvSched.v — the writer side of the RwLock: the reader count and WRITER_BIT TOGETHER WITH the event no_readers
   at the granularity of single atomic actions, for any number of write() / upgrade() futures, readers and EVERY
   schedule (C06 (d), schedule half).

   Sites (src/rwlock/raw.rs, pinned by Tie_Raw). After the inner mutex is acquired, RawWrite::poll_with_strategy does
       state.fetch_or(WRITER_BIT); if no reader: Ready; else no_readers.listen(); then the WaitingReaders loop
       loop { if state.load() == WRITER_BIT { no_readers = None; return Ready }
              if no_readers.is_none() { no_readers = Some(listen()) } else { ready!(strategy.poll(no_readers)) } }
   and RawUpgrade (created by upgrade(): state.fetch_sub(ONE_READER - WRITER_BIT), i.e. the bit is set and the
   upgrader's own read count removed in one atomic action) runs the same loop. It is cut at every atomic action: the
   fetch_or / fetch_sub, the load, listen(), the poll of the listener, the drop of the listener. A reader leaving does
   state.fetch_sub(ONE_READER) and, if it was the last one, no_readers.notify(1): cut between the two. A cancelled
   future in the loop does write_unlock (its PinnedDrop) and then drops its listener.
   The inner mutex is abstract: at most one future is between its fetch_or / fetch_sub and the end of its write guard
   (C01 / C02); futures queueing on the mutex are the business of C05 and are not in this machine. Readers enter only
   while the bit is clear. [bt = false] is the code before fix 40a2a26 (finding F2c): the listener is not dropped on
   completion.

   The event is the model of event-listener in Base.v. The waker of future i is i; polls may start at any time. *)
From Coq Require Import String.
From AL Require Import Base BaseFacts EventFacts.
From AL.Gen Require Import Sites.
From AL.Tie Require Import TieLib.
From AL.Sched Require Import EvOwn.
From Coq Require Import Lia.
Open Scope N_scope.
Open Scope list_scope.

Inductive pcs :=
| WIdle      (* created; has not yet passed the inner mutex *)
| WNew       (* an upgrade future: upgrade() has done its fetch_sub; not yet polled *)
| WLoad      (* inside poll: about to load the word *)
| WListen    (* inside poll: saw readers, no listener: about to listen() *)
| WPoll      (* inside poll: saw readers, has a listener: about to poll it *)
| WDropL     (* inside poll: saw the word equal to WRITER_BIT: about to drop the listener *)
| WParked    (* the poll returned Pending *)
| WDone      (* Ready: the write guard is alive (the future is kept alive) *)
| WCan       (* being dropped while waiting: write_unlock done, about to drop the listener *)
| WGone.     (* finished: guard dropped / future dropped *)

Record fut := mkF { fpc : pcs; flis : option nat; fwok : bool }.

Record gst := mkG {
  g_rd : N;                 (* readers (read guards and upgradable guards) *)
  g_wb : bool;              (* WRITER_BIT *)
  g_act : bool;             (* some future is between its fetch_or / fetch_sub and the end of its write guard *)
  g_ev : event;             (* no_readers *)
  g_nid : nat;
  g_futs : list fut;
  g_pend : N                (* readers between the fetch_sub that made the count 0 and no_readers.notify(1) *)
}.

Inductive act :=
| AEnter (i : nat) (upgrade : bool)  (* fetch_or(WRITER_BIT) of write(), inside its poll / fetch_sub(ONE_READER - WRITER_BIT) of upgrade(), before the first poll of the future it returns *)
| APoll (i : nat)                    (* a poll of a waiting future starts *)
| AStep (i : nat)                    (* its next atomic action *)
| ACancel (i : nat)                  (* the future is dropped between polls *)
| AUnlock (i : nat)                  (* the write guard of future i is dropped *)
| ARead                              (* a reader enters (the bit is clear) *)
| ARUnlock                           (* a reader leaves: fetch_sub(ONE_READER) *)
| APend.                             (* a reader that was the last one calls no_readers.notify(1) *)

Definition fwake (f : fut) : fut := mkF (fpc f) (flis f) true.
Definition parkedb (f : fut) : bool := match fpc f with WParked => true | _ => false end.
Notation wake_from := (EvOwn.wake_from fut fwake).

Definition getf (s : gst) (i : nat) : option fut := nth_error (g_futs s) i.
Definition with_fut (s : gst) (i : nat) (f : fut) : gst :=
  mkG (g_rd s) (g_wb s) (g_act s) (g_ev s) (g_nid s) (set_nth i f (g_futs s)) (g_pend s).
Definition with_ev (s : gst) (l : event) (ws : list waker) : gst :=
  mkG (g_rd s) (g_wb s) (g_act s) l (g_nid s) (wake_from 0 ws (g_futs s)) (g_pend s).
Definition do_notify (n : N) (s : gst) : gst :=
  let '(l, ws) := ev_notify n false (g_ev s) in with_ev s l ws.
Definition do_drop (o : option nat) (s : gst) : gst :=
  let '(l, ws) := ev_drop_opt o (g_ev s) in with_ev s l ws.
Definition setpc (p : pcs) (f : fut) : fut := mkF p (flis f) (fwok f).

Definition step (bt : bool) (s : gst) (a : act) : gst :=
  match a with
  | AEnter i up =>
      match getf s i with
      | Some f =>
          match fpc f with
          | WIdle =>
              if g_act s || (up && (g_rd s =? 0)) then s
              else mkG (if up then g_rd s - 1 else g_rd s) true true (g_ev s) (g_nid s)
                       (set_nth i (mkF (if up then WNew else WLoad) (flis f) false) (g_futs s)) (g_pend s)
          | _ => s
          end
      | None => s
      end
  | APoll i =>
      match getf s i with
      | Some f => match fpc f with
                  | WParked | WNew => with_fut s i (mkF WLoad (flis f) false)
                  | _ => s
                  end
      | None => s
      end
  | AStep i =>
      match getf s i with
      | Some f =>
          match fpc f with
          | WLoad =>
              if g_rd s =? 0 then
                (if bt then with_fut s i (setpc WDropL f) else with_fut s i (setpc WDone f))
              else with_fut s i (setpc (match flis f with Some _ => WPoll | None => WListen end) f)
          | WListen => mkG (g_rd s) (g_wb s) (g_act s) (ev_listen (g_nid s) (g_ev s)) (S (g_nid s))
                           (set_nth i (mkF WLoad (Some (g_nid s)) (fwok f)) (g_futs s)) (g_pend s)
          | WPoll =>
              match flis f with
              | Some id =>
                  match ev_poll id i (g_ev s) with
                  | Some (l, true) => mkG (g_rd s) (g_wb s) (g_act s) l (g_nid s) (set_nth i (mkF WLoad None (fwok f)) (g_futs s)) (g_pend s)
                  | Some (l, false) => mkG (g_rd s) (g_wb s) (g_act s) l (g_nid s) (set_nth i (mkF WParked (Some id) (fwok f)) (g_futs s)) (g_pend s)
                  | None => s
                  end
              | None => s
              end
          | WDropL => do_drop (flis f) (with_fut s i (mkF WDone None (fwok f)))
          | WCan => do_drop (flis f) (with_fut s i (mkF WGone None false))
          | _ => s
          end
      | None => s
      end
  | ACancel i =>
      match getf s i with
      | Some f => match fpc f with
                  | WIdle => with_fut s i (mkF WGone None false)
                  | WParked | WNew =>   (* PinnedDrop: write_unlock *)
                      mkG (g_rd s) false false (g_ev s) (g_nid s) (set_nth i (setpc WCan f) (g_futs s)) (g_pend s)
                  | _ => s
                  end
      | None => s
      end
  | AUnlock i =>
      match getf s i with
      | Some f => match fpc f with
                  | WDone => mkG (g_rd s) false false (g_ev s) (g_nid s) (set_nth i (setpc WGone f) (g_futs s)) (g_pend s)
                  | _ => s
                  end
      | None => s
      end
  | ARead => if g_wb s then s else mkG (g_rd s + 1) (g_wb s) (g_act s) (g_ev s) (g_nid s) (g_futs s) (g_pend s)
  | ARUnlock =>
      if 0 <? g_rd s then mkG (g_rd s - 1) (g_wb s) (g_act s) (g_ev s) (g_nid s) (g_futs s) (if g_rd s =? 1 then g_pend s + 1 else g_pend s) else s
  | APend => if 0 <? g_pend s then do_notify 1 (mkG (g_rd s) (g_wb s) (g_act s) (g_ev s) (g_nid s) (g_futs s) (g_pend s - 1)) else s
  end.

Definition g0 (readers : N) (nfuts : nat) : gst := mkG readers false false [] 0 (repeat (mkF WIdle None false) nfuts) 0.
Definition run (bt : bool) (readers : N) (nfuts : nat) (sched : list act) : gst := fold_left (step bt) sched (g0 readers nfuts).

(* ---------- the property, as a statement about states ---------- *)
Definition at_rest (f : fut) : bool :=
  match fpc f with
  | WIdle | WNew | WDone | WGone => true
  | WParked => negb (fwok f)
  | _ => false
  end.
Definition quiescentb (s : gst) : bool := forallb at_rest (g_futs s) && (g_pend s =? 0).
(* a lost wake-up: no reader is left, nothing is in flight, and a polled write() / upgrade() waits *)
Definition lostb (s : gst) : bool := (g_rd s =? 0) && quiescentb s && existsb parkedb (g_futs s).

(* the schedule of finding F2c: a reader holds; writer A enters, listens, parks; the reader leaves and notifies A; A's
   re-poll loads the word before polling its listener, sees no reader and completes — with its notified listener still
   registered; kept alive, A's guard is dropped; a reader enters; writer B enters, listens behind A's entry, parks; the
   reader leaves: notify(1) does nothing while A's dead entry is notified *)
Definition f2c_schedule (bt : bool) : list act :=
  [AEnter 0 false; AStep 0; AStep 0; AStep 0; AStep 0; ARUnlock; APend; APoll 0; AStep 0] ++ (if bt then [AStep 0] else []) ++
  [AUnlock 0; ARead; AEnter 1 false; AStep 1; AStep 1; AStep 1; AStep 1; ARUnlock; APend].

(* ---------- which machine the source is: read from Gen/Sites.v on every run ---------- *)
(* both loops drop their listener when they see the word equal to WRITER_BIT: RawWrite sets no_readers to None, RawUpgrade
   sets listener to None *)
Definition has_set_none (fname recv : string) : bool :=
  match fn_shape fname with
  | Some (sites, _) => existsb (fun x => String.eqb (fst (fst x)) "set_none" && String.eqb (snd (fst x)) recv) sites
  | None => false
  end.
Definition gen_wr_bt : bool :=
  has_set_none "rwlock::raw::RawWrite::poll_with_strategy" "*this.no_readers" &&
  has_set_none "rwlock::raw::RawUpgrade::poll_with_strategy" "*this.listener".
Definition f2c_report : bool * list act := (lostb (run false 1 2 (f2c_schedule false)), f2c_schedule false).
Definition ord_report : list (string * bool) :=
  [("rwlock::raw::RawWrite::poll_with_strategy: `*this.no_readers = None` on completion"%string, has_set_none "rwlock::raw::RawWrite::poll_with_strategy" "*this.no_readers");
   ("rwlock::raw::RawUpgrade::poll_with_strategy: `*this.listener = None` on completion"%string, has_set_none "rwlock::raw::RawUpgrade::poll_with_strategy" "*this.listener")].
Definition bad_schedule : option (list act) :=
  if negb (has_set_none "rwlock::raw::RawWrite::poll_with_strategy" "*this.no_readers") && fst f2c_report then Some (snd f2c_report) else None.
