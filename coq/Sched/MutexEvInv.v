(* MutexEvInv.v — C05, schedule half: on the micro-step machine of MutexEvSched.v for the repaired code, for every
   schedule, any number of futures and threads, no wake-up is lost. Three invariants: ownership of the entries of
   lock_ops by the futures (OwnP), the word accounting (Winv: word = lock bit + 2 * starved operations), and "an
   unlocked mutex and a waiter imply something in flight" (Tinv). *)
From AL Require Import Base BaseFacts EventFacts.
From AL.Sched Require Import MutexEvSched.
From Coq Require Import Lia ZArith.
Open Scope N_scope.
Open Scope list_scope.

(* ---------- lists ---------- *)
Lemma nth_set_same {A} i (x y : A) l : nth_error l i = Some y -> nth_error (set_nth i x l) i = Some x.
Proof. revert i. induction l as [|a r IH]; intros [|i] H; cbn in *; try discriminate; [reflexivity | apply IH; exact H]. Qed.
Lemma nth_set_other {A} i j (x : A) l : i <> j -> nth_error (set_nth i x l) j = nth_error l j.
Proof. revert i j. induction l as [|a r IH]; intros [|i] [|j] H; cbn; try reflexivity; [contradiction | apply IH; congruence]. Qed.
Lemma nth_set_inv {A} i j (x y g : A) l : nth_error l i = Some y -> nth_error (set_nth i x l) j = Some g ->
  (j = i /\ g = x) \/ (j <> i /\ nth_error l j = Some g).
Proof.
  intros L H. destruct (Nat.eq_dec j i) as [->|N].
  - rewrite (nth_set_same _ _ _ _ L) in H. inversion H. left. split; reflexivity.
  - rewrite nth_set_other in H by congruence. right. split; assumption.
Qed.
Lemma nth_wake k ws l i : nth_error (wake_from k ws l) i = option_map (fun f => if memb (k + i) ws then fwake f else f) (nth_error l i).
Proof.
  revert k i. induction l as [|a r IH]; intros k [|i]; cbn [wake_from nth_error option_map]; try reflexivity.
  - rewrite Nat.add_0_r. reflexivity.
  - rewrite IH. replace (S k + i)%nat with (k + S i)%nat by lia. reflexivity.
Qed.
Lemma memb_In x l : memb x l = true <-> In x l.
Proof.
  unfold memb. rewrite existsb_exists. split.
  - intros (y & Hy & E). apply Nat.eqb_eq in E. subst. exact Hy.
  - intro H. exists x. split; [exact H | apply Nat.eqb_refl].
Qed.

(* ---------- ownership ---------- *)
Definition ent_ok (i : nat) (f : fut) (e : entry) : Prop :=
  match est e with
  | Created => fpc f <> PParked
  | Task w => w = i
  | Notified _ => fpc f = PParked -> fwok f = true
  end.
(* which pcs go with / without a listener, with / without the starvation ticket *)
Definition lisN (p : pcs) : bool := match p with PIdle | PFast | PUCas2 | PUNotify | PSOr | PSTake | PDone | PGone => true | _ => false end.
Definition lisS (p : pcs) : bool := match p with PUCas1 | PUDrop | PSCas | PSDrop | PSNotify | PParked | PCTake => true | _ => false end.
Definition stvT (p : pcs) : bool := match p with PS0 | PSCas | PSDrop | PSNotify | PSOr | PSTake | PCTake => true | _ => false end.
Definition stvF (p : pcs) : bool :=
  match p with PIdle | PFast | PU0 | PUCas1 | PUDrop | PUCas2 | PUNotify | PAdd2 | PDone | PGone | PCDrop => true | _ => false end.
Definition pc_ok (f : fut) : Prop :=
  (lisN (fpc f) = true -> flis f = None) /\ (lisS (fpc f) = true -> flis f <> None) /\
  (stvT (fpc f) = true -> fstv f = true) /\ (stvF (fpc f) = true -> fstv f = false).

Record OwnP (l : event) (nid : nat) (fs : list fut) : Prop := mkOwn {
  ow_nd : NoDup (ids l);
  ow_fresh : forall id, In id (ids l) -> (id < nid)%nat;
  ow_owner : forall e, In e l -> exists i f, nth_error fs i = Some f /\ flis f = Some (eid e) /\ ent_ok i f e;
  ow_listed : forall i f id, nth_error fs i = Some f -> flis f = Some id -> In id (ids l);
  ow_inj : forall i j f g id, nth_error fs i = Some f -> nth_error fs j = Some g -> flis f = Some id -> flis g = Some id -> i = j;
  ow_pc : forall i f, nth_error fs i = Some f -> pc_ok f
}.
Definition Own (s : gst) : Prop := OwnP (g_ev s) (g_nid s) (g_futs s).

Lemma ent_ok_wake i f e : ent_ok i f e -> ent_ok i (fwake f) e.
Proof. unfold ent_ok, fwake. cbn. destruct (est e); auto. Qed.
Lemma pc_ok_wake f : pc_ok f -> pc_ok (fwake f).
Proof. unfold pc_ok, fwake. cbn. auto. Qed.

(* future i changes, keeping its listener *)
Lemma OwnP_upd_fut l nid fs i f f' : OwnP l nid fs -> nth_error fs i = Some f -> flis f' = flis f -> pc_ok f' ->
  (forall e, In e l -> flis f = Some (eid e) -> ent_ok i f e -> ent_ok i f' e) -> OwnP l nid (set_nth i f' fs).
Proof.
  intros [A B C D E P] L HL HP HE. constructor; auto.
  - intros e He. destruct (C e He) as (j & g & Lg & Sg & Ok). destruct (Nat.eq_dec j i) as [->|N].
    + rewrite L in Lg. inversion Lg; subst g. exists i, f'. split; [apply (nth_set_same _ _ _ _ L)|]. split; [congruence | apply HE; assumption].
    + exists j, g. split; [rewrite nth_set_other by congruence; exact Lg | split; assumption].
  - intros j g id Lg Sg. destruct (nth_set_inv _ _ _ _ _ _ L Lg) as [(-> & ->)|(N & Lg')]; [apply (D i f id L); congruence | apply (D j g id Lg' Sg)].
  - intros j1 j2 a1 a2 id L1 L2 S1 S2.
    assert (T : forall j a, nth_error (set_nth i f' fs) j = Some a -> flis a = Some id -> exists a0, nth_error fs j = Some a0 /\ flis a0 = Some id).
    { intros j a La Sa. destruct (nth_set_inv _ _ _ _ _ _ L La) as [(-> & ->)|(N & La')]; [exists f; split; [exact L | congruence] | exists a; split; assumption]. }
    destruct (T j1 a1 L1 S1) as (b1 & M1 & T1). destruct (T j2 a2 L2 S2) as (b2 & M2 & T2). apply (E j1 j2 b1 b2 id); assumption.
  - intros j g Lg. destruct (nth_set_inv _ _ _ _ _ _ L Lg) as [(-> & ->)|(N & Lg')]; [exact HP | apply (P j g Lg')].
Qed.

(* wakers are called: flags only *)
Lemma OwnP_wake l nid fs ws : OwnP l nid fs -> OwnP l nid (wake_from 0 ws fs).
Proof.
  intros [A B C D E P]. constructor; auto.
  - intros e He. destruct (C e He) as (j & g & Lg & Sg & Ok). exists j, (if memb j ws then fwake g else g).
    rewrite nth_wake, Lg. cbn. split; [reflexivity|]. destruct (memb j ws); [split; [exact Sg | apply ent_ok_wake; exact Ok] | split; assumption].
  - intros j g id Lg Sg. rewrite nth_wake in Lg. destruct (nth_error fs j) as [g0|] eqn:Q; [|discriminate]. cbn in Lg. inversion Lg; subst g.
    apply (D j g0 id Q). destruct (memb j ws); exact Sg.
  - intros j1 j2 a1 a2 id L1 L2 S1 S2. rewrite nth_wake in L1, L2.
    destruct (nth_error fs j1) as [b1|] eqn:Q1; [|discriminate]. destruct (nth_error fs j2) as [b2|] eqn:Q2; [|discriminate].
    cbn in L1, L2. inversion L1; inversion L2; subst. apply (E j1 j2 b1 b2 id Q1 Q2); [destruct (memb j1 ws); exact S1 | destruct (memb j2 ws); exact S2].
  - intros j g Lg. rewrite nth_wake in Lg. destruct (nth_error fs j) as [g0|] eqn:Q; [|discriminate]. cbn in Lg. inversion Lg.
    destruct (memb j ws); [apply pc_ok_wake|]; apply (P j g0 Q).
Qed.

(* a notify: entries are marked, the wakers of the marked entries called *)
Lemma OwnP_upd add ws l l' nid fs : Forall2 (upd add ws) l l' -> OwnP l nid fs -> OwnP l' nid (wake_from 0 ws fs).
Proof.
  intros R [A B C D E P]. pose proof (upd_ids _ _ _ _ R) as I.
  pose proof (OwnP_wake l nid fs ws (mkOwn _ _ _ A B C D E P)) as [A' B' C' D' E' P'].
  constructor; auto.
  - rewrite I. exact A.
  - rewrite I. exact B.
  - intros e' He'. destruct (upd_In _ _ _ _ _ R He') as (e & He & U). destruct U as [->|(Nn & -> & W)]; [apply C'; exact He|].
    destruct (C e He) as (j & g & Lg & Sg & Ok). exists j, (if memb j ws then fwake g else g). rewrite nth_wake, Lg. cbn [option_map Nat.add].
    split; [reflexivity|]. split; [destruct (memb j ws); exact Sg|].
    unfold ent_ok in *. cbn [est]. unfold is_notified in Nn. destruct (est e) as [|w|a] eqn:Q; try discriminate.
    + destruct (memb j ws); cbn; intro H; contradiction.
    + subst w. assert (M : memb j ws = true). { apply memb_In. apply W. unfold wake_of. rewrite Q. left. reflexivity. }
      rewrite M. intros _. reflexivity.
  - intros j g id Lg Sg. rewrite I. apply (D' j g id Lg Sg).
Qed.
Lemma OwnP_notify n add l nid fs : OwnP l nid fs ->
  OwnP (fst (ev_notify n add l)) nid (wake_from 0 (snd (ev_notify n add l)) fs).
Proof.
  intro O. pose proof (notify_rel n add l) as R. destruct (ev_notify n add l) as [l' ws]. cbn [fst snd]. apply (OwnP_upd add ws l l'); assumption.
Qed.

(* future i gives up its listener id: the entry is removed *)
Lemma OwnP_remove l nid fs i f f' id : OwnP l nid fs -> nth_error fs i = Some f -> flis f = Some id -> flis f' = None -> pc_ok f' ->
  OwnP (ev_remove id l) nid (set_nth i f' fs).
Proof.
  intros [A B C D E P] L Ls Ln HP. constructor.
  - apply NoDup_remove_ev. exact A.
  - intros x Hx. apply ids_remove_incl in Hx. apply B. exact Hx.
  - intros e He. pose proof (In_remove_entry_neq _ _ _ A He) as Ne. apply In_remove_entry in He.
    destruct (C e He) as (j & g & Lg & Sg & Ok). assert (N : j <> i). { intros ->. rewrite L in Lg. inversion Lg; subst g. congruence. }
    exists j, g. split; [rewrite nth_set_other by congruence; exact Lg | split; assumption].
  - intros j g x Lg Sg. destruct (nth_set_inv _ _ _ _ _ _ L Lg) as [(-> & ->)|(N & Lg')]; [congruence|].
    apply In_remove; [exact A|]. split; [apply (D j g x Lg' Sg)|]. intros ->. apply N. apply (E j i g f id Lg' L Sg Ls).
  - intros j1 j2 a1 a2 x L1 L2 S1 S2.
    destruct (nth_set_inv _ _ _ _ _ _ L L1) as [(-> & ->)|(N1 & L1')]; [congruence|].
    destruct (nth_set_inv _ _ _ _ _ _ L L2) as [(-> & ->)|(N2 & L2')]; [congruence|]. apply (E j1 j2 a1 a2 x); assumption.
  - intros j g Lg. destruct (nth_set_inv _ _ _ _ _ _ L Lg) as [(-> & ->)|(N & Lg')]; [exact HP | apply (P j g Lg')].
Qed.

(* future i (without a listener) registers a new one *)
Lemma OwnP_listen l nid fs i f f' : OwnP l nid fs -> nth_error fs i = Some f -> flis f = None ->
  flis f' = Some nid -> fpc f' <> PParked -> pc_ok f' ->
  OwnP (ev_listen nid l) (S nid) (set_nth i f' fs).
Proof.
  intros [A B C D E P] L Ln Ls' Np HP. unfold ev_listen.
  assert (NI : ~ In nid (ids l)) by (intro H; apply B in H; lia).
  constructor.
  - rewrite map_app. cbn. apply NoDup_app_fresh; assumption.
  - intros x Hx. rewrite map_app in Hx. apply in_app_or in Hx. cbn in Hx. destruct Hx as [Hx|[<-|[]]]; [apply B in Hx; lia | lia].
  - intros e He. apply in_app_or in He. destruct He as [He|[<-|[]]].
    + destruct (C e He) as (j & g & Lg & Sg & Ok). assert (N : j <> i) by (intros ->; rewrite L in Lg; inversion Lg; subst g; congruence).
      exists j, g. split; [rewrite nth_set_other by congruence; exact Lg | split; assumption].
    + exists i, f'. split; [apply (nth_set_same _ _ _ _ L)|]. split; [exact Ls'|]. unfold ent_ok. cbn. exact Np.
  - intros j g x Lg Sg. rewrite map_app. apply in_or_app. destruct (nth_set_inv _ _ _ _ _ _ L Lg) as [(-> & ->)|(N & Lg')].
    + right. rewrite Ls' in Sg. inversion Sg. left. reflexivity.
    + left. apply (D j g x Lg' Sg).
  - intros j1 j2 a1 a2 x L1 L2 S1 S2.
    destruct (nth_set_inv _ _ _ _ _ _ L L1) as [(-> & ->)|(N1 & L1')]; destruct (nth_set_inv _ _ _ _ _ _ L L2) as [(-> & ->)|(N2 & L2')]; try reflexivity.
    + rewrite Ls' in S1. inversion S1; subst x. exfalso. apply NI. apply (D j2 a2 nid L2' S2).
    + rewrite Ls' in S2. inversion S2; subst x. exfalso. apply NI. apply (D j1 a1 nid L1' S1).
    + apply (E j1 j2 a1 a2 x); assumption.
  - intros j g Lg. destruct (nth_set_inv _ _ _ _ _ _ L Lg) as [(-> & ->)|(N & Lg')]; [exact HP | apply (P j g Lg')].
Qed.

(* future i polls its listener id, which is not notified: its waker is stored *)
Lemma OwnP_set_task l nid fs i f f' id : OwnP l nid fs -> nth_error fs i = Some f -> flis f = Some id ->
  flis f' = Some id -> pc_ok f' ->
  OwnP (ev_set id (Task i) l) nid (set_nth i f' fs).
Proof.
  intros [A B C D E P] L Ls Ls' HP. constructor.
  - rewrite ids_set. exact A.
  - rewrite ids_set. exact B.
  - intros e He. destruct (In_set _ _ _ _ A He) as [(-> & Hin)|(He' & Ne)].
    + exists i, f'. split; [apply (nth_set_same _ _ _ _ L)|]. split; [exact Ls' | reflexivity].
    + destruct (C e He') as (j & g & Lg & Sg & Ok). assert (N : j <> i) by (intros ->; rewrite L in Lg; inversion Lg; subst g; congruence).
      exists j, g. split; [rewrite nth_set_other by congruence; exact Lg | split; assumption].
  - intros j g x Lg Sg. rewrite ids_set. destruct (nth_set_inv _ _ _ _ _ _ L Lg) as [(-> & ->)|(N & Lg')]; [apply (D i f x L); congruence | apply (D j g x Lg' Sg)].
  - intros j1 j2 a1 a2 x L1 L2 S1 S2.
    assert (T : forall j a, nth_error (set_nth i f' fs) j = Some a -> flis a = Some x -> exists a0, nth_error fs j = Some a0 /\ flis a0 = Some x).
    { intros j a La Sa. destruct (nth_set_inv _ _ _ _ _ _ L La) as [(-> & ->)|(N & La')]; [exists f; split; [exact L | congruence] | exists a; split; assumption]. }
    destruct (T j1 a1 L1 S1) as (b1 & M1 & T1). destruct (T j2 a2 L2 S2) as (b2 & M2 & T2). apply (E j1 j2 b1 b2 x); assumption.
  - intros j g Lg. destruct (nth_set_inv _ _ _ _ _ _ L Lg) as [(-> & ->)|(N & Lg')]; [exact HP | apply (P j g Lg')].
Qed.

(* future i drops its listener (if any): removed, a notification it holds is forwarded *)
Lemma OwnP_drop l nid fs i f f' : OwnP l nid fs -> nth_error fs i = Some f -> flis f' = None -> pc_ok f' ->
  OwnP (fst (ev_drop_opt (flis f) l)) nid (wake_from 0 (snd (ev_drop_opt (flis f) l)) (set_nth i f' fs)).
Proof.
  intros O L Ln HP. destruct (flis f) as [id|] eqn:Ls; cbn [ev_drop_opt fst snd].
  2:{ apply OwnP_wake. apply (OwnP_upd_fut l nid fs i f f' O L); [congruence | exact HP|]. intros e _ Q. congruence. }
  pose proof (OwnP_remove l nid fs i f f' id O L Ls Ln HP) as OR.
  unfold ev_drop. destruct (ev_find id l) as [[|w0|a]|] eqn:Fd; cbn [fst snd].
  - apply OwnP_wake. exact OR.
  - apply OwnP_wake. exact OR.
  - apply OwnP_notify. exact OR.
  - exfalso. pose proof (ow_listed _ _ _ O i f id L Ls) as Hin. apply ev_find_None in Fd. contradiction.
Qed.


(* ---------- ownership is an invariant ---------- *)
Lemma Own_g0 n : Own (g0 n).
Proof.
  unfold Own, g0. cbn. constructor; cbn; try (intros; contradiction); [constructor| | |].
  - intros i f id L S. apply nth_error_In in L. apply repeat_spec in L. subst f. discriminate.
  - intros i j f g id L _ S _. apply nth_error_In in L. apply repeat_spec in L. subst f. discriminate.
  - intros i f L. apply nth_error_In in L. apply repeat_spec in L. subst f. unfold pc_ok. cbn. repeat split; auto; discriminate.
Qed.

(* future i moves to a pc other than PParked, keeping its listener *)
Lemma Own_move l nid fs i f f' : OwnP l nid fs -> nth_error fs i = Some f -> flis f' = flis f -> fpc f' <> PParked -> pc_ok f' ->
  OwnP l nid (set_nth i f' fs).
Proof.
  intros O L Hl Np HP. apply (OwnP_upd_fut l nid fs i f f' O L Hl HP).
  intros e He Q Ok. unfold ent_ok in *. destruct (est e); [exact Np | exact Ok | intro H; contradiction].
Qed.

Ltac pcok Pf Pc := unfold pc_ok in *; cbn [fpc flis fstv fwok setpc] in *; rewrite ?Pc in *; cbn [lisN lisS stvT stvF] in *;
  destruct Pf as (Pf1 & Pf2 & Pf3 & Pf4); repeat split; intros; try discriminate; try congruence; auto.

Lemma Own_wait s i f pl pr : Own s -> getf s i = Some f -> pl <> PParked -> pr <> PParked ->
  (flis f = None -> pc_ok (mkF pl (Some (g_nid s)) (fwok f) (fstv f))) ->
  pc_ok (mkF pr None (fwok f) (fstv f)) -> Own (wait_step s i f pl pr).
Proof.
  intros O L Npl Npr Hpl Hpr. unfold Own, wait_step in *. unfold getf in L. destruct (flis f) as [id|] eqn:Ls.
  - unfold ev_poll. destruct (ev_find id (g_ev s)) as [[|w0|a]|] eqn:Fd; cbn [g_ev g_nid g_futs]; try exact O.
    + apply (OwnP_set_task _ _ _ i f _ id O L Ls); [reflexivity|]. unfold pc_ok. cbn. repeat split; intros; try discriminate; congruence.
    + apply (OwnP_set_task _ _ _ i f _ id O L Ls); [reflexivity|]. unfold pc_ok. cbn. repeat split; intros; try discriminate; congruence.
    + apply (OwnP_remove _ _ _ i f _ id O L Ls); [reflexivity | exact Hpr].
  - cbn [g_ev g_nid g_futs]. apply (OwnP_listen _ _ _ i f _ O L Ls); [reflexivity | exact Npl | apply Hpl; reflexivity].
Qed.

Lemma Own_notify n s : Own s -> Own (do_notify n s).
Proof.
  intro O. unfold Own, do_notify in *. pose proof (OwnP_notify n false _ _ _ O) as G. destruct (ev_notify n false (g_ev s)) as [l' ws]. exact G.
Qed.
Lemma Own_drop s i f f' w g : Own s -> getf s i = Some f -> flis f' = None -> pc_ok f' -> Own (do_drop (flis f) (updw s i f' w g)).
Proof.
  intros O L Ln HP. unfold Own, do_drop, updw in *. cbn [g_ev g_nid g_futs].
  pose proof (OwnP_drop _ _ _ i f f' O L Ln HP) as G. destruct (ev_drop_opt (flis f) (g_ev s)) as [l' ws]. exact G.
Qed.

Lemma Own_step s a : Own s -> Own (step true s a).
Proof.
  intro O. destruct a as [i|i clock|i| | |]; cbn [step].
  - (* APoll *)
    destruct (getf s i) as [f|] eqn:L; [|exact O]. pose proof (ow_pc _ _ _ O i f L) as Pf.
    destruct (fpc f) eqn:Pc; try exact O; unfold Own, with_fut, updw; cbn [g_ev g_nid g_futs].
    + apply (Own_move _ _ _ i f _ O L); [reflexivity | discriminate | pcok Pf Pc].
    + apply (Own_move _ _ _ i f _ O L); [reflexivity | destruct (fstv f); discriminate |].
      destruct (fstv f) eqn:St; pcok Pf Pc.
  - (* AStep *)
    destruct (getf s i) as [f|] eqn:L; [|exact O]. pose proof (ow_pc _ _ _ O i f L) as Pf.
    destruct (fpc f) eqn:Pc; try exact O.
    + (* PFast *) destruct (g_w s =? 0); unfold Own, with_fut, updw; cbn [g_ev g_nid g_futs];
        (apply (Own_move _ _ _ i f _ O L); [reflexivity | discriminate | pcok Pf Pc]).
    + (* PU0 *) apply Own_wait; auto; try discriminate; [intro Ls|]; pcok Pf Pc.
    + (* PUCas1 *) destruct (g_w s =? 0); [|destruct (g_w s =? 1)]; unfold Own, with_fut, updw; cbn [g_ev g_nid g_futs];
        (apply (Own_move _ _ _ i f _ O L); [reflexivity | discriminate | pcok Pf Pc]).
    + (* PUDrop *) apply Own_drop; auto. pcok Pf Pc.
    + (* PUCas2 *) destruct (g_w s =? 0); [|destruct (g_w s =? 1)]; unfold Own, with_fut, updw; cbn [g_ev g_nid g_futs];
        (apply (Own_move _ _ _ i f _ O L); [reflexivity | try destruct clock; discriminate | try destruct clock; pcok Pf Pc]).
    + (* PUNotify *) apply Own_notify. unfold Own, with_fut, updw; cbn [g_ev g_nid g_futs].
      apply (Own_move _ _ _ i f _ O L); [reflexivity | discriminate | pcok Pf Pc].
    + (* PAdd2 *) unfold Own, updw; cbn [g_ev g_nid g_futs]. apply (Own_move _ _ _ i f _ O L); [reflexivity | discriminate | pcok Pf Pc].
    + (* PS0 *) apply Own_wait; auto; try discriminate; [intro Ls|]; pcok Pf Pc.
    + (* PSCas *) destruct (g_w s =? 2); [|destruct (g_w s mod 2 =? 1)]; unfold Own, with_fut, updw; cbn [g_ev g_nid g_futs];
        (apply (Own_move _ _ _ i f _ O L); [reflexivity | discriminate | pcok Pf Pc]).
    + (* PSDrop *) apply Own_drop; auto. pcok Pf Pc.
    + (* PSNotify *) apply Own_notify. unfold Own, with_fut, updw; cbn [g_ev g_nid g_futs].
      apply (Own_move _ _ _ i f _ O L); [reflexivity | discriminate | pcok Pf Pc].
    + (* PSOr *) destruct (g_w s mod 2 =? 0); unfold Own, with_fut, updw; cbn [g_ev g_nid g_futs];
        (apply (Own_move _ _ _ i f _ O L); [reflexivity | discriminate | pcok Pf Pc]).
    + (* PSTake *) unfold Own, updw; cbn [g_ev g_nid g_futs]. apply (Own_move _ _ _ i f _ O L); [reflexivity | discriminate | pcok Pf Pc].
    + (* PCTake *) unfold Own, updw; cbn [g_ev g_nid g_futs]. apply (Own_move _ _ _ i f _ O L); [reflexivity | discriminate | pcok Pf Pc].
    + (* PCDrop *) apply Own_drop; auto. unfold pc_ok. cbn. repeat split; intros; try discriminate; reflexivity.
  - (* ACancel *)
    destruct (getf s i) as [f|] eqn:L; [|exact O]. pose proof (ow_pc _ _ _ O i f L) as Pf.
    destruct (fpc f) eqn:Pc; try exact O; unfold Own, with_fut, updw; cbn [g_ev g_nid g_futs].
    + apply (Own_move _ _ _ i f _ O L); [reflexivity | discriminate | pcok Pf Pc].
    + apply (Own_move _ _ _ i f _ O L); [reflexivity | destruct (fstv f); discriminate |]. destruct (fstv f) eqn:St; pcok Pf Pc.
    + apply (Own_move _ _ _ i f _ O L); [reflexivity | discriminate | pcok Pf Pc].
  - destruct (0 <? g_guards s); exact O.
  - destruct (0 <? g_pend s); [|exact O]. apply Own_notify. exact O.
  - destruct (g_w s =? 0); exact O.
Qed.

(* ---------- the word: lock bit + 2 * starved operations ---------- *)
Fixpoint cntb (P : fut -> bool) (l : list fut) : N :=
  match l with [] => 0 | f :: r => (if P f then 1 else 0) + cntb P r end.
Definition holdpc (f : fut) : bool := match fpc f with PUDrop | PSDrop | PSTake => true | _ => false end.
Definition b2N (b : bool) : N := if b then 1 else 0.
Lemma holdpc_eq f : holdpc f = match fpc f with PUDrop | PSDrop | PSTake => true | _ => false end.
Proof. reflexivity. Qed.

Definition Winv (s : gst) : Prop :=
  g_w s = 2 * cntb fstv (g_futs s) + (g_guards s + cntb holdpc (g_futs s)) /\ g_guards s + cntb holdpc (g_futs s) <= 1.

Lemma cntb_set P i f x l : nth_error l i = Some f -> cntb P (set_nth i x l) + b2N (P f) = cntb P l + b2N (P x).
Proof.
  revert i. induction l as [|a r IH]; intros [|i] H; cbn in H; try discriminate.
  - inversion H; subst. cbn. unfold b2N. lia.
  - specialize (IH i H). cbn [set_nth cntb]. lia.
Qed.
Lemma cntb_wake P k ws l : (forall f, P (fwake f) = P f) -> cntb P (wake_from k ws l) = cntb P l.
Proof. intro H. revert k. induction l as [|f r IH]; intro k; cbn; [reflexivity|]. rewrite IH. destruct (memb k ws); [rewrite H|]; reflexivity. Qed.
Lemma cntb_ge P i f l : nth_error l i = Some f -> P f = true -> 1 <= cntb P l.
Proof.
  revert i. induction l as [|a r IH]; intros [|i] H T; cbn in H; try discriminate.
  - inversion H; subst. cbn. rewrite T. lia.
  - specialize (IH i H T). cbn. lia.
Qed.
Lemma cntb_pos_ex P l : 1 <= cntb P l -> exists i f, nth_error l i = Some f /\ P f = true.
Proof.
  induction l as [|a r IH]; cbn; [lia|]. destruct (P a) eqn:Q.
  - intros _. exists 0%nat, a. split; [reflexivity | exact Q].
  - intro H. destruct IH as (i & f & L & T); [lia|]. exists (S i), f. split; assumption.
Qed.

Lemma Winv_g0 n : Winv (g0 n).
Proof.
  unfold Winv, g0. cbn. assert (H : forall P, P (mkF PIdle None false false) = false -> cntb P (repeat (mkF PIdle None false false) n) = 0).
  { intros P Q. induction n as [|n IH]; cbn; [reflexivity|]. rewrite Q, IH. reflexivity. }
  rewrite !H by reflexivity. lia.
Qed.

(* the word is odd while some future is between its winning compare_exchange / fetch_or and its completion *)
Lemma hold_odd s i f : Winv s -> getf s i = Some f -> holdpc f = true -> g_w s mod 2 = 1.
Proof.
  intros (W1 & W2) L H. pose proof (cntb_ge holdpc i f _ L H) as G.
  assert (E : g_guards s + cntb holdpc (g_futs s) = 1) by lia. rewrite W1, E.
  rewrite N.add_comm, N.mul_comm, N.mod_add by lia. reflexivity.
Qed.

Ltac Zify.zify_post_hook ::= Z.div_mod_to_equations.

Lemma notify_futs n s : g_w (do_notify n s) = g_w s /\ g_guards (do_notify n s) = g_guards s /\ g_pend (do_notify n s) = g_pend s /\
  cntb fstv (g_futs (do_notify n s)) = cntb fstv (g_futs s) /\ cntb holdpc (g_futs (do_notify n s)) = cntb holdpc (g_futs s).
Proof.
  unfold do_notify. destruct (ev_notify n false (g_ev s)) as [l ws]. unfold with_ev. cbn [g_w g_guards g_pend g_futs].
  rewrite !cntb_wake by reflexivity. repeat split.
Qed.
Lemma drop_futs o s : g_w (do_drop o s) = g_w s /\ g_guards (do_drop o s) = g_guards s /\ g_pend (do_drop o s) = g_pend s /\
  cntb fstv (g_futs (do_drop o s)) = cntb fstv (g_futs s) /\ cntb holdpc (g_futs (do_drop o s)) = cntb holdpc (g_futs s).
Proof.
  unfold do_drop. destruct (ev_drop_opt o (g_ev s)) as [l ws]. unfold with_ev. cbn [g_w g_guards g_pend g_futs].
  rewrite !cntb_wake by reflexivity. repeat split.
Qed.

(* future i becomes x, the word w', the guards g': the accounting in terms of what changed *)
Lemma Winv_upd s i f x w' g' : Winv s -> getf s i = Some f ->
  w' + 2 * b2N (fstv f) + b2N (holdpc f) + g_guards s = g_w s + 2 * b2N (fstv x) + b2N (holdpc x) + g' ->
  g' + b2N (holdpc x) <= g_guards s + b2N (holdpc f) \/ g' + b2N (holdpc x) + cntb holdpc (g_futs s) <= 1 + b2N (holdpc f) ->
  Winv (updw s i x w' g').
Proof.
  intros (W1 & W2) L E B. unfold Winv, updw. cbn [g_w g_futs g_guards].
  pose proof (cntb_set fstv i f x _ L) as C1. pose proof (cntb_set holdpc i f x _ L) as C2.
  unfold b2N in *. destruct (fstv f), (fstv x), (holdpc f), (holdpc x); lia.
Qed.

Lemma Winv_ext s s' : g_w s' = g_w s -> g_futs s' = g_futs s -> g_guards s' = g_guards s -> Winv s -> Winv s'.
Proof. intros A B C W. unfold Winv in *. rewrite A, B, C. exact W. Qed.
Lemma Winv_wait s i f pl pr : Winv s -> getf s i = Some f -> holdpc f = false ->
  (forall l w st, holdpc (mkF pl l w st) = false) -> (forall l w st, holdpc (mkF pr l w st) = false) -> Winv (wait_step s i f pl pr).
Proof.
  intros W L H Hl Hr. unfold wait_step.
  assert (G : forall x, holdpc x = false -> fstv x = fstv f -> Winv (updw s i x (g_w s) (g_guards s))).
  { intros x Hx Sx. apply (Winv_upd s i f _ _ _ W L); rewrite ?H, ?Hx, ?Sx; cbn; lia. }
  destruct (flis f) as [id|].
  - destruct (ev_poll id i (g_ev s)) as [[l [|]]|]; try exact W.
    + eapply Winv_ext; [| | |apply (G (mkF pr None (fwok f) (fstv f)) (Hr _ _ _) eq_refl)]; reflexivity.
    + eapply Winv_ext; [| | |apply (G (mkF PParked (Some id) (fwok f) (fstv f)) eq_refl eq_refl)]; reflexivity.
  - eapply Winv_ext; [| | |apply (G (mkF pl (Some (g_nid s)) (fwok f) (fstv f)) (Hl _ _ _) eq_refl)]; reflexivity.
Qed.

Lemma Winv_step s a : Own s -> Winv s -> Winv (step true s a).
Proof.
  intros O W. destruct a as [i|i clock|i| | |]; cbn [step].
  - (* APoll *)
    destruct (getf s i) as [f|] eqn:L; [|exact W].
    destruct (fpc f) eqn:Pc; try exact W; unfold with_fut; apply (Winv_upd s i f _ _ _ W L); rewrite !holdpc_eq; cbn [fpc fstv]; rewrite ?Pc;
      try (destruct (fstv f)); cbn; lia.
  - (* AStep *)
    destruct (getf s i) as [f|] eqn:L; [|exact W]. pose proof (ow_pc _ _ _ O i f L) as (_ & _ & St & Sf).
    pose proof W as (W1 & W2).
    pose proof (cntb_ge fstv i f _ L) as GS. pose proof (cntb_ge holdpc i f _ L) as GH.
    destruct (fpc f) eqn:Pc; try exact W; cbn [stvT stvF] in St, Sf.
    + (* PFast *) destruct (g_w s =? 0) eqn:Z; unfold with_fut; apply (Winv_upd s i f _ _ _ W L); rewrite !holdpc_eq; unfold setpc; cbn [fpc fstv]; rewrite ?Pc;
        try apply N.eqb_eq in Z; rewrite ?Sf by reflexivity; cbn; lia.
    + (* PU0 *) apply Winv_wait; auto; rewrite holdpc_eq, Pc; reflexivity.
    + (* PUCas1 *) destruct (g_w s =? 0) eqn:Z; [|destruct (g_w s =? 1)]; unfold with_fut; apply (Winv_upd s i f _ _ _ W L); rewrite !holdpc_eq; unfold setpc; cbn [fpc fstv]; rewrite ?Pc; cbn; try lia; try (apply N.eqb_eq in Z; lia).
    + (* PUDrop *)
      destruct (drop_futs (flis f) (updw s i (mkF PDone None (fwok f) (fstv f)) (g_w s) (g_guards s + 1))) as (D1 & D2 & _ & D4 & D5).
      unfold Winv. rewrite D1, D2, D4, D5.
      apply (Winv_upd s i f _ _ _ W L); rewrite !holdpc_eq; cbn [fpc fstv]; rewrite ?Pc; cbn; lia.
    + (* PUCas2 *) destruct (g_w s =? 0) eqn:Z; [|destruct (g_w s =? 1)]; unfold with_fut; apply (Winv_upd s i f _ _ _ W L); rewrite !holdpc_eq; unfold setpc; cbn [fpc fstv]; rewrite ?Pc; try destruct clock; try apply N.eqb_eq in Z; rewrite ?Sf by reflexivity; cbn; lia.
    + (* PUNotify *)
      destruct (notify_futs 1 (with_fut s i (setpc PAdd2 f))) as (D1 & D2 & _ & D4 & D5). unfold Winv. rewrite D1, D2, D4, D5.
      unfold with_fut. apply (Winv_upd s i f _ _ _ W L); rewrite !holdpc_eq; unfold setpc; cbn [fpc fstv]; rewrite ?Pc; cbn; lia.
    + (* PAdd2 *) apply (Winv_upd s i f _ _ _ W L); rewrite !holdpc_eq; cbn [fpc fstv]; rewrite ?Pc; cbn; [rewrite Sf by reflexivity; cbn; lia | lia].
    + (* PS0 *) apply Winv_wait; auto; rewrite holdpc_eq, Pc; reflexivity.
    + (* PSCas *) specialize (GS (St eq_refl)).
      destruct (g_w s =? 2) eqn:Z; [|destruct (g_w s mod 2 =? 1)]; unfold with_fut; apply (Winv_upd s i f _ _ _ W L); rewrite !holdpc_eq; unfold setpc; cbn [fpc fstv]; rewrite ?Pc; cbn; try lia; try (apply N.eqb_eq in Z; lia).
    + (* PSDrop *)
      destruct (drop_futs (flis f) (with_fut s i (mkF PSTake None (fwok f) (fstv f)))) as (D1 & D2 & _ & D4 & D5). unfold Winv. rewrite D1, D2, D4, D5.
      unfold with_fut. apply (Winv_upd s i f _ _ _ W L); rewrite !holdpc_eq; cbn [fpc fstv]; rewrite ?Pc; cbn; lia.
    + (* PSNotify *)
      destruct (notify_futs 1 (with_fut s i (setpc PS0 f))) as (D1 & D2 & _ & D4 & D5). unfold Winv. rewrite D1, D2, D4, D5.
      unfold with_fut. apply (Winv_upd s i f _ _ _ W L); rewrite !holdpc_eq; unfold setpc; cbn [fpc fstv]; rewrite ?Pc; cbn; lia.
    + (* PSOr *)
      destruct (g_w s mod 2 =? 0) eqn:Z; unfold with_fut; apply (Winv_upd s i f _ _ _ W L); rewrite !holdpc_eq; unfold setpc; cbn [fpc fstv]; rewrite ?Pc; cbn; try lia; try (apply N.eqb_eq in Z; lia).
    + (* PSTake *) specialize (GS (St eq_refl)). specialize (GH ltac:(rewrite holdpc_eq, Pc; reflexivity)).
      apply (Winv_upd s i f _ _ _ W L); rewrite !holdpc_eq; cbn [fpc fstv]; rewrite ?Pc; cbn; [rewrite St by reflexivity; cbn; lia | left; lia].
    + (* PCTake *) specialize (GS (St eq_refl)).
      apply (Winv_upd s i f _ _ _ W L); rewrite !holdpc_eq; cbn [fpc fstv]; rewrite ?Pc; cbn; [rewrite St by reflexivity; cbn; lia | left; lia].
    + (* PCDrop *)
      destruct (drop_futs (flis f) (with_fut s i (mkF PGone None false false))) as (D1 & D2 & _ & D4 & D5). unfold Winv. rewrite D1, D2, D4, D5.
      unfold with_fut. apply (Winv_upd s i f _ _ _ W L); rewrite !holdpc_eq; cbn [fpc fstv]; rewrite ?Pc; cbn; [rewrite Sf by reflexivity; cbn; lia | left; lia].
  - (* ACancel *)
    destruct (getf s i) as [f|] eqn:L; [|exact W].
    destruct (fpc f) eqn:Pc; try exact W; unfold with_fut; apply (Winv_upd s i f _ _ _ W L); rewrite !holdpc_eq; unfold setpc; cbn [fpc fstv]; rewrite ?Pc;
      try (destruct (fstv f)); cbn; lia.
  - (* ARelease *)
    destruct (0 <? g_guards s) eqn:Z; [|exact W]. apply N.ltb_lt in Z. destruct W as (W1 & W2). unfold Winv. cbn [g_w g_futs g_guards]. lia.
  - (* APend *)
    destruct (0 <? g_pend s); [|exact W].
    destruct (notify_futs 1 (mkG (g_w s) (g_ev s) (g_nid s) (g_futs s) (g_pend s - 1) (g_guards s))) as (D1 & D2 & _ & D4 & D5).
    unfold Winv. rewrite D1, D2, D4, D5. exact W.
  - (* ATry *)
    destruct (g_w s =? 0) eqn:Z; [|exact W]. apply N.eqb_eq in Z. destruct W as (W1 & W2). unfold Winv. cbn [g_w g_futs g_guards]. lia.
Qed.

(* ---------- an unlocked mutex and a waiter imply something in flight ---------- *)
Definition notified (id : nat) (l : event) : bool := match ev_find id l with Some (Notified _) => true | _ => false end.
Definition pc_fresh (p : pcs) : bool := match p with PUCas1 => true | _ => false end.
(* the future waits on an entry that is not notified, and it is not about to run the compare_exchange that follows listen() *)
Definition needs (l : event) (f : fut) : bool :=
  match flis f with Some id => negb (pc_fresh (fpc f)) && negb (notified id l) | None => false end.
Definition needy (s : gst) : bool := existsb (needs (g_ev s)) (g_futs s).
(* inside a poll, at a point from which the future will take the lock or call notify(1) (or find the lock held) *)
Definition tokpc (f : fut) : bool :=
  match fpc f with
  | PUCas2 | PUNotify | PSCas | PSNotify | PSOr => true
  | PS0 => match flis f with None => true | Some _ => false end
  | _ => false
  end.
Definition tokf (fs : list fut) : bool := existsb tokpc fs.
Definition inflight (s : gst) : bool := (0 <? g_pend s) || has_notified (g_ev s) || tokf (g_futs s).
Definition Tinv (s : gst) : Prop := g_w s mod 2 = 0 -> needy s = true -> inflight s = true.

Lemma find_app id l l2 : ev_find id (l ++ l2) = match ev_find id l with Some st => Some st | None => ev_find id l2 end.
Proof. induction l as [|e r IH]; cbn; [reflexivity|]. destruct (Nat.eqb (eid e) id); [reflexivity | exact IH]. Qed.
Lemma find_remove_other id id0 l : id <> id0 -> ev_find id (ev_remove id0 l) = ev_find id l.
Proof.
  intro N. induction l as [|e r IH]; cbn; [reflexivity|]. destruct (Nat.eqb (eid e) id0) eqn:Q0.
  - apply Nat.eqb_eq in Q0. destruct (Nat.eqb (eid e) id) eqn:Q; [apply Nat.eqb_eq in Q; congruence | reflexivity].
  - cbn. destruct (Nat.eqb (eid e) id); [reflexivity | exact IH].
Qed.
Lemma find_set_other id id0 st l : id <> id0 -> ev_find id (ev_set id0 st l) = ev_find id l.
Proof.
  intro N. induction l as [|e r IH]; cbn; [reflexivity|]. destruct (Nat.eqb (eid e) id0) eqn:Q0.
  - apply Nat.eqb_eq in Q0. cbn. destruct (Nat.eqb id0 id) eqn:Q; [apply Nat.eqb_eq in Q; congruence|].
    destruct (Nat.eqb (eid e) id) eqn:Q1; [apply Nat.eqb_eq in Q1; congruence | reflexivity].
  - cbn. destruct (Nat.eqb (eid e) id); [reflexivity | exact IH].
Qed.
Lemma notified_upd add ws l l' id : Forall2 (upd add ws) l l' -> notified id l = true -> notified id l' = true.
Proof.
  unfold notified. induction 1 as [|e e' r r' U _ IH]; cbn; [auto|].
  assert (E : eid e' = eid e) by (destruct U as [->|(_ & -> & _)]; reflexivity). rewrite E.
  destruct (Nat.eqb (eid e) id); [|exact IH].
  destruct U as [->|(Nn & -> & _)]; [auto|]. cbn. intros _. reflexivity.
Qed.
Lemma notified_has id l : notified id l = true -> has_notified l = true.
Proof.
  unfold notified. destruct (ev_find id l) as [[| |a]|] eqn:Fd; try discriminate. intros _.
  apply ev_find_In in Fd. unfold has_notified. apply existsb_exists. exists (mkEntry id (Notified a)). split; [exact Fd | reflexivity].
Qed.

Lemma existsb_wake (P : fut -> bool) k ws fs : (forall f, P (fwake f) = P f) -> existsb P (wake_from k ws fs) = existsb P fs.
Proof. intro H. revert k. induction fs as [|f r IH]; intro k; cbn; [reflexivity|]. rewrite IH. destruct (memb k ws); [rewrite H|]; reflexivity. Qed.
Lemma existsb_set_inv (P : fut -> bool) i f x fs : nth_error fs i = Some f -> existsb P (set_nth i x fs) = true ->
  P x = true \/ exists j g, j <> i /\ nth_error fs j = Some g /\ P g = true.
Proof.
  intros L H. apply existsb_exists in H. destruct H as (g & Hg & Pg). apply In_nth_error in Hg. destruct Hg as (j & Lj).
  destruct (nth_set_inv _ _ _ _ _ _ L Lj) as [(-> & ->)|(N & Lj')]; [left; exact Pg | right; exists j, g; repeat split; assumption].
Qed.
Lemma existsb_nth (P : fut -> bool) i f fs : nth_error fs i = Some f -> P f = true -> existsb P fs = true.
Proof. intros L H. apply existsb_exists. exists f. split; [apply (nth_error_In _ _ L) | exact H]. Qed.
Arguments existsb_nth P i f {fs}.
Lemma wake_nil k fs : wake_from k [] fs = fs.
Proof. revert k. induction fs as [|f r IH]; intro k; cbn; [reflexivity|]. rewrite IH. reflexivity. Qed.

Lemma needy_nonempty s : Own s -> needy s = true -> g_ev s <> [].
Proof.
  intros O H. unfold needy in H. apply existsb_exists in H. destruct H as (f & Hf & Nf). apply In_nth_error in Hf. destruct Hf as (i & L).
  unfold needs in Nf. destruct (flis f) as [id|] eqn:Ls; [|discriminate]. pose proof (ow_listed _ _ _ O i f id L Ls) as Hin.
  intro Q. rewrite Q in Hin. contradiction.
Qed.

Lemma or3 a b c : c = true -> a || b || c = true.
Proof. intros ->. rewrite Bool.orb_true_r. reflexivity. Qed.
Lemma or2 a b c : b = true -> a || b || c = true.
Proof. intros ->. rewrite Bool.orb_true_r. reflexivity. Qed.
Lemma or1 a b c : a = true -> a || b || c = true.
Proof. intros ->. reflexivity. Qed.

(* the word is odd afterwards: nothing to show *)
Lemma T_odd s' : g_w s' mod 2 = 1 -> Tinv s'.
Proof. intros H E. rewrite H in E. discriminate. Qed.
(* future i ends at a pc from which it will act *)
Lemma T_tok s' i x : nth_error (g_futs s') i = Some x -> tokpc x = true -> Tinv s'.
Proof. intros L T _ _. unfold inflight. apply or3. apply (existsb_nth _ i x); assumption. Qed.
(* a notify(1) was just performed *)
Lemma T_notified s' : Own s' -> (g_ev s' <> [] -> has_notified (g_ev s') = true) -> Tinv s'.
Proof. intros O H _ Nd. unfold inflight. apply or2. apply H. apply needy_nonempty; assumption. Qed.

(* the general step: future i becomes x, wakers ws are called, the event becomes l' *)
Lemma T_plain s s' i f x ws : Own s -> Tinv s -> getf s i = Some f -> Own s' ->
  g_futs s' = wake_from 0 ws (set_nth i x (g_futs s)) ->
  (g_w s' mod 2 = 0 -> g_w s mod 2 = 0) ->
  g_pend s <= g_pend s' ->
  (needs (g_ev s') x = true -> needs (g_ev s) f = true) ->
  (tokpc f = true -> tokpc x = true) ->
  (forall j g id, j <> i -> nth_error (g_futs s) j = Some g -> flis g = Some id -> notified id (g_ev s) = true -> notified id (g_ev s') = true) ->
  (has_notified (g_ev s) = true -> g_ev s' = [] \/ has_notified (g_ev s') = true) ->
  Tinv s'.
Proof.
  intros O T L O' EF EW EP EN ET EM EH Ev Nd. unfold getf in L.
  assert (Nd0 : needy s = true).
  { unfold needy in *. rewrite EF in Nd. rewrite existsb_wake in Nd by reflexivity.
    destruct (existsb_set_inv _ _ _ _ _ L Nd) as [Hx|(j & g & N & Lj & Pg)].
    - apply (existsb_nth _ i f L). apply EN. exact Hx.
    - apply (existsb_nth _ j g Lj). unfold needs in *. destruct (flis g) as [id|] eqn:Ls; [|discriminate].
      apply Bool.andb_true_iff in Pg. destruct Pg as (P1 & P2). rewrite P1. cbn.
      destruct (notified id (g_ev s)) eqn:Q; [|reflexivity]. rewrite (EM j g id N Lj Ls Q) in P2. discriminate. }
  specialize (T (EW Ev) Nd0). unfold inflight in *.
  apply Bool.orb_true_iff in T. destruct T as [T|T]; [apply Bool.orb_true_iff in T; destruct T as [T|T]|].
  - apply or1. apply N.ltb_lt in T. apply N.ltb_lt. lia.
  - apply or2. destruct (EH T) as [E|H]; [exfalso; apply (needy_nonempty s' O' Nd); exact E | exact H].
  - apply or3. unfold tokf in *. rewrite EF. rewrite existsb_wake by reflexivity.
    apply existsb_exists in T. destruct T as (g & Hg & Tg). apply In_nth_error in Hg. destruct Hg as (j & Lj).
    destruct (Nat.eq_dec j i) as [->|N].
    + rewrite L in Lj. inversion Lj; subst g. apply (existsb_nth _ i x); [apply (nth_set_same _ _ _ _ L) | apply ET; exact Tg].
    + apply (existsb_nth _ j g); [rewrite nth_set_other by congruence; exact Lj | exact Tg].
Qed.

(* the event did not change *)
Lemma T_same s s' i f x : Own s -> Tinv s -> getf s i = Some f -> Own s' ->
  g_futs s' = set_nth i x (g_futs s) -> g_ev s' = g_ev s -> (g_w s' mod 2 = 0 -> g_w s mod 2 = 0) -> g_pend s <= g_pend s' ->
  (needs (g_ev s) x = true -> needs (g_ev s) f = true) -> (tokpc f = true -> tokpc x = true) -> Tinv s'.
Proof.
  intros O T L O' EF EE EW EP EN ET. apply (T_plain s s' i f x [] O T L O'); auto.
  - rewrite wake_nil. exact EF.
  - rewrite EE. exact EN.
  - intros j g id _ _ _ H. rewrite EE. exact H.
  - intro H. right. rewrite EE. exact H.
Qed.

(* unlocked and somebody starved: something is in flight (the starved operation itself, or what its entry is owed) *)
Lemma starved_tok s : Own s -> Winv s -> Tinv s -> g_w s mod 2 = 0 -> 2 <= g_w s -> inflight s = true.
Proof.
  intros O (W1 & W2) T Ev Ge.
  assert (Z : g_guards s + cntb holdpc (g_futs s) = 0) by lia.
  assert (S1 : 1 <= cntb fstv (g_futs s)) by lia.
  destruct (cntb_pos_ex _ _ S1) as (j & g & Lj & Sg).
  pose proof (ow_pc _ _ _ O j g Lj) as (P1 & P2 & P3 & P4).
  assert (NH : holdpc g = false).
  { destruct (holdpc g) eqn:Q; [|reflexivity]. pose proof (cntb_ge holdpc j g _ Lj Q). lia. }
  assert (Lis : forall id, flis g = Some id -> fpc g <> PUCas1 -> inflight s = true).
  { intros id Ls Nf. destruct (notified id (g_ev s)) eqn:Q.
    - unfold inflight. apply or2. apply (notified_has id). exact Q.
    - apply (T Ev). unfold needy. apply (existsb_nth _ j g Lj). unfold needs. rewrite Ls, Q.
      destruct (fpc g); try reflexivity. contradiction. }
  assert (Tk : tokpc g = true -> inflight s = true).
  { intro H. unfold inflight. apply or3. apply (existsb_nth _ j g Lj H). }
  rewrite holdpc_eq in NH.
  destruct (fpc g) eqn:Pc; cbn [stvF lisS lisN] in *; try (rewrite P4 in Sg by reflexivity; discriminate); try discriminate;
    try (apply Tk; unfold tokpc; rewrite Pc; reflexivity).
  - (* PS0 *) destruct (flis g) as [id|] eqn:Ls; [apply (Lis id eq_refl); discriminate | apply Tk; unfold tokpc; rewrite Pc, Ls; reflexivity].
  - (* PParked *) destruct (flis g) as [id|] eqn:Ls; [apply (Lis id eq_refl); discriminate | exfalso; apply P2; reflexivity].
  - (* PCTake *) destruct (flis g) as [id|] eqn:Ls; [apply (Lis id eq_refl); discriminate | exfalso; apply P2; reflexivity].
Qed.

Lemma has_set id w l : (forall a, ev_find id l <> Some (Notified a)) -> has_notified l = true -> has_notified (ev_set id (Task w) l) = true.
Proof.
  unfold has_notified. induction l as [|e r IH]; cbn; intros NF H; [discriminate|].
  destruct (Nat.eqb (eid e) id) eqn:Q.
  - cbn. apply Bool.orb_true_iff in H. destruct H as [H|H]; [|exact H].
    exfalso. unfold is_notified in H. destruct (est e) as [| |a] eqn:Se; try discriminate. apply (NF a). reflexivity.
  - cbn. apply Bool.orb_true_iff in H. destruct H as [H|H]; [rewrite H; reflexivity|]. rewrite IH; [apply Bool.orb_true_r | exact NF | exact H].
Qed.
Lemma notify_ne n add l : fst (ev_notify n add l) <> [] -> l <> [].
Proof. intros H ->. apply H. unfold ev_notify. destruct add; [reflexivity|]. destruct (n <? N.of_nat (count_notified [])); reflexivity. Qed.
Lemma drop_has o l : NoDup (ids l) -> has_notified l = true ->
  fst (ev_drop_opt o l) = [] \/ has_notified (fst (ev_drop_opt o l)) = true.
Proof.
  intros ND H. destruct o as [id|]; cbn [ev_drop_opt fst]; [|right; exact H].
  unfold ev_drop. destruct (ev_find id l) as [[|w0|a]|] eqn:Fd; cbn [fst].
  - right. apply has_notified_remove; auto. intros st Q. rewrite Fd in Q. inversion Q; subst. exact Logic.I.
  - right. apply has_notified_remove; auto. intros st Q. rewrite Fd in Q. inversion Q; subst. exact Logic.I.
  - destruct (ev_remove id l) as [|e r] eqn:Q; [left; destruct a; reflexivity|]. right. destruct a.
    + unfold ev_notify. apply mark_has; [lia | discriminate].
    + apply notify_has; [lia | discriminate].
  - right. exact H.
Qed.
(* a drop keeps the notifications of the other listeners *)
Lemma drop_mono o l id : (forall id0, o = Some id0 -> id <> id0) -> notified id l = true -> notified id (fst (ev_drop_opt o l)) = true.
Proof.
  intros N H. destruct o as [id0|]; cbn [ev_drop_opt fst]; [|exact H]. specialize (N id0 eq_refl).
  assert (R : notified id (ev_remove id0 l) = true) by (unfold notified in *; rewrite find_remove_other by exact N; exact H).
  unfold ev_drop. destruct (ev_find id0 l) as [[|w0|a]|]; cbn [fst]; try exact R; [|exact H].
  pose proof (notify_rel 1 a (ev_remove id0 l)) as U. destruct (ev_notify 1 a (ev_remove id0 l)) as [l' ws]. cbn [fst].
  apply (notified_upd a ws _ _ id U R).
Qed.

Lemma parity w : w mod 2 = 0 \/ w mod 2 = 1.
Proof. pose proof (N.mod_upper_bound w 2). lia. Qed.

(* something is in flight already and stays so *)
Lemma T_keep s s' i f x : getf s i = Some f -> inflight s = true -> g_futs s' = set_nth i x (g_futs s) -> g_ev s' = g_ev s ->
  g_pend s' = g_pend s -> (tokpc f = true -> tokpc x = true) -> Tinv s'.
Proof.
  intros L T EF EE EP ET _ _. unfold getf in L. unfold inflight in *. rewrite EE, EP.
  apply Bool.orb_true_iff in T. destruct T as [T|T]; [apply Bool.orb_true_iff in T; destruct T as [T|T]|].
  - apply or1. exact T.
  - apply or2. exact T.
  - apply or3. unfold tokf in *. rewrite EF. apply existsb_exists in T. destruct T as (g & Hg & Tg). apply In_nth_error in Hg. destruct Hg as (j & Lj).
    destruct (Nat.eq_dec j i) as [->|N].
    + rewrite L in Lj. inversion Lj; subst g. apply (existsb_nth _ i x); [apply (nth_set_same _ _ _ _ L) | apply ET; exact Tg].
    + apply (existsb_nth _ j g); [rewrite nth_set_other by congruence; exact Lj | exact Tg].
Qed.

(* listen() or the poll of the listener at a loop head *)
Lemma T_wait s i f pl pr : Own s -> Tinv s -> getf s i = Some f -> Own (wait_step s i f pl pr) ->
  pc_fresh (fpc f) = false ->
  (forall id, flis f = Some id -> tokpc f = false) ->
  (forall w st, tokpc (mkF pr None w st) = true) ->
  ((forall id w st, tokpc (mkF pl (Some id) w st) = true) \/ (pl = PUCas1 /\ tokpc f = false)) ->
  Tinv (wait_step s i f pl pr).
Proof.
  intros O T L O' Nf Tf Tr Tl. unfold wait_step in *. pose proof L as L0. unfold getf in L0. destruct (flis f) as [id|] eqn:Ls.
  - unfold ev_poll in *. destruct (ev_find id (g_ev s)) as [[|w0|a]|] eqn:Fd; try exact T.
    + (* Created: registered *)
      apply (T_plain s _ i f (mkF PParked (Some id) (fwok f) (fstv f)) [] O T L O'); cbn [g_futs g_ev g_w g_pend]; auto; try lia.
      * rewrite wake_nil. reflexivity.
      * intros _. unfold needs. rewrite Ls, Nf. unfold notified. rewrite Fd. reflexivity.
      * rewrite (Tf id eq_refl). discriminate.
      * intros j g id' N Lj Lg H. unfold notified in *. rewrite find_set_other; [exact H|]. intros ->. apply N. apply (ow_inj _ _ _ O j i g f id Lj L0 Lg Ls).
      * intro H. right. apply has_set; [intros a Q; congruence | exact H].
    + apply (T_plain s _ i f (mkF PParked (Some id) (fwok f) (fstv f)) [] O T L O'); cbn [g_futs g_ev g_w g_pend]; auto; try lia.
      * rewrite wake_nil. reflexivity.
      * intros _. unfold needs. rewrite Ls, Nf. unfold notified. rewrite Fd. reflexivity.
      * rewrite (Tf id eq_refl). discriminate.
      * intros j g id' N Lj Lg H. unfold notified in *. rewrite find_set_other; [exact H|]. intros ->. apply N. apply (ow_inj _ _ _ O j i g f id Lj L0 Lg Ls).
      * intro H. right. apply has_set; [intros a' Q; congruence | exact H].
    + (* notified: consumed *)
      apply (T_tok _ i (mkF pr None (fwok f) (fstv f))); [cbn [g_futs]; apply (nth_set_same _ _ _ _ L0) | apply Tr].
  - destruct Tl as [Tl|(-> & Tf0)].
    + apply (T_tok _ i (mkF pl (Some (g_nid s)) (fwok f) (fstv f))); [cbn [g_futs]; apply (nth_set_same _ _ _ _ L0) | apply Tl].
    + apply (T_plain s _ i f (mkF PUCas1 (Some (g_nid s)) (fwok f) (fstv f)) [] O T L O'); cbn [g_futs g_ev g_w g_pend]; auto; try lia.
      * rewrite wake_nil. reflexivity.
      * unfold needs. cbn. discriminate.
      * rewrite Tf0. discriminate.
      * intros j g id' N Lj Lg H. unfold notified, ev_listen in *. rewrite find_app. destruct (ev_find id' (g_ev s)); [exact H | discriminate].
      * intro H. right. unfold has_notified, ev_listen in *. rewrite existsb_app, H. reflexivity.
Qed.

Lemma drop_proj o s : g_ev (do_drop o s) = fst (ev_drop_opt o (g_ev s)) /\ g_futs (do_drop o s) = wake_from 0 (snd (ev_drop_opt o (g_ev s))) (g_futs s) /\
  g_w (do_drop o s) = g_w s /\ g_pend (do_drop o s) = g_pend s.
Proof. unfold do_drop. destruct (ev_drop_opt o (g_ev s)) as [l ws]. repeat split. Qed.
Lemma notify_proj n s : g_ev (do_notify n s) = fst (ev_notify n false (g_ev s)) /\ g_w (do_notify n s) = g_w s.
Proof. unfold do_notify. destruct (ev_notify n false (g_ev s)) as [l ws]. repeat split. Qed.

Lemma T_after_notify s0 : Own (do_notify 1 s0) -> Tinv (do_notify 1 s0).
Proof.
  intro O'. apply (T_notified _ O'). destruct (notify_proj 1 s0) as (E & _). rewrite E. intro NE.
  apply notify_has; [lia | apply (notify_ne 1 false); exact NE].
Qed.

Lemma Tinv_step s a : Own s -> Winv s -> Tinv s -> Tinv (step true s a).
Proof.
  intros O W T. pose proof (Own_step s a O) as O'. destruct a as [i|i clock|i| | |]; cbn [step] in *.
  - (* APoll *)
    destruct (getf s i) as [f|] eqn:L; [|exact T]. pose proof (ow_pc _ _ _ O i f L) as (P1 & P2 & P3 & P4).
    destruct (fpc f) eqn:Pc; try exact T; cbn [lisN lisS] in *.
    + eapply (T_same s _ i f _ O T L O'); try reflexivity; cbn [g_w g_pend updw with_fut]; auto; try lia.
      * unfold needs. cbn [flis]. rewrite P1 by reflexivity. discriminate.
      * unfold tokpc. rewrite Pc. discriminate.
    + eapply (T_same s _ i f _ O T L O'); try reflexivity; cbn [g_w g_pend updw with_fut]; auto; try lia.
      * unfold needs. cbn [flis fpc]. rewrite Pc. destruct (fstv f); exact (fun H => H).
      * unfold tokpc. rewrite Pc. discriminate.
  - (* AStep *)
    destruct (getf s i) as [f|] eqn:L; [|exact T]. pose proof (ow_pc _ _ _ O i f L) as (P1 & P2 & P3 & P4).
    pose proof L as L0. unfold getf in L0.
    destruct (fpc f) eqn:Pc; try exact T; cbn [lisN lisS stvT stvF] in *.
    + (* PFast *) destruct (g_w s =? 0) eqn:Z.
      * apply T_odd. reflexivity.
      * eapply (T_same s _ i f _ O T L O'); try reflexivity; cbn [g_w g_pend updw with_fut]; auto; try lia.
        -- unfold needs, setpc. cbn [flis]. rewrite P1 by reflexivity. discriminate.
        -- unfold tokpc. rewrite Pc. discriminate.
    + (* PU0 *) apply T_wait; auto.
      * rewrite Pc. reflexivity.
      * intros id _. unfold tokpc. rewrite Pc. reflexivity.
      * right. split; [reflexivity | unfold tokpc; rewrite Pc; reflexivity].
    + (* PUCas1 *) destruct (g_w s =? 0) eqn:Z; [apply T_odd; reflexivity|]. destruct (g_w s =? 1) eqn:Z1.
      * apply T_odd. cbn [g_w with_fut updw]. apply N.eqb_eq in Z1. rewrite Z1. reflexivity.
      * destruct (parity (g_w s)) as [Ev|Od]; [|apply T_odd; exact Od].
        apply N.eqb_neq in Z, Z1.
        assert (G2 : 2 <= g_w s) by lia.
        apply (T_keep s _ i f (setpc PAdd2 f) L (starved_tok s O W T Ev G2)); try reflexivity.
        unfold tokpc. rewrite Pc. discriminate.
    + (* PUDrop: holds the lock *)
      apply T_odd. destruct (drop_proj (flis f) (updw s i (mkF PDone None (fwok f) (fstv f)) (g_w s) (g_guards s + 1))) as (_ & _ & E & _). rewrite E.
      apply (hold_odd s i f W L). rewrite holdpc_eq, Pc. reflexivity.
    + (* PUCas2 *) destruct (g_w s =? 0) eqn:Z; [apply T_odd; reflexivity|]. destruct (g_w s =? 1) eqn:Z1.
      * apply T_odd. cbn [g_w with_fut updw]. apply N.eqb_eq in Z1. rewrite Z1. reflexivity.
      * apply (T_tok _ i (setpc PUNotify f)); [cbn [g_futs with_fut updw]; apply (nth_set_same _ _ _ _ L0) | reflexivity].
    + (* PUNotify *) apply T_after_notify. exact O'.
    + (* PAdd2 *)
      destruct (flis f) as [id|] eqn:Ls.
      * eapply (T_same s _ i f _ O T L O'); try reflexivity; cbn [g_w g_pend updw]; auto; try lia.
        -- unfold needs. cbn [flis fpc]. rewrite Pc, Ls. exact (fun H => H).
        -- unfold tokpc. rewrite Pc. discriminate.
      * apply (T_tok _ i (mkF PS0 None (fwok f) true)); [cbn [g_futs updw]; apply (nth_set_same _ _ _ _ L0) | reflexivity].
    + (* PS0 *) apply T_wait; auto.
      * rewrite Pc. reflexivity.
      * intros id Ls. unfold tokpc. rewrite Pc, Ls. reflexivity.
    + (* PSCas *) destruct (g_w s =? 2) eqn:Z; [apply T_odd; reflexivity|]. destruct (g_w s mod 2 =? 1) eqn:Z1.
      * apply T_odd. cbn [g_w with_fut updw]. apply N.eqb_eq in Z1. exact Z1.
      * apply (T_tok _ i (setpc PSNotify f)); [cbn [g_futs with_fut updw]; apply (nth_set_same _ _ _ _ L0) | reflexivity].
    + (* PSDrop: holds the lock *)
      apply T_odd. destruct (drop_proj (flis f) (with_fut s i (mkF PSTake None (fwok f) (fstv f)))) as (_ & _ & E & _). rewrite E.
      apply (hold_odd s i f W L). rewrite holdpc_eq, Pc. reflexivity.
    + (* PSNotify *) apply T_after_notify. exact O'.
    + (* PSOr *) destruct (g_w s mod 2 =? 0) eqn:Z.
      * apply T_odd. cbn [g_w updw]. apply N.eqb_eq in Z. rewrite N.add_mod by lia. rewrite Z. reflexivity.
      * apply T_odd. cbn [g_w with_fut updw]. apply N.eqb_neq in Z. destruct (parity (g_w s)); [contradiction | assumption].
    + (* PSTake: holds the lock *)
      apply T_odd. cbn [g_w updw]. pose proof (hold_odd s i f W L ltac:(rewrite holdpc_eq, Pc; reflexivity)) as Od.
      destruct W as (W1 & _). pose proof (cntb_ge fstv i f _ L0 (P3 eq_refl)).
      replace (g_w s) with (g_w s - 2 + 1 * 2) in Od by lia. rewrite N.mod_add in Od by lia. exact Od.
    + (* PCTake *)
      eapply (T_same s _ i f _ O T L O'); try reflexivity; cbn [g_w g_pend updw]; auto; try lia.
      * intro H. destruct W as (W1 & _). pose proof (cntb_ge fstv i f _ L0 (P3 eq_refl)).
        replace (g_w s) with (g_w s - 2 + 1 * 2) by lia. rewrite N.mod_add by lia. exact H.
      * unfold needs. cbn [flis fpc]. rewrite Pc. exact (fun H => H).
      * unfold tokpc. rewrite Pc. discriminate.
    + (* PCDrop *)
      destruct (drop_proj (flis f) (with_fut s i (mkF PGone None false false))) as (E1 & E2 & E3 & E4).
      apply (T_plain s _ i f (mkF PGone None false false) (snd (ev_drop_opt (flis f) (g_ev s))) O T L O'); rewrite ?E1, ?E2, ?E3, ?E4; cbn [g_futs g_ev g_w g_pend with_fut updw]; auto; try lia.
      * unfold needs. cbn. discriminate.
      * unfold tokpc. rewrite Pc. discriminate.
      * intros j g id N Lj Lg H. apply drop_mono; [|exact H]. intros id0 Ls ->. apply N. apply (ow_inj _ _ _ O j i g f id0 Lj L0 Lg Ls).
      * apply drop_has. apply (ow_nd _ _ _ O).
  - (* ACancel *)
    destruct (getf s i) as [f|] eqn:L; [|exact T].
    destruct (fpc f) eqn:Pc; try exact T; eapply (T_same s _ i f _ O T L O'); try reflexivity; cbn [g_w g_pend updw with_fut]; auto; try lia;
      try (unfold tokpc; rewrite Pc; discriminate); unfold needs, setpc; cbn [flis fpc]; rewrite Pc; try destruct (fstv f); exact (fun H => H).
  - (* ARelease *)
    destruct (0 <? g_guards s); [|exact T]. intros _ _. unfold inflight. cbn [g_pend]. apply or1. apply N.ltb_lt. lia.
  - (* APend *)
    destruct (0 <? g_pend s); [|exact T]. apply T_after_notify. exact O'.
  - (* ATry *)
    destruct (g_w s =? 0); [|exact T]. apply T_odd. reflexivity.
Qed.

Lemma Tinv_g0 n : Tinv (g0 n).
Proof.
  intros _ H. exfalso. unfold needy, g0 in H. cbn [g_ev g_futs] in H. apply existsb_exists in H. destruct H as (f & Hf & Nf).
  apply repeat_spec in Hf. subst f. discriminate.
Qed.

Theorem run_inv sched n : Own (run true n sched) /\ Winv (run true n sched) /\ Tinv (run true n sched).
Proof.
  unfold run. generalize (Own_g0 n) (Winv_g0 n) (Tinv_g0 n). generalize (g0 n).
  induction sched as [|a r IH]; intros s O W T; cbn [fold_left]; [split; [assumption | split; assumption]|].
  apply IH; [apply Own_step; exact O | apply Winv_step; assumption | apply Tinv_step; assumption].
Qed.

(* ---------- the property ---------- *)
(* a notified entry whose owner is at rest: the owner is flagged woken *)
Lemma notified_owner_woken s e : Own s -> In e (g_ev s) -> is_notified e = true ->
  exists i f, getf s i = Some f /\ flis f = Some (eid e) /\ at_rest f = false.
Proof.
  intros O He Ne. destruct (ow_owner _ _ _ O e He) as (i & f & L & Ls & Ok). exists i, f. split; [exact L|]. split; [exact Ls|].
  pose proof (ow_pc _ _ _ O i f L) as (P1 & _). unfold ent_ok in Ok. unfold is_notified in Ne. destruct (est e); try discriminate.
  unfold at_rest. destruct (fpc f) eqn:Pc; try reflexivity; cbn [lisN] in P1; try (rewrite P1 in Ls by reflexivity; discriminate).
  rewrite (Ok eq_refl). reflexivity.
Qed.

(* in every reachable state: the mutex is unlocked and a polled future waits on an entry that is not notified =>
   something is in flight *)
Theorem mutex_sched_inflight sched n : let s := run true n sched in
  g_w s mod 2 = 0 -> needy s = true -> inflight s = true.
Proof. intros s. destruct (run_inv sched n) as (_ & _ & T). exact T. Qed.

(* no lost wake-up: when the mutex is unlocked and nothing is in flight (no thread inside a poll, a drop, or between
   fetch_sub and notify; every future whose waker was called polled again), no polled future waits — every schedule *)
Theorem mutex_sched_no_lost_wakeup sched n : lostb (run true n sched) = false.
Proof.
  destruct (lostb (run true n sched)) eqn:LB; [exfalso|reflexivity]. unfold lostb in LB.
  apply Bool.andb_true_iff in LB. destruct LB as (LB & PK). apply Bool.andb_true_iff in LB. destruct LB as (C & Q).
  apply N.eqb_eq in C. destruct (run_inv sched n) as (O & _ & T). set (s := run true n sched) in *.
  unfold quiescentb in Q. apply Bool.andb_true_iff in Q. destruct Q as (QF & QP). rewrite forallb_forall in QF. apply N.eqb_eq in QP.
  apply existsb_exists in PK. destruct PK as (f & Hf & Pf). pose proof (QF f Hf) as Rf. apply In_nth_error in Hf. destruct Hf as (i & L).
  pose proof (ow_pc _ _ _ O i f L) as (_ & P2 & _). unfold parked in Pf. destruct (fpc f) eqn:Pc; try discriminate. cbn [lisS] in P2.
  destruct (flis f) as [id|] eqn:Ls; [|exfalso; apply P2; reflexivity].
  assert (HN : forall e, In e (g_ev s) -> is_notified e = true -> False).
  { intros e He Ne. destruct (notified_owner_woken s e O He Ne) as (j & g & Lj & _ & Rg).
    rewrite (QF g (nth_error_In _ _ Lj)) in Rg. discriminate. }
  destruct (notified id (g_ev s)) eqn:Nt.
  - unfold notified in Nt. destruct (ev_find id (g_ev s)) as [[| |a]|] eqn:Fd; try discriminate. apply ev_find_In in Fd.
    apply (HN _ Fd). reflexivity.
  - assert (Nd : needy s = true).
    { unfold needy. apply (existsb_nth _ i f L). unfold needs. rewrite Ls, Pc, Nt. reflexivity. }
    specialize (T C Nd). unfold inflight in T.
    apply Bool.orb_true_iff in T. destruct T as [T|T]; [apply Bool.orb_true_iff in T; destruct T as [T|T]|].
    + apply N.ltb_lt in T. lia.
    + unfold has_notified in T. apply existsb_exists in T. destruct T as (e & He & Ne). apply (HN e He Ne).
    + unfold tokf in T. apply existsb_exists in T. destruct T as (g & Hg & Tg). specialize (QF g Hg). unfold at_rest in QF. unfold tokpc in Tg.
      destruct (fpc g); discriminate.
Qed.

(* the code before fix a3c1bed (finding F6) loses a wake-up on the schedule of the finding *)
Lemma mutex_sched_prefix_refuted : lostb (run false 2 (f6_schedule false)) = true.
Proof. vm_compute. reflexivity. Qed.
(* the statement is not vacuous: on the repaired machine the same schedule wakes the waiter *)
Example mutex_sched_f6_repaired :
  let s := run true 2 (f6_schedule true) in
  g_w s = 0 /\ nth_error (g_futs s) 1 = Some (mkF PParked (Some 1%nat) true false).
Proof. vm_compute. split; reflexivity. Qed.
(* and the fair protocol is exercised: A starves behind a barging thread, parks as a starved operation, is notified by the
   unlock and takes the lock through fetch_or *)
Example mutex_sched_starved_path :
  let s := run true 1 [ATry; APoll 0; AStep 0 false; AStep 0 false; AStep 0 false; AStep 0 false; ARelease; APend; ATry;
                       APoll 0; AStep 0 false; AStep 0 true; AStep 0 false; AStep 0 false; AStep 0 false; AStep 0 false;
                       ARelease; APend; APoll 0; AStep 0 false; AStep 0 false; AStep 0 false] in
  g_w s = 1 /\ nth_error (g_futs s) 0 = Some (mkF PDone None false false) /\ g_guards s = 1.
Proof. vm_compute. repeat split; reflexivity. Qed.

(* ---------- C13, try_lock clause, for every schedule: while some operation holds a starvation ticket, the fast path is
   closed — a try_lock (a compare_exchange(0,1) of any thread) fails and so does the fast path of a first poll ---------- *)
Theorem mutex_sched_starved_closes_fast_path sched n : let s := run true n sched in
  (exists i f, getf s i = Some f /\ fstv f = true) -> g_w s <> 0 /\ step true s ATry = s.
Proof.
  intros s (i & f & L & St). destruct (run_inv sched n) as (_ & (W1 & _) & _). fold s in W1.
  pose proof (cntb_ge fstv i f _ L St) as G.
  assert (NZ : g_w s <> 0) by lia. split; [exact NZ|].
  cbn [step]. destruct (g_w s =? 0) eqn:Z; [apply N.eqb_eq in Z; contradiction | reflexivity].
Qed.
(* and the ticket is there from the fetch_add(2) of the operation until its take_mutex (completion) or its drop *)
Lemma starved_pcs s i f : Own s -> getf s i = Some f -> fstv f = true ->
  match fpc f with PS0 | PSCas | PSDrop | PSNotify | PSOr | PSTake | PCTake | PParked => True | _ => False end.
Proof.
  intros O L St. pose proof (ow_pc _ _ _ O i f L) as (_ & _ & _ & P4). destruct (fpc f); cbn [stvF] in P4; try exact Logic.I;
    rewrite P4 in St by reflexivity; discriminate.
Qed.

(* ---------- C10 for the Mutex, every schedule: when every future has been dropped or never polled, no guard is alive and
   nothing is in flight, the mutex is as if never used: the word is 0 and lock_ops has no entry ---------- *)
Theorem mutex_sched_no_trace sched n : let s := run true n sched in
  (forall f, In f (g_futs s) -> fpc f = PIdle \/ fpc f = PGone) -> g_guards s = 0 -> g_w s = 0 /\ g_ev s = [].
Proof.
  intros s ALL G0. destruct (run_inv sched n) as (O & (W1 & _) & _). fold s in O, W1. split.
  - assert (S0 : cntb fstv (g_futs s) = 0).
    { destruct (N.eq_dec (cntb fstv (g_futs s)) 0) as [E|NE]; [exact E|]. exfalso.
      destruct (cntb_pos_ex fstv (g_futs s) ltac:(lia)) as (i & f & L & St).
      pose proof (starved_pcs s i f O L St) as P. destruct (ALL f (nth_error_In _ _ L)) as [E|E]; rewrite E in P; exact P. }
    assert (H0 : cntb holdpc (g_futs s) = 0).
    { destruct (N.eq_dec (cntb holdpc (g_futs s)) 0) as [E|NE]; [exact E|]. exfalso.
      destruct (cntb_pos_ex holdpc (g_futs s) ltac:(lia)) as (i & f & L & Hf).
      rewrite holdpc_eq in Hf. destruct (ALL f (nth_error_In _ _ L)) as [E|E]; rewrite E in Hf; discriminate. }
    lia.
  - destruct (g_ev s) as [|e r] eqn:Q; [reflexivity|]. exfalso.
    destruct (ow_owner _ _ _ O e ltac:(rewrite Q; left; reflexivity)) as (i & f & L & Ls & _).
    pose proof (ow_pc _ _ _ O i f L) as (P1 & _). destruct (ALL f (nth_error_In _ _ L)) as [E|E]; rewrite E in P1; cbn in P1; rewrite P1 in Ls by reflexivity; discriminate.
Qed.
