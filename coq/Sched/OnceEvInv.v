(* OnceEvInv.v — C08, schedule half: on the micro-step machine of OnceEvSched.v, for every schedule shorter than 2^64
   actions and any number of futures: (1) the state is Initializing only while some future is the initialiser (never
   stuck), (2) when nobody is initialising and nothing is in flight, no polled future waits on active_initializers
   (hand-over after a failed / cancelled initialiser; everybody finishes after a successful one).
   Invariants: ownership of the entries (EvOwn.OwnP), the accounting of the initialiser (Winv), and Tinv: with the cell
   empty, a waiting future implies a notified entry or a future about to look at the state / call notify(1); with the
   cell initialised, a waiting future implies that notify_additional(MAX) is still to come. *)
From AL Require Import Base BaseFacts EventFacts.
From AL Require BarrierInv.
From AL.Sched Require Import EvOwn OnceEvSched.
From Coq Require Import Lia.
Open Scope N_scope.
Open Scope list_scope.

(* ---------- ownership ---------- *)
Definition lisN (p : pcs) : bool := match p with OIdle | OListen | ODone | OGone => true | _ => false end.
Definition lisS (p : pcs) : bool := match p with OPollL | OParked => true | _ => false end.
Definition pc_ok (f : fut) : Prop := (lisN (fpc f) = true -> flis f = None) /\ (lisS (fpc f) = true -> flis f <> None).

Notation OwnP := (EvOwn.OwnP fut flis parkedb fwok pc_ok).
Definition Own (s : gst) : Prop := OwnP (g_ev s) (g_nid s) (g_futs s).

Lemma lis_wake f : flis (fwake f) = flis f. Proof. reflexivity. Qed.
Lemma parked_wake f : parkedb (fwake f) = parkedb f. Proof. reflexivity. Qed.
Lemma wok_wake f : fwok (fwake f) = true. Proof. reflexivity. Qed.
Lemma ok_wake f : pc_ok f -> pc_ok (fwake f). Proof. exact (fun H => H). Qed.

Lemma Own_g0 n : Own (g0 n).
Proof.
  unfold Own, g0. cbn. constructor; cbn; try (intros; contradiction); [constructor| | |].
  - intros i f id L S. apply nth_error_In in L. apply repeat_spec in L. subst f. discriminate.
  - intros i j f g id L _ S _. apply nth_error_In in L. apply repeat_spec in L. subst f. discriminate.
  - intros i f L. apply nth_error_In in L. apply repeat_spec in L. subst f. unfold pc_ok. cbn. split; auto; discriminate.
Qed.

Lemma Own_move l nid fs i f f' : OwnP l nid fs -> nth_error fs i = Some f -> flis f' = flis f -> parkedb f' = false -> pc_ok f' ->
  OwnP l nid (set_nth i f' fs).
Proof.
  intros O L Hl Np HP. apply (OwnP_upd_fut fut flis parkedb fwok pc_ok l nid fs i f f' O L Hl HP).
  intros e He Q Ok. unfold ent_ok in *. destruct (est e); [exact Np | exact Ok | intro H; congruence].
Qed.
Lemma Own_notify n add s : Own s -> Own (do_notify n add s).
Proof.
  intro O. unfold Own, do_notify in *.
  pose proof (OwnP_notify fut flis parkedb fwok fwake pc_ok lis_wake parked_wake wok_wake ok_wake n add _ _ _ O) as G.
  destruct (ev_notify n add (g_ev s)) as [l' ws]. exact G.
Qed.
Lemma Own_drop s i f f' s0 : Own s -> getf s i = Some f -> flis f' = None -> pc_ok f' ->
  g_ev s0 = g_ev s -> g_nid s0 = g_nid s -> g_futs s0 = set_nth i f' (g_futs s) -> Own (do_drop (flis f) s0).
Proof.
  intros O L Ln HP E1 E2 E3. unfold Own, do_drop in *. rewrite E1.
  pose proof (OwnP_drop fut flis parkedb fwok fwake pc_ok lis_wake parked_wake wok_wake ok_wake _ _ _ i f f' O L Ln HP) as G.
  destruct (ev_drop_opt (flis f) (g_ev s)) as [l' ws]. unfold with_ev. cbn [g_ev g_nid g_futs]. rewrite E2, E3. exact G.
Qed.

Ltac pcok Pf Pc := unfold pc_ok in *; cbn [fpc flis fwok fcan setpc] in *; rewrite ?Pc in *; cbn [lisN lisS] in *;
  destruct Pf as (Pf1 & Pf2); split; intros; try discriminate; try congruence; auto.

Lemma Own_step s a : Own s -> Own (step true true s a).
Proof.
  intro O. destruct a as [i|i c|i]; cbn [step].
  - destruct (getf s i) as [f|] eqn:L; [|exact O]. pose proof (ow_pc _ _ _ _ _ _ _ _ O i f L) as Pf.
    destruct (fpc f) eqn:Pc; try exact O; unfold Own, with_fut; cbn [g_ev g_nid g_futs];
      (apply (Own_move _ _ _ i f _ O L); [reflexivity | reflexivity | pcok Pf Pc]).
  - destruct (getf s i) as [f|] eqn:L; [|exact O]. pose proof (ow_pc _ _ _ _ _ _ _ _ O i f L) as Pf. pose proof L as L0. unfold getf in L0.
    destruct (fpc f) eqn:Pc; try exact O.
    + (* OLoad *) destruct (g_st s); unfold Own, with_fut; cbn [g_ev g_nid g_futs];
        (apply (Own_move _ _ _ i f _ O L); [reflexivity | try destruct (flis f); reflexivity | try destruct (flis f) eqn:Ls; pcok Pf Pc]).
    + (* OCas *) destruct (g_st s); unfold Own, with_fut, with_st; cbn [g_ev g_nid g_futs];
        (apply (Own_move _ _ _ i f _ O L); [reflexivity | reflexivity | pcok Pf Pc]).
    + (* OListen *) unfold Own; cbn [g_ev g_nid g_futs]. destruct Pf as (Pf1 & _). rewrite Pc in Pf1.
      apply (OwnP_listen fut flis parkedb fwok fwake pc_ok lis_wake parked_wake wok_wake ok_wake _ _ _ i f _ O L0 (Pf1 eq_refl)); [reflexivity | reflexivity|].
      unfold pc_ok. cbn. split; intros; discriminate.
    + (* OPollL *) destruct (flis f) as [id|] eqn:Ls; [|exact O].
      unfold ev_poll. destruct (ev_find id (g_ev s)) as [[|w0|a]|] eqn:Fd; try exact O; unfold Own; cbn [g_ev g_nid g_futs].
      * apply (OwnP_set_task fut flis parkedb fwok pc_ok _ _ _ i f _ id O L0 Ls); [reflexivity|]. unfold pc_ok. cbn. split; intros; [discriminate | congruence].
      * apply (OwnP_set_task fut flis parkedb fwok pc_ok _ _ _ i f _ id O L0 Ls); [reflexivity|]. unfold pc_ok. cbn. split; intros; [discriminate | congruence].
      * apply (OwnP_remove fut flis parkedb fwok pc_ok _ _ _ i f _ id O L0 Ls); [reflexivity|]. unfold pc_ok. cbn. split; intros; discriminate.
    + (* ORun *) destruct c as [|[|c]]; unfold Own, with_fut; cbn [g_ev g_nid g_futs];
        (apply (Own_move _ _ _ i f _ O L); [reflexivity | reflexivity | pcok Pf Pc]).
    + (* OStoreD *) unfold Own, with_st; cbn [g_ev g_nid g_futs]. apply (Own_move _ _ _ i f _ O L); [reflexivity | reflexivity | pcok Pf Pc].
    + (* ONotA *) apply Own_notify. unfold Own, with_fut; cbn [g_ev g_nid g_futs]. apply (Own_move _ _ _ i f _ O L); [reflexivity | reflexivity | pcok Pf Pc].
    + (* OStoreU *) unfold Own, with_st; cbn [g_ev g_nid g_futs]. apply (Own_move _ _ _ i f _ O L); [reflexivity | reflexivity | pcok Pf Pc].
    + (* ONot1 *) apply Own_notify. unfold Own, with_fut; cbn [g_ev g_nid g_futs]. apply (Own_move _ _ _ i f _ O L); [reflexivity | reflexivity | pcok Pf Pc].
    + (* ORet *) apply (Own_drop s i f (mkF (if fcan f then OGone else ODone) None (fwok f) (fcan f))); auto.
      unfold pc_ok. cbn. destruct (fcan f); split; intros; try reflexivity; discriminate.
  - destruct (getf s i) as [f|] eqn:L; [|exact O]. pose proof (ow_pc _ _ _ _ _ _ _ _ O i f L) as Pf.
    destruct (fpc f) eqn:Pc; try exact O; unfold Own, with_fut; cbn [g_ev g_nid g_futs].
    + apply (Own_move _ _ _ i f _ O L); [cbn; destruct Pf as (Pf1 & _); rewrite Pc in Pf1; symmetry; apply Pf1; reflexivity | reflexivity |].
      unfold pc_ok. cbn. split; intros; [reflexivity | discriminate].
    + apply (Own_move _ _ _ i f _ O L); [reflexivity | reflexivity | pcok Pf Pc].
    + apply (Own_move _ _ _ i f _ O L); [reflexivity | reflexivity | pcok Pf Pc].
    + apply (Own_move _ _ _ i f _ O L); [cbn; destruct Pf as (Pf1 & _); rewrite Pc in Pf1; symmetry; apply Pf1; reflexivity | reflexivity |].
      unfold pc_ok. cbn. split; intros; [reflexivity | discriminate].
Qed.

(* ---------- never stuck: the state is Initializing exactly while one future is the initialiser ---------- *)
Fixpoint cntb (P : fut -> bool) (l : list fut) : N :=
  match l with [] => 0 | f :: r => (if P f then 1 else 0) + cntb P r end.
Definition b2N (b : bool) : N := if b then 1 else 0.
Definition Winv (s : gst) : Prop := cntb runner (g_futs s) = b2N (initialising s).

Lemma cntb_set P i f x l : nth_error l i = Some f -> cntb P (set_nth i x l) + b2N (P f) = cntb P l + b2N (P x).
Proof.
  revert i. induction l as [|a r IH]; intros [|i] H; cbn in H; try discriminate.
  - inversion H; subst. cbn. unfold b2N. lia.
  - specialize (IH i H). cbn [set_nth cntb]. lia.
Qed.
Lemma cntb_wake P k ws l : (forall f, P (fwake f) = P f) -> cntb P (wake_from k ws l) = cntb P l.
Proof. intro H. revert k. induction l as [|f r IH]; intro k; cbn; [reflexivity|]. rewrite IH. destruct (memb k ws); [rewrite H|]; reflexivity. Qed.
Lemma cntb_pos_ex P l : 1 <= cntb P l -> existsb P l = true.
Proof. induction l as [|a r IH]; cbn; [lia|]. destruct (P a); [reflexivity|]. intro H. apply IH. lia. Qed.
Lemma cntb_ge P i f l : nth_error l i = Some f -> P f = true -> 1 <= cntb P l.
Proof.
  revert i. induction l as [|a r IH]; intros [|i] H T; cbn in H; try discriminate.
  - inversion H; subst. cbn. rewrite T. lia.
  - specialize (IH i H T). cbn. lia.
Qed.
Lemma runner_eq f : runner f = match fpc f with ORun | ORunP | OStoreD | OStoreU => true | _ => false end.
Proof. reflexivity. Qed.

Lemma Winv_g0 n : Winv (g0 n).
Proof. unfold Winv, g0. cbn. induction n as [|n IH]; cbn; [reflexivity|]. exact IH. Qed.

(* future i becomes x and the state c *)
Lemma Winv_upd s i f x c : Winv s -> getf s i = Some f ->
  b2N (runner x) + b2N (initialising s) = b2N (runner f) + b2N (match c with SI => true | _ => false end) ->
  Winv (mkG c (g_ev s) (g_nid s) (set_nth i x (g_futs s))).
Proof.
  intros W L E. unfold Winv in *. cbn [g_futs]. unfold initialising at 1. cbn [g_st].
  pose proof (cntb_set runner i f x _ L) as C. lia.
Qed.
Lemma Winv_ext s s' : g_st s' = g_st s -> cntb runner (g_futs s') = cntb runner (g_futs s) -> Winv s -> Winv s'.
Proof. intros A B W. unfold Winv, initialising in *. rewrite A, B. exact W. Qed.

Lemma Winv_step s a : Winv s -> Winv (step true true s a).
Proof.
  intro W. destruct a as [i|i c|i]; cbn [step].
  - destruct (getf s i) as [f|] eqn:L; [|exact W].
    destruct (fpc f) eqn:Pc; try exact W; unfold with_fut; apply (Winv_upd s i f _ _ W L); rewrite !runner_eq; cbn [fpc]; rewrite Pc; unfold initialising; destruct (g_st s); reflexivity.
  - destruct (getf s i) as [f|] eqn:L; [|exact W]. pose proof L as L0. unfold getf in L0.
    assert (RI : runner f = true -> g_st s = SI).
    { intro R. pose proof (cntb_ge runner i f _ L0 R) as G. unfold Winv, initialising in W. destruct (g_st s); cbn in W; try lia. reflexivity. }
    destruct (fpc f) eqn:Pc; try exact W.
    + destruct (g_st s) eqn:St; unfold with_fut; rewrite <- ?St; apply (Winv_upd s i f _ _ W L); rewrite !runner_eq; unfold setpc; cbn [fpc]; rewrite Pc;
        unfold initialising; rewrite St; try destruct (flis f); reflexivity.
    + destruct (g_st s) eqn:St; unfold with_fut, with_st; apply (Winv_upd s i f _ _ W L); rewrite !runner_eq; unfold setpc; cbn [fpc]; rewrite Pc; unfold initialising; rewrite St; reflexivity.
    + (* OListen *) apply (Winv_ext (with_fut s i (mkF OLoad (Some (g_nid s)) (fwok f) (fcan f)))); [reflexivity | reflexivity|].
      unfold with_fut. apply (Winv_upd s i f _ _ W L). rewrite !runner_eq; cbn [fpc]; rewrite Pc. unfold initialising. destruct (g_st s); reflexivity.
    + (* OPollL *) destruct (flis f) as [id|]; [|exact W]. destruct (ev_poll id i (g_ev s)) as [[l [|]]|]; try exact W.
      * apply (Winv_ext (with_fut s i (mkF OLoad None (fwok f) (fcan f)))); [reflexivity | reflexivity|].
        unfold with_fut. apply (Winv_upd s i f _ _ W L). rewrite !runner_eq; cbn [fpc]; rewrite Pc. unfold initialising. destruct (g_st s); reflexivity.
      * apply (Winv_ext (with_fut s i (mkF OParked (Some id) (fwok f) (fcan f)))); [reflexivity | reflexivity|].
        unfold with_fut. apply (Winv_upd s i f _ _ W L). rewrite !runner_eq; cbn [fpc]; rewrite Pc. unfold initialising. destruct (g_st s); reflexivity.
    + (* ORun *) destruct c as [|[|c]]; unfold with_fut; apply (Winv_upd s i f _ _ W L); rewrite !runner_eq; unfold setpc; cbn [fpc]; rewrite Pc;
        unfold initialising; destruct (g_st s); reflexivity.
    + (* OStoreD *) specialize (RI ltac:(rewrite runner_eq, Pc; reflexivity)). unfold with_st. apply (Winv_upd s i f _ SD W L).
      rewrite !runner_eq; unfold setpc; cbn [fpc]; rewrite Pc. unfold initialising. rewrite RI. reflexivity.
    + (* ONotA *) apply (Winv_ext (with_fut s i (setpc ORet f))).
      * unfold do_notify. destruct (ev_notify NMAX true (g_ev (with_fut s i (setpc ORet f)))). reflexivity.
      * unfold do_notify. destruct (ev_notify NMAX true (g_ev (with_fut s i (setpc ORet f)))). unfold with_ev. cbn [g_futs]. apply cntb_wake. reflexivity.
      * unfold with_fut. apply (Winv_upd s i f _ _ W L). rewrite !runner_eq; unfold setpc; cbn [fpc]; rewrite Pc. unfold initialising. destruct (g_st s); reflexivity.
    + (* OStoreU *) specialize (RI ltac:(rewrite runner_eq, Pc; reflexivity)). unfold with_st. apply (Winv_upd s i f _ SU W L).
      rewrite !runner_eq; unfold setpc; cbn [fpc]; rewrite Pc. unfold initialising. rewrite RI. reflexivity.
    + (* ONot1 *) apply (Winv_ext (with_fut s i (setpc ORet f))).
      * unfold do_notify. destruct (ev_notify 1 false (g_ev (with_fut s i (setpc ORet f)))). reflexivity.
      * unfold do_notify. destruct (ev_notify 1 false (g_ev (with_fut s i (setpc ORet f)))). unfold with_ev. cbn [g_futs]. apply cntb_wake. reflexivity.
      * unfold with_fut. apply (Winv_upd s i f _ _ W L). rewrite !runner_eq; unfold setpc; cbn [fpc]; rewrite Pc. unfold initialising. destruct (g_st s); reflexivity.
    + (* ORet *) set (x := mkF (if fcan f then OGone else ODone) None (fwok f) (fcan f)). apply (Winv_ext (with_fut s i x)).
      * unfold do_drop. destruct (ev_drop_opt (flis f) (g_ev (with_fut s i x))). reflexivity.
      * unfold do_drop. destruct (ev_drop_opt (flis f) (g_ev (with_fut s i x))). unfold with_ev. cbn [g_futs]. apply cntb_wake. reflexivity.
      * unfold with_fut. apply (Winv_upd s i f _ _ W L). rewrite !runner_eq; unfold x; cbn [fpc]; rewrite Pc. unfold initialising. destruct (fcan f), (g_st s); reflexivity.
  - destruct (getf s i) as [f|] eqn:L; [|exact W].
    destruct (fpc f) eqn:Pc; try exact W; unfold with_fut; apply (Winv_upd s i f _ _ W L); rewrite !runner_eq; cbn [fpc]; rewrite Pc; unfold initialising; destruct (g_st s); reflexivity.
Qed.

(* ---------- waiting implies something in flight ---------- *)
Definition waits (f : fut) : bool := match fpc f with OPollL | OParked => true | _ => false end.
Definition needs (l : event) (f : fut) : bool :=
  match flis f with Some id => waits f && negb (notified id l) | None => false end.
Definition needy (s : gst) : bool := existsb (needs (g_ev s)) (g_futs s).
Definition tokU (f : fut) : bool := match fpc f with ONot1 | OLoad | OCas => true | _ => false end.
Definition tokD (f : fut) : bool := match fpc f with ONotA => true | _ => false end.
Definition inflight (s : gst) : bool :=
  match g_st s with
  | SI => true
  | SU => has_notified (g_ev s) || existsb tokU (g_futs s)
  | SD => existsb tokD (g_futs s)
  end.
Definition Tinv (s : gst) : Prop := needy s = true -> inflight s = true.

Lemma needy_nonempty s : Own s -> needy s = true -> g_ev s <> [].
Proof.
  intros O H. unfold needy in H. apply existsb_exists in H. destruct H as (f & Hf & Nf). apply In_nth_error in Hf. destruct Hf as (i & L).
  unfold needs in Nf. destruct (flis f) as [id|] eqn:Ls; [|discriminate]. pose proof (ow_listed _ _ _ _ _ _ _ _ O i f id L Ls) as Hin.
  intro Q. rewrite Q in Hin. contradiction.
Qed.

Lemma T_init s' : g_st s' = SI -> Tinv s'.
Proof. intros H _. unfold inflight. rewrite H. reflexivity. Qed.

(* the general step: future i becomes x, wakers ws are called, the event becomes l'; the state stays or the new token
   is there *)
Lemma T_plain s s' i f x ws : Own s -> Tinv s -> getf s i = Some f -> Own s' ->
  g_futs s' = wake_from 0 ws (set_nth i x (g_futs s)) ->
  g_st s' = g_st s ->
  (needs (g_ev s') x = true -> needs (g_ev s) f = true) ->
  (g_st s = SU -> tokU f = true -> tokU x = true) -> (g_st s = SD -> tokD f = true -> tokD x = true) ->
  (forall j g id, j <> i -> nth_error (g_futs s) j = Some g -> flis g = Some id -> notified id (g_ev s) = true -> notified id (g_ev s') = true) ->
  (g_st s = SU -> has_notified (g_ev s) = true -> g_ev s' = [] \/ has_notified (g_ev s') = true) ->
  Tinv s'.
Proof.
  intros O T L O' EF ES EN ETU ETD EM EH Nd. unfold getf in L.
  assert (Nd0 : needy s = true).
  { unfold needy in *. rewrite EF in Nd. rewrite (existsb_wake fut fwake) in Nd by reflexivity.
    destruct (existsb_set_inv _ _ _ _ _ L Nd) as [Hx|(j & g & N & Lj & Pg)].
    - apply (existsb_nth _ i f L). apply EN. exact Hx.
    - apply (existsb_nth _ j g Lj). unfold needs in *. destruct (flis g) as [id|] eqn:Ls; [|discriminate].
      apply Bool.andb_true_iff in Pg. destruct Pg as (P1 & P2). rewrite P1. cbn.
      destruct (notified id (g_ev s)) eqn:Q; [|reflexivity]. rewrite (EM j g id N Lj Ls Q) in P2. discriminate. }
  specialize (T Nd0). unfold inflight in *. rewrite ES.
  assert (KEEP : forall tk, (tk f = true -> tk x = true) -> (forall g, tk (fwake g) = tk g) -> existsb tk (g_futs s) = true -> existsb tk (g_futs s') = true).
  { intros tk Hk Hw H. rewrite EF. rewrite (existsb_wake fut fwake) by exact Hw.
    apply existsb_exists in H. destruct H as (g & Hg & Tg). apply In_nth_error in Hg. destruct Hg as (j & Lj).
    destruct (Nat.eq_dec j i) as [->|N].
    + rewrite L in Lj. inversion Lj; subst g. apply (existsb_nth _ i x); [apply (nth_set_same _ _ _ _ L) | apply Hk; exact Tg].
    + apply (existsb_nth _ j g); [rewrite nth_set_other by congruence; exact Lj | exact Tg]. }
  destruct (g_st s) eqn:St.
  - apply Bool.orb_true_iff in T. apply Bool.orb_true_iff. destruct T as [T|T].
    + left. destruct (EH eq_refl T) as [E|H]; [exfalso; apply (needy_nonempty s' O' Nd); exact E | exact H].
    + right. apply (KEEP tokU (ETU eq_refl)); [reflexivity | exact T].
  - reflexivity.
  - apply (KEEP tokD (ETD eq_refl)); [reflexivity | exact T].
Qed.

Lemma T_same s s' i f x : Own s -> Tinv s -> getf s i = Some f -> Own s' ->
  g_futs s' = set_nth i x (g_futs s) -> g_ev s' = g_ev s -> g_st s' = g_st s ->
  (needs (g_ev s) x = true -> needs (g_ev s) f = true) -> (g_st s = SU -> tokU f = true -> tokU x = true) -> (g_st s = SD -> tokD f = true -> tokD x = true) -> Tinv s'.
Proof.
  intros O T L O' EF EE ES EN ETU ETD. apply (T_plain s s' i f x [] O T L O'); auto.
  - rewrite (wake_nil fut fwake). exact EF.
  - rewrite EE. exact EN.
  - intros j g id _ _ _ H. rewrite EE. exact H.
  - intros _ H. right. rewrite EE. exact H.
Qed.

(* future i ends at a pc that is what must be in flight for the (unchanged) state, or the state is Initializing *)
Lemma T_tokU s' i x : nth_error (g_futs s') i = Some x -> tokU x = true -> g_st s' <> SD -> Tinv s'.
Proof.
  intros L T N _. unfold inflight. destruct (g_st s'); [|reflexivity | contradiction].
  apply Bool.orb_true_iff. right. apply (existsb_nth _ i x); assumption.
Qed.

Lemma drop_proj o s : g_ev (do_drop o s) = fst (ev_drop_opt o (g_ev s)) /\ g_futs (do_drop o s) = wake_from 0 (snd (ev_drop_opt o (g_ev s))) (g_futs s) /\
  g_st (do_drop o s) = g_st s.
Proof. unfold do_drop. destruct (ev_drop_opt o (g_ev s)) as [l ws]. repeat split. Qed.
Lemma notify_proj n a s : g_ev (do_notify n a s) = fst (ev_notify n a (g_ev s)) /\ g_st (do_notify n a s) = g_st s /\
  g_futs (do_notify n a s) = wake_from 0 (snd (ev_notify n a (g_ev s))) (g_futs s).
Proof. unfold do_notify. destruct (ev_notify n a (g_ev s)) as [l ws]. repeat split. Qed.

(* after notify_additional(MAX) every entry is notified: nobody waits un-notified *)
Lemma T_after_notify_all s0 : Own (do_notify NMAX true s0) -> N.of_nat (length (g_ev s0)) <= NMAX -> Tinv (do_notify NMAX true s0).
Proof.
  intros O' B Nd. exfalso. unfold needy in Nd. apply existsb_exists in Nd. destruct Nd as (f & Hf & Nf). apply In_nth_error in Hf. destruct Hf as (i & L).
  unfold needs in Nf. destruct (flis f) as [id|] eqn:Ls; [|discriminate]. apply Bool.andb_true_iff in Nf. destruct Nf as (_ & Nf).
  pose proof (ow_listed _ _ _ _ _ _ _ _ O' i f id L Ls) as Hin.
  destruct (notify_proj NMAX true s0) as (E & _). rewrite E in Hin, Nf.
  pose proof (notify_rel NMAX true (g_ev s0)) as R. unfold ev_notify in *. cbn [fst] in *.
  assert (Hin0 : In id (ids (g_ev s0))).
  { destruct (mark true NMAX (g_ev s0)) as [l' ws] eqn:Q. cbn [fst] in Hin. rewrite (upd_ids _ _ _ _ R) in Hin. exact Hin. }
  destruct (BarrierInv.mark_all true NMAX (g_ev s0) id ltac:(lia) Hin0) as (a & Fa).
  unfold notified in Nf. rewrite Fa in Nf. discriminate.
Qed.
Lemma T_after_notify1 s0 : Own (do_notify 1 false s0) -> g_st s0 <> SD -> Tinv (do_notify 1 false s0).
Proof.
  intros O' N Nd. destruct (notify_proj 1 false s0) as (E & S & _). unfold inflight. rewrite S.
  destruct (g_st s0); [|reflexivity | contradiction].
  apply Bool.orb_true_iff. left. rewrite E. apply notify_has; [lia|]. apply (notify_ne 1 false). rewrite <- E. apply needy_nonempty; assumption.
Qed.

(* a notify(1) or a drop when the cell is initialised: nothing new waits, what is in flight stays *)
Lemma T_mono s s' i f x ws : Own s -> Tinv s -> getf s i = Some f -> Own s' ->
  g_futs s' = wake_from 0 ws (set_nth i x (g_futs s)) -> g_st s' = g_st s ->
  flis x = None \/ waits x = false ->
  (g_st s = SU -> tokU f = true -> tokU x = true) -> (g_st s = SD -> tokD f = true -> tokD x = true) ->
  (forall id, (forall id0, flis f = Some id0 -> id <> id0) -> notified id (g_ev s) = true -> notified id (g_ev s') = true) ->
  (g_st s = SU -> has_notified (g_ev s) = true -> g_ev s' = [] \/ has_notified (g_ev s') = true) ->
  Tinv s'.
Proof.
  intros O T L O' EF ES EX ETU ETD EM EH. pose proof L as L0. unfold getf in L0.
  apply (T_plain s s' i f x ws O T L O' EF ES); auto.
  - unfold needs. destruct EX as [-> | ->]; [discriminate | destruct (flis x); discriminate].
  - intros j g id N Lj Lg H. apply EM; [|exact H]. intros id0 Ls ->. apply N. apply (ow_inj _ _ _ _ _ _ _ _ O j i g f id0 Lj L0 Lg Ls).
Qed.

Definition Binv (s : gst) (k : nat) : Prop := (g_nid s <= k)%nat.
Lemma Binv_step s a k : Binv s k -> Binv (step true true s a) (S k).
Proof.
  unfold Binv. intro B. destruct a as [i|i c|i]; cbn [step].
  - destruct (getf s i) as [f|]; [|lia]. destruct (fpc f); cbn; lia.
  - destruct (getf s i) as [f|]; [|lia]. destruct (fpc f); try (cbn; lia).
    + destruct (g_st s); cbn; lia.
    + destruct (g_st s); cbn; lia.
    + destruct (flis f) as [id|]; [|lia]. destruct (ev_poll id i (g_ev s)) as [[l [|]]|]; cbn; lia.
    + destruct c as [|[|c]]; cbn; lia.
    + unfold do_notify. destruct (ev_notify NMAX true _). cbn. lia.
    + unfold do_notify. destruct (ev_notify 1 false _). cbn. lia.
    + unfold do_drop. destruct (ev_drop_opt (flis f) _). cbn. lia.
  - destruct (getf s i) as [f|]; [|lia]. destruct (fpc f); cbn; lia.
Qed.

Lemma len_le_nid s : Own s -> (length (g_ev s) <= g_nid s)%nat.
Proof.
  intro O. rewrite <- (map_length eid). apply BarrierInv.NoDup_bound; [apply (ow_nd _ _ _ _ _ _ _ _ O) | apply (ow_fresh _ _ _ _ _ _ _ _ O)].
Qed.

Ltac notk_unused Pc := let H := fresh in intros _ H; revert H; (unfold tokU || idtac); (unfold tokD || idtac); rewrite Pc; discriminate.

Ltac tk Pc := first
  [ solve [ let H := fresh in intros _ H; unfold tokU in H; rewrite Pc in H; discriminate H ]
  | solve [ let H := fresh in intros _ H; unfold tokD in H; rewrite Pc in H; discriminate H ]
  | solve [ let Q := fresh in intro Q; congruence ] ].

Lemma Tinv_step s a k : Own s -> Winv s -> Binv s k -> N.of_nat k <= NMAX -> Tinv s -> Tinv (step true true s a).
Proof.
  intros O W B KB T. pose proof (Own_step s a O) as O'.
  destruct a as [i|i c|i]; cbn [step] in *.
  - (* APoll *)
    destruct (getf s i) as [f|] eqn:L; [|exact T]. pose proof (ow_pc _ _ _ _ _ _ _ _ O i f L) as (P1 & P2). pose proof L as L0. unfold getf in L0.
    destruct (fpc f) eqn:Pc; try exact T; cbn [lisN lisS] in *.
    + (* OIdle -> OLoad *)
      eapply (T_same s _ i f _ O T L O'); try reflexivity; try tk Pc.
      * unfold needs. cbn [flis]. rewrite P1 by reflexivity. discriminate.
    + (* ORunP -> ORun *)
      eapply (T_same s _ i f _ O T L O'); try reflexivity; try tk Pc.
      * unfold needs, waits. cbn [flis fpc]. destruct (flis f); discriminate.
    + (* OParked -> OPollL *)
      eapply (T_same s _ i f _ O T L O'); try reflexivity; try tk Pc.
      * unfold needs, waits. cbn [flis fpc]. rewrite Pc. exact (fun H => H).
  - (* AStep *)
    destruct (getf s i) as [f|] eqn:L; [|exact T]. pose proof (ow_pc _ _ _ _ _ _ _ _ O i f L) as (P1 & P2).
    pose proof L as L0. unfold getf in L0.
    assert (RI : runner f = true -> g_st s = SI).
    { intro R. pose proof (cntb_ge runner i f _ L0 R) as G. unfold Winv, initialising in W. destruct (g_st s); cbn in W; try lia. reflexivity. }
    destruct (fpc f) eqn:Pc; try exact T; cbn [lisN lisS] in *.
    + (* OLoad *) destruct (g_st s) eqn:St.
      * apply (T_tokU _ i (setpc OCas f)); [cbn [g_futs with_fut]; apply (nth_set_same _ _ _ _ L0) | reflexivity | cbn [g_st with_fut]; first [congruence | discriminate]].
      * apply T_init; cbn [g_st with_fut]; first [exact St | reflexivity].
      * (* Initialized: return *)
        eapply (T_same s _ i f _ O T L O'); try reflexivity; try tk Pc.
        -- unfold needs, waits, setpc. cbn [flis fpc]. destruct (flis f); discriminate.
    + (* OCas *) destruct (g_st s) eqn:St.
      * apply T_init. reflexivity.
      * apply T_init; cbn [g_st with_fut]; first [exact St | reflexivity].
      * eapply (T_same s _ i f _ O T L O'); try reflexivity; try tk Pc.
        -- unfold needs, waits, setpc. cbn [flis fpc]. destruct (flis f); discriminate.
    + (* OListen *)
      destruct (g_st s) eqn:St.
      * apply (T_tokU _ i (mkF OLoad (Some (g_nid s)) (fwok f) (fcan f))); [cbn [g_futs]; apply (nth_set_same _ _ _ _ L0) | reflexivity | cbn [g_st]; first [congruence | discriminate]].
      * apply T_init; cbn [g_st]; first [exact St | reflexivity].
      * apply (T_plain s _ i f (mkF OLoad (Some (g_nid s)) (fwok f) (fcan f)) [] O T L O'); cbn [g_futs g_ev g_st]; auto; try tk Pc.
        -- rewrite (wake_nil fut fwake). reflexivity.
        -- unfold needs, waits. cbn. discriminate.
        -- intros j g id' N Lj Lg H. unfold notified, ev_listen in *. rewrite find_app. destruct (ev_find id' (g_ev s)); [exact H | discriminate].
    + (* OPollL *)
      destruct (flis f) as [id|] eqn:Ls; [|exact T].
      unfold ev_poll in *. destruct (ev_find id (g_ev s)) as [[|w0|a]|] eqn:Fd; try exact T.
      * apply (T_plain s _ i f (mkF OParked (Some id) (fwok f) (fcan f)) [] O T L O'); cbn [g_futs g_ev g_st]; auto; try tk Pc.
        -- rewrite (wake_nil fut fwake). reflexivity.
        -- intros _. unfold needs, waits. rewrite Ls, Pc. unfold notified. rewrite Fd. reflexivity.
        -- intros j g id' N Lj Lg H. unfold notified in *. rewrite find_set_other; [exact H|]. intros ->. apply N.
           apply (ow_inj _ _ _ _ _ _ _ _ O j i g f id Lj L0 Lg Ls).
        -- intros _ H. right. apply has_set; [intros a Q; congruence | exact H].
      * apply (T_plain s _ i f (mkF OParked (Some id) (fwok f) (fcan f)) [] O T L O'); cbn [g_futs g_ev g_st]; auto; try tk Pc.
        -- rewrite (wake_nil fut fwake). reflexivity.
        -- intros _. unfold needs, waits. rewrite Ls, Pc. unfold notified. rewrite Fd. reflexivity.
        -- intros j g id' N Lj Lg H. unfold notified in *. rewrite find_set_other; [exact H|]. intros ->. apply N.
           apply (ow_inj _ _ _ _ _ _ _ _ O j i g f id Lj L0 Lg Ls).
        -- intros _ H. right. apply has_set; [intros a' Q; congruence | exact H].
      * (* consumed *)
        destruct (g_st s) eqn:St.
        -- apply (T_tokU _ i (mkF OLoad None (fwok f) (fcan f))); [cbn [g_futs]; apply (nth_set_same _ _ _ _ L0) | reflexivity | cbn [g_st]; first [congruence | discriminate]].
        -- apply T_init; cbn [g_st]; first [exact St | reflexivity].
        -- (* initialised: removing a notified entry creates no waiter *)
           apply (T_plain s _ i f (mkF OLoad None (fwok f) (fcan f)) [] O T L O'); cbn [g_futs g_ev g_st]; auto; try tk Pc.
           ++ rewrite (wake_nil fut fwake). reflexivity.
           ++ unfold needs. cbn. discriminate.
           ++ intros j g id' N Lj Lg H. unfold notified in *. rewrite find_remove_other; [exact H|]. intros ->. apply N.
              apply (ow_inj _ _ _ _ _ _ _ _ O j i g f id Lj L0 Lg Ls).
    + (* ORun *) apply T_init. specialize (RI ltac:(rewrite runner_eq, Pc; reflexivity)). destruct c as [|[|c]]; cbn [g_st with_fut]; exact RI.
    + (* OStoreD *) intros _. unfold inflight. cbn [g_st with_st g_futs]. apply (existsb_nth _ i (setpc ONotA f)); [apply (nth_set_same _ _ _ _ L0) | reflexivity].
    + (* ONotA *) apply T_after_notify_all; [exact O'|]. cbn [g_ev with_fut]. pose proof (len_le_nid s O). unfold Binv in B. lia.
    + (* OStoreU *) intros _. unfold inflight. cbn [g_st with_st g_futs]. apply Bool.orb_true_iff. right.
      apply (existsb_nth _ i (setpc ONot1 f)); [apply (nth_set_same _ _ _ _ L0) | reflexivity].
    + (* ONot1 *)
      destruct (g_st s) eqn:St.
      * apply T_after_notify1; [exact O' | cbn [g_st with_fut]; first [congruence | discriminate]].
      * apply T_init. destruct (notify_proj 1 false (with_fut s i (setpc ORet f))) as (_ & S & _). rewrite S. exact St.
      * destruct (notify_proj 1 false (with_fut s i (setpc ORet f))) as (E1 & E2 & E3).
        apply (T_mono s _ i f (setpc ORet f) (snd (ev_notify 1 false (g_ev s))) O T L O'); try tk Pc.
        -- rewrite E3. reflexivity.
        -- rewrite E2. reflexivity.
        -- right. reflexivity.
        -- intros id _ H. rewrite E1. cbn [g_ev with_fut]. pose proof (notify_rel 1 false (g_ev s)) as R. destruct (ev_notify 1 false (g_ev s)) as [l' ws]. apply (notified_upd false ws _ _ id R H).
    + (* ORet *)
      set (x := mkF (if fcan f then OGone else ODone) None (fwok f) (fcan f)) in *.
      destruct (drop_proj (flis f) (with_fut s i x)) as (E1 & E2 & E3).
      apply (T_mono s _ i f x (snd (ev_drop_opt (flis f) (g_ev s))) O T L O'); try tk Pc.
      * rewrite E2. reflexivity.
      * rewrite E3. reflexivity.
      * left. reflexivity.
      * intros id N H. rewrite E1. cbn [g_ev with_fut]. apply drop_mono; [exact N | exact H].
      * intros _ H. rewrite E1. cbn [g_ev with_fut]. apply drop_has; [apply (ow_nd _ _ _ _ _ _ _ _ O) | exact H].
  - (* ACancel *)
    destruct (getf s i) as [f|] eqn:L; [|exact T]. pose proof (ow_pc _ _ _ _ _ _ _ _ O i f L) as (P1 & P2).
    destruct (fpc f) eqn:Pc; try exact T; cbn [lisN lisS] in *.
    + eapply (T_same s _ i f _ O T L O'); try reflexivity; try tk Pc.
      * unfold needs. cbn. discriminate.
    + eapply (T_same s _ i f _ O T L O'); try reflexivity; try tk Pc.
      * unfold needs, waits. cbn [flis fpc]. destruct (flis f); discriminate.
    + eapply (T_same s _ i f _ O T L O'); try reflexivity; try tk Pc.
      * unfold needs, waits. cbn [flis fpc]. destruct (flis f); discriminate.
    + eapply (T_same s _ i f _ O T L O'); try reflexivity; try tk Pc.
      * unfold needs. cbn. discriminate.
Qed.

Lemma Tinv_g0 n : Tinv (g0 n).
Proof.
  intros H. exfalso. unfold needy, g0 in H. cbn [g_ev g_futs] in H. apply existsb_exists in H. destruct H as (f & Hf & Nf).
  apply repeat_spec in Hf. subst f. discriminate.
Qed.

Theorem run_inv sched n : N.of_nat (length sched) <= NMAX ->
  Own (run true true n sched) /\ Winv (run true true n sched) /\ Tinv (run true true n sched).
Proof.
  intro LB. unfold run.
  assert (G : forall sc s k, Own s -> Winv s -> Binv s k -> Tinv s -> N.of_nat (k + length sc) <= NMAX ->
              Own (fold_left (step true true) sc s) /\ Winv (fold_left (step true true) sc s) /\ Tinv (fold_left (step true true) sc s)).
  { induction sc as [|a r IH]; intros s k O W B T KB; cbn [fold_left]; [split; [assumption | split; assumption]|].
    cbn [length] in KB. apply (IH _ (S k)).
    - apply Own_step; exact O.
    - apply Winv_step; exact W.
    - apply Binv_step; exact B.
    - apply (Tinv_step s a k); auto. lia.
    - replace (S k + length r)%nat with (k + S (length r))%nat by lia. exact KB. }
  apply (G sched (g0 n) 0%nat); [apply Own_g0 | apply Winv_g0 | unfold Binv; cbn; lia | apply Tinv_g0 | exact LB].
Qed.

(* ---------- the properties ---------- *)
Lemma notified_owner_woken s e : Own s -> In e (g_ev s) -> is_notified e = true ->
  exists i f, getf s i = Some f /\ flis f = Some (eid e) /\ (parkedb f = true -> fwok f = true).
Proof.
  intros O He Ne. destruct (ow_owner _ _ _ _ _ _ _ _ O e He) as (i & f & L & Ls & Ok). exists i, f. split; [exact L|]. split; [exact Ls|].
  unfold ent_ok in Ok. unfold is_notified in Ne. destruct (est e); try discriminate. exact Ok.
Qed.

(* never stuck: whenever the state is Initializing some future is the initialiser (running its closure, or between
   the closure's end and the store) *)
Theorem once_sched_never_stuck sched n : N.of_nat (length sched) <= NMAX -> stuckb (run true true n sched) = false.
Proof.
  intro LB. destruct (run_inv sched n LB) as (_ & W & _). unfold stuckb. destruct (initialising (run true true n sched)) eqn:I; [|reflexivity].
  unfold Winv in W. rewrite I in W. cbn in W. rewrite (cntb_pos_ex runner) by lia. reflexivity.
Qed.

(* hand-over and completion: when nobody is initialising (the cell is empty again after a failed or cancelled
   initialiser, or it is initialised) and nothing is in flight (no thread inside a poll or a drop; every future whose
   waker was called polled again), no polled future waits on active_initializers *)
Theorem once_sched_no_lost_wakeup sched n : N.of_nat (length sched) <= NMAX -> lostb (run true true n sched) = false.
Proof.
  intro LB. destruct (lostb (run true true n sched)) eqn:LOST; [exfalso|reflexivity]. unfold lostb in LOST.
  apply Bool.andb_true_iff in LOST. destruct LOST as (LOST & PK). apply Bool.andb_true_iff in LOST. destruct LOST as (C & Q).
  apply Bool.negb_true_iff in C. destruct (run_inv sched n LB) as (O & W & T). set (s := run true true n sched) in *.
  unfold quiescentb in Q. rewrite forallb_forall in Q.
  apply existsb_exists in PK. destruct PK as (f & Hf & Pf). pose proof (Q f Hf) as Rf. apply In_nth_error in Hf. destruct Hf as (i & L).
  pose proof (ow_pc _ _ _ _ _ _ _ _ O i f L) as (_ & P2). unfold parkedb in Pf. destruct (fpc f) eqn:Pc; try discriminate. cbn [lisS] in P2.
  destruct (flis f) as [id|] eqn:Ls; [|exfalso; apply P2; reflexivity].
  assert (HN : forall e, In e (g_ev s) -> is_notified e = true -> False).
  { intros e He Ne. destruct (notified_owner_woken s e O He Ne) as (j & g & Lj & Lg & Wg).
    pose proof (Q g (nth_error_In _ _ Lj)) as Rg. pose proof (ow_pc _ _ _ _ _ _ _ _ O j g Lj) as (G1 & _).
    unfold at_rest in Rg. unfold parkedb in Wg. destruct (fpc g) eqn:Pg; try discriminate; cbn [lisN] in G1; try (rewrite G1 in Lg by reflexivity; discriminate).
    - (* ORunP: an initialiser parked in its closure may hold a (stale) listener, but nobody is initialising *)
      pose proof (cntb_ge runner j g _ Lj ltac:(rewrite runner_eq, Pg; reflexivity)) as G. unfold Winv in W. rewrite C in W. cbn in W. lia.
    - rewrite (Wg eq_refl) in Rg. discriminate. }
  destruct (notified id (g_ev s)) eqn:Nt.
  - unfold notified in Nt. destruct (ev_find id (g_ev s)) as [[| |a]|] eqn:Fd; try discriminate. apply ev_find_In in Fd.
    apply (HN _ Fd). reflexivity.
  - assert (Nd : needy s = true).
    { unfold needy. apply (existsb_nth _ i f L). unfold needs, waits. rewrite Ls, Pc, Nt. reflexivity. }
    specialize (T Nd). unfold inflight in T. unfold initialising in C.
    destruct (g_st s) eqn:St; try discriminate.
    + apply Bool.orb_true_iff in T. destruct T as [T|T].
      * unfold has_notified in T. apply existsb_exists in T. destruct T as (e & He & Ne). apply (HN e He Ne).
      * apply existsb_exists in T. destruct T as (g & Hg & Tg). specialize (Q g Hg). unfold at_rest in Q. unfold tokU in Tg. destruct (fpc g); discriminate.
    + apply existsb_exists in T. destruct T as (g & Hg & Tg). specialize (Q g Hg). unfold at_rest in Q. unfold tokD in Tg. destruct (fpc g); discriminate.
Qed.

(* teeth: the machine whose guard does not notify loses the hand-over; with the notify the waiter is woken and takes over *)
Lemma once_sched_no_guard_notify_refuted : lostb (run false true 2 handover_schedule) = true.
Proof. vm_compute. reflexivity. Qed.
Example once_sched_handover :
  let s := run true true 2 handover_schedule in
  g_st s = SU /\ nth_error (g_futs s) 1 = Some (mkF OParked (Some 0%nat) true false) /\
  let s2 := fold_left (step true true) [APoll 1; AStep 1 0; AStep 1 0; AStep 1 0] s in
  g_st s2 = SI /\ option_map fpc (nth_error (g_futs s2) 1) = Some ORun.
Proof. vm_compute. repeat split; reflexivity. Qed.
