(* RwReadEvSched.v — the reader side of the RwLock: WRITER_BIT TOGETHER WITH the event no_writer at the granularity
   of single atomic actions, for any number of read() futures and writers and EVERY schedule (C06 (b), schedule half).

   Sites (src/rwlock/raw.rs, pinned by Tie_Raw). A poll of a read() future (RawRead::poll_with_strategy) is
       loop { if state & WRITER_BIT == 0 { match compare_exchange(state, state + ONE_READER) {
                                             Ok => { listener = None; return Ready }  Err(s) => state = s } }
              else if listener.is_none() { listener = Some(no_writer.listen()); state = load() }
              else { ready!(strategy.poll(listener)); state = load();
                     if state & WRITER_BIT == 0 { no_writer.notify(1) } } }
   where `state` is the future's last observation of the word (first taken when the future is created). It is cut
   at every atomic action: the compare_exchange, listen(), the two loads, the poll of the listener, notify(1), the
   drop of the listener. Of the word only WRITER_BIT matters to a reader that waits; the machine keeps that bit.
   Writers are abstract: the bit is set at any time it is clear (write(): fetch_or after the inner mutex; upgrade():
   fetch_sub(ONE_READER - WRITER_BIT)) and cleared at any time it is set, the clearing thread then owing
   no_writer.notify(1) (write_unlock, downgrade_write, downgrade_to_upgradable, a cancelled write()/upgrade()).
   Control flow of the compare_exchange is over-approximated: it may fail at any time (the future then sees the
   current bit), it succeeds only at an instant at which the bit is clear.
   [bt = false] is the code before fix 40a2a26 (finding F2b): the listener is not dropped on completion.

   The event is the model of event-listener in Base.v. The waker of future i is i; polls may start at any time. *)
From Coq Require Import String.
From AL Require Import Base BaseFacts EventFacts.
From AL.Gen Require Import Sites.
From AL.Tie Require Import TieLib.
From AL.Sched Require Import EvOwn.
From Coq Require Import Lia.
Open Scope N_scope.
Open Scope list_scope.

Inductive pcs :=
| RIdle      (* created, never polled *)
| R0         (* inside poll, at the loop head *)
| RLoad1     (* inside poll: just listened, about to load the word *)
| RLoad2     (* inside poll: consumed a notification, about to load the word *)
| RNotify    (* inside poll: about to call no_writer.notify(1) *)
| RDropL     (* inside poll: the compare_exchange succeeded, about to drop the listener *)
| RParked | RDone | RGone.

Record fut := mkF { fpc : pcs; flis : option nat; fwok : bool; flw : bool (* the last observed word has WRITER_BIT *) }.

Record gst := mkG {
  g_wb : bool;              (* WRITER_BIT *)
  g_ev : event;             (* no_writer *)
  g_nid : nat;
  g_futs : list fut;
  g_pend : N;               (* threads between clearing WRITER_BIT and no_writer.notify(1) *)
  g_rg : N                  (* read guards handed out *)
}.

Inductive act :=
| APoll (i : nat) (lw0 : bool)   (* a poll of future i starts; [lw0]: what the future saw when it was created (first poll only) *)
| AStep (i : nat) (fail : bool)  (* its next atomic action; [fail]: the compare_exchange fails although the bit is clear *)
| ACancel (i : nat)
| AWSet | AWClear | APend.

Definition fwake (f : fut) : fut := mkF (fpc f) (flis f) true (flw f).
Definition parkedb (f : fut) : bool := match fpc f with RParked => true | _ => false end.
Notation wake_from := (EvOwn.wake_from fut fwake).

Definition getf (s : gst) (i : nat) : option fut := nth_error (g_futs s) i.
Definition with_fut (s : gst) (i : nat) (f : fut) : gst :=
  mkG (g_wb s) (g_ev s) (g_nid s) (set_nth i f (g_futs s)) (g_pend s) (g_rg s).
Definition with_ev (s : gst) (l : event) (ws : list waker) : gst :=
  mkG (g_wb s) l (g_nid s) (wake_from 0 ws (g_futs s)) (g_pend s) (g_rg s).
Definition do_notify (n : N) (s : gst) : gst :=
  let '(l, ws) := ev_notify n false (g_ev s) in with_ev s l ws.
Definition do_drop (o : option nat) (s : gst) : gst :=
  let '(l, ws) := ev_drop_opt o (g_ev s) in with_ev s l ws.

Definition step (bt : bool) (s : gst) (a : act) : gst :=
  match a with
  | APoll i lw0 =>
      match getf s i with
      | Some f => match fpc f with
                  | RIdle => with_fut s i (mkF R0 (flis f) false lw0)
                  | RParked => with_fut s i (mkF R0 (flis f) false (flw f))
                  | _ => s
                  end
      | None => s
      end
  | AStep i fail =>
      match getf s i with
      | Some f =>
          match fpc f with
          | R0 =>
              if negb (flw f) then
                (* compare_exchange(state, state + ONE_READER) *)
                if negb (g_wb s) && negb fail then
                  (if bt then mkG (g_wb s) (g_ev s) (g_nid s) (set_nth i (mkF RDropL (flis f) (fwok f) false) (g_futs s)) (g_pend s) (g_rg s)
                   else mkG (g_wb s) (g_ev s) (g_nid s) (set_nth i (mkF RDone (flis f) (fwok f) false) (g_futs s)) (g_pend s) (g_rg s + 1))
                else with_fut s i (mkF R0 (flis f) (fwok f) (g_wb s))
              else
                match flis f with
                | None => mkG (g_wb s) (ev_listen (g_nid s) (g_ev s)) (S (g_nid s))
                              (set_nth i (mkF RLoad1 (Some (g_nid s)) (fwok f) true) (g_futs s)) (g_pend s) (g_rg s)
                | Some id =>
                    match ev_poll id i (g_ev s) with
                    | Some (l, true) => mkG (g_wb s) l (g_nid s) (set_nth i (mkF RLoad2 None (fwok f) true) (g_futs s)) (g_pend s) (g_rg s)
                    | Some (l, false) => mkG (g_wb s) l (g_nid s) (set_nth i (mkF RParked (Some id) (fwok f) true) (g_futs s)) (g_pend s) (g_rg s)
                    | None => s
                    end
                end
          | RLoad1 => with_fut s i (mkF R0 (flis f) (fwok f) (g_wb s))
          | RLoad2 => with_fut s i (mkF (if g_wb s then R0 else RNotify) (flis f) (fwok f) (g_wb s))
          | RNotify => do_notify 1 (with_fut s i (mkF R0 (flis f) (fwok f) (flw f)))
          | RDropL => do_drop (flis f) (mkG (g_wb s) (g_ev s) (g_nid s) (set_nth i (mkF RDone None (fwok f) false) (g_futs s)) (g_pend s) (g_rg s + 1))
          | _ => s
          end
      | None => s
      end
  | ACancel i =>
      match getf s i with
      | Some f => match fpc f with
                  | RIdle | RParked | RDone => do_drop (flis f) (with_fut s i (mkF RGone None false false))
                  | _ => s
                  end
      | None => s
      end
  | AWSet => if g_wb s then s else mkG true (g_ev s) (g_nid s) (g_futs s) (g_pend s) (g_rg s)
  | AWClear => if g_wb s then mkG false (g_ev s) (g_nid s) (g_futs s) (g_pend s + 1) (g_rg s) else s
  | APend => if 0 <? g_pend s then do_notify 1 (mkG (g_wb s) (g_ev s) (g_nid s) (g_futs s) (g_pend s - 1) (g_rg s)) else s
  end.

Definition g0 (nfuts : nat) : gst := mkG false [] 0 (repeat (mkF RIdle None false false) nfuts) 0 0.
Definition run (bt : bool) (nfuts : nat) (sched : list act) : gst := fold_left (step bt) sched (g0 nfuts).

(* ---------- the property, as a statement about states ---------- *)
Definition at_rest (f : fut) : bool :=
  match fpc f with
  | RIdle | RDone | RGone => true
  | RParked => negb (fwok f)
  | _ => false
  end.
Definition quiescentb (s : gst) : bool := forallb at_rest (g_futs s) && (g_pend s =? 0).
(* a lost wake-up: WRITER_BIT is clear (no write guard alive, no writer or upgrader past the inner mutex), nothing is in
   flight, and a polled read() waits *)
Definition lostb (s : gst) : bool := negb (g_wb s) && quiescentb s && existsb parkedb (g_futs s).

(* the schedule of finding F2b: a writer holds; A listens; the writer finishes before A loads the word: A completes with
   its listener registered and is kept alive; a second writer comes; B parks behind A's entry; the writer's
   notify(1) marks A's dead entry *)
Definition f2b_schedule (bt : bool) : list act :=
  [AWSet; APoll 0 true; AStep 0 false; AWClear; APend; AStep 0 false; AStep 0 false] ++ (if bt then [AStep 0 false] else []) ++
  [AWSet; APoll 1 true; AStep 1 false; AStep 1 false; AStep 1 false; AWClear; APend].

(* ---------- which machine the source is: read from Gen/Sites.v on every run ---------- *)
(* RawRead::poll_with_strategy: the compare_exchange is followed by `*this.listener = None` *)
Definition gen_rd_bt : bool :=
  match fn_shape "rwlock::raw::RawRead::poll_with_strategy" with
  | Some ((k1, _, _) :: (k2, r2, _) :: _, _) => String.eqb k1 "compare_exchange" && String.eqb k2 "set_none" && String.eqb r2 "*this.listener"
  | _ => false
  end.
Definition no_listener_drop (fname : string) : bool :=
  match fn_shape fname with
  | Some (sites, _) => negb (existsb (fun x => String.eqb (fst (fst x)) "set_none" && String.eqb (snd (fst x)) "*this.listener") sites)
  | None => false
  end.
(* what the check prints when the premise (RwReadEvOrd.v) or a tie lemma fails: if the source is the machine without the
   listener drop, the schedule of finding F2b evaluated on that machine *)
Definition f2b_report : bool * list act := (lostb (run false 2 (f2b_schedule false)), f2b_schedule false).
Definition ord_report : list (string * bool) :=
  [("rwlock::raw::RawRead::poll_with_strategy: `*this.listener = None` follows the compare_exchange"%string, gen_rd_bt)].
Definition bad_schedule : option (list act) :=
  if negb gen_rd_bt && no_listener_drop "rwlock::raw::RawRead::poll_with_strategy" && fst f2b_report then Some (snd f2b_report) else None.
