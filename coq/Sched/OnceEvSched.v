(* OnceEvSched.v — the OnceCell: its state word TOGETHER WITH the event active_initializers at the granularity of
   single atomic actions, for any number of get_or_init / get_or_try_init / set futures and EVERY schedule (C08,
   schedule half: hand-over and "everybody finishes").

   Sites (src/once_cell.rs, pinned by Tie_OnceCell). initialize_or_wait is
       let mut event_listener = None;
       loop { match state.load() {
           Initialized  => return Ok(()),
           Initializing => match event_listener.take() { Some(l) => strategy.wait(l).await,
                                                         None => event_listener = Some(active_initializers.listen()) },
           Uninitialized => { if compare_exchange(Uninitialized, Initializing).is_err() { continue }
                              let _guard = Guard(self);                 // drop: store(Uninitialized); notify(1)
                              match closure().await {
                                Ok(v)  => { write v; forget(_guard); store(Initialized);
                                            active_initializers.notify_additional(MAX); passive_waiters.notify_additional(MAX);
                                            return Ok(()) }
                                Err(e) => { drop(_guard); return Err(e) } } } } }
   and is cut at every atomic action: the load, the compare_exchange, listen(), the poll of the listener, the stores, the
   notifies, and the drop of the local listener when the function returns or its future is dropped. The closure is
   abstract: it runs for any time, returns Pending any number of times, ends with Ok, with Err (or a panic: same
   actions) or the future is dropped while it runs. The passive waiters (wait()) have their own event and the plain
   listen-then-check protocol; they are not in this machine.

   The event is the model of event-listener in Base.v. The waker of future i is i; polls may start at any time. *)
From Coq Require Import String.
From AL Require Import Base BaseFacts EventFacts.
From AL.Gen Require Import Sites.
From AL.Tie Require Import TieLib.
From AL.Sched Require Import EvOwn.
From Coq Require Import Lia.
Open Scope N_scope.
Open Scope list_scope.

Inductive cst := SU | SI | SD.     (* Uninitialized, Initializing, Initialized *)

Inductive pcs :=
| OIdle      (* never polled *)
| OLoad      (* inside poll: about to load the state *)
| OCas       (* saw Uninitialized: about to compare_exchange(Uninitialized, Initializing) *)
| OListen    (* saw Initializing, no listener: about to listen() *)
| OPollL     (* saw Initializing, has a listener: about to poll it *)
| ORun       (* is the initialiser: the closure runs (inside a poll) *)
| ORunP      (* is the initialiser: the closure returned Pending *)
| OStoreD    (* closure returned Ok: about to store Initialized *)
| ONotA      (* about to call active_initializers.notify_additional(MAX) *)
| OStoreU    (* closure failed / future dropped while it ran: the guard is about to store Uninitialized *)
| ONot1      (* the guard is about to call active_initializers.notify(1) *)
| ORet       (* returning: the local listener is about to be dropped *)
| OParked    (* waiting for its listener; the poll returned Pending *)
| ODone | OGone.

Record fut := mkF { fpc : pcs; flis : option nat; fwok : bool; fcan : bool (* the future is being dropped *) }.

Record gst := mkG {
  g_st : cst;
  g_ev : event;             (* active_initializers *)
  g_nid : nat;
  g_futs : list fut
}.

Inductive act :=
| APoll (i : nat)                 (* a poll of future i starts (waiter: re-polled; initialiser parked in its closure: re-polled) *)
| AStep (i : nat) (c : nat)       (* its next atomic action; [c]: what the closure does at ORun: 0 Pending, 1 Ok, otherwise Err / panic *)
| ACancel (i : nat).              (* the future is dropped between polls *)

Definition fwake (f : fut) : fut := mkF (fpc f) (flis f) true (fcan f).
Definition parkedb (f : fut) : bool := match fpc f with OParked => true | _ => false end.
Notation wake_from := (EvOwn.wake_from fut fwake).

Definition getf (s : gst) (i : nat) : option fut := nth_error (g_futs s) i.
Definition with_fut (s : gst) (i : nat) (f : fut) : gst := mkG (g_st s) (g_ev s) (g_nid s) (set_nth i f (g_futs s)).
Definition with_st (s : gst) (c : cst) (i : nat) (f : fut) : gst := mkG c (g_ev s) (g_nid s) (set_nth i f (g_futs s)).
Definition with_ev (s : gst) (l : event) (ws : list waker) : gst := mkG (g_st s) l (g_nid s) (wake_from 0 ws (g_futs s)).
Definition do_notify (n : N) (add : bool) (s : gst) : gst :=
  let '(l, ws) := ev_notify n add (g_ev s) in with_ev s l ws.
Definition do_drop (o : option nat) (s : gst) : gst :=
  let '(l, ws) := ev_drop_opt o (g_ev s) in with_ev s l ws.
Definition setpc (p : pcs) (f : fut) : fut := mkF p (flis f) (fwok f) (fcan f).
Definition NMAX : N := 18446744073709551615.

(* [gn]: the guard of a failed / dropped initialiser calls notify(1); [na]: a successful initialiser calls
   notify_additional(MAX) — both are what the source does; the other values are the machines of a source that lacks the call *)
Definition step (gn na : bool) (s : gst) (a : act) : gst :=
  match a with
  | APoll i =>
      match getf s i with
      | Some f => match fpc f with
                  | OIdle => with_fut s i (mkF OLoad (flis f) false (fcan f))
                  | OParked => with_fut s i (mkF OPollL (flis f) false (fcan f))
                  | ORunP => with_fut s i (mkF ORun (flis f) false (fcan f))
                  | _ => s
                  end
      | None => s
      end
  | AStep i c =>
      match getf s i with
      | Some f =>
          match fpc f with
          | OLoad =>
              match g_st s with
              | SD => with_fut s i (setpc ORet f)
              | SU => with_fut s i (setpc OCas f)
              | SI => with_fut s i (setpc (match flis f with Some _ => OPollL | None => OListen end) f)
              end
          | OCas => match g_st s with
                    | SU => with_st s SI i (setpc ORun f)
                    | _ => with_fut s i (setpc OLoad f)
                    end
          | OListen => mkG (g_st s) (ev_listen (g_nid s) (g_ev s)) (S (g_nid s)) (set_nth i (mkF OLoad (Some (g_nid s)) (fwok f) (fcan f)) (g_futs s))
          | OPollL =>
              match flis f with
              | Some id =>
                  match ev_poll id i (g_ev s) with
                  | Some (l, true) => mkG (g_st s) l (g_nid s) (set_nth i (mkF OLoad None (fwok f) (fcan f)) (g_futs s))
                  | Some (l, false) => mkG (g_st s) l (g_nid s) (set_nth i (mkF OParked (Some id) (fwok f) (fcan f)) (g_futs s))
                  | None => s
                  end
              | None => s
              end
          | ORun => match c with
                    | O => with_fut s i (setpc ORunP f)
                    | S O => with_fut s i (setpc OStoreD f)
                    | _ => with_fut s i (setpc OStoreU f)
                    end
          | OStoreD => with_st s SD i (setpc ONotA f)
          | ONotA => if na then do_notify NMAX true (with_fut s i (setpc ORet f)) else with_fut s i (setpc ORet f)
          | OStoreU => with_st s SU i (setpc ONot1 f)
          | ONot1 => if gn then do_notify 1 false (with_fut s i (setpc ORet f)) else with_fut s i (setpc ORet f)
          | ORet => do_drop (flis f) (with_fut s i (mkF (if fcan f then OGone else ODone) None (fwok f) (fcan f)))
          | _ => s
          end
      | None => s
      end
  | ACancel i =>
      match getf s i with
      | Some f => match fpc f with
                  | OIdle | ODone => with_fut s i (mkF OGone None false true)
                  | OParked => with_fut s i (mkF ORet (flis f) (fwok f) true)
                  | ORunP => with_fut s i (mkF OStoreU (flis f) (fwok f) true)
                  | _ => s
                  end
      | None => s
      end
  end.

Definition g0 (nfuts : nat) : gst := mkG SU [] 0 (repeat (mkF OIdle None false false) nfuts).
Definition run (gn na : bool) (nfuts : nat) (sched : list act) : gst := fold_left (step gn na) sched (g0 nfuts).

(* ---------- the property, as a statement about states ---------- *)
Definition at_rest (f : fut) : bool :=
  match fpc f with
  | OIdle | ODone | OGone | ORunP => true       (* ORunP: the initialiser waits for whatever its closure waits for *)
  | OParked => negb (fwok f)
  | _ => false
  end.
Definition quiescentb (s : gst) : bool := forallb at_rest (g_futs s).
Definition initialising (s : gst) : bool := match g_st s with SI => true | _ => false end.
Definition runner (f : fut) : bool := match fpc f with ORun | ORunP | OStoreD | OStoreU => true | _ => false end.
(* a lost wake-up / a failed hand-over: nobody is initialising (the cell is empty, or initialised), nothing is in
   flight, and a polled future waits on active_initializers *)
Definition lostb (s : gst) : bool := negb (initialising s) && quiescentb s && existsb parkedb (g_futs s).
(* stuck Initializing: the state says Initializing and no future is the initialiser *)
Definition stuckb (s : gst) : bool := initialising s && negb (existsb runner (g_futs s)).

(* hand-over after a failure: A becomes the initialiser, B listens and parks, A's closure fails: the guard stores
   Uninitialized and notifies B, which takes over *)
Definition handover_schedule : list act :=
  [APoll 0; AStep 0 0; AStep 0 0; AStep 0 0;                     (* A: load U, CAS, closure Pending *)
   APoll 1; AStep 1 0; AStep 1 0; AStep 1 0; AStep 1 0;           (* B: load I, listen, load I, poll listener: parked *)
   APoll 0; AStep 0 2; AStep 0 0; AStep 0 0; AStep 0 0].          (* A: closure fails: store U, notify(1), return *)

(* ---------- which machine the source is: read from Gen/Sites.v on every run ---------- *)
Definition gen_once_gn : bool :=
  match fn_shape "once_cell::Guard::drop" with
  | Some ([(k1, _, _); (k2, r2, [a2])], _) =>
      String.eqb k1 "store" && String.eqb k2 "notify" && String.eqb r2 "self.0.active_initializers" && String.eqb a2 "1"
  | _ => false
  end.
Fixpoint store_then_notify_all (l : list (string * string * list string)) : bool :=
  match l with
  | [] => false
  | (k, _, _) :: r =>
      (String.eqb k "store" && match r with
                               | (k2, r2, [a2]) :: _ => String.eqb k2 "notify_additional" && String.eqb r2 "self.active_initializers" && String.eqb a2 "usize::MAX"
                               | _ => false
                               end)
      || store_then_notify_all r
  end.
Definition gen_once_na : bool :=
  match fn_shape "once_cell::OnceCell::initialize_or_wait" with
  | Some (sites, _) => store_then_notify_all sites
  | None => false
  end.
Definition has_kind (fname kind : string) : bool :=
  match fn_shape fname with
  | Some (sites, _) => existsb (fun x => String.eqb (fst (fst x)) kind) sites
  | None => false
  end.
(* what the check prints when the premise (OnceEvOrd.v) or a tie lemma of the OnceCell fails *)
Definition ord_report : list (string * bool) :=
  [("once_cell::Guard::drop: store(Uninitialized) ; active_initializers.notify(1)"%string, gen_once_gn);
   ("once_cell::OnceCell::initialize_or_wait: store(Initialized) ; active_initializers.notify_additional(usize::MAX)"%string, gen_once_na)].
Definition bad_schedule : option (list act) :=
  if negb gen_once_gn && negb (has_kind "once_cell::Guard::drop" "notify") && lostb (run false true 2 handover_schedule) then Some handover_schedule else None.
