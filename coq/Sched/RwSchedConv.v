(* RwSchedConv.v — consequences of the invariant of Sched/RwSched.v for the conversions (C11, schedule half) and for the
   try_* operations (C14, "never succeeds in conflict", schedule half): every interleaving of the atomic operations on the
   state word, any number of threads.

   A conversion is ONE atomic action of the machine that keeps the inner mutex: upgrade() = fetch_sub(ONE_READER -
   WRITER_BIT), try_upgrade = compare_exchange(ONE_READER, WRITER_BIT), downgrade / downgrade_to_upgradable =
   fetch_add(ONE_READER - WRITER_BIT) (that each is one RMW in the source is pinned by Tie_Raw). So "no window" is: in
   every reachable state at most one thread is an upgradable reader, an announced writer / pending upgrader or a writer,
   and while one is, the attempts of every OTHER thread to become one change nothing. *)
From Coq Require Import List NArith Bool Arith Lia.
From AL Require Import Base BaseFacts.
From AL.Sched Require Import RwSched.
Import ListNotations.
Open Scope N_scope.

Definition has_role (t : rtst) : bool := rt_up t || rt_ann t.

(* at most one thread holds the inner mutex: the others do not *)
Lemma mutex_unique l i j ti tj : cnt fM l <= 1 -> nth_error l i = Some ti -> nth_error l j = Some tj -> i <> j ->
  rt_m ti = true -> rt_m tj = false.
Proof.
  revert i j. induction l as [|x r IH]; intros [|i] [|j] M Hi Hj Ne Mi; cbn in Hi, Hj; try discriminate; try contradiction.
  - inversion Hi; subst. cbn [cnt] in M. rewrite fM_eq, Mi in M. cbn [b2N] in M.
    pose proof (cnt_In fM j tj r Hj) as I. rewrite fM_eq in I. destruct (rt_m tj); [cbn in I; lia | reflexivity].
  - inversion Hj; subst. cbn [cnt] in M. pose proof (cnt_In fM i ti r Hi) as I. rewrite fM_eq, Mi in I. cbn in I.
    rewrite fM_eq in M. destruct (rt_m tj); [cbn in M; lia | reflexivity].
  - cbn [cnt] in M. apply (IH i j); auto. pose proof (N.le_0_l (fM x)). lia.
Qed.

(* C11, every schedule: while thread i is an upgradable reader, a pending upgrader, an announced writer or a writer, no
   other thread can take the inner mutex, become an upgradable reader, announce itself as a writer or succeed in
   try_write: these attempts change nothing *)
Theorem rw_sched_converter_excludes n sched i ti j :
  let g := rrun_s n sched in
  nth_error (rg_thr g) i = Some ti -> has_role ti = true -> j <> i ->
  rstep g j RMutexLock = g /\ (forall c, rstep g j (RUpCas c) = g) /\ rstep g j RAnnounce = g /\ rstep g j RTryWriteCas = g /\
  rstep g j RUpgradeStart = g /\ rstep g j RTryUpgrade = g /\ rstep g j RDowngradeWrite = g /\ rstep g j RDowngradeToUp = g.
Proof.
  intros g Hi R Ne. destruct (rrun_RExcl n sched) as (W & M & T & X). fold g in W, M, T, X.
  pose proof (roles_le_mutex _ T) as (RL & WL).
  assert (M1 : cnt fM (rg_thr g) <= 1) by (rewrite M; destruct (rg_m g); cbn; lia).
  destruct (T i ti Hi) as (T1 & T2 & T3 & T4).
  assert (Mi : rt_m ti = true).
  { unfold has_role in R. apply orb_true_iff in R. destruct R as [R|R]; [apply T1 | apply T2]; exact R. }
  assert (Gm : rg_m g = true).
  { pose proof (cnt_In fM i ti _ Hi) as I. rewrite fM_eq, Mi in I. cbn in I. destruct (rg_m g); [reflexivity | cbn in M; lia]. }
  unfold rstep. destruct (nth_error (rg_thr g) j) as [tj|] eqn:Hj; [|repeat split; reflexivity].
  assert (Mj : rt_m tj = false) by (apply (mutex_unique _ i j ti tj M1 Hi Hj); auto).
  destruct (T j tj Hj) as (J1 & J2 & J3 & J4).
  assert (Uj : rt_up tj = false) by (destruct (rt_up tj); [specialize (J1 eq_refl); congruence | reflexivity]).
  assert (Aj : rt_ann tj = false) by (destruct (rt_ann tj); [specialize (J2 eq_refl); congruence | reflexivity]).
  assert (Wj : rt_w tj = false) by (destruct (rt_w tj); [specialize (J3 eq_refl); congruence | reflexivity]).
  unfold norole. rewrite Gm, Mj, Uj, Wj. cbn [negb andb]. repeat split; reflexivity.
Qed.

(* C11, every schedule: at most one converter at any instant, and the converting thread keeps the inner mutex through
   each conversion step *)
Theorem rw_sched_single_converter n sched :
  let g := rrun_s n sched in
  cnt fU (rg_thr g) + cnt fA (rg_thr g) <= 1 /\
  forall i ti, nth_error (rg_thr g) i = Some ti -> has_role ti = true -> rt_m ti = true /\ rg_m g = true.
Proof.
  intro g. destruct (rrun_RExcl n sched) as (W & M & T & X). fold g in W, M, T, X.
  pose proof (roles_le_mutex _ T) as (RL & WL).
  assert (M1 : cnt fM (rg_thr g) <= 1) by (rewrite M; destruct (rg_m g); cbn; lia).
  split; [lia|]. intros i ti Hi R. destruct (T i ti Hi) as (T1 & T2 & _).
  assert (Mi : rt_m ti = true).
  { unfold has_role in R. apply orb_true_iff in R. destruct R as [R|R]; [apply T1 | apply T2]; exact R. }
  split; [exact Mi|]. pose proof (cnt_In fM i ti _ Hi) as I. rewrite fM_eq, Mi in I. cbn in I. destruct (rg_m g); [reflexivity | cbn in M; lia].
Qed.

(* each conversion is one step from one role to the next, with the mutex kept *)
Lemma conversion_steps g i t : nth_error (rg_thr g) i = Some t ->
  (rt_up t = true -> exists t', nth_error (rg_thr (rstep g i RUpgradeStart)) i = Some t' /\ rt_ann t' = true /\ rt_up t' = false /\ rt_m t' = rt_m t) /\
  (rt_w t = true -> exists t', nth_error (rg_thr (rstep g i RDowngradeToUp)) i = Some t' /\ rt_up t' = true /\ rt_ann t' = false /\ rt_w t' = false /\ rt_m t' = rt_m t) /\
  (rt_w t = true -> exists t', nth_error (rg_thr (rstep g i RDowngradeWrite)) i = Some t' /\ rt_reads t' = rt_reads t + 1 /\ rt_ann t' = false /\ rt_w t' = false).
Proof.
  intro H. unfold rstep. rewrite H. repeat split; intro Q; rewrite Q; cbn [rg_thr]; eexists; (split; [apply (nth_updr_same _ _ _ _ H)|]); cbn; repeat split.
Qed.

(* C14, every schedule: a try_* that succeeds found no conflict *)
Theorem rw_sched_try_write_exact n sched i :
  let g := rrun_s n sched in
  rstep g i RTryWriteCas <> g -> cnt fR (rg_thr g) = 0 /\ cnt fU (rg_thr g) = 0 /\ cnt fA (rg_thr g) = 0 /\ cnt fW (rg_thr g) = 0.
Proof.
  intros g Ch. destruct (rrun_RExcl n sched) as (W & M & T & X). fold g in W, M, T, X.
  pose proof (roles_le_mutex _ T) as (RL & WL).
  unfold rstep in Ch. destruct (nth_error (rg_thr g) i) as [t|]; [|contradiction].
  destruct (norole t && (rg_w g =? 0)) eqn:Q; [|contradiction]. apply andb_true_iff in Q. destruct Q as (_ & Q). apply N.eqb_eq in Q. lia.
Qed.
Theorem rw_sched_try_upgrade_exact n sched i :
  let g := rrun_s n sched in
  rstep g i RTryUpgrade <> g -> cnt fR (rg_thr g) = 0 /\ cnt fU (rg_thr g) = 1 /\ cnt fA (rg_thr g) = 0.
Proof.
  intros g Ch. destruct (rrun_RExcl n sched) as (W & M & T & X). fold g in W, M, T, X.
  unfold rstep in Ch. destruct (nth_error (rg_thr g) i) as [t|] eqn:N; [|contradiction].
  destruct (rt_up t && (rg_w g =? 2)) eqn:Q; [|contradiction]. apply andb_true_iff in Q. destruct Q as (Qu & Q). apply N.eqb_eq in Q.
  pose proof (cnt_In fU i t _ N) as I. rewrite fU_eq, Qu in I. cbn in I. lia.
Qed.
Theorem rw_sched_try_read_exact n sched i c :
  let g := rrun_s n sched in
  rstep g i (RReadCas c) <> g -> cnt fA (rg_thr g) = 0 /\ cnt fW (rg_thr g) = 0.
Proof.
  intros g Ch. destruct (rrun_RExcl n sched) as (W & M & T & X). fold g in W, M, T, X.
  pose proof (roles_le_mutex _ T) as (RL & WL).
  destruct (N.eq_dec (cnt fA (rg_thr g)) 0) as [Z|NZ]; [split; [exact Z | lia]|].
  exfalso. apply Ch. apply (rw_sched_writer_blocks_readers n sched i c). fold g. lia.
Qed.
Theorem rw_sched_try_upgradable_exact n sched i c :
  let g := rrun_s n sched in
  rstep g i (RUpCas c) <> g -> cnt fU (rg_thr g) = 0 /\ cnt fA (rg_thr g) = 0 /\ cnt fW (rg_thr g) = 0.
Proof.
  intros g Ch. destruct (rrun_RExcl n sched) as (W & M & T & X). fold g in W, M, T, X.
  assert (M1 : cnt fM (rg_thr g) <= 1) by (rewrite M; destruct (rg_m g); cbn; lia).
  unfold rstep in Ch. destruct (nth_error (rg_thr g) i) as [t|] eqn:N; [|contradiction].
  destruct (norole t && (rg_w g =? c)) eqn:Q; [|contradiction]. apply andb_true_iff in Q. destruct Q as (Q & _).
  apply (norole_alone _ i t T N Q M1).
Qed.
