(* BarrierCompSolo.v — tie between the product of the Barrier's machine and the machine of its state mutex
   (BarrierComp.v) and the poll-granular model (BarrierApi.v): [ystep2] runs an operation on the model; the product follows
   without interleaving — a poll of a wait() = its actions on the barrier's machine, each critical section preceded by a
   fresh lock future taking the state mutex (on sequential schedules: by the fast path) and followed by the unlock and its
   notify. Compared: the barrier component with the relation of its own lockstep (BarrierEvSolo.simrel), the state mutex's
   word and event with the model's, the counters (nobody holds or owes the mutex between operations).
   Executable definitions only (extracted into the driver). *)
From AL Require Import Base Api Mutex BarrierApi.
From AL.Sched Require BarrierEvSched MutexEvSched BarrierEvSolo BarrierComp.
From Coq Require Import Lia.
Import BarrierComp.
Open Scope N_scope.
Open Scope list_scope.

Definition NM : nat := 512.       (* lock futures: one per critical section *)

Definition bpc (s : yst) (i : nat) : option BarrierEvSched.pcs := option_map BarrierEvSched.fpc (BarrierEvSched.getf (yB s) i).
Definition steps (s : yst) (l : list yact) : yst := fold_left ystep l s.

(* run the poll of wait() future i to its end; [m]: the next unused lock future *)
Fixpoint ysolo (fuel : nat) (s : yst) (i : nat) (m : nat) : yst * nat :=
  match fuel with
  | O => (s, m)
  | S k =>
      match bpc s i with
      | Some BarrierEvSched.BArrive | Some BarrierEvSched.BReacq =>
          (* lock().await on the fast path, the critical section, the unlock and its notify *)
          ysolo k (steps s [YMPoll m; YMStep m false; YBStep i; YRelease; YMPend]) i (S m)
      | Some BarrierEvSched.BPollE => ysolo k (ystep s (YBStep i)) i m
      | _ => (s, m)
      end
  end.

Definition micro (sm : yst * nat) (o : bop) : yst * nat :=
  let '(s, m) := sm in
  match o with
  | BStart => (s, m)
  | BPoll f _ => ysolo 12 (ystep s (YBPoll f)) f m
  | BDropFut f => (ystep s (YBCancel f), m)
  end.

Definition simrelY (x : bworld) (s : yst) : bool :=
  BarrierEvSolo.simrel x (yB s) &&
  (MutexEvSched.g_w (yM s) =? sw0 (b_sh x)) && (match MutexEvSched.g_ev (yM s), se0 (b_sh x) with [], [] => true | _, _ => false end) &&
  (MutexEvSched.g_pend (yM s) =? 0) && (y_hold s =? 0) && (y_owe s =? 0).

Definition by2_init (n : N) : bworld * (yst * nat) := (bw_init n, (y0 n BarrierEvSolo.NFUTS NM, 0%nat)).
Definition ystep2 (xs : bworld * (yst * nat)) (o : bop) : (bworld * (yst * nat)) * obs * bool :=
  let '(x, sm) := xs in
  let '(x', ob) := bstep x o in
  let sm' := match o_res ob with RInvalid => sm | _ => micro sm o end in
  let out_of_scope := Nat.leb BarrierEvSolo.NFUTS (b_nf x') || Nat.leb NM (snd sm' + 8) in
  ((x', sm'), ob, out_of_scope || simrelY x' (fst sm')).

Fixpoint first_diff (xs : bworld * (yst * nat)) (ops : list bop) (k : N) : N :=
  match ops with
  | [] => 0
  | o :: r => let '(xs', _, ok) := ystep2 xs o in if ok then first_diff xs' r (k + 1) else k + 1
  end.
Definition barrier_comp_micro_check (n : N) (ops : list bop) : N := first_diff (by2_init n) ops 0.

Example ysolo_smoke : barrier_comp_micro_check 2 [BStart; BStart; BStart; BPoll 0 0; BPoll 1 0; BPoll 0 1; BPoll 2 0; BDropFut 2; BDropFut 0] = 0.
Proof. vm_compute. reflexivity. Qed.
