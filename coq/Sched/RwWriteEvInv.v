(* RwWriteEvInv.v — C06 (d), schedule half: on the micro-step machine of RwWriteEvSched.v for the repaired code, for
   every schedule, any number of write() / upgrade() futures and readers: when no reader is left and nothing is in
   flight, no polled write() / upgrade() waits. Invariants: ownership of the entries of no_readers (EvOwn.OwnP), at most
   one future past the inner mutex (Ainv), and Tinv: no reader and a waiting future imply a notified entry, a reader
   that owes its notify(1), or the future being about to load the word. *)
From AL Require Import Base BaseFacts EventFacts.
From AL.Sched Require Import EvOwn RwWriteEvSched.
From Coq Require Import Lia.
Open Scope N_scope.
Open Scope list_scope.

(* ---------- ownership ---------- *)
Definition lisN (p : pcs) : bool := match p with WIdle | WNew | WListen | WDone | WGone => true | _ => false end.
Definition lisS (p : pcs) : bool := match p with WPoll | WParked => true | _ => false end.
Definition pc_ok (f : fut) : Prop := (lisN (fpc f) = true -> flis f = None) /\ (lisS (fpc f) = true -> flis f <> None).

Notation OwnP := (EvOwn.OwnP fut flis parkedb fwok pc_ok).
Definition Own (s : gst) : Prop := OwnP (g_ev s) (g_nid s) (g_futs s).

Lemma lis_wake f : flis (fwake f) = flis f. Proof. reflexivity. Qed.
Lemma parked_wake f : parkedb (fwake f) = parkedb f. Proof. reflexivity. Qed.
Lemma wok_wake f : fwok (fwake f) = true. Proof. reflexivity. Qed.
Lemma ok_wake f : pc_ok f -> pc_ok (fwake f). Proof. exact (fun H => H). Qed.

Lemma Own_g0 r n : Own (g0 r n).
Proof.
  unfold Own, g0. cbn. constructor; cbn; try (intros; contradiction); [constructor| | |].
  - intros i f id L S. apply nth_error_In in L. apply repeat_spec in L. subst f. discriminate.
  - intros i j f g id L _ S _. apply nth_error_In in L. apply repeat_spec in L. subst f. discriminate.
  - intros i f L. apply nth_error_In in L. apply repeat_spec in L. subst f. unfold pc_ok. cbn. split; auto; discriminate.
Qed.

(* future i moves to a pc other than RParked, keeping its listener *)
Lemma Own_move l nid fs i f f' : OwnP l nid fs -> nth_error fs i = Some f -> flis f' = flis f -> parkedb f' = false -> pc_ok f' ->
  OwnP l nid (set_nth i f' fs).
Proof.
  intros O L Hl Np HP. apply (OwnP_upd_fut fut flis parkedb fwok pc_ok l nid fs i f f' O L Hl HP).
  intros e He Q Ok. unfold ent_ok in *. destruct (est e); [exact Np | exact Ok | intro H; congruence].
Qed.

Lemma Own_notify n s : Own s -> Own (do_notify n s).
Proof.
  intro O. unfold Own, do_notify in *.
  pose proof (OwnP_notify fut flis parkedb fwok fwake pc_ok lis_wake parked_wake wok_wake ok_wake n false _ _ _ O) as G.
  destruct (ev_notify n false (g_ev s)) as [l' ws]. exact G.
Qed.
Lemma Own_drop s i f f' s0 : Own s -> getf s i = Some f -> flis f' = None -> pc_ok f' ->
  g_ev s0 = g_ev s -> g_nid s0 = g_nid s -> g_futs s0 = set_nth i f' (g_futs s) -> Own (do_drop (flis f) s0).
Proof.
  intros O L Ln HP E1 E2 E3. unfold Own, do_drop in *. rewrite E1.
  pose proof (OwnP_drop fut flis parkedb fwok fwake pc_ok lis_wake parked_wake wok_wake ok_wake _ _ _ i f f' O L Ln HP) as G.
  destruct (ev_drop_opt (flis f) (g_ev s)) as [l' ws]. unfold with_ev. cbn [g_ev g_nid g_futs]. rewrite E2, E3. exact G.
Qed.

Ltac pcok Pf Pc := unfold pc_ok in *; cbn [fpc flis fwok setpc] in *; rewrite ?Pc in *; cbn [lisN lisS] in *;
  destruct Pf as (Pf1 & Pf2); split; intros; try discriminate; try congruence; auto.

Lemma Own_step s a : Own s -> Own (step true s a).
Proof.
  intro O. destruct a as [i up|i|i|i|i| | |]; cbn [step].
  - (* AEnter *)
    destruct (getf s i) as [f|] eqn:L; [|exact O]. pose proof (ow_pc _ _ _ _ _ _ _ _ O i f L) as Pf.
    destruct (fpc f) eqn:Pc; try exact O. destruct (g_act s || (up && (g_rd s =? 0))); [exact O|].
    unfold Own; cbn [g_ev g_nid g_futs]. destruct up; (apply (Own_move _ _ _ i f _ O L); [reflexivity | reflexivity | pcok Pf Pc]).
  - (* APoll *)
    destruct (getf s i) as [f|] eqn:L; [|exact O]. pose proof (ow_pc _ _ _ _ _ _ _ _ O i f L) as Pf.
    destruct (fpc f) eqn:Pc; try exact O; unfold Own, with_fut; cbn [g_ev g_nid g_futs];
    (apply (Own_move _ _ _ i f _ O L); [reflexivity | reflexivity | pcok Pf Pc]).
  - (* AStep *)
    destruct (getf s i) as [f|] eqn:L; [|exact O]. pose proof (ow_pc _ _ _ _ _ _ _ _ O i f L) as Pf. pose proof L as L0. unfold getf in L0.
    destruct (fpc f) eqn:Pc; try exact O.
    + (* WLoad *) destruct (g_rd s =? 0); unfold Own, with_fut; cbn [g_ev g_nid g_futs];
        (apply (Own_move _ _ _ i f _ O L); [reflexivity | try destruct (flis f); reflexivity | try destruct (flis f) eqn:Ls; pcok Pf Pc]).
    + (* WListen *) unfold Own; cbn [g_ev g_nid g_futs]. destruct Pf as (Pf1 & _). rewrite Pc in Pf1.
      apply (OwnP_listen fut flis parkedb fwok fwake pc_ok lis_wake parked_wake wok_wake ok_wake _ _ _ i f _ O L0 (Pf1 eq_refl)); [reflexivity | reflexivity|].
      unfold pc_ok. cbn. split; intros; discriminate.
    + (* WPoll *) destruct (flis f) as [id|] eqn:Ls; [|exact O].
      unfold ev_poll. destruct (ev_find id (g_ev s)) as [[|w0|a]|] eqn:Fd; try exact O; unfold Own; cbn [g_ev g_nid g_futs].
      * apply (OwnP_set_task fut flis parkedb fwok pc_ok _ _ _ i f _ id O L0 Ls); [reflexivity|]. unfold pc_ok. cbn. split; intros; [discriminate | congruence].
      * apply (OwnP_set_task fut flis parkedb fwok pc_ok _ _ _ i f _ id O L0 Ls); [reflexivity|]. unfold pc_ok. cbn. split; intros; [discriminate | congruence].
      * apply (OwnP_remove fut flis parkedb fwok pc_ok _ _ _ i f _ id O L0 Ls); [reflexivity|]. unfold pc_ok. cbn. split; intros; discriminate.
    + (* WDropL *) apply (Own_drop s i f (mkF WDone None (fwok f))); auto. unfold pc_ok. cbn. split; intros; [reflexivity | discriminate].
    + (* WCan *) apply (Own_drop s i f (mkF WGone None false)); auto. unfold pc_ok. cbn. split; intros; [reflexivity | discriminate].
  - (* ACancel *)
    destruct (getf s i) as [f|] eqn:L; [|exact O]. pose proof (ow_pc _ _ _ _ _ _ _ _ O i f L) as Pf.
    destruct (fpc f) eqn:Pc; try exact O; unfold Own, with_fut; cbn [g_ev g_nid g_futs].
    + apply (Own_move _ _ _ i f _ O L); [cbn; destruct Pf as (Pf1 & _); rewrite Pc in Pf1; symmetry; apply Pf1; reflexivity | reflexivity |].
      unfold pc_ok. cbn. split; intros; [reflexivity | discriminate].
    + apply (Own_move _ _ _ i f _ O L); [reflexivity | reflexivity | pcok Pf Pc].
    + apply (Own_move _ _ _ i f _ O L); [reflexivity | reflexivity | pcok Pf Pc].
  - (* AUnlock *)
    destruct (getf s i) as [f|] eqn:L; [|exact O]. pose proof (ow_pc _ _ _ _ _ _ _ _ O i f L) as Pf.
    destruct (fpc f) eqn:Pc; try exact O. unfold Own; cbn [g_ev g_nid g_futs].
    apply (Own_move _ _ _ i f _ O L); [reflexivity | reflexivity | pcok Pf Pc].
  - destruct (g_wb s); exact O.
  - destruct (0 <? g_rd s); exact O.
  - destruct (0 <? g_pend s); [|exact O]. apply Own_notify. exact O.
Qed.

(* ---------- at most one future is past the inner mutex ---------- *)
Fixpoint cntb (P : fut -> bool) (l : list fut) : N :=
  match l with [] => 0 | f :: r => (if P f then 1 else 0) + cntb P r end.
Definition b2N (b : bool) : N := if b then 1 else 0.
Definition actpc (f : fut) : bool := match fpc f with WNew | WLoad | WListen | WPoll | WDropL | WParked | WDone => true | _ => false end.
Definition Ainv (s : gst) : Prop := cntb actpc (g_futs s) = b2N (g_act s).

Lemma actpc_eq f : actpc f = match fpc f with WNew | WLoad | WListen | WPoll | WDropL | WParked | WDone => true | _ => false end.
Proof. reflexivity. Qed.
Lemma cntb_set P i f x l : nth_error l i = Some f -> cntb P (set_nth i x l) + b2N (P f) = cntb P l + b2N (P x).
Proof.
  revert i. induction l as [|a r IH]; intros [|i] H; cbn in H; try discriminate.
  - inversion H; subst. cbn. unfold b2N. lia.
  - specialize (IH i H). cbn [set_nth cntb]. lia.
Qed.
Lemma cntb_wake P k ws l : (forall f, P (fwake f) = P f) -> cntb P (wake_from k ws l) = cntb P l.
Proof. intro H. revert k. induction l as [|f r IH]; intro k; cbn; [reflexivity|]. rewrite IH. destruct (memb k ws); [rewrite H|]; reflexivity. Qed.
Lemma cntb_ge P i f l : nth_error l i = Some f -> P f = true -> 1 <= cntb P l.
Proof.
  revert i. induction l as [|a r IH]; intros [|i] H T; cbn in H; try discriminate.
  - inversion H; subst. cbn. rewrite T. lia.
  - specialize (IH i H T). cbn. lia.
Qed.
Lemma cntb_two P i j f g l : i <> j -> nth_error l i = Some f -> nth_error l j = Some g -> P f = true -> P g = true -> 2 <= cntb P l.
Proof.
  revert i j. induction l as [|a r IH]; intros [|i] [|j] N Hi Hj Pf Pg; cbn in Hi, Hj; try discriminate; try contradiction.
  - inversion Hi; subst. cbn. rewrite Pf. pose proof (cntb_ge P j g r Hj Pg). lia.
  - inversion Hj; subst. cbn. rewrite Pg. pose proof (cntb_ge P i f r Hi Pf). lia.
  - assert (N' : i <> j) by congruence. specialize (IH i j N' Hi Hj Pf Pg). cbn. lia.
Qed.
Lemma Ainv_g0 r n : Ainv (g0 r n).
Proof. unfold Ainv, g0. cbn. induction n as [|n IH]; cbn; [reflexivity|]. exact IH. Qed.

Ltac ainv L0 Pc :=
  unfold Ainv in *; unfold setpc; cbn [g_futs g_act with_fut];
  match goal with
  | |- cntb actpc (set_nth ?i ?x _) = _ =>
      let C := fresh "C" in
      pose proof (cntb_set actpc i _ x _ L0) as C; rewrite !actpc_eq in C; unfold setpc in C; cbn [fpc] in C; rewrite ?Pc in C; cbn in C
  end.

Lemma Ainv_ext s s' : g_act s' = g_act s -> cntb actpc (g_futs s') = cntb actpc (g_futs s) -> Ainv s -> Ainv s'.
Proof. intros A B W. unfold Ainv in *. rewrite A, B. exact W. Qed.

Lemma Ainv_step s a : Ainv s -> Ainv (step true s a).
Proof.
  intro A. destruct a as [i up|i|i|i|i| | |]; cbn [step].
  - destruct (getf s i) as [f|] eqn:L; [|exact A]. pose proof L as L0. unfold getf in L0. destruct (fpc f) eqn:Pc; try exact A.
    destruct (g_act s) eqn:Act; cbn [orb]; [exact A|]. destruct (up && (g_rd s =? 0)); [exact A|].
    destruct up; ainv L0 Pc; rewrite Act in A; cbn in *; lia.
  - destruct (getf s i) as [f|] eqn:L; [|exact A]. pose proof L as L0. unfold getf in L0. destruct (fpc f) eqn:Pc; try exact A;
    ainv L0 Pc; lia.
  - destruct (getf s i) as [f|] eqn:L; [|exact A]. pose proof L as L0. unfold getf in L0. destruct (fpc f) eqn:Pc; try exact A.
    + destruct (g_rd s =? 0); [|destruct (flis f)]; ainv L0 Pc; lia.
    + ainv L0 Pc. lia.
    + destruct (flis f) as [id|]; [|exact A]. destruct (ev_poll id i (g_ev s)) as [[l [|]]|]; try exact A; ainv L0 Pc; lia.
    + apply (Ainv_ext (with_fut s i (mkF WDone None (fwok f)))).
      * unfold do_drop. destruct (ev_drop_opt (flis f) _). reflexivity.
      * unfold do_drop. destruct (ev_drop_opt (flis f) _). unfold with_ev. cbn [g_futs]. apply cntb_wake. reflexivity.
      * ainv L0 Pc. lia.
    + apply (Ainv_ext (with_fut s i (mkF WGone None false))).
      * unfold do_drop. destruct (ev_drop_opt (flis f) _). reflexivity.
      * unfold do_drop. destruct (ev_drop_opt (flis f) _). unfold with_ev. cbn [g_futs]. apply cntb_wake. reflexivity.
      * ainv L0 Pc. lia.
  - destruct (getf s i) as [f|] eqn:L; [|exact A]. pose proof L as L0. unfold getf in L0. destruct (fpc f) eqn:Pc; try exact A.
    + ainv L0 Pc. lia.
    + pose proof (cntb_ge actpc i f _ L0 ltac:(rewrite actpc_eq, Pc; reflexivity)) as G.
      ainv L0 Pc. destruct (g_act s); cbn in *; lia.
    + pose proof (cntb_ge actpc i f _ L0 ltac:(rewrite actpc_eq, Pc; reflexivity)) as G.
      ainv L0 Pc. destruct (g_act s); cbn in *; lia.
  - destruct (getf s i) as [f|] eqn:L; [|exact A]. pose proof L as L0. unfold getf in L0. destruct (fpc f) eqn:Pc; try exact A.
    pose proof (cntb_ge actpc i f _ L0 ltac:(rewrite actpc_eq, Pc; reflexivity)) as G.
    ainv L0 Pc. destruct (g_act s); cbn in *; lia.
  - destruct (g_wb s); exact A.
  - destruct (0 <? g_rd s); exact A.
  - destruct (0 <? g_pend s); [|exact A].
    apply (Ainv_ext s); [| |exact A].
    + unfold do_notify. cbn [g_ev]. destruct (ev_notify 1 false (g_ev s)). reflexivity.
    + unfold do_notify. cbn [g_ev]. destruct (ev_notify 1 false (g_ev s)). unfold with_ev. cbn [g_futs]. apply cntb_wake. reflexivity.
Qed.

(* ---------- no reader and a waiting future imply something in flight ---------- *)
Definition waits (f : fut) : bool := match fpc f with WPoll | WParked => true | _ => false end.
Definition needs (l : event) (f : fut) : bool :=
  match flis f with Some id => waits f && negb (notified id l) | None => false end.
Definition needy (s : gst) : bool := existsb (needs (g_ev s)) (g_futs s).
Definition tokpc (f : fut) : bool := match fpc f with WLoad | WListen => true | _ => false end.
Definition tokf (fs : list fut) : bool := existsb tokpc fs.
Definition inflight (s : gst) : bool := (0 <? g_pend s) || has_notified (g_ev s) || tokf (g_futs s).
Definition Tinv (s : gst) : Prop := g_rd s = 0 -> needy s = true -> inflight s = true.

Lemma needy_nonempty s : Own s -> needy s = true -> g_ev s <> [].
Proof.
  intros O H. unfold needy in H. apply existsb_exists in H. destruct H as (f & Hf & Nf). apply In_nth_error in Hf. destruct Hf as (i & L).
  unfold needs in Nf. destruct (flis f) as [id|] eqn:Ls; [|discriminate]. pose proof (ow_listed _ _ _ _ _ _ _ _ O i f id L Ls) as Hin.
  intro Q. rewrite Q in Hin. contradiction.
Qed.

Lemma T_readers s' : g_rd s' <> 0 -> Tinv s'.
Proof. intros H E. contradiction. Qed.
Lemma T_tok s' i x : nth_error (g_futs s') i = Some x -> tokpc x = true -> Tinv s'.
Proof. intros L T _ _. unfold inflight. apply or3. apply (existsb_nth _ i x); assumption. Qed.
Lemma T_notified s' : Own s' -> (g_ev s' <> [] -> has_notified (g_ev s') = true) -> Tinv s'.
Proof. intros O H _ Nd. unfold inflight. apply or2. apply H. apply needy_nonempty; assumption. Qed.

Lemma T_plain s s' i f x ws : Own s -> Tinv s -> getf s i = Some f -> Own s' ->
  g_futs s' = wake_from 0 ws (set_nth i x (g_futs s)) ->
  (g_rd s' = 0 -> g_rd s = 0) ->
  g_pend s <= g_pend s' ->
  (needs (g_ev s') x = true -> needs (g_ev s) f = true) ->
  (tokpc f = true -> tokpc x = true) ->
  (forall j g id, j <> i -> nth_error (g_futs s) j = Some g -> flis g = Some id -> notified id (g_ev s) = true -> notified id (g_ev s') = true) ->
  (has_notified (g_ev s) = true -> g_ev s' = [] \/ has_notified (g_ev s') = true) ->
  Tinv s'.
Proof.
  intros O T L O' EF EW EP EN ET EM EH Ev Nd. unfold getf in L.
  assert (Nd0 : needy s = true).
  { unfold needy in *. rewrite EF in Nd. rewrite (existsb_wake fut fwake) in Nd by reflexivity.
    destruct (existsb_set_inv _ _ _ _ _ L Nd) as [Hx|(j & g & N & Lj & Pg)].
    - apply (existsb_nth _ i f L). apply EN. exact Hx.
    - apply (existsb_nth _ j g Lj). unfold needs in *. destruct (flis g) as [id|] eqn:Ls; [|discriminate].
      apply Bool.andb_true_iff in Pg. destruct Pg as (P1 & P2). rewrite P1. cbn.
      destruct (notified id (g_ev s)) eqn:Q; [|reflexivity]. rewrite (EM j g id N Lj Ls Q) in P2. discriminate. }
  specialize (T (EW Ev) Nd0). unfold inflight in *.
  apply Bool.orb_true_iff in T. destruct T as [T|T]; [apply Bool.orb_true_iff in T; destruct T as [T|T]|].
  - apply or1. apply N.ltb_lt in T. apply N.ltb_lt. lia.
  - apply or2. destruct (EH T) as [E|H]; [exfalso; apply (needy_nonempty s' O' Nd); exact E | exact H].
  - apply or3. unfold tokf in *. rewrite EF. rewrite (existsb_wake fut fwake) by reflexivity.
    apply existsb_exists in T. destruct T as (g & Hg & Tg). apply In_nth_error in Hg. destruct Hg as (j & Lj).
    destruct (Nat.eq_dec j i) as [->|N].
    + rewrite L in Lj. inversion Lj; subst g. apply (existsb_nth _ i x); [apply (nth_set_same _ _ _ _ L) | apply ET; exact Tg].
    + apply (existsb_nth _ j g); [rewrite nth_set_other by congruence; exact Lj | exact Tg].
Qed.

Lemma T_same s s' i f x : Own s -> Tinv s -> getf s i = Some f -> Own s' ->
  g_futs s' = set_nth i x (g_futs s) -> g_ev s' = g_ev s -> (g_rd s' = 0 -> g_rd s = 0) -> g_pend s <= g_pend s' ->
  (needs (g_ev s) x = true -> needs (g_ev s) f = true) -> (tokpc f = true -> tokpc x = true) -> Tinv s'.
Proof.
  intros O T L O' EF EE EW EP EN ET. apply (T_plain s s' i f x [] O T L O'); auto.
  - rewrite (wake_nil fut fwake). exact EF.
  - rewrite EE. exact EN.
  - intros j g id _ _ _ H. rewrite EE. exact H.
  - intro H. right. rewrite EE. exact H.
Qed.

Lemma drop_proj o s : g_ev (do_drop o s) = fst (ev_drop_opt o (g_ev s)) /\ g_futs (do_drop o s) = wake_from 0 (snd (ev_drop_opt o (g_ev s))) (g_futs s) /\
  g_rd (do_drop o s) = g_rd s /\ g_pend (do_drop o s) = g_pend s.
Proof. unfold do_drop. destruct (ev_drop_opt o (g_ev s)) as [l ws]. repeat split. Qed.
Lemma notify_proj n s : g_ev (do_notify n s) = fst (ev_notify n false (g_ev s)) /\ g_rd (do_notify n s) = g_rd s.
Proof. unfold do_notify. destruct (ev_notify n false (g_ev s)) as [l ws]. repeat split. Qed.
Lemma T_after_notify s0 : Own (do_notify 1 s0) -> Tinv (do_notify 1 s0).
Proof.
  intro O'. apply (T_notified _ O'). destruct (notify_proj 1 s0) as (E & _). rewrite E. intro NE.
  apply notify_has; [lia | apply (notify_ne 1 false); exact NE].
Qed.

(* a drop by future i (which is not what is in flight and does not wait on that entry any more) *)
Lemma T_drop s i f x s0 : Own s -> Tinv s -> getf s i = Some f -> Own (do_drop (flis f) s0) ->
  g_ev s0 = g_ev s -> g_futs s0 = set_nth i x (g_futs s) -> g_rd s0 = g_rd s -> g_pend s0 = g_pend s ->
  flis x = None -> tokpc f = false -> Tinv (do_drop (flis f) s0).
Proof.
  intros O T L O' E1 E2 E3 E4 Lx Tf. pose proof L as L0. unfold getf in L0.
  destruct (drop_proj (flis f) s0) as (D1 & D2 & D3 & D4).
  apply (T_plain s _ i f x (snd (ev_drop_opt (flis f) (g_ev s))) O T L O').
  - rewrite D2, E2, E1. reflexivity.
  - rewrite D3, E3. auto.
  - rewrite D4, E4. lia.
  - intro H. exfalso. unfold needs in H. rewrite Lx in H. discriminate.
  - rewrite Tf. discriminate.
  - intros j g id N Lj Lg H. rewrite D1, E1. apply drop_mono; [|exact H]. intros id0 Ls ->. apply N. apply (ow_inj _ _ _ _ _ _ _ _ O j i g f id0 Lj L0 Lg Ls).
  - intro H. rewrite D1, E1. apply drop_has; [apply (ow_nd _ _ _ _ _ _ _ _ O) | exact H].
Qed.

Ltac tk Pc := first
  [ solve [ let H := fresh in intro H; unfold tokpc in H; rewrite Pc in H; discriminate H ] ].

(* the only future past the mutex is at a point where it does not wait: nobody waits *)
Lemma T_nobody s s' i f x ws : Ainv s -> getf s i = Some f -> actpc f = true -> waits x = false ->
  g_futs s' = wake_from 0 ws (set_nth i x (g_futs s)) -> Tinv s'.
Proof.
  intros A L Af Wx EF _ Nd. exfalso. pose proof L as L0. unfold getf in L0.
  unfold needy in Nd. rewrite EF in Nd. rewrite (existsb_wake fut fwake) in Nd by reflexivity.
  destruct (existsb_set_inv _ _ _ _ _ L0 Nd) as [Hx|(j & g & N & Lj & Pg)].
  - unfold needs in Hx. rewrite Wx in Hx. destruct (flis x); discriminate.
  - assert (Ag : actpc g = true).
    { unfold needs in Pg. destruct (flis g); [|discriminate]. apply Bool.andb_true_iff in Pg. destruct Pg as (Wg & _).
      unfold waits in Wg. rewrite actpc_eq. destruct (fpc g); try discriminate; reflexivity. }
    pose proof (cntb_two actpc i j f g _ ltac:(congruence) L0 Lj Af Ag) as G. unfold Ainv in A. destruct (g_act s); cbn in A; lia.
Qed.

(* no future is past the mutex and the acting one does not start to wait: nobody waits *)
Lemma T_none s s' i f x ws : Ainv s -> g_act s = false -> getf s i = Some f -> waits x = false ->
  g_futs s' = wake_from 0 ws (set_nth i x (g_futs s)) -> Tinv s'.
Proof.
  intros A Act L Wx EF _ Nd. exfalso. pose proof L as L0. unfold getf in L0.
  unfold needy in Nd. rewrite EF in Nd. rewrite (existsb_wake fut fwake) in Nd by reflexivity.
  destruct (existsb_set_inv _ _ _ _ _ L0 Nd) as [Hx|(j & g & N & Lj & Pg)].
  - unfold needs in Hx. rewrite Wx in Hx. destruct (flis x); discriminate.
  - assert (Ag : actpc g = true).
    { unfold needs in Pg. destruct (flis g); [|discriminate]. apply Bool.andb_true_iff in Pg. destruct Pg as (Wg & _).
      unfold waits in Wg. rewrite actpc_eq. destruct (fpc g); try discriminate; reflexivity. }
    pose proof (cntb_ge actpc j g _ Lj Ag) as G. unfold Ainv in A. rewrite Act in A. cbn in A. lia.
Qed.

Lemma Tinv_step s a : Own s -> Ainv s -> Tinv s -> Tinv (step true s a).
Proof.
  intros O A T. pose proof (Own_step s a O) as O'. destruct a as [i up|i|i|i|i| | |]; cbn [step] in *.
  - (* AEnter *)
    destruct (getf s i) as [f|] eqn:L; [|exact T]. pose proof L as L0. unfold getf in L0.
    destruct (fpc f) eqn:Pc; try exact T. destruct (g_act s) eqn:Act; cbn [orb]; [exact T|]. destruct (up && (g_rd s =? 0)); [exact T|].
    destruct up.
    + apply (T_none s _ i f (mkF WNew (flis f) false) [] A Act L); [reflexivity|]. cbn [g_futs]. rewrite (wake_nil fut fwake). reflexivity.
    + apply (T_tok _ i (mkF WLoad (flis f) false)); [cbn [g_futs]; apply (nth_set_same _ _ _ _ L0) | reflexivity].
  - (* APoll *)
    destruct (getf s i) as [f|] eqn:L; [|exact T]. pose proof L as L0. unfold getf in L0.
    destruct (fpc f) eqn:Pc; try exact T;
    (apply (T_tok _ i (mkF WLoad (flis f) false)); [cbn [g_futs with_fut]; apply (nth_set_same _ _ _ _ L0) | reflexivity]).
  - (* AStep *)
    destruct (getf s i) as [f|] eqn:L; [|exact T]. pose proof (ow_pc _ _ _ _ _ _ _ _ O i f L) as (P1 & P2).
    pose proof L as L0. unfold getf in L0.
    destruct (fpc f) eqn:Pc; try exact T; cbn [lisN lisS] in *.
    + (* WLoad *) destruct (g_rd s =? 0) eqn:Z.
      * (* no reader: the future completes; it was the only one past the mutex *)
        apply (T_nobody s _ i f (setpc WDropL f) [] A L); [rewrite actpc_eq, Pc; reflexivity | reflexivity |].
        cbn [g_futs with_fut]. rewrite (wake_nil fut fwake). reflexivity.
      * apply T_readers. cbn [g_rd with_fut]. apply N.eqb_neq in Z. exact Z.
    + (* WListen *)
      apply (T_tok _ i (mkF WLoad (Some (g_nid s)) (fwok f))); [cbn [g_futs]; apply (nth_set_same _ _ _ _ L0) | reflexivity].
    + (* WPoll *)
      destruct (flis f) as [id|] eqn:Ls; [|exact T].
      unfold ev_poll in *. destruct (ev_find id (g_ev s)) as [[|w0|a]|] eqn:Fd; try exact T.
      * apply (T_plain s _ i f (mkF WParked (Some id) (fwok f)) [] O T L O'); cbn [g_futs g_ev g_rd g_pend]; auto; try lia; try tk Pc.
        -- rewrite (wake_nil fut fwake). reflexivity.
        -- intros _. unfold needs, waits. rewrite Ls, Pc. unfold notified. rewrite Fd. reflexivity.
        -- intros j g id' N Lj Lg H. unfold notified in *. rewrite find_set_other; [exact H|]. intros ->. apply N.
           apply (ow_inj _ _ _ _ _ _ _ _ O j i g f id Lj L0 Lg Ls).
        -- intro H. right. apply has_set; [intros a Q; congruence | exact H].
      * apply (T_plain s _ i f (mkF WParked (Some id) (fwok f)) [] O T L O'); cbn [g_futs g_ev g_rd g_pend]; auto; try lia; try tk Pc.
        -- rewrite (wake_nil fut fwake). reflexivity.
        -- intros _. unfold needs, waits. rewrite Ls, Pc. unfold notified. rewrite Fd. reflexivity.
        -- intros j g id' N Lj Lg H. unfold notified in *. rewrite find_set_other; [exact H|]. intros ->. apply N.
           apply (ow_inj _ _ _ _ _ _ _ _ O j i g f id Lj L0 Lg Ls).
        -- intro H. right. apply has_set; [intros a' Q; congruence | exact H].
      * apply (T_tok _ i (mkF WLoad None (fwok f))); [cbn [g_futs]; apply (nth_set_same _ _ _ _ L0) | reflexivity].
    + (* WDropL *)
      apply (T_drop s i f (mkF WDone None (fwok f))); auto. unfold tokpc. rewrite Pc. reflexivity.
    + (* WCan *)
      apply (T_drop s i f (mkF WGone None false)); auto. unfold tokpc. rewrite Pc. reflexivity.
  - (* ACancel *)
    destruct (getf s i) as [f|] eqn:L; [|exact T]. pose proof (ow_pc _ _ _ _ _ _ _ _ O i f L) as (P1 & P2).
    destruct (fpc f) eqn:Pc; try exact T; cbn [lisN lisS] in *.
    + eapply (T_same s _ i f _ O T L O'); try reflexivity; cbn [g_rd g_pend with_fut]; auto; try lia; try tk Pc.
      unfold needs. cbn. discriminate.
    + eapply (T_same s _ i f _ O T L O'); try reflexivity; cbn [g_rd g_pend]; auto; try lia; try tk Pc.
      unfold needs, waits, setpc. cbn [flis fpc]. destruct (flis f); discriminate.
    + eapply (T_same s _ i f _ O T L O'); try reflexivity; cbn [g_rd g_pend]; auto; try lia; try tk Pc.
      unfold needs, waits, setpc. cbn [flis fpc]. destruct (flis f); discriminate.
  - (* AUnlock *)
    destruct (getf s i) as [f|] eqn:L; [|exact T]. pose proof (ow_pc _ _ _ _ _ _ _ _ O i f L) as (P1 & P2).
    destruct (fpc f) eqn:Pc; try exact T; cbn [lisN lisS] in *.
    eapply (T_same s _ i f _ O T L O'); try reflexivity; cbn [g_rd g_pend]; auto; try lia; try tk Pc.
    unfold needs, waits, setpc. cbn [flis fpc]. destruct (flis f); discriminate.
  - (* ARead *) destruct (g_wb s); [exact T|]. apply T_readers. cbn [g_rd]. lia.
  - (* ARUnlock *)
    destruct (0 <? g_rd s) eqn:Z; [|exact T]. apply N.ltb_lt in Z. destruct (g_rd s =? 1) eqn:Z1.
    + intros _ _. unfold inflight. cbn [g_pend]. apply or1. apply N.ltb_lt. lia.
    + apply T_readers. cbn [g_rd]. apply N.eqb_neq in Z1. lia.
  - (* APend *) destruct (0 <? g_pend s); [|exact T]. apply T_after_notify. exact O'.
Qed.

Lemma Tinv_g0 r n : Tinv (g0 r n).
Proof.
  intros _ H. exfalso. unfold needy, g0 in H. cbn [g_ev g_futs] in H. apply existsb_exists in H. destruct H as (f & Hf & Nf).
  apply repeat_spec in Hf. subst f. discriminate.
Qed.

Theorem run_inv sched r n : Own (run true r n sched) /\ Ainv (run true r n sched) /\ Tinv (run true r n sched).
Proof.
  unfold run. generalize (Own_g0 r n) (Ainv_g0 r n) (Tinv_g0 r n). generalize (g0 r n).
  induction sched as [|a l IH]; intros s O A T; cbn [fold_left]; [split; [assumption | split; assumption]|].
  apply IH; [apply Own_step; exact O | apply Ainv_step; exact A | apply Tinv_step; assumption].
Qed.

(* ---------- the property ---------- *)
Lemma notified_owner_woken s e : Own s -> In e (g_ev s) -> is_notified e = true ->
  exists i f, getf s i = Some f /\ flis f = Some (eid e) /\ at_rest f = false.
Proof.
  intros O He Ne. destruct (ow_owner _ _ _ _ _ _ _ _ O e He) as (i & f & L & Ls & Ok). exists i, f. split; [exact L|]. split; [exact Ls|].
  pose proof (ow_pc _ _ _ _ _ _ _ _ O i f L) as (P1 & _). unfold ent_ok in Ok. unfold is_notified in Ne. destruct (est e); try discriminate.
  unfold at_rest. unfold parkedb in Ok. destruct (fpc f) eqn:Pc; try reflexivity; cbn [lisN] in P1; try (rewrite P1 in Ls by reflexivity; discriminate).
  rewrite (Ok eq_refl). reflexivity.
Qed.

(* no lost wake-up for the writer / upgrader: when no reader is left and nothing is in flight (no thread inside a poll, a
   drop, or between the fetch_sub that made the count 0 and its notify; every future whose waker was called polled
   again), no polled write() / upgrade() waits on no_readers *)
Theorem rw_write_sched_no_lost_wakeup sched r n : lostb (run true r n sched) = false.
Proof.
  destruct (lostb (run true r n sched)) eqn:LB; [exfalso|reflexivity]. unfold lostb in LB.
  apply Bool.andb_true_iff in LB. destruct LB as (LB & PK). apply Bool.andb_true_iff in LB. destruct LB as (C & Q).
  apply N.eqb_eq in C. destruct (run_inv sched r n) as (O & _ & T). set (s := run true r n sched) in *.
  unfold quiescentb in Q. apply Bool.andb_true_iff in Q. destruct Q as (QF & QP). rewrite forallb_forall in QF. apply N.eqb_eq in QP.
  apply existsb_exists in PK. destruct PK as (f & Hf & Pf). pose proof (QF f Hf) as Rf. apply In_nth_error in Hf. destruct Hf as (i & L).
  pose proof (ow_pc _ _ _ _ _ _ _ _ O i f L) as (_ & P2). unfold parkedb in Pf. destruct (fpc f) eqn:Pc; try discriminate. cbn [lisS] in P2.
  destruct (flis f) as [id|] eqn:Ls; [|exfalso; apply P2; reflexivity].
  assert (HN : forall e, In e (g_ev s) -> is_notified e = true -> False).
  { intros e He Ne. destruct (notified_owner_woken s e O He Ne) as (j & g & Lj & _ & Rg).
    rewrite (QF g (nth_error_In _ _ Lj)) in Rg. discriminate. }
  destruct (notified id (g_ev s)) eqn:Nt.
  - unfold notified in Nt. destruct (ev_find id (g_ev s)) as [[| |a]|] eqn:Fd; try discriminate. apply ev_find_In in Fd.
    apply (HN _ Fd). reflexivity.
  - assert (Nd : needy s = true).
    { unfold needy. apply (existsb_nth _ i f L). unfold needs, waits. rewrite Ls, Pc, Nt. reflexivity. }
    specialize (T C Nd). unfold inflight in T.
    apply Bool.orb_true_iff in T. destruct T as [T|T]; [apply Bool.orb_true_iff in T; destruct T as [T|T]|].
    + apply N.ltb_lt in T. lia.
    + unfold has_notified in T. apply existsb_exists in T. destruct T as (e & He & Ne). apply (HN e He Ne).
    + unfold tokf in T. apply existsb_exists in T. destruct T as (g & Hg & Tg). specialize (QF g Hg). unfold at_rest in QF. unfold tokpc in Tg.
      destruct (fpc g); discriminate.
Qed.

(* the code before fix 40a2a26 (finding F2c) loses a wake-up *)
Lemma rw_write_sched_prefix_refuted : lostb (run false 1 2 (f2c_schedule false)) = true.
Proof. vm_compute. reflexivity. Qed.
Example rw_write_sched_f2c_repaired :
  let s := run true 1 2 (f2c_schedule true) in
  g_rd s = 0 /\ nth_error (g_futs s) 1 = Some (mkF WParked (Some 1%nat) true).
Proof. vm_compute. split; reflexivity. Qed.
(* an upgrade whose fetch_sub removes the last reader completes on its own: nobody owes it a notification *)
Example rw_write_sched_upgrade_last :
  let s := run true 1 1 [AEnter 0 true; APoll 0; AStep 0; AStep 0] in
  g_rd s = 0 /\ option_map fpc (nth_error (g_futs s) 0) = Some WDone.
Proof. vm_compute. split; reflexivity. Qed.
