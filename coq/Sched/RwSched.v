(* RwSched.v — the RwLock at the granularity of single atomic operations on its state word, for ANY number
   of threads and EVERY schedule (C02 / C11, schedule half: safety).

   The inner mutex is taken as an atomic lock (a boolean): that its acquisition is mutually exclusive under
   every interleaving of ITS atomic sites is C01_excl_sched; the composition (using the Mutex only through
   lock / try_lock / unlock_unchecked) is an assumption of this machine, stated here.

   Sites on `state` (src/rwlock/raw.rs, pinned by Tie_Raw):
     RReadCas c     try_read / RawRead::poll: `compare_exchange(c, c + ONE_READER)` after reading c with
                    WRITER_BIT clear (c even); any c, however stale
     RReadUnlock    read_unlock: `fetch_sub(ONE_READER)`
     RUpCas c       try_upgradable_read / RawUpgradableRead::poll (holding the mutex): compare_exchange(c, c + ONE_READER)
     RUpDec         upgradable_read_unlock: fetch_sub(ONE_READER) (the mutex is released by a later RMutexUnlock)
     RDowngradeUp   downgrade_upgradable_read: no atomic on `state`; the upgradable reader becomes a reader
     RAnnounce      RawWrite::poll after lock(): `fetch_or(WRITER_BIT)`
     RObserve       RawWrite / RawUpgrade: `load() == WRITER_BIT` — write access obtained
     RTryWriteCas   try_write (holding the mutex): `compare_exchange(0, WRITER_BIT)`
     RClear         write_unlock (guard drop, cancellation of an announced writer or of an upgrade): `fetch_and(!WRITER_BIT)`
     RUpgradeStart  upgrade(): `fetch_sub(ONE_READER - WRITER_BIT)`
     RTryUpgrade    try_upgrade: `compare_exchange(ONE_READER, WRITER_BIT)`
     RDowngradeWrite / RDowngradeToUp   `fetch_add(ONE_READER - WRITER_BIT)`: the writer becomes a reader / the upgradable reader
     RMutexLock / RMutexUnlock          the inner mutex
   Control flow is over-approximated: a thread may attempt any site whose precondition in terms of what it
   HOLDS is met (e.g. only a thread that holds the mutex and has no role may announce); a thread may hold any
   number of read guards. *)
From Coq Require Import List NArith Bool Arith Lia.
From AL Require Import Base BaseFacts.
Import ListNotations.
Open Scope N_scope.

Inductive raction :=
| RReadCas (c : N) | RReadUnlock
| RMutexLock | RMutexUnlock
| RUpCas (c : N) | RUpDec | RDowngradeUp
| RAnnounce | RObserve | RTryWriteCas | RClear
| RUpgradeStart | RTryUpgrade | RDowngradeWrite | RDowngradeToUp.

Record rtst := mkRT { rt_reads : N; rt_m : bool; rt_up : bool; rt_ann : bool; rt_w : bool }.
Definition rt0 : rtst := mkRT 0 false false false false.

Record rgst := mkRG { rg_w : N; rg_m : bool; rg_thr : list rtst }.
Definition rg0 (n : nat) : rgst := mkRG 0 false (repeat rt0 n).

Fixpoint upd_r (i : nat) (t : rtst) (l : list rtst) : list rtst :=
  match l, i with
  | [], _ => []
  | _ :: r, O => t :: r
  | x :: r, S i => x :: upd_r i t r
  end.

Definition norole (t : rtst) : bool := rt_m t && negb (rt_up t) && negb (rt_ann t).

Definition rstep (g : rgst) (i : nat) (a : raction) : rgst :=
  match nth_error (rg_thr g) i with
  | None => g
  | Some t =>
    let put t' w m := mkRG w m (upd_r i t' (rg_thr g)) in
    match a with
    | RReadCas c =>
        if (c mod 2 =? 0) && (rg_w g =? c) then put (mkRT (rt_reads t + 1) (rt_m t) (rt_up t) (rt_ann t) (rt_w t)) (c + 2) (rg_m g) else g
    | RReadUnlock =>
        if 0 <? rt_reads t then put (mkRT (rt_reads t - 1) (rt_m t) (rt_up t) (rt_ann t) (rt_w t)) (rg_w g - 2) (rg_m g) else g
    | RMutexLock =>
        if negb (rg_m g) && negb (rt_m t) then put (mkRT (rt_reads t) true (rt_up t) (rt_ann t) (rt_w t)) (rg_w g) true else g
    | RMutexUnlock =>
        if norole t then put (mkRT (rt_reads t) false false false false) (rg_w g) false else g
    | RUpCas c =>
        if norole t && (rg_w g =? c) then put (mkRT (rt_reads t) true true false false) (c + 2) (rg_m g) else g
    | RUpDec =>
        if rt_up t then put (mkRT (rt_reads t) (rt_m t) false (rt_ann t) (rt_w t)) (rg_w g - 2) (rg_m g) else g
    | RDowngradeUp =>
        if rt_up t then put (mkRT (rt_reads t + 1) (rt_m t) false (rt_ann t) (rt_w t)) (rg_w g) (rg_m g) else g
    | RAnnounce =>
        if norole t then put (mkRT (rt_reads t) true false true false) (N.lor (rg_w g) 1) (rg_m g) else g
    | RObserve =>
        if rt_ann t && (rg_w g =? 1) then put (mkRT (rt_reads t) (rt_m t) (rt_up t) true true) (rg_w g) (rg_m g) else g
    | RTryWriteCas =>
        if norole t && (rg_w g =? 0) then put (mkRT (rt_reads t) true false true true) 1 (rg_m g) else g
    | RClear =>
        if rt_ann t then put (mkRT (rt_reads t) (rt_m t) (rt_up t) false false) (N.ldiff (rg_w g) 1) (rg_m g) else g
    | RUpgradeStart =>
        if rt_up t then put (mkRT (rt_reads t) (rt_m t) false true false) (rg_w g - 1) (rg_m g) else g
    | RTryUpgrade =>
        if rt_up t && (rg_w g =? 2) then put (mkRT (rt_reads t) (rt_m t) false true true) 1 (rg_m g) else g
    | RDowngradeWrite =>
        if rt_w t then put (mkRT (rt_reads t + 1) (rt_m t) (rt_up t) false false) (rg_w g + 1) (rg_m g) else g
    | RDowngradeToUp =>
        if rt_w t then put (mkRT (rt_reads t) (rt_m t) true false false) (rg_w g + 1) (rg_m g) else g
    end
  end.

Definition rrun_s (n : nat) (sched : list (nat * raction)) : rgst :=
  fold_left (fun g p => rstep g (fst p) (snd p)) sched (rg0 n).

(* ---------- counting ---------- *)
Definition b2N (b : bool) : N := if b then 1 else 0.
Fixpoint cnt (f : rtst -> N) (l : list rtst) : N := match l with [] => 0 | t :: r => f t + cnt f r end.
Definition fR (t : rtst) := rt_reads t.
Definition fU (t : rtst) := b2N (rt_up t).
Definition fA (t : rtst) := b2N (rt_ann t).
Definition fM (t : rtst) := b2N (rt_m t).
Definition fW (t : rtst) := b2N (rt_w t).

Lemma fR_eq t : fR t = rt_reads t. Proof. reflexivity. Qed.
Lemma fU_eq t : fU t = b2N (rt_up t). Proof. reflexivity. Qed.
Lemma fA_eq t : fA t = b2N (rt_ann t). Proof. reflexivity. Qed.
Lemma fM_eq t : fM t = b2N (rt_m t). Proof. reflexivity. Qed.
Lemma fW_eq t : fW t = b2N (rt_w t). Proof. reflexivity. Qed.

Lemma cnt_upd f i t t' l : nth_error l i = Some t -> cnt f (upd_r i t' l) + f t = cnt f l + f t'.
Proof.
  revert i. induction l as [|x r IH]; intros [|i] H; cbn in H; try discriminate.
  - inversion H; subst. cbn. lia.
  - specialize (IH i H). cbn [upd_r cnt]. lia.
Qed.
Lemma cnt_In f i t l : nth_error l i = Some t -> f t <= cnt f l.
Proof. revert i. induction l as [|x r IH]; intros [|i] H; cbn in H; try discriminate; [inversion H; subst; cbn; lia | specialize (IH i H); cbn; lia]. Qed.
Lemma nth_updr_same i t t' l : nth_error l i = Some t -> nth_error (upd_r i t' l) i = Some t'.
Proof. revert i. induction l as [|x r IH]; intros [|i] H; cbn in *; try discriminate; [reflexivity | apply IH; exact H]. Qed.
Lemma nth_updr_other i j t' l : i <> j -> nth_error (upd_r i t' l) j = nth_error l j.
Proof.
  revert i j. induction l as [|x r IH]; intros [|i] [|j] H; cbn; try reflexivity; try contradiction.
  apply IH. intro; subst; contradiction.
Qed.
Lemma nth_updr_cases i j t t' l tj : nth_error l i = Some t -> nth_error (upd_r i t' l) j = Some tj ->
  (j = i /\ tj = t') \/ (j <> i /\ nth_error l j = Some tj).
Proof.
  intros H Hj. destruct (Nat.eq_dec i j) as [<-|N].
  - rewrite (nth_updr_same _ _ _ _ H) in Hj. inversion Hj. left. split; reflexivity.
  - rewrite (nth_updr_other _ _ _ _ N) in Hj. right. split; [intro; subst; contradiction | exact Hj].
Qed.

(* what a thread's flags mean together *)
Definition Tok (t : rtst) : Prop :=
  (rt_up t = true -> rt_m t = true) /\ (rt_ann t = true -> rt_m t = true) /\ (rt_w t = true -> rt_ann t = true) /\
  (rt_up t = true -> rt_ann t = false).

Definition RExcl (g : rgst) : Prop :=
  rg_w g = 2 * (cnt fR (rg_thr g) + cnt fU (rg_thr g)) + cnt fA (rg_thr g) /\
  cnt fM (rg_thr g) = b2N (rg_m g) /\
  (forall i t, nth_error (rg_thr g) i = Some t -> Tok t) /\
  (1 <= cnt fW (rg_thr g) -> cnt fR (rg_thr g) = 0 /\ cnt fU (rg_thr g) = 0).

Lemma roles_le_mutex l : (forall i t, nth_error l i = Some t -> Tok t) -> cnt fU l + cnt fA l <= cnt fM l /\ cnt fW l <= cnt fA l.
Proof.
  induction l as [|x r IH]; intro H; cbn [cnt]; [split; lia|].
  assert (Hr : forall i t, nth_error r i = Some t -> Tok t) by (intros i t Hi; apply (H (S i) t Hi)).
  destruct (IH Hr) as (A & B). destruct (H 0%nat x eq_refl) as (T1 & T2 & T3 & T4).
  unfold fU, fA, fM, fW in *. destruct (rt_up x), (rt_ann x), (rt_m x), (rt_w x); cbn [b2N];
    try (specialize (T1 eq_refl)); try (specialize (T2 eq_refl)); try (specialize (T3 eq_refl)); try (specialize (T4 eq_refl)); try congruence; split; lia.
Qed.

Lemma Tok_upd l i t t' : (forall j tj, nth_error l j = Some tj -> Tok tj) -> nth_error l i = Some t -> Tok t' ->
  forall j tj, nth_error (upd_r i t' l) j = Some tj -> Tok tj.
Proof.
  intros H N T' j tj Hj. destruct (nth_updr_cases _ _ _ _ _ _ N Hj) as [(-> & ->)|(_ & Hj')]; [exact T' | apply (H j tj Hj')].
Qed.

(* a thread that holds the inner mutex without a role: nobody has a role *)
Lemma norole_alone l i t : (forall j tj, nth_error l j = Some tj -> Tok tj) -> nth_error l i = Some t -> norole t = true ->
  cnt fM l <= 1 -> cnt fU l = 0 /\ cnt fA l = 0 /\ cnt fW l = 0.
Proof.
  intros H N NR M1. unfold norole in NR. apply andb_true_iff in NR. destruct NR as (NR & Na). apply andb_true_iff in NR. destruct NR as (Nm & Nu).
  apply negb_true_iff in Na. apply negb_true_iff in Nu.
  set (t'' := mkRT (rt_reads t) false false false false).
  assert (T'' : Tok t'') by (unfold Tok, t''; cbn; repeat split; intro Q; discriminate Q).
  pose proof (roles_le_mutex _ (Tok_upd l i t t'' H N T'')) as (A & B).
  pose proof (cnt_upd fU i t t'' _ N) as UU. pose proof (cnt_upd fA i t t'' _ N) as UA. pose proof (cnt_upd fM i t t'' _ N) as UM. pose proof (cnt_upd fW i t t'' _ N) as UW.
  destruct (H i t N) as (_ & _ & T3 & _).
  assert (Nw : rt_w t = false) by (destruct (rt_w t); [specialize (T3 eq_refl); congruence | reflexivity]).
  rewrite !fU_eq in UU. rewrite !fA_eq in UA. rewrite !fM_eq in UM. rewrite !fW_eq in UW. subst t''. cbn [rt_up rt_ann rt_m rt_w] in UU, UA, UM, UW. rewrite ?Nm, ?Nu, ?Na, ?Nw in *. cbn [b2N] in *. lia.
Qed.

Ltac counts i t t' N :=
  pose proof (cnt_upd fR i t t' _ N) as UR; pose proof (cnt_upd fU i t t' _ N) as UU; pose proof (cnt_upd fA i t t' _ N) as UA;
  pose proof (cnt_upd fM i t t' _ N) as UM; pose proof (cnt_upd fW i t t' _ N) as UW;
  rewrite !fR_eq in UR; rewrite !fU_eq in UU; rewrite !fA_eq in UA; rewrite !fM_eq in UM; rewrite !fW_eq in UW; subst t'; cbn [fR fU fA fM fW rt_reads rt_up rt_ann rt_m rt_w] in UR, UU, UA, UM, UW.

Lemma rstep_RExcl g i a : RExcl g -> RExcl (rstep g i a).
Proof.
  intros HE. pose proof HE as (W & M & T & X). unfold rstep. cbv zeta.
  destruct (nth_error (rg_thr g) i) as [t|] eqn:N; [|exact HE].
  pose proof (roles_le_mutex _ T) as (RL & WL).
  assert (M1 : cnt fM (rg_thr g) <= 1) by (rewrite M; destruct (rg_m g); cbn; lia).
  pose proof (T i t N) as (T1 & T2 & T3 & T4).
  pose proof (cnt_In fR i t _ N) as IR. pose proof (cnt_In fU i t _ N) as IU. pose proof (cnt_In fA i t _ N) as IA.
  pose proof (cnt_In fM i t _ N) as IM. pose proof (cnt_In fW i t _ N) as IW. rewrite fR_eq in IR. rewrite fU_eq in IU. rewrite fA_eq in IA. rewrite fM_eq in IM. rewrite fW_eq in IW.
  destruct a.
  - (* RReadCas *)
    destruct ((c mod 2 =? 0) && (rg_w g =? c)) eqn:Q; [|exact HE]. apply andb_true_iff in Q. destruct Q as (Q1 & Q2).
    apply N.eqb_eq in Q1. apply N.eqb_eq in Q2. subst c.
    assert (A0 : cnt fA (rg_thr g) = 0).
    { rewrite W in Q1. rewrite N.add_comm, N.mul_comm, N.mod_add in Q1 by lia. destruct (N.eq_dec (cnt fA (rg_thr g)) 0) as [Z|Z]; [exact Z|].
      assert (cnt fA (rg_thr g) = 1) by lia. rewrite H in Q1. discriminate Q1. }
    set (t' := mkRT _ _ _ _ _). counts i t t' N. unfold RExcl. cbn [rg_w rg_m rg_thr].
    split; [lia|]. split; [lia|]. split.
    + apply (Tok_upd _ i t _ T N). unfold Tok. cbn. repeat split; assumption.
    + intro H. exfalso. lia.
  - (* RReadUnlock *)
    destruct (0 <? rt_reads t) eqn:Q; [|exact HE]. apply N.ltb_lt in Q.
    assert (W0 : cnt fW (rg_thr g) = 0) by (destruct (N.eq_dec (cnt fW (rg_thr g)) 0) as [Z|Z]; [exact Z|]; destruct X as (X1 & _); [lia|]; lia).
    set (t' := mkRT _ _ _ _ _). counts i t t' N. unfold RExcl. cbn [rg_w rg_m rg_thr].
    split; [lia|]. split; [lia|]. split.
    + apply (Tok_upd _ i t _ T N). unfold Tok. cbn. repeat split; assumption.
    + intro H. exfalso. lia.
  - (* RMutexLock *)
    destruct (negb (rg_m g) && negb (rt_m t)) eqn:Q; [|exact HE]. apply andb_true_iff in Q. destruct Q as (Q1 & Q2).
    apply negb_true_iff in Q1. apply negb_true_iff in Q2. rewrite Q1 in M. cbn [b2N] in M.
    set (t' := mkRT _ _ _ _ _). counts i t t' N. rewrite Q2 in *. cbn [b2N] in *. unfold RExcl. cbn [rg_w rg_m rg_thr b2N].
    split; [lia|]. split; [lia|]. split.
    + apply (Tok_upd _ i t _ T N). unfold Tok. cbn. repeat split; auto.
    + intro H. destruct X as (X1 & X2); [lia|]. split; lia.
  - (* RMutexUnlock *)
    destruct (norole t) eqn:Q; [|exact HE]. destruct (norole_alone _ i t T N Q M1) as (U0 & A0 & W0).
    unfold norole in Q. apply andb_true_iff in Q. destruct Q as (Q & Na). apply andb_true_iff in Q. destruct Q as (Nm & Nu).
    apply negb_true_iff in Na. apply negb_true_iff in Nu.
    set (t' := mkRT _ _ _ _ _). counts i t t' N. rewrite ?Nm, ?Nu, ?Na in *. cbn [b2N] in *.
    assert (Mt : rg_m g = true) by (destruct (rg_m g); [reflexivity | cbn in M; lia]).
    unfold RExcl. cbn [rg_w rg_m rg_thr b2N].
    split; [lia|]. split; [rewrite Mt in M; cbn in M; lia|]. split.
    + apply (Tok_upd _ i t _ T N). unfold Tok. cbn. repeat split; intro H; discriminate H.
    + intro H. exfalso. destruct (rt_w t); cbn [b2N] in *; lia.
  - (* RUpCas *)
    destruct (norole t && (rg_w g =? c)) eqn:Q; [|exact HE]. apply andb_true_iff in Q. destruct Q as (Q & Q2). apply N.eqb_eq in Q2. subst c.
    destruct (norole_alone _ i t T N Q M1) as (U0 & A0 & W0).
    unfold norole in Q. apply andb_true_iff in Q. destruct Q as (Q & Na). apply andb_true_iff in Q. destruct Q as (Nm & Nu).
    apply negb_true_iff in Na. apply negb_true_iff in Nu.
    set (t' := mkRT _ _ _ _ _). counts i t t' N. rewrite ?Nm, ?Nu, ?Na in *. cbn [b2N] in *.
    unfold RExcl. cbn [rg_w rg_m rg_thr].
    split; [lia|]. split; [lia|]. split.
    + apply (Tok_upd _ i t _ T N). unfold Tok. cbn. repeat split; auto; intro H; discriminate H.
    + intro H. exfalso. destruct (rt_w t); cbn [b2N] in *; lia.
  - (* RUpDec *)
    destruct (rt_up t) eqn:Q; [|exact HE]. cbn [b2N] in IU.
    assert (A0 : cnt fA (rg_thr g) = 0) by (lia).
    set (t' := mkRT _ _ _ _ _). counts i t t' N. rewrite ?Q in *. cbn [b2N] in *.
    unfold RExcl. cbn [rg_w rg_m rg_thr].
    split; [lia|]. split; [lia|]. split.
    + apply (Tok_upd _ i t _ T N). unfold Tok. cbn. repeat split; auto; intro H; discriminate H.
    + intro H. exfalso. lia.
  - (* RDowngradeUp *)
    destruct (rt_up t) eqn:Q; [|exact HE]. cbn [b2N] in IU.
    assert (A0 : cnt fA (rg_thr g) = 0) by (lia).
    set (t' := mkRT _ _ _ _ _). counts i t t' N. rewrite ?Q in *. cbn [b2N] in *.
    unfold RExcl. cbn [rg_w rg_m rg_thr].
    split; [lia|]. split; [lia|]. split.
    + apply (Tok_upd _ i t _ T N). unfold Tok. cbn. repeat split; auto; intro H; discriminate H.
    + intro H. exfalso. lia.
  - (* RAnnounce *)
    destruct (norole t) eqn:Q; [|exact HE]. destruct (norole_alone _ i t T N Q M1) as (U0 & A0 & W0).
    unfold norole in Q. apply andb_true_iff in Q. destruct Q as (Q & Na). apply andb_true_iff in Q. destruct Q as (Nm & Nu).
    apply negb_true_iff in Na. apply negb_true_iff in Nu.
    assert (Ev : rg_w g mod 2 = 0) by (rewrite W, A0, U0; replace (2 * (cnt fR (rg_thr g) + 0) + 0) with (cnt fR (rg_thr g) * 2) by lia; apply N.mod_mul; discriminate).
    rewrite (lor_1_even _ Ev).
    set (t' := mkRT _ _ _ _ _). counts i t t' N. rewrite ?Nm, ?Nu, ?Na in *. cbn [b2N] in *.
    unfold RExcl. cbn [rg_w rg_m rg_thr].
    split; [lia|]. split; [lia|]. split.
    + apply (Tok_upd _ i t _ T N). unfold Tok. cbn. repeat split; auto; intro H; discriminate H.
    + intro H. exfalso. destruct (rt_w t); cbn [b2N] in *; lia.
  - (* RObserve *)
    destruct (rt_ann t && (rg_w g =? 1)) eqn:Q; [|exact HE]. apply andb_true_iff in Q. destruct Q as (Qa & Q1). apply N.eqb_eq in Q1.
    cbn [b2N] in *. rewrite Qa in IA. cbn [b2N] in IA.
    assert (RU0 : cnt fR (rg_thr g) = 0 /\ cnt fU (rg_thr g) = 0) by (rewrite W in Q1; lia).
    set (t' := mkRT _ _ _ _ _). counts i t t' N. rewrite ?Qa in *. cbn [b2N] in *.
    assert (Ut : rt_up t = false) by (destruct (rt_up t) eqn:E; [specialize (T4 eq_refl); congruence | reflexivity]).
    unfold RExcl. cbn [rg_w rg_m rg_thr].
    split; [lia|]. split; [lia|]. split.
    + apply (Tok_upd _ i t _ T N). unfold Tok. cbn. rewrite Ut. repeat split; auto; intro H; try discriminate H.
    + intros _. lia.
  - (* RTryWriteCas *)
    destruct (norole t && (rg_w g =? 0)) eqn:Q; [|exact HE]. apply andb_true_iff in Q. destruct Q as (Q & Q2). apply N.eqb_eq in Q2.
    destruct (norole_alone _ i t T N Q M1) as (U0 & A0 & W0).
    unfold norole in Q. apply andb_true_iff in Q. destruct Q as (Q & Na). apply andb_true_iff in Q. destruct Q as (Nm & Nu).
    apply negb_true_iff in Na. apply negb_true_iff in Nu.
    set (t' := mkRT _ _ _ _ _). counts i t t' N. rewrite ?Nm, ?Nu, ?Na in *. cbn [b2N] in *.
    unfold RExcl. cbn [rg_w rg_m rg_thr].
    split; [lia|]. split; [lia|]. split.
    + apply (Tok_upd _ i t _ T N). unfold Tok. cbn. repeat split; auto; intro H; discriminate H.
    + intros _. lia.
  - (* RClear *)
    destruct (rt_ann t) eqn:Qa; [|exact HE]. cbn [b2N] in IA.
    assert (A1 : cnt fA (rg_thr g) = 1 /\ cnt fU (rg_thr g) = 0) by (lia).
    assert (Od : rg_w g mod 2 = 1).
    { rewrite W. destruct A1 as (-> & ->). replace (2 * (cnt fR (rg_thr g) + 0) + 1) with (1 + cnt fR (rg_thr g) * 2) by lia. rewrite N.mod_add by discriminate. reflexivity. }
    rewrite (ldiff_1_odd _ Od).
    set (t' := mkRT _ _ _ _ _).
    assert (TK : forall j tj, nth_error (upd_r i t' (rg_thr g)) j = Some tj -> Tok tj).
    { apply (Tok_upd _ i t _ T N). unfold Tok. cbn. repeat split; auto; intro H; try discriminate H. }
    pose proof (roles_le_mutex _ TK) as (_ & WL').
    counts i t t' N. rewrite ?Qa in *. cbn [b2N] in *.
    unfold RExcl. cbn [rg_w rg_m rg_thr].
    split; [lia|]. split; [lia|]. split; [exact TK|].
    intro H. exfalso. lia.
  - (* RUpgradeStart *)
    destruct (rt_up t) eqn:Q; [|exact HE]. cbn [b2N] in IU.
    assert (A0 : cnt fA (rg_thr g) = 0) by (lia).
    assert (At : rt_ann t = false) by (apply T4; reflexivity).
    set (t' := mkRT _ _ _ _ _). counts i t t' N. rewrite ?Q, ?At in *. cbn [b2N] in *.
    unfold RExcl. cbn [rg_w rg_m rg_thr].
    split; [lia|]. split; [lia|]. split.
    + apply (Tok_upd _ i t _ T N). unfold Tok. cbn. repeat split; auto; intro H; discriminate H.
    + intro H. exfalso. destruct (rt_w t); cbn [b2N] in *; lia.
  - (* RTryUpgrade *)
    destruct (rt_up t && (rg_w g =? 2)) eqn:Q; [|exact HE]. apply andb_true_iff in Q. destruct Q as (Qu & Q2). apply N.eqb_eq in Q2.
    rewrite Qu in IU. cbn [b2N] in IU.
    assert (A0 : cnt fA (rg_thr g) = 0) by (lia).
    assert (At : rt_ann t = false) by (apply T4; exact Qu).
    assert (RU : cnt fR (rg_thr g) = 0 /\ cnt fU (rg_thr g) = 1) by (rewrite W in Q2; lia).
    set (t' := mkRT _ _ _ _ _). counts i t t' N. rewrite ?Qu, ?At in *. cbn [b2N] in *.
    unfold RExcl. cbn [rg_w rg_m rg_thr].
    split; [lia|]. split; [lia|]. split.
    + apply (Tok_upd _ i t _ T N). unfold Tok. cbn. repeat split; auto; intro H; discriminate H.
    + intros _. lia.
  - (* RDowngradeWrite *)
    destruct (rt_w t) eqn:Qw; [|exact HE]. cbn [b2N] in IW.
    destruct X as (R0 & U0); [lia|].
    assert (At : rt_ann t = true) by (apply T3; reflexivity). rewrite At in IA. cbn [b2N] in IA.
    assert (A1 : cnt fA (rg_thr g) = 1) by (lia).
    set (t' := mkRT _ _ _ _ _).
    assert (TK : forall j tj, nth_error (upd_r i t' (rg_thr g)) j = Some tj -> Tok tj).
    { apply (Tok_upd _ i t _ T N). unfold Tok. cbn. repeat split; auto; intro H; try discriminate H. }
    pose proof (roles_le_mutex _ TK) as (_ & WL').
    counts i t t' N. rewrite ?Qw, ?At in *. cbn [b2N] in *.
    unfold RExcl. cbn [rg_w rg_m rg_thr].
    split; [lia|]. split; [lia|]. split; [exact TK|].
    intro H. exfalso. lia.
  - (* RDowngradeToUp *)
    destruct (rt_w t) eqn:Qw; [|exact HE]. cbn [b2N] in IW.
    destruct X as (R0 & U0); [lia|].
    assert (At : rt_ann t = true) by (apply T3; reflexivity). rewrite At in IA. cbn [b2N] in IA.
    assert (A1 : cnt fA (rg_thr g) = 1) by (lia).
    assert (Ut : rt_up t = false) by (destruct (rt_up t) eqn:E; [specialize (T4 eq_refl); congruence | reflexivity]).
    set (t' := mkRT _ _ _ _ _).
    assert (TK : forall j tj, nth_error (upd_r i t' (rg_thr g)) j = Some tj -> Tok tj).
    { apply (Tok_upd _ i t _ T N). unfold Tok. cbn. repeat split; auto; intro H; try discriminate H. }
    pose proof (roles_le_mutex _ TK) as (_ & WL').
    counts i t t' N. rewrite ?Qw, ?At, ?Ut in *. cbn [b2N] in *.
    unfold RExcl. cbn [rg_w rg_m rg_thr].
    split; [lia|]. split; [lia|]. split; [exact TK|].
    intro H. exfalso. lia.
Qed.

Lemma cnt_repeat0 f n : f rt0 = 0 -> cnt f (repeat rt0 n) = 0.
Proof. intro H. induction n; cbn; [reflexivity | rewrite H, IHn; reflexivity]. Qed.
Lemma nth_repeat_rt0 n i t : nth_error (repeat rt0 n) i = Some t -> t = rt0.
Proof. revert i. induction n; intros [|i] H; cbn in H; try discriminate; [inversion H; reflexivity | apply (IHn i H)]. Qed.

Lemma RExcl_init n : RExcl (rg0 n).
Proof.
  unfold RExcl, rg0. cbn [rg_w rg_m rg_thr]. rewrite !cnt_repeat0 by reflexivity. split; [reflexivity|]. split; [reflexivity|]. split.
  - intros i t H. apply nth_repeat_rt0 in H. subst. unfold Tok. cbn. repeat split; intro Q; discriminate Q.
  - intro H. lia.
Qed.

Theorem rrun_RExcl n sched : RExcl (rrun_s n sched).
Proof.
  unfold rrun_s. generalize (RExcl_init n). generalize (rg0 n).
  induction sched as [|[i a] l IH]; intros g H; cbn [fold_left]; [exact H|]. apply IH. apply rstep_RExcl. exact H.
Qed.

(* C02 / C11, every schedule: at most one writer, at most one upgradable reader, at most one of
   {upgradable reader, announced writer / pending upgrade / writer}; a writer excludes every reader *)
Theorem rw_sched_exclusion n sched :
  let g := rrun_s n sched in
  cnt fW (rg_thr g) <= 1 /\ cnt fU (rg_thr g) + cnt fA (rg_thr g) <= 1 /\
  (1 <= cnt fW (rg_thr g) -> cnt fR (rg_thr g) = 0 /\ cnt fU (rg_thr g) = 0) /\
  rg_w g = 2 * (cnt fR (rg_thr g) + cnt fU (rg_thr g)) + cnt fA (rg_thr g).
Proof.
  intro g. destruct (rrun_RExcl n sched) as (W & M & T & X). fold g in W, M, T, X.
  pose proof (roles_le_mutex _ T) as (RL & WL).
  assert (M1 : cnt fM (rg_thr g) <= 1) by (rewrite M; destruct (rg_m g); cbn; lia).
  split; [lia|]. split; [lia|]. split; [exact X | exact W].
Qed.

(* C12, every schedule: while a writer is announced (WRITER_BIT set: a write() past the inner mutex, an upgrade in
   progress, or a write guard alive) no reader gets in: the compare_exchange of try_read / read() — attempted with any
   expected value that has the bit clear, however stale — fails and changes nothing *)
Theorem rw_sched_writer_blocks_readers n sched i c :
  let g := rrun_s n sched in
  1 <= cnt fA (rg_thr g) -> rstep g i (RReadCas c) = g.
Proof.
  intros g A. destruct (rrun_RExcl n sched) as (W & M & T & X). fold g in W, M, T, X.
  pose proof (roles_le_mutex _ T) as (RL & WL).
  assert (M1 : cnt fM (rg_thr g) <= 1) by (rewrite M; destruct (rg_m g); cbn; lia).
  assert (A1 : cnt fA (rg_thr g) = 1) by lia.
  unfold rstep. destruct (nth_error (rg_thr g) i) as [t|]; [|reflexivity].
  destruct ((c mod 2 =? 0) && (rg_w g =? c)) eqn:E; [|reflexivity]. exfalso.
  apply Bool.andb_true_iff in E. destruct E as (E1 & E2). apply N.eqb_eq in E1, E2. rewrite <- E2 in E1. rewrite W, A1 in E1.
  rewrite N.add_comm, N.mul_comm, N.mod_add in E1 by lia. discriminate.
Qed.
