(* RwWriteEvSolo.v — tie between the writer-side micro-step machine of the RwLock (RwWriteEvSched.v) and the poll-granular
   model (RwApi.v), hence — through the correspondence check — between that machine and the implementation on sequential
   schedules. [wstep2] runs an operation on the model; the machine follows without interleaving:
     - a poll of a write() future that gets past the inner mutex: AEnter (fetch_or) and its atomic actions up to Ready /
       Pending; a later poll: APoll and its actions; upgrade(): AEnter (fetch_sub), the future is WNew until its first
       poll; cancellation of a waiting write() / upgrade: ACancel (write_unlock) and the drop of the listener;
     - the drop of a write guard, or its downgrade: AUnlock of the one future that is WDone (+ ARead for the downgrade);
     - a successful try_write / try_upgrade: a spare future slot enters and completes at once (the word had no reader);
     - every other operation: follow what it did to the reader count (ARead / ARUnlock + the pending no_readers.notify(1)).
   Then the states are compared: reader count, WRITER_BIT, the entries of no_readers in order (listener ids are not
   compared: the model numbers the listeners of its three events from one supply), and per write() / upgrade future:
   queueing on the mutex / not yet polled / waiting (position of its listener, woken flag) / done.
   Executable definitions only (extracted into the driver). *)
From AL Require Import Base Api Mutex RwLock RwApi.
From AL.Sched Require RwWriteEvSched.
From Coq Require Import Lia.
Import RwWriteEvSched.
Open Scope N_scope.
Open Scope list_scope.

Definition NF : nat := 64.      (* slots of the model's futures *)
Definition NT : nat := 64.      (* spare slots for try_write / try_upgrade *)

Fixpoint solo (fuel : nat) (s : gst) (i : nat) : gst :=
  match fuel with
  | O => s
  | S k =>
      match getf s i with
      | Some f => match fpc f with
                  | WLoad | WListen | WPoll | WDropL | WCan => solo k (step true s (AStep i)) i
                  | _ => s
                  end
      | None => s
      end
  end.

Definition bit (w : N) : bool := N.odd w.
Definition rdc (w : N) : N := w / 2.

Fixpoint find_from (p : pcs -> bool) (l : list fut) (k : nat) : option nat :=
  match l with
  | [] => None
  | f :: r => if p (fpc f) then Some k else find_from p r (S k)
  end.
Definition is_done (p : pcs) : bool := match p with WDone => true | _ => false end.
Definition is_idle (p : pcs) : bool := match p with WIdle => true | _ => false end.
Definition find_done (s : gst) : option nat := find_from is_done (g_futs s) 0.
Definition find_spare (s : gst) : option nat := find_from is_idle (skipn NF (g_futs s)) NF.

Definition fst_of (x : rworld) (fid : nat) : option rfutst := option_map rf_st (alookup fid (r_futs x)).

(* what the operation did to the state word, seen from the writer side *)
Definition follow_word (x x' : rworld) (s : gst) : gst :=
  let w := sw1 (r_sh x) in let w' := sw1 (r_sh x') in
  let pend s := if 0 <? g_pend s then step true s APend else s in
  if negb (bit w) && bit w' then
    (* try_write / try_upgrade succeeded *)
    match find_spare s with
    | Some j => if rdc w' =? rdc w then solo 8 (step true s (AEnter j false)) j
                else solo 8 (step true (step true s (AEnter j true)) (APoll j)) j
    | None => s
    end
  else if bit w && negb (bit w') then
    (* the write guard was dropped or downgraded *)
    match find_done s with
    | Some j => let s1 := step true s (AUnlock j) in if rdc w' =? rdc w + 1 then step true s1 ARead else s1
    | None => s
    end
  else if rdc w' =? rdc w + 1 then step true s ARead
  else if rdc w' + 1 =? rdc w then pend (step true s ARUnlock)
  else s.

Definition micro_op (x x' : rworld) (s : gst) (o : rop) : gst :=
  match o with
  | RPoll f _ =>
      match fst_of x f with
      | Some (FWrite _ (WAcquiring _)) =>
          match fst_of x' f with
          | Some (FWrite _ (WAcquiring _)) => s
          | _ => solo 24 (step true s (AEnter f false)) f
          end
      | Some (FWrite _ WWaiting) | Some (FUpgrade true _) => solo 24 (step true s (APoll f)) f
      | _ => follow_word x x' s
      end
  | RUpgrade _ => step true s (AEnter (r_nf x) true)
  | RDropFut f =>
      match fst_of x f with
      | Some (FWrite _ (WAcquiring _)) => step true s (ACancel f)
      | Some (FWrite _ WWaiting) | Some (FUpgrade true _) => solo 4 (step true s (ACancel f)) f
      | Some (FWrite _ WAcquired) | Some (FUpgrade false _) => s
      | _ => follow_word x x' s
      end
  | _ => follow_word x x' s
  end.

Definition norm_est (e : estate) : estate := match e with Task w => Task (Nat.div w 4) | _ => e end.
Definition estate_eqb (a b : estate) : bool :=
  match a, b with
  | Created, Created => true
  | Task v, Task w => Nat.eqb v w
  | Notified x, Notified y => Bool.eqb x y
  | _, _ => false
  end.
Fixpoint states_eqb (a b : event) : bool :=
  match a, b with
  | [], [] => true
  | x :: r, y :: r' => estate_eqb (norm_est (est x)) (est y) && states_eqb r r'
  | _, _ => false
  end.
Fixpoint pos (id : nat) (l : event) : option nat :=
  match l with
  | [] => None
  | e :: r => if Nat.eqb (eid e) id then Some 0%nat else option_map S (pos id r)
  end.
Definition optnat_eqb (a b : option nat) : bool :=
  match a, b with Some x, Some y => Nat.eqb x y | None, None => true | _, _ => false end.
Definition lpos (o : option nat) (l : event) : option nat := match o with Some id => pos id l | None => None end.
Definition isnone (o : option nat) : bool := match o with None => true | _ => false end.

Definition fut_rel (x : rworld) (s : gst) (fid : nat) : bool :=
  match getf s fid with
  | None => false
  | Some g =>
      match alookup fid (r_futs x) with
      | Some (mkRfut _ (FWrite nr ws) _ m) =>
          match ws, fm_st m, fpc g with
          | WAcquiring _, _, WIdle => isnone nr && isnone (flis g)
          | WWaiting, FPending, WParked => optnat_eqb (lpos nr (se1 (r_sh x))) (lpos (flis g) (g_ev s)) && negb (isnone nr) && Bool.eqb (fm_woken m) (fwok g)
          | WAcquired, FDone, WDone | WAcquired, FDone, WGone => isnone nr && isnone (flis g)
          | _, _, _ => false
          end
      | Some (mkRfut _ (FUpgrade hl l) _ m) =>
          match hl, fm_st m, fpc g with
          | true, FUnpolled, WNew => isnone l && isnone (flis g)
          | true, FPending, WParked => optnat_eqb (lpos l (se1 (r_sh x))) (lpos (flis g) (g_ev s)) && negb (isnone l) && Bool.eqb (fm_woken m) (fwok g)
          | false, FDone, WDone | false, FDone, WGone => isnone l && isnone (flis g)
          | _, _, _ => false
          end
      | Some _ => match fpc g with WIdle => true | _ => false end       (* a read() / upgradable_read() future: slot unused *)
      | None => match fpc g with WIdle | WGone | WDone => isnone (flis g) | _ => false end
      end
  end.
Definition spare_ok (f : fut) : bool := match fpc f with WIdle | WDone | WGone => isnone (flis f) | _ => false end.

Definition simrel (x : rworld) (s : gst) : bool :=
  let w := sw1 (r_sh x) in
  (g_rd s =? rdc w) && Bool.eqb (g_wb s) (bit w) && Bool.eqb (g_act s) (bit w) && (g_pend s =? 0) &&
  states_eqb (se1 (r_sh x)) (g_ev s) &&
  forallb (fut_rel x s) (seq 0 (r_nf x)) && forallb spare_ok (skipn NF (g_futs s)).

Definition ww2_init : rworld * gst := (rw0, g0 0 (NF + NT)).
Definition wstep2 (xs : rworld * gst) (o : rop) : (rworld * gst) * obs * bool :=
  let '(x, s) := xs in
  let '(x', ob) := rstep x o in
  let s' := match o_res ob with RInvalid => s | _ => micro_op x x' s o end in
  let out_of_scope := Nat.leb NF (r_nf x') || Nat.leb NT (r_ng x') in
  ((x', s'), ob, out_of_scope || simrel x' s').

Fixpoint first_diff (xs : rworld * gst) (ops : list rop) (k : N) : N :=
  match ops with
  | [] => 0
  | o :: r => let '(xs', _, ok) := wstep2 xs o in if ok then first_diff xs' r (k + 1) else k + 1
  end.
Definition rw_write_micro_check (ops : list rop) : N := first_diff ww2_init ops 0.

(* smoke tests (the volume is in the driver) *)
Example solo_smoke1 : rw_write_micro_check
  [RTry KRead false; RStart KWrite false; RPoll 0 0; RDropGuard 0; RPoll 0 1; RStart KRead false; RPoll 1 0; RDowngrade 1; RDropGuard 1] = 0.
Proof. vm_compute. reflexivity. Qed.
Example solo_smoke2 : rw_write_micro_check
  [RTry KUpRead false; RTry KRead false; RUpgrade 0; RPoll 0 0; RDropGuard 1; RPoll 0 1; RDowngradeUp 2; RTryUpgrade 2; RDropGuard 2;
   RTry KWrite true; RDropGuard 3; RTry KUpRead false; RUpgrade 4; RDropFut 1] = 0.
Proof. vm_compute. reflexivity. Qed.
