(* RwReadEvInv.v — C06 (b), schedule half: on the micro-step machine of RwReadEvSched.v for the repaired code, for
   every schedule, any number of read() futures and writers: when WRITER_BIT is clear and nothing is in flight, no
   polled read() waits. Invariants: ownership of the entries of no_writer (EvOwn.OwnP) and "a clear bit and a waiting
   reader imply something in flight" (Tinv). *)
From AL Require Import Base BaseFacts EventFacts.
From AL.Sched Require Import EvOwn RwReadEvSched.
From Coq Require Import Lia.
Open Scope N_scope.
Open Scope list_scope.

(* ---------- ownership ---------- *)
Definition lisN (p : pcs) : bool := match p with RIdle | RLoad2 | RNotify | RDone | RGone => true | _ => false end.
Definition lisS (p : pcs) : bool := match p with RLoad1 | RParked => true | _ => false end.
Definition pc_ok (f : fut) : Prop := (lisN (fpc f) = true -> flis f = None) /\ (lisS (fpc f) = true -> flis f <> None).

Notation OwnP := (EvOwn.OwnP fut flis parkedb fwok pc_ok).
Definition Own (s : gst) : Prop := OwnP (g_ev s) (g_nid s) (g_futs s).

Lemma lis_wake f : flis (fwake f) = flis f. Proof. reflexivity. Qed.
Lemma parked_wake f : parkedb (fwake f) = parkedb f. Proof. reflexivity. Qed.
Lemma wok_wake f : fwok (fwake f) = true. Proof. reflexivity. Qed.
Lemma ok_wake f : pc_ok f -> pc_ok (fwake f). Proof. exact (fun H => H). Qed.

Lemma Own_g0 n : Own (g0 n).
Proof.
  unfold Own, g0. cbn. constructor; cbn; try (intros; contradiction); [constructor| | |].
  - intros i f id L S. apply nth_error_In in L. apply repeat_spec in L. subst f. discriminate.
  - intros i j f g id L _ S _. apply nth_error_In in L. apply repeat_spec in L. subst f. discriminate.
  - intros i f L. apply nth_error_In in L. apply repeat_spec in L. subst f. unfold pc_ok. cbn. split; auto; discriminate.
Qed.

(* future i moves to a pc other than RParked, keeping its listener *)
Lemma Own_move l nid fs i f f' : OwnP l nid fs -> nth_error fs i = Some f -> flis f' = flis f -> parkedb f' = false -> pc_ok f' ->
  OwnP l nid (set_nth i f' fs).
Proof.
  intros O L Hl Np HP. apply (OwnP_upd_fut fut flis parkedb fwok pc_ok l nid fs i f f' O L Hl HP).
  intros e He Q Ok. unfold ent_ok in *. destruct (est e); [exact Np | exact Ok | intro H; congruence].
Qed.

Lemma Own_notify n s : Own s -> Own (do_notify n s).
Proof.
  intro O. unfold Own, do_notify in *.
  pose proof (OwnP_notify fut flis parkedb fwok fwake pc_ok lis_wake parked_wake wok_wake ok_wake n false _ _ _ O) as G.
  destruct (ev_notify n false (g_ev s)) as [l' ws]. exact G.
Qed.
Lemma Own_drop s i f f' s0 : Own s -> getf s i = Some f -> flis f' = None -> pc_ok f' ->
  g_ev s0 = g_ev s -> g_nid s0 = g_nid s -> g_futs s0 = set_nth i f' (g_futs s) -> Own (do_drop (flis f) s0).
Proof.
  intros O L Ln HP E1 E2 E3. unfold Own, do_drop in *. rewrite E1.
  pose proof (OwnP_drop fut flis parkedb fwok fwake pc_ok lis_wake parked_wake wok_wake ok_wake _ _ _ i f f' O L Ln HP) as G.
  destruct (ev_drop_opt (flis f) (g_ev s)) as [l' ws]. unfold with_ev. cbn [g_ev g_nid g_futs]. rewrite E2, E3. exact G.
Qed.

Ltac pcok Pf Pc := unfold pc_ok in *; cbn [fpc flis fwok flw] in *; rewrite ?Pc in *; cbn [lisN lisS] in *;
  destruct Pf as (Pf1 & Pf2); split; intros; try discriminate; try congruence; auto.

Lemma Own_step s a : Own s -> Own (step true s a).
Proof.
  intro O. destruct a as [i lw0|i fail|i| | |]; cbn [step].
  - (* APoll *)
    destruct (getf s i) as [f|] eqn:L; [|exact O]. pose proof (ow_pc _ _ _ _ _ _ _ _ O i f L) as Pf.
    destruct (fpc f) eqn:Pc; try exact O; unfold Own, with_fut; cbn [g_ev g_nid g_futs];
      (apply (Own_move _ _ _ i f _ O L); [reflexivity | reflexivity | pcok Pf Pc]).
  - (* AStep *)
    destruct (getf s i) as [f|] eqn:L; [|exact O]. pose proof (ow_pc _ _ _ _ _ _ _ _ O i f L) as Pf. pose proof L as L0. unfold getf in L0.
    destruct (fpc f) eqn:Pc; try exact O.
    + (* R0 *) destruct (negb (flw f)).
      * destruct (negb (g_wb s) && negb fail); unfold Own, with_fut; cbn [g_ev g_nid g_futs];
          (apply (Own_move _ _ _ i f _ O L); [reflexivity | reflexivity | pcok Pf Pc]).
      * destruct (flis f) as [id|] eqn:Ls.
        -- unfold ev_poll. destruct (ev_find id (g_ev s)) as [[|w0|a]|] eqn:Fd; try exact O; unfold Own; cbn [g_ev g_nid g_futs].
           ++ apply (OwnP_set_task fut flis parkedb fwok pc_ok _ _ _ i f _ id O L0 Ls); [reflexivity|]. unfold pc_ok. cbn. split; intros; [discriminate | congruence].
           ++ apply (OwnP_set_task fut flis parkedb fwok pc_ok _ _ _ i f _ id O L0 Ls); [reflexivity|]. unfold pc_ok. cbn. split; intros; [discriminate | congruence].
           ++ apply (OwnP_remove fut flis parkedb fwok pc_ok _ _ _ i f _ id O L0 Ls); [reflexivity|]. unfold pc_ok. cbn. split; intros; [reflexivity | discriminate].
        -- unfold Own; cbn [g_ev g_nid g_futs].
           apply (OwnP_listen fut flis parkedb fwok fwake pc_ok lis_wake parked_wake wok_wake ok_wake _ _ _ i f _ O L0 Ls); [reflexivity | reflexivity|]. unfold pc_ok. cbn. split; intros; [discriminate | congruence].
    + (* RLoad1 *) unfold Own, with_fut; cbn [g_ev g_nid g_futs]. apply (Own_move _ _ _ i f _ O L); [reflexivity | reflexivity | pcok Pf Pc].
    + (* RLoad2 *) unfold Own, with_fut; cbn [g_ev g_nid g_futs]. apply (Own_move _ _ _ i f _ O L); [reflexivity | destruct (g_wb s); reflexivity |].
      destruct (g_wb s); pcok Pf Pc.
    + (* RNotify *) apply Own_notify. unfold Own, with_fut; cbn [g_ev g_nid g_futs]. apply (Own_move _ _ _ i f _ O L); [reflexivity | reflexivity | pcok Pf Pc].
    + (* RDropL *) apply (Own_drop s i f (mkF RDone None (fwok f) false)); auto. unfold pc_ok. cbn. split; intros; [reflexivity | discriminate].
  - (* ACancel *)
    destruct (getf s i) as [f|] eqn:L; [|exact O].
    assert (G : Own (do_drop (flis f) (with_fut s i (mkF RGone None false false)))).
    { apply (Own_drop s i f (mkF RGone None false false)); auto. unfold pc_ok. cbn. split; intros; [reflexivity | discriminate]. }
    destruct (fpc f); try exact O; exact G.
  - destruct (g_wb s); exact O.
  - destruct (g_wb s); exact O.
  - destruct (0 <? g_pend s); [|exact O]. apply Own_notify. exact O.
Qed.

(* ---------- a clear bit and a waiting reader imply something in flight ---------- *)
(* the future is about to load the word after listen(), has seen the bit clear and is about to run the compare_exchange,
   or has won it: its entry is not one that waits *)
Definition exempt (f : fut) : bool := match fpc f with RLoad1 | RDropL => true | R0 => negb (flw f) | _ => false end.
Definition needs (l : event) (f : fut) : bool :=
  match flis f with Some id => negb (exempt f) && negb (notified id l) | None => false end.
Definition needy (s : gst) : bool := existsb (needs (g_ev s)) (g_futs s).
Definition tokpc (f : fut) : bool := match fpc f with RLoad2 | RNotify => true | _ => false end.
Definition tokf (fs : list fut) : bool := existsb tokpc fs.
Definition inflight (s : gst) : bool := (0 <? g_pend s) || has_notified (g_ev s) || tokf (g_futs s).
Definition Tinv (s : gst) : Prop := g_wb s = false -> needy s = true -> inflight s = true.

Lemma needy_nonempty s : Own s -> needy s = true -> g_ev s <> [].
Proof.
  intros O H. unfold needy in H. apply existsb_exists in H. destruct H as (f & Hf & Nf). apply In_nth_error in Hf. destruct Hf as (i & L).
  unfold needs in Nf. destruct (flis f) as [id|] eqn:Ls; [|discriminate]. pose proof (ow_listed _ _ _ _ _ _ _ _ O i f id L Ls) as Hin.
  intro Q. rewrite Q in Hin. contradiction.
Qed.

Lemma T_set s' : g_wb s' = true -> Tinv s'.
Proof. intros H E. congruence. Qed.
Lemma T_tok s' i x : nth_error (g_futs s') i = Some x -> tokpc x = true -> Tinv s'.
Proof. intros L T _ _. unfold inflight. apply or3. apply (existsb_nth _ i x); assumption. Qed.
Lemma T_notified s' : Own s' -> (g_ev s' <> [] -> has_notified (g_ev s') = true) -> Tinv s'.
Proof. intros O H _ Nd. unfold inflight. apply or2. apply H. apply needy_nonempty; assumption. Qed.

Lemma T_plain s s' i f x ws : Own s -> Tinv s -> getf s i = Some f -> Own s' ->
  g_futs s' = wake_from 0 ws (set_nth i x (g_futs s)) ->
  (g_wb s' = false -> g_wb s = false) ->
  g_pend s <= g_pend s' ->
  (needs (g_ev s') x = true -> needs (g_ev s) f = true) ->
  (tokpc f = true -> tokpc x = true) ->
  (forall j g id, j <> i -> nth_error (g_futs s) j = Some g -> flis g = Some id -> notified id (g_ev s) = true -> notified id (g_ev s') = true) ->
  (has_notified (g_ev s) = true -> g_ev s' = [] \/ has_notified (g_ev s') = true) ->
  Tinv s'.
Proof.
  intros O T L O' EF EW EP EN ET EM EH Ev Nd. unfold getf in L.
  assert (Nd0 : needy s = true).
  { unfold needy in *. rewrite EF in Nd. rewrite (existsb_wake fut fwake) in Nd by reflexivity.
    destruct (existsb_set_inv _ _ _ _ _ L Nd) as [Hx|(j & g & N & Lj & Pg)].
    - apply (existsb_nth _ i f L). apply EN. exact Hx.
    - apply (existsb_nth _ j g Lj). unfold needs in *. destruct (flis g) as [id|] eqn:Ls; [|discriminate].
      apply Bool.andb_true_iff in Pg. destruct Pg as (P1 & P2). rewrite P1. cbn.
      destruct (notified id (g_ev s)) eqn:Q; [|reflexivity]. rewrite (EM j g id N Lj Ls Q) in P2. discriminate. }
  specialize (T (EW Ev) Nd0). unfold inflight in *.
  apply Bool.orb_true_iff in T. destruct T as [T|T]; [apply Bool.orb_true_iff in T; destruct T as [T|T]|].
  - apply or1. apply N.ltb_lt in T. apply N.ltb_lt. lia.
  - apply or2. destruct (EH T) as [E|H]; [exfalso; apply (needy_nonempty s' O' Nd); exact E | exact H].
  - apply or3. unfold tokf in *. rewrite EF. rewrite (existsb_wake fut fwake) by reflexivity.
    apply existsb_exists in T. destruct T as (g & Hg & Tg). apply In_nth_error in Hg. destruct Hg as (j & Lj).
    destruct (Nat.eq_dec j i) as [->|N].
    + rewrite L in Lj. inversion Lj; subst g. apply (existsb_nth _ i x); [apply (nth_set_same _ _ _ _ L) | apply ET; exact Tg].
    + apply (existsb_nth _ j g); [rewrite nth_set_other by congruence; exact Lj | exact Tg].
Qed.

Lemma T_same s s' i f x : Own s -> Tinv s -> getf s i = Some f -> Own s' ->
  g_futs s' = set_nth i x (g_futs s) -> g_ev s' = g_ev s -> (g_wb s' = false -> g_wb s = false) -> g_pend s <= g_pend s' ->
  (needs (g_ev s) x = true -> needs (g_ev s) f = true) -> (tokpc f = true -> tokpc x = true) -> Tinv s'.
Proof.
  intros O T L O' EF EE EW EP EN ET. apply (T_plain s s' i f x [] O T L O'); auto.
  - rewrite (wake_nil fut fwake). exact EF.
  - rewrite EE. exact EN.
  - intros j g id _ _ _ H. rewrite EE. exact H.
  - intro H. right. rewrite EE. exact H.
Qed.

Lemma drop_proj o s : g_ev (do_drop o s) = fst (ev_drop_opt o (g_ev s)) /\ g_futs (do_drop o s) = wake_from 0 (snd (ev_drop_opt o (g_ev s))) (g_futs s) /\
  g_wb (do_drop o s) = g_wb s /\ g_pend (do_drop o s) = g_pend s.
Proof. unfold do_drop. destruct (ev_drop_opt o (g_ev s)) as [l ws]. repeat split. Qed.
Lemma notify_proj n s : g_ev (do_notify n s) = fst (ev_notify n false (g_ev s)) /\ g_wb (do_notify n s) = g_wb s.
Proof. unfold do_notify. destruct (ev_notify n false (g_ev s)) as [l ws]. repeat split. Qed.
Lemma T_after_notify s0 : Own (do_notify 1 s0) -> Tinv (do_notify 1 s0).
Proof.
  intro O'. apply (T_notified _ O'). destruct (notify_proj 1 s0) as (E & _). rewrite E. intro NE.
  apply notify_has; [lia | apply (notify_ne 1 false); exact NE].
Qed.

(* a drop by future i (which is not what is in flight and does not wait on that entry any more) *)
Lemma T_drop s i f x s0 : Own s -> Tinv s -> getf s i = Some f -> Own (do_drop (flis f) s0) ->
  g_ev s0 = g_ev s -> g_futs s0 = set_nth i x (g_futs s) -> g_wb s0 = g_wb s -> g_pend s0 = g_pend s ->
  flis x = None -> tokpc f = false -> Tinv (do_drop (flis f) s0).
Proof.
  intros O T L O' E1 E2 E3 E4 Lx Tf. pose proof L as L0. unfold getf in L0.
  destruct (drop_proj (flis f) s0) as (D1 & D2 & D3 & D4).
  apply (T_plain s _ i f x (snd (ev_drop_opt (flis f) (g_ev s))) O T L O').
  - rewrite D2, E2, E1. reflexivity.
  - rewrite D3, E3. auto.
  - rewrite D4, E4. lia.
  - intro H. exfalso. unfold needs in H. rewrite Lx in H. discriminate.
  - rewrite Tf. discriminate.
  - intros j g id N Lj Lg H. rewrite D1, E1. apply drop_mono; [|exact H]. intros id0 Ls ->. apply N. apply (ow_inj _ _ _ _ _ _ _ _ O j i g f id0 Lj L0 Lg Ls).
  - intro H. rewrite D1, E1. apply drop_has; [apply (ow_nd _ _ _ _ _ _ _ _ O) | exact H].
Qed.

Lemma Tinv_step s a : Own s -> Tinv s -> Tinv (step true s a).
Proof.
  intros O T. pose proof (Own_step s a O) as O'. destruct a as [i lw0|i fail|i| | |]; cbn [step] in *.
  - (* APoll *)
    destruct (getf s i) as [f|] eqn:L; [|exact T]. pose proof (ow_pc _ _ _ _ _ _ _ _ O i f L) as (P1 & P2).
    destruct (fpc f) eqn:Pc; try exact T; cbn [lisN lisS] in *.
    + eapply (T_same s _ i f _ O T L O'); try reflexivity; cbn [g_wb g_pend with_fut]; auto; try lia.
      * unfold needs. cbn [flis]. rewrite P1 by reflexivity. discriminate.
      * unfold tokpc. rewrite Pc. discriminate.
    + eapply (T_same s _ i f _ O T L O'); try reflexivity; cbn [g_wb g_pend with_fut]; auto; try lia.
      * unfold needs, exempt. cbn [flis fpc flw]. rewrite Pc. destruct (flis f); [|discriminate]. intro H.
        apply Bool.andb_true_iff in H. destruct H as (_ & H). rewrite H. reflexivity.
      * unfold tokpc. rewrite Pc. discriminate.
  - (* AStep *)
    destruct (getf s i) as [f|] eqn:L; [|exact T]. pose proof (ow_pc _ _ _ _ _ _ _ _ O i f L) as (P1 & P2).
    pose proof L as L0. unfold getf in L0.
    destruct (fpc f) eqn:Pc; try exact T; cbn [lisN lisS] in *.
    + (* R0 *) destruct (flw f) eqn:Lw; cbn [negb] in *.
      * (* the last observation had the bit: listen or poll the listener *)
        destruct (flis f) as [id|] eqn:Ls.
        -- unfold ev_poll in *. destruct (ev_find id (g_ev s)) as [[|w0|a]|] eqn:Fd; try exact T.
           ++ apply (T_plain s _ i f (mkF RParked (Some id) (fwok f) true) [] O T L O'); cbn [g_futs g_ev g_wb g_pend]; auto; try lia.
              ** rewrite (wake_nil fut fwake). reflexivity.
              ** intros _. unfold needs, exempt. rewrite Ls, Pc, Lw. unfold notified. rewrite Fd. reflexivity.
              ** unfold tokpc. rewrite Pc. discriminate.
              ** intros j g id' N Lj Lg H. unfold notified in *. rewrite find_set_other; [exact H|]. intros ->. apply N.
                 apply (ow_inj _ _ _ _ _ _ _ _ O j i g f id Lj L0 Lg Ls).
              ** intro H. right. apply has_set; [intros a Q; congruence | exact H].
           ++ apply (T_plain s _ i f (mkF RParked (Some id) (fwok f) true) [] O T L O'); cbn [g_futs g_ev g_wb g_pend]; auto; try lia.
              ** rewrite (wake_nil fut fwake). reflexivity.
              ** intros _. unfold needs, exempt. rewrite Ls, Pc, Lw. unfold notified. rewrite Fd. reflexivity.
              ** unfold tokpc. rewrite Pc. discriminate.
              ** intros j g id' N Lj Lg H. unfold notified in *. rewrite find_set_other; [exact H|]. intros ->. apply N.
                 apply (ow_inj _ _ _ _ _ _ _ _ O j i g f id Lj L0 Lg Ls).
              ** intro H. right. apply has_set; [intros a' Q; congruence | exact H].
           ++ apply (T_tok _ i (mkF RLoad2 None (fwok f) true)); [cbn [g_futs]; apply (nth_set_same _ _ _ _ L0) | reflexivity].
        -- apply (T_plain s _ i f (mkF RLoad1 (Some (g_nid s)) (fwok f) true) [] O T L O'); cbn [g_futs g_ev g_wb g_pend]; auto; try lia.
           ++ rewrite (wake_nil fut fwake). reflexivity.
           ++ unfold needs, exempt. cbn. discriminate.
           ++ unfold tokpc. rewrite Pc. discriminate.
           ++ intros j g id' N Lj Lg H. unfold notified, ev_listen in *. rewrite find_app. destruct (ev_find id' (g_ev s)); [exact H | discriminate].
           ++ intro H. right. unfold has_notified, ev_listen in *. rewrite existsb_app, H. reflexivity.
      * (* the last observation had no bit: the compare_exchange *)
        destruct (negb (g_wb s) && negb fail) eqn:C.
        -- eapply (T_same s _ i f _ O T L O'); try reflexivity; cbn [g_wb g_pend]; auto; try lia.
           ++ unfold needs, exempt. cbn [flis fpc]. destruct (flis f); discriminate.
           ++ unfold tokpc. rewrite Pc. discriminate.
        -- destruct (g_wb s) eqn:WB; [apply T_set; exact WB|].
           eapply (T_same s _ i f _ O T L O'); try reflexivity; cbn [g_wb g_pend with_fut]; auto; try lia.
           ++ unfold needs, exempt. cbn [flis fpc flw]. destruct (flis f); discriminate.
           ++ unfold tokpc. rewrite Pc. discriminate.
    + (* RLoad1 *) destruct (g_wb s) eqn:WB; [apply T_set; exact WB|].
      eapply (T_same s _ i f _ O T L O'); try reflexivity; cbn [g_wb g_pend with_fut]; auto; try lia.
      * unfold needs, exempt. cbn [flis fpc flw]. destruct (flis f); discriminate.
      * unfold tokpc. rewrite Pc. discriminate.
    + (* RLoad2 *) destruct (g_wb s) eqn:WB; [apply T_set; exact WB|].
      apply (T_tok _ i (mkF RNotify (flis f) (fwok f) false)); [cbn [g_futs with_fut]; apply (nth_set_same _ _ _ _ L0) | reflexivity].
    + (* RNotify *) apply T_after_notify. exact O'.
    + (* RDropL *)
      apply (T_drop s i f (mkF RDone None (fwok f) false)); auto. unfold tokpc. rewrite Pc. reflexivity.
  - (* ACancel *)
    destruct (getf s i) as [f|] eqn:L; [|exact T].
    assert (G : tokpc f = false -> Own (do_drop (flis f) (with_fut s i (mkF RGone None false false))) -> Tinv (do_drop (flis f) (with_fut s i (mkF RGone None false false)))).
    { intros Tf O2. apply (T_drop s i f (mkF RGone None false false)); auto. }
    destruct (fpc f) eqn:Pc; try exact T; apply G; auto; unfold tokpc; rewrite Pc; reflexivity.
  - (* AWSet *) destruct (g_wb s) eqn:WB; [exact T | apply T_set; reflexivity].
  - (* AWClear *) destruct (g_wb s) eqn:WB; [|exact T]. intros _ _. unfold inflight. cbn [g_pend]. apply or1. apply N.ltb_lt. lia.
  - (* APend *) destruct (0 <? g_pend s); [|exact T]. apply T_after_notify. exact O'.
Qed.

Lemma Tinv_g0 n : Tinv (g0 n).
Proof.
  intros _ H. exfalso. unfold needy, g0 in H. cbn [g_ev g_futs] in H. apply existsb_exists in H. destruct H as (f & Hf & Nf).
  apply repeat_spec in Hf. subst f. discriminate.
Qed.

Theorem run_inv sched n : Own (run true n sched) /\ Tinv (run true n sched).
Proof.
  unfold run. generalize (Own_g0 n) (Tinv_g0 n). generalize (g0 n).
  induction sched as [|a r IH]; intros s O T; cbn [fold_left]; [split; assumption|].
  apply IH; [apply Own_step; exact O | apply Tinv_step; assumption].
Qed.

(* ---------- the property ---------- *)
Lemma notified_owner_woken s e : Own s -> In e (g_ev s) -> is_notified e = true ->
  exists i f, getf s i = Some f /\ flis f = Some (eid e) /\ at_rest f = false.
Proof.
  intros O He Ne. destruct (ow_owner _ _ _ _ _ _ _ _ O e He) as (i & f & L & Ls & Ok). exists i, f. split; [exact L|]. split; [exact Ls|].
  pose proof (ow_pc _ _ _ _ _ _ _ _ O i f L) as (P1 & _). unfold ent_ok in Ok. unfold is_notified in Ne. destruct (est e); try discriminate.
  unfold at_rest. unfold parkedb in Ok. destruct (fpc f) eqn:Pc; try reflexivity; cbn [lisN] in P1; try (rewrite P1 in Ls by reflexivity; discriminate).
  rewrite (Ok eq_refl). reflexivity.
Qed.

Theorem rw_read_sched_inflight sched n : let s := run true n sched in
  g_wb s = false -> needy s = true -> inflight s = true.
Proof. intros s. destruct (run_inv sched n) as (_ & T). exact T. Qed.

(* no lost wake-up for readers: when WRITER_BIT is clear and nothing is in flight (no thread inside a poll or between
   clearing the bit and notify; every future whose waker was called polled again), no polled read() waits *)
Theorem rw_read_sched_no_lost_wakeup sched n : lostb (run true n sched) = false.
Proof.
  destruct (lostb (run true n sched)) eqn:LB; [exfalso|reflexivity]. unfold lostb in LB.
  apply Bool.andb_true_iff in LB. destruct LB as (LB & PK). apply Bool.andb_true_iff in LB. destruct LB as (C & Q).
  apply Bool.negb_true_iff in C. destruct (run_inv sched n) as (O & T). set (s := run true n sched) in *.
  unfold quiescentb in Q. apply Bool.andb_true_iff in Q. destruct Q as (QF & QP). rewrite forallb_forall in QF. apply N.eqb_eq in QP.
  apply existsb_exists in PK. destruct PK as (f & Hf & Pf). pose proof (QF f Hf) as Rf. apply In_nth_error in Hf. destruct Hf as (i & L).
  pose proof (ow_pc _ _ _ _ _ _ _ _ O i f L) as (_ & P2). unfold parkedb in Pf. destruct (fpc f) eqn:Pc; try discriminate. cbn [lisS] in P2.
  destruct (flis f) as [id|] eqn:Ls; [|exfalso; apply P2; reflexivity].
  assert (HN : forall e, In e (g_ev s) -> is_notified e = true -> False).
  { intros e He Ne. destruct (notified_owner_woken s e O He Ne) as (j & g & Lj & _ & Rg).
    rewrite (QF g (nth_error_In _ _ Lj)) in Rg. discriminate. }
  destruct (notified id (g_ev s)) eqn:Nt.
  - unfold notified in Nt. destruct (ev_find id (g_ev s)) as [[| |a]|] eqn:Fd; try discriminate. apply ev_find_In in Fd.
    apply (HN _ Fd). reflexivity.
  - assert (Nd : needy s = true).
    { unfold needy. apply (existsb_nth _ i f L). unfold needs, exempt. rewrite Ls, Pc, Nt. reflexivity. }
    specialize (T C Nd). unfold inflight in T.
    apply Bool.orb_true_iff in T. destruct T as [T|T]; [apply Bool.orb_true_iff in T; destruct T as [T|T]|].
    + apply N.ltb_lt in T. lia.
    + unfold has_notified in T. apply existsb_exists in T. destruct T as (e & He & Ne). apply (HN e He Ne).
    + unfold tokf in T. apply existsb_exists in T. destruct T as (g & Hg & Tg). specialize (QF g Hg). unfold at_rest in QF. unfold tokpc in Tg.
      destruct (fpc g); discriminate.
Qed.

(* the code before fix 40a2a26 (finding F2b) loses a wake-up — here on a schedule that needs a thread interleaving *)
Lemma rw_read_sched_prefix_refuted : lostb (run false 2 (f2b_schedule false)) = true.
Proof. vm_compute. reflexivity. Qed.
Example rw_read_sched_f2b_repaired :
  let s := run true 2 (f2b_schedule true) in
  g_wb s = false /\ nth_error (g_futs s) 1 = Some (mkF RParked (Some 1%nat) true true).
Proof. vm_compute. split; reflexivity. Qed.
(* the chain of readers: a writer holds, three readers park; the writer's notify(1) wakes the first, which passes the
   notification on after seeing the bit clear, and so on *)
Example rw_read_sched_chain :
  let s := run true 3 [AWSet; APoll 0 true; AStep 0 false; AStep 0 false; AStep 0 false;
                       APoll 1 true; AStep 1 false; AStep 1 false; AStep 1 false;
                       APoll 2 true; AStep 2 false; AStep 2 false; AStep 2 false; AWClear; APend;
                       APoll 0 true; AStep 0 false; AStep 0 false; AStep 0 false] in
  g_wb s = false /\ option_map fwok (nth_error (g_futs s) 1) = Some true /\ option_map fwok (nth_error (g_futs s) 2) = Some false /\
  option_map fpc (nth_error (g_futs s) 0) = Some R0.
Proof. vm_compute. repeat split; reflexivity. Qed.
