(* BarrierEvSched.v — the Barrier: its counter and generation TOGETHER WITH its event at the granularity of the
   critical sections of the state mutex and the polls of the listeners, for any number of wait() futures and EVERY
   schedule (C09, schedule half).

   Sites (src/barrier.rs, pinned by Tie_Barrier). BarrierWaitInner::poll_with_strategy:
     Initial:     state = lock().await; local_gen = generation_id; count += 1;
                  if count < n { evl = Some(event.listen()); Waiting } else { count = 0; generation_id += 1;
                                                                            event.notify(usize::MAX); Ready(leader) }
     Waiting:     ready!(strategy.poll(evl)); lock = state.lock(); Reacquiring
     Reacquiring: state = lock().await; if local_gen == generation_id && count < n { evl = Some(event.listen()); Waiting }
                  else { Ready(not leader) }
   Everything that touches the counters and every listen / notify happens while the state mutex is held; the machine
   takes each critical section as one atomic action (mutual exclusion of the inner mutex: C01; that a future queueing on
   it gets it: C05) and cuts the poll of the listener, which happens outside the mutex, from them. Dropping a waiting
   future drops its listener; the count is not given back.
   [ln = false] is the machine of a source whose leader does not call event.notify(usize::MAX).

   The event is the model of event-listener in Base.v. The waker of future i is i; polls may start at any time. *)
From Coq Require Import String.
From AL Require Import Base BaseFacts EventFacts.
From AL.Gen Require Import Sites.
From AL.Tie Require Import TieLib.
From AL.Sched Require Import EvOwn.
From Coq Require Import Lia.
Open Scope N_scope.
Open Scope list_scope.

Inductive pcs :=
| BIdle      (* never polled *)
| BArrive    (* inside poll: about to run the Initial critical section *)
| BPollE     (* inside poll: about to poll its listener *)
| BReacq     (* inside poll: consumed a notification, about to run the Reacquiring critical section *)
| BParked | BDone | BGone.

Record fut := mkF { fpc : pcs; flis : option nat; fwok : bool; flg : N (* local_gen *); flead : bool }.

Record gst := mkG {
  g_n : N;                  (* parties *)
  g_cnt : N;
  g_gen : N;
  g_ev : event;
  g_nid : nat;
  g_futs : list fut
}.

Inductive act :=
| APoll (i : nat)
| AStep (i : nat)
| ACancel (i : nat).

Definition fwake (f : fut) : fut := mkF (fpc f) (flis f) true (flg f) (flead f).
Definition parkedb (f : fut) : bool := match fpc f with BParked => true | _ => false end.
Notation wake_from := (EvOwn.wake_from fut fwake).

Definition getf (s : gst) (i : nat) : option fut := nth_error (g_futs s) i.
Definition with_fut (s : gst) (i : nat) (f : fut) : gst := mkG (g_n s) (g_cnt s) (g_gen s) (g_ev s) (g_nid s) (set_nth i f (g_futs s)).
Definition with_ev (s : gst) (l : event) (ws : list waker) : gst := mkG (g_n s) (g_cnt s) (g_gen s) l (g_nid s) (wake_from 0 ws (g_futs s)).
Definition do_notify (n : N) (s : gst) : gst :=
  let '(l, ws) := ev_notify n false (g_ev s) in with_ev s l ws.
Definition do_drop (o : option nat) (s : gst) : gst :=
  let '(l, ws) := ev_drop_opt o (g_ev s) in with_ev s l ws.
Definition NMAX : N := 18446744073709551615.

(* listen inside a critical section: a new entry for future i, which goes on to poll it *)
Definition listen_as (s : gst) (i : nat) (f : fut) (cnt : N) (lg : N) : gst :=
  mkG (g_n s) cnt (g_gen s) (ev_listen (g_nid s) (g_ev s)) (S (g_nid s)) (set_nth i (mkF BPollE (Some (g_nid s)) (fwok f) lg (flead f)) (g_futs s)).

Definition step (ln : bool) (s : gst) (a : act) : gst :=
  match a with
  | APoll i =>
      match getf s i with
      | Some f => match fpc f with
                  | BIdle => with_fut s i (mkF BArrive (flis f) false (flg f) (flead f))
                  | BParked => with_fut s i (mkF BPollE (flis f) false (flg f) (flead f))
                  | _ => s
                  end
      | None => s
      end
  | AStep i =>
      match getf s i with
      | Some f =>
          match fpc f with
          | BArrive =>
              if g_cnt s + 1 <? g_n s then listen_as s i f (g_cnt s + 1) (g_gen s)
              else
                let s1 := mkG (g_n s) 0 (g_gen s + 1) (g_ev s) (g_nid s) (set_nth i (mkF BDone None (fwok f) (g_gen s) true) (g_futs s)) in
                if ln then do_notify NMAX s1 else s1
          | BPollE =>
              match flis f with
              | Some id =>
                  match ev_poll id i (g_ev s) with
                  | Some (l, true) => mkG (g_n s) (g_cnt s) (g_gen s) l (g_nid s) (set_nth i (mkF BReacq None (fwok f) (flg f) (flead f)) (g_futs s))
                  | Some (l, false) => mkG (g_n s) (g_cnt s) (g_gen s) l (g_nid s) (set_nth i (mkF BParked (Some id) (fwok f) (flg f) (flead f)) (g_futs s))
                  | None => s
                  end
              | None => s
              end
          | BReacq =>
              if (flg f =? g_gen s) && (g_cnt s <? g_n s) then listen_as s i f (g_cnt s) (flg f)
              else with_fut s i (mkF BDone None (fwok f) (flg f) false)
          | _ => s
          end
      | None => s
      end
  | ACancel i =>
      match getf s i with
      | Some f => match fpc f with
                  | BIdle | BDone => with_fut s i (mkF BGone None false (flg f) (flead f))
                  | BParked => do_drop (flis f) (with_fut s i (mkF BGone None false (flg f) (flead f)))
                  | _ => s
                  end
      | None => s
      end
  end.

Definition g0 (n : N) (nfuts : nat) : gst := mkG n 0 0 [] 0 (repeat (mkF BIdle None false 0 false) nfuts).
Definition run (ln : bool) (n : N) (nfuts : nat) (sched : list act) : gst := fold_left (step ln) sched (g0 n nfuts).

(* ---------- the property, as a statement about states ---------- *)
Definition at_rest (f : fut) : bool :=
  match fpc f with
  | BIdle | BDone | BGone => true
  | BParked => negb (fwok f)
  | _ => false
  end.
Definition quiescentb (s : gst) : bool := forallb at_rest (g_futs s).
(* a lost wake-up: nothing is in flight and a polled wait() of a generation that is over still waits *)
Definition stale (s : gst) (f : fut) : bool := parkedb f && negb (flg f =? g_gen s).
Definition lostb (s : gst) : bool := quiescentb s && existsb (stale s) (g_futs s).

(* two of three parties arrive and park, the third arrives: it leads, the two are woken *)
Definition trio_schedule : list act :=
  [APoll 0; AStep 0; AStep 0; APoll 1; AStep 1; AStep 1; APoll 2; AStep 2].

(* ---------- which machine the source is: read from Gen/Sites.v on every run ---------- *)
Definition gen_bar_ln : bool :=
  match fn_shape "barrier::BarrierWaitInner::poll_with_strategy" with
  | Some (sites, _) => existsb (fun x => String.eqb (fst (fst x)) "notify" && String.eqb (snd (fst x)) "this.barrier.event" &&
                                         match snd x with [a] => String.eqb a "usize::MAX" | _ => false end) sites
  | None => false
  end.
Definition has_kind (fname kind : string) : bool :=
  match fn_shape fname with
  | Some (sites, _) => existsb (fun x => String.eqb (fst (fst x)) kind) sites
  | None => false
  end.
Definition ord_report : list (string * bool) :=
  [("barrier::BarrierWaitInner::poll_with_strategy: the leader calls event.notify(usize::MAX)"%string, gen_bar_ln)].
Definition bad_schedule : option (list act) :=
  if negb gen_bar_ln && negb (has_kind "barrier::BarrierWaitInner::poll_with_strategy" "notify") && lostb (run false 3 3 trio_schedule) then Some trio_schedule else None.
