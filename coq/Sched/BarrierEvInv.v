(* BarrierEvInv.v — C09, schedule half: on the micro-step machine of BarrierEvSched.v, for every schedule shorter than
   2^64 actions, any number of wait() futures: when nothing is in flight, no polled wait() of a generation that is over
   still waits. Invariants: ownership of the entries (EvOwn.OwnP) and Ginv: a future that waits on an entry that is
   not notified belongs to the current generation. *)
From AL Require Import Base BaseFacts EventFacts.
From AL Require BarrierInv.
From AL.Sched Require Import EvOwn BarrierEvSched.
From Coq Require Import Lia.
Open Scope N_scope.
Open Scope list_scope.

Definition lisN (p : pcs) : bool := match p with BIdle | BArrive | BReacq | BDone | BGone => true | _ => false end.
Definition lisS (p : pcs) : bool := match p with BPollE | BParked => true | _ => false end.
Definition pc_ok (f : fut) : Prop := (lisN (fpc f) = true -> flis f = None) /\ (lisS (fpc f) = true -> flis f <> None).

Notation OwnP := (EvOwn.OwnP fut flis parkedb fwok pc_ok).
Definition Own (s : gst) : Prop := OwnP (g_ev s) (g_nid s) (g_futs s).

Lemma lis_wake f : flis (fwake f) = flis f. Proof. reflexivity. Qed.
Lemma parked_wake f : parkedb (fwake f) = parkedb f. Proof. reflexivity. Qed.
Lemma wok_wake f : fwok (fwake f) = true. Proof. reflexivity. Qed.
Lemma ok_wake f : pc_ok f -> pc_ok (fwake f). Proof. exact (fun H => H). Qed.

Lemma Own_g0 p n : Own (g0 p n).
Proof.
  unfold Own, g0. cbn. constructor; cbn; try (intros; contradiction); [constructor| | |].
  - intros i f id L S. apply nth_error_In in L. apply repeat_spec in L. subst f. discriminate.
  - intros i j f g id L _ S _. apply nth_error_In in L. apply repeat_spec in L. subst f. discriminate.
  - intros i f L. apply nth_error_In in L. apply repeat_spec in L. subst f. unfold pc_ok. cbn. split; auto; discriminate.
Qed.
Lemma Own_move l nid fs i f f' : OwnP l nid fs -> nth_error fs i = Some f -> flis f' = flis f -> parkedb f' = false -> pc_ok f' ->
  OwnP l nid (set_nth i f' fs).
Proof.
  intros O L Hl Np HP. apply (OwnP_upd_fut fut flis parkedb fwok pc_ok l nid fs i f f' O L Hl HP).
  intros e He Q Ok. unfold ent_ok in *. destruct (est e); [exact Np | exact Ok | intro H; congruence].
Qed.
Lemma Own_notify n s : Own s -> Own (do_notify n s).
Proof.
  intro O. unfold Own, do_notify in *.
  pose proof (OwnP_notify fut flis parkedb fwok fwake pc_ok lis_wake parked_wake wok_wake ok_wake n false _ _ _ O) as G.
  destruct (ev_notify n false (g_ev s)) as [l' ws]. exact G.
Qed.
Lemma Own_drop s i f f' s0 : Own s -> getf s i = Some f -> flis f' = None -> pc_ok f' ->
  g_ev s0 = g_ev s -> g_nid s0 = g_nid s -> g_futs s0 = set_nth i f' (g_futs s) -> Own (do_drop (flis f) s0).
Proof.
  intros O L Ln HP E1 E2 E3. unfold Own, do_drop in *. rewrite E1.
  pose proof (OwnP_drop fut flis parkedb fwok fwake pc_ok lis_wake parked_wake wok_wake ok_wake _ _ _ i f f' O L Ln HP) as G.
  destruct (ev_drop_opt (flis f) (g_ev s)) as [l' ws]. unfold with_ev. cbn [g_ev g_nid g_futs]. rewrite E2, E3. exact G.
Qed.
Lemma Own_listen s i f cnt lg : Own s -> getf s i = Some f -> flis f = None -> Own (listen_as s i f cnt lg).
Proof.
  intros O L Ls. unfold Own, listen_as; cbn [g_ev g_nid g_futs]. unfold getf in L.
  apply (OwnP_listen fut flis parkedb fwok fwake pc_ok lis_wake parked_wake wok_wake ok_wake _ _ _ i f _ O L Ls); [reflexivity | reflexivity|].
  unfold pc_ok. cbn. split; intros; [discriminate | congruence].
Qed.

Ltac pcok Pf Pc := unfold pc_ok in *; cbn [fpc flis fwok flg flead] in *; rewrite ?Pc in *; cbn [lisN lisS] in *;
  destruct Pf as (Pf1 & Pf2); split; intros; try discriminate; try congruence; auto.

Lemma Own_step s a : Own s -> Own (step true s a).
Proof.
  intro O. destruct a as [i|i|i]; cbn [step].
  - destruct (getf s i) as [f|] eqn:L; [|exact O]. pose proof (ow_pc _ _ _ _ _ _ _ _ O i f L) as Pf.
    destruct (fpc f) eqn:Pc; try exact O; unfold Own, with_fut; cbn [g_ev g_nid g_futs];
      (apply (Own_move _ _ _ i f _ O L); [reflexivity | reflexivity | pcok Pf Pc]).
  - destruct (getf s i) as [f|] eqn:L; [|exact O]. pose proof (ow_pc _ _ _ _ _ _ _ _ O i f L) as Pf. pose proof L as L0. unfold getf in L0.
    destruct (fpc f) eqn:Pc; try exact O.
    + (* BArrive *) assert (Ls : flis f = None) by (destruct Pf as (Pf1 & _); apply Pf1; rewrite Pc; reflexivity).
      destruct (g_cnt s + 1 <? g_n s); [apply Own_listen; assumption|].
      apply Own_notify. unfold Own; cbn [g_ev g_nid g_futs]. apply (Own_move _ _ _ i f _ O L); [cbn; congruence | reflexivity |].
      unfold pc_ok. cbn. split; intros; [reflexivity | discriminate].
    + (* BPollE *) destruct (flis f) as [id|] eqn:Ls; [|exact O].
      unfold ev_poll. destruct (ev_find id (g_ev s)) as [[|w0|a]|] eqn:Fd; try exact O; unfold Own; cbn [g_ev g_nid g_futs].
      * apply (OwnP_set_task fut flis parkedb fwok pc_ok _ _ _ i f _ id O L0 Ls); [reflexivity|]. unfold pc_ok. cbn. split; intros; [discriminate | congruence].
      * apply (OwnP_set_task fut flis parkedb fwok pc_ok _ _ _ i f _ id O L0 Ls); [reflexivity|]. unfold pc_ok. cbn. split; intros; [discriminate | congruence].
      * apply (OwnP_remove fut flis parkedb fwok pc_ok _ _ _ i f _ id O L0 Ls); [reflexivity|]. unfold pc_ok. cbn. split; intros; [reflexivity | discriminate].
    + (* BReacq *) assert (Ls : flis f = None) by (destruct Pf as (Pf1 & _); apply Pf1; rewrite Pc; reflexivity).
      destruct ((flg f =? g_gen s) && (g_cnt s <? g_n s)); [apply Own_listen; assumption|].
      unfold Own, with_fut; cbn [g_ev g_nid g_futs]. apply (Own_move _ _ _ i f _ O L); [cbn; congruence | reflexivity |].
      unfold pc_ok. cbn. split; intros; [reflexivity | discriminate].
  - destruct (getf s i) as [f|] eqn:L; [|exact O]. pose proof (ow_pc _ _ _ _ _ _ _ _ O i f L) as Pf.
    destruct (fpc f) eqn:Pc; try exact O.
    + unfold Own, with_fut; cbn [g_ev g_nid g_futs]. apply (Own_move _ _ _ i f _ O L); [cbn; destruct Pf as (Pf1 & _); rewrite Pc in Pf1; symmetry; apply Pf1; reflexivity | reflexivity |].
      unfold pc_ok. cbn. split; intros; [reflexivity | discriminate].
    + apply (Own_drop s i f (mkF BGone None false (flg f) (flead f))); auto. unfold pc_ok. cbn. split; intros; [reflexivity | discriminate].
    + unfold Own, with_fut; cbn [g_ev g_nid g_futs]. apply (Own_move _ _ _ i f _ O L); [cbn; destruct Pf as (Pf1 & _); rewrite Pc in Pf1; symmetry; apply Pf1; reflexivity | reflexivity |].
      unfold pc_ok. cbn. split; intros; [reflexivity | discriminate].
Qed.

(* ---------- who waits un-notified is of the current generation ---------- *)
Definition waits (f : fut) : bool := match fpc f with BPollE | BParked => true | _ => false end.
Definition Ginv (s : gst) : Prop :=
  forall i f id, getf s i = Some f -> flis f = Some id -> waits f = true -> notified id (g_ev s) = false -> flg f = g_gen s.

Definition Binv (s : gst) (k : nat) : Prop := (g_nid s <= k)%nat.
Lemma Binv_step s a k : Binv s k -> Binv (step true s a) (S k).
Proof.
  unfold Binv. intro B. destruct a as [i|i|i]; cbn [step].
  - destruct (getf s i) as [f|]; [|lia]. destruct (fpc f); cbn; lia.
  - destruct (getf s i) as [f|]; [|lia]. destruct (fpc f); try (cbn; lia).
    + destruct (g_cnt s + 1 <? g_n s); [cbn; lia|]. unfold do_notify. cbn [g_ev]. destruct (ev_notify NMAX false (g_ev s)). cbn. lia.
    + destruct (flis f) as [id|]; [|lia]. destruct (ev_poll id i (g_ev s)) as [[l [|]]|]; cbn; lia.
    + destruct ((flg f =? g_gen s) && (g_cnt s <? g_n s)); cbn; lia.
  - destruct (getf s i) as [f|]; [|lia]. destruct (fpc f); try (cbn; lia).
    unfold do_drop. destruct (ev_drop_opt (flis f) _). cbn. lia.
Qed.
Lemma len_le_nid s : Own s -> (length (g_ev s) <= g_nid s)%nat.
Proof.
  intro O. rewrite <- (map_length eid). apply BarrierInv.NoDup_bound; [apply (ow_nd _ _ _ _ _ _ _ _ O) | apply (ow_fresh _ _ _ _ _ _ _ _ O)].
Qed.

Lemma nth_wake_inv_k k ws fs j g : nth_error (wake_from k ws fs) j = Some g ->
  exists g0, nth_error fs j = Some g0 /\ fpc g = fpc g0 /\ flis g = flis g0 /\ flg g = flg g0.
Proof.
  revert k j. induction fs as [|a r IH]; intros k [|j] H; cbn in H; try discriminate.
  - inversion H. exists a. destruct (memb k ws); repeat split; reflexivity.
  - apply (IH (S k) j H).
Qed.
Lemma nth_wake_inv ws fs j g : nth_error (wake_from 0 ws fs) j = Some g ->
  exists g0, nth_error fs j = Some g0 /\ fpc g = fpc g0 /\ flis g = flis g0 /\ flg g = flg g0.
Proof. apply nth_wake_inv_k. Qed.

Lemma Ginv_step s a k : Own s -> Binv s k -> N.of_nat k <= NMAX -> Ginv s -> Ginv (step true s a).
Proof.
  intros O B KB G. pose proof (Own_step s a O) as O'. destruct a as [i|i|i]; cbn [step] in *.
  - (* APoll *)
    destruct (getf s i) as [f|] eqn:L; [|exact G]. pose proof L as L0. unfold getf in L0.
    destruct (fpc f) eqn:Pc; try exact G.
    + intros j g id Lj Lg Wg Ng. unfold getf, with_fut in Lj. cbn [g_futs g_ev g_gen] in *.
      destruct (nth_set_inv _ _ _ _ _ _ L0 Lj) as [(-> & ->)|(N & Lj')]; [discriminate Wg | apply (G j g id Lj' Lg Wg Ng)].
    + intros j g id Lj Lg Wg Ng. unfold getf, with_fut in Lj. cbn [g_futs g_ev g_gen] in *.
      destruct (nth_set_inv _ _ _ _ _ _ L0 Lj) as [(-> & ->)|(N & Lj')]; [|apply (G j g id Lj' Lg Wg Ng)].
      cbn [flis flg] in *. apply (G i f id L Lg); [unfold waits; rewrite Pc; reflexivity | exact Ng].
  - (* AStep *)
    destruct (getf s i) as [f|] eqn:L; [|exact G]. pose proof (ow_pc _ _ _ _ _ _ _ _ O i f L) as (P1 & P2).
    pose proof L as L0. unfold getf in L0.
    assert (LISTEN : forall cnt, Ginv (listen_as s i f cnt (g_gen s))).
    { intros cnt j g id Lj Lg Wg Ng. unfold getf, listen_as in *. cbn [g_futs g_ev g_gen] in *.
      destruct (nth_set_inv _ _ _ _ _ _ L0 Lj) as [(-> & ->)|(N & Lj')]; [reflexivity|].
      apply (G j g id Lj' Lg Wg). unfold notified, ev_listen in *. rewrite find_app in Ng.
      destruct (ev_find id (g_ev s)) as [st|] eqn:Fd; [exact Ng|].
      exfalso. apply ev_find_None in Fd. apply Fd. apply (ow_listed _ _ _ _ _ _ _ _ O j g id Lj' Lg). }
    destruct (fpc f) eqn:Pc; try exact G; cbn [lisN lisS] in *.
    + (* BArrive *) destruct (g_cnt s + 1 <? g_n s); [apply LISTEN|].
      (* the leader: every entry is notified *)
      intros j g id Lj Lg Wg Ng. exfalso. unfold getf, do_notify in *. cbn [g_ev g_futs] in *.
      pose proof (notify_rel NMAX false (g_ev s)) as R.
      destruct (ev_notify NMAX false (g_ev s)) as [l' ws] eqn:Q. unfold with_ev in *. cbn [g_futs g_ev] in *.
      destruct (nth_wake_inv _ _ _ _ Lj) as (g1 & Lj1 & _ & E2 & _). rewrite E2 in Lg.
      assert (Hin : In id (ids (g_ev s))).
      { destruct (nth_set_inv _ _ _ _ _ _ L0 Lj1) as [(-> & ->)|(N & Lj')]; [discriminate Lg | apply (ow_listed _ _ _ _ _ _ _ _ O j g1 id Lj' Lg)]. }
      pose proof (len_le_nid s O) as LN. unfold Binv in B.
      destruct (BarrierInv.notify_all NMAX (g_ev s) id ltac:(lia) Hin) as (a & Fa). rewrite Q in Fa. cbn [fst] in Fa.
      unfold notified in Ng. rewrite Fa in Ng. discriminate.
    + (* BPollE *)
      destruct (flis f) as [id0|] eqn:Ls; [|exact G].
      unfold ev_poll in *. destruct (ev_find id0 (g_ev s)) as [[|w0|a]|] eqn:Fd; try exact G.
      * intros j g id Lj Lg Wg Ng. unfold getf in *. cbn [g_futs g_ev g_gen] in *.
        destruct (nth_set_inv _ _ _ _ _ _ L0 Lj) as [(-> & ->)|(N & Lj')].
        -- cbn [flis flg] in *. inversion Lg; subst id. apply (G i f id0 L Ls); [unfold waits; rewrite Pc; reflexivity | unfold notified; rewrite Fd; reflexivity].
        -- apply (G j g id Lj' Lg Wg). unfold notified in *. rewrite find_set_other in Ng; [exact Ng|]. intros ->. apply N. apply (ow_inj _ _ _ _ _ _ _ _ O j i g f id0 Lj' L0 Lg Ls).
      * intros j g id Lj Lg Wg Ng. unfold getf in *. cbn [g_futs g_ev g_gen] in *.
        destruct (nth_set_inv _ _ _ _ _ _ L0 Lj) as [(-> & ->)|(N & Lj')].
        -- cbn [flis flg] in *. inversion Lg; subst id. apply (G i f id0 L Ls); [unfold waits; rewrite Pc; reflexivity | unfold notified; rewrite Fd; reflexivity].
        -- apply (G j g id Lj' Lg Wg). unfold notified in *. rewrite find_set_other in Ng; [exact Ng|]. intros ->. apply N. apply (ow_inj _ _ _ _ _ _ _ _ O j i g f id0 Lj' L0 Lg Ls).
      * intros j g id Lj Lg Wg Ng. unfold getf in *. cbn [g_futs g_ev g_gen] in *.
        destruct (nth_set_inv _ _ _ _ _ _ L0 Lj) as [(-> & ->)|(N & Lj')]; [discriminate Wg|].
        apply (G j g id Lj' Lg Wg). unfold notified in *. rewrite find_remove_other in Ng; [exact Ng|]. intros ->. apply N. apply (ow_inj _ _ _ _ _ _ _ _ O j i g f id0 Lj' L0 Lg Ls).
    + (* BReacq *)
      destruct ((flg f =? g_gen s) && (g_cnt s <? g_n s)) eqn:C.
      * apply Bool.andb_true_iff in C. destruct C as (C & _). apply N.eqb_eq in C. rewrite C. apply LISTEN.
      * intros j g id Lj Lg Wg Ng. unfold getf, with_fut in *. cbn [g_futs g_ev g_gen] in *.
        destruct (nth_set_inv _ _ _ _ _ _ L0 Lj) as [(-> & ->)|(N & Lj')]; [discriminate Wg | apply (G j g id Lj' Lg Wg Ng)].
  - (* ACancel *)
    destruct (getf s i) as [f|] eqn:L; [|exact G]. pose proof L as L0. unfold getf in L0.
    destruct (fpc f) eqn:Pc; try exact G.
    + intros j g id Lj Lg Wg Ng. unfold getf, with_fut in *. cbn [g_futs g_ev g_gen] in *.
      destruct (nth_set_inv _ _ _ _ _ _ L0 Lj) as [(-> & ->)|(N & Lj')]; [discriminate Wg | apply (G j g id Lj' Lg Wg Ng)].
    + (* a parked future is dropped: its listener goes, a notification it holds is passed on *)
      intros j g id Lj Lg Wg Ng. unfold getf, do_drop, with_fut in *. cbn [g_futs g_ev g_gen] in *.
      destruct (ev_drop_opt (flis f) (g_ev s)) as [l' ws] eqn:Q. unfold with_ev in *. cbn [g_futs g_ev g_gen] in *.
      destruct (nth_wake_inv _ _ _ _ Lj) as (g1 & Lj1 & E1 & E2 & E3). rewrite E2 in Lg. rewrite E3.
      destruct (nth_set_inv _ _ _ _ _ _ L0 Lj1) as [(-> & ->)|(N & Lj')]; [discriminate Lg|].
      apply (G j g1 id Lj' Lg); [unfold waits in *; rewrite <- E1; exact Wg|].
      destruct (notified id (g_ev s)) eqn:Nt; [|reflexivity]. exfalso.
      assert (M : notified id (fst (ev_drop_opt (flis f) (g_ev s))) = true).
      { apply drop_mono; [|exact Nt]. intros id0 Ls ->. apply N. apply (ow_inj _ _ _ _ _ _ _ _ O j i g1 f id0 Lj' L0 Lg Ls). }
      rewrite Q in M. cbn [fst] in M. congruence.
    + intros j g id Lj Lg Wg Ng. unfold getf, with_fut in *. cbn [g_futs g_ev g_gen] in *.
      destruct (nth_set_inv _ _ _ _ _ _ L0 Lj) as [(-> & ->)|(N & Lj')]; [discriminate Wg | apply (G j g id Lj' Lg Wg Ng)].
Qed.

Lemma Ginv_g0 p n : Ginv (g0 p n).
Proof. intros i f id L Ls. unfold getf, g0 in L. cbn in L. apply nth_error_In in L. apply repeat_spec in L. subst f. discriminate. Qed.

Theorem run_inv sched p n : N.of_nat (length sched) <= NMAX -> Own (run true p n sched) /\ Ginv (run true p n sched).
Proof.
  intro LB. unfold run.
  assert (H : forall sc s k, Own s -> Binv s k -> Ginv s -> N.of_nat (k + length sc) <= NMAX ->
              Own (fold_left (step true) sc s) /\ Ginv (fold_left (step true) sc s)).
  { induction sc as [|a r IH]; intros s k O B G KB; cbn [fold_left]; [split; assumption|].
    cbn [length] in KB. apply (IH _ (S k)).
    - apply Own_step; exact O.
    - apply Binv_step; exact B.
    - apply (Ginv_step s a k); auto. lia.
    - replace (S k + length r)%nat with (k + S (length r))%nat by lia. exact KB. }
  apply (H sched (g0 p n) 0%nat); [apply Own_g0 | unfold Binv; cbn; lia | apply Ginv_g0 | exact LB].
Qed.

(* no lost wake-up: when nothing is in flight (no thread inside a poll or a drop; every future whose waker was called
   polled again), no polled wait() whose generation is over still waits *)
Theorem barrier_sched_no_lost_wakeup sched p n : N.of_nat (length sched) <= NMAX -> lostb (run true p n sched) = false.
Proof.
  intro LB. destruct (lostb (run true p n sched)) eqn:LOST; [exfalso|reflexivity]. unfold lostb in LOST.
  apply Bool.andb_true_iff in LOST. destruct LOST as (Q & ST). destruct (run_inv sched p n LB) as (O & G). set (s := run true p n sched) in *.
  unfold quiescentb in Q. rewrite forallb_forall in Q.
  apply existsb_exists in ST. destruct ST as (f & Hf & Sf). pose proof (Q f Hf) as Rf. apply In_nth_error in Hf. destruct Hf as (i & L).
  unfold stale in Sf. apply Bool.andb_true_iff in Sf. destruct Sf as (Pf & Gf). apply Bool.negb_true_iff in Gf. apply N.eqb_neq in Gf.
  pose proof (ow_pc _ _ _ _ _ _ _ _ O i f L) as (_ & P2). unfold parkedb in Pf. destruct (fpc f) eqn:Pc; try discriminate. cbn [lisS] in P2.
  destruct (flis f) as [id|] eqn:Ls; [|apply P2; reflexivity].
  destruct (notified id (g_ev s)) eqn:Nt.
  - (* notified: its owner is this future, which is parked: it was woken *)
    unfold notified in Nt. destruct (ev_find id (g_ev s)) as [[| |a]|] eqn:Fd; try discriminate. apply ev_find_In in Fd.
    destruct (ow_owner _ _ _ _ _ _ _ _ O _ Fd) as (j & g & Lj & Lg & Ok). cbn [eid] in Lg.
    assert (j = i) by (apply (ow_inj _ _ _ _ _ _ _ _ O j i g f id Lj L Lg Ls)). subst j. rewrite L in Lj. inversion Lj; subst g.
    unfold ent_ok in Ok. cbn [est] in Ok. unfold parkedb in Ok. rewrite Pc in Ok. unfold at_rest in Rf. rewrite Pc, (Ok eq_refl) in Rf. discriminate.
  - apply Gf. apply (G i f id L Ls); [unfold waits; rewrite Pc; reflexivity | exact Nt].
Qed.

(* teeth: the machine whose leader does not notify leaves the two other parties asleep *)
Lemma barrier_sched_no_notify_refuted : lostb (run false 3 3 trio_schedule) = true.
Proof. vm_compute. reflexivity. Qed.
Example barrier_sched_trio :
  let s := run true 3 3 trio_schedule in
  g_gen s = 1 /\ g_cnt s = 0 /\ option_map fwok (nth_error (g_futs s) 0) = Some true /\ option_map fwok (nth_error (g_futs s) 1) = Some true /\
  let s2 := fold_left (step true) [APoll 0; AStep 0; AStep 0; APoll 1; AStep 1; AStep 1] s in
  option_map fpc (nth_error (g_futs s2) 0) = Some BDone /\ option_map fpc (nth_error (g_futs s2) 1) = Some BDone /\
  map flead (g_futs s2) = [false; false; true].
Proof. vm_compute. repeat split; reflexivity. Qed.
