(* BarrierEvSolo.v — tie between the micro-step machine of the Barrier (BarrierEvSched.v) and the poll-granular model
   (BarrierApi.v), hence — through the correspondence check, which runs this on every history the real crate executed —
   between the micro-step machine and the implementation on sequential schedules. [bstep2] runs an operation on the model
   and, when the model accepts it, on the machine without interleaving, then compares the states: count, generation, the
   event list entry by entry, next listener id, and per future: unpolled / waiting (listener, local generation, woken
   flag) / done. Executable definitions only (extracted into the driver). *)
From AL Require Import Base Api Mutex BarrierApi.
From AL.Sched Require BarrierEvSched.
From Coq Require Import Lia.
Import BarrierEvSched.
Open Scope N_scope.
Open Scope list_scope.

Definition NFUTS : nat := 64.

Fixpoint solo (fuel : nat) (s : gst) (i : nat) : gst :=
  match fuel with
  | O => s
  | S k =>
      match getf s i with
      | Some f => match fpc f with
                  | BArrive | BPollE | BReacq => solo k (step true s (AStep i)) i
                  | _ => s
                  end
      | None => s
      end
  end.

Definition micro_op (s : gst) (o : bop) : gst :=
  match o with
  | BStart => s
  | BPoll f _ => solo 12 (step true s (APoll f)) f
  | BDropFut f => step true s (ACancel f)
  end.

Definition norm_entry (e : entry) : entry :=
  match est e with
  | Task w => mkEntry (eid e) (Task (Nat.div w 4))
  | _ => e
  end.
Definition estate_eqb (a b : estate) : bool :=
  match a, b with
  | Created, Created => true
  | Task v, Task w => Nat.eqb v w
  | Notified x, Notified y => Bool.eqb x y
  | _, _ => false
  end.
Fixpoint event_eqb (a b : event) : bool :=
  match a, b with
  | [], [] => true
  | x :: r, y :: r' => Nat.eqb (eid x) (eid y) && estate_eqb (est x) (est y) && event_eqb r r'
  | _, _ => false
  end.
Definition optnat_eqb (a b : option nat) : bool :=
  match a, b with Some x, Some y => Nat.eqb x y | None, None => true | _, _ => false end.

Definition fut_rel (x : bworld) (s : gst) (fid : nat) : bool :=
  match alookup fid (b_futs x), getf s fid with
  | Some f, Some g =>
      match fm_st (bf_meta f), fpc g with
      | FUnpolled, BIdle => true
      | FPending, BParked =>
          optnat_eqb (b_evl (bf_st f)) (flis g) && Bool.eqb (fm_woken (bf_meta f)) (fwok g) &&
          match b_state (bf_st f) with BWaiting lg => lg =? flg g | _ => false end
      | FDone, BDone => true
      | _, _ => false
      end
  | None, Some g => match fpc g with BIdle | BGone => true | _ => false end
  | _, None => false
  end.
Definition simrel (x : bworld) (s : gst) : bool :=
  (sw1 (b_sh x) =? g_cnt s) && (sw2 (b_sh x) =? g_gen s) && event_eqb (map norm_entry (se1 (b_sh x))) (g_ev s) &&
  Nat.eqb (snid (b_sh x)) (g_nid s) && forallb (fut_rel x s) (seq 0 (b_nf x)).

Definition bw2_init (n : N) : bworld * gst := (bw_init n, g0 n NFUTS).
Definition bstep2 (xs : bworld * gst) (o : bop) : (bworld * gst) * obs * bool :=
  let '(x, s) := xs in
  let '(x', ob) := bstep x o in
  let s' := match o_res ob with RInvalid => s | _ => micro_op s o end in
  let out_of_scope := Nat.leb NFUTS (b_nf x') in
  ((x', s'), ob, out_of_scope || simrel x' s').

Fixpoint first_diff (xs : bworld * gst) (ops : list bop) (k : N) : N :=
  match ops with
  | [] => 0
  | o :: r => let '(xs', _, ok) := bstep2 xs o in if ok then first_diff xs' r (k + 1) else k + 1
  end.
Definition barrier_micro_check (n : N) (ops : list bop) : N := first_diff (bw2_init n) ops 0.
