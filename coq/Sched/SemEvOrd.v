(* SemEvOrd.v — the only fact about the source that the schedule-level theorem of the Semaphore (C07) needs:
   both acquire futures, after a successful try_acquire, load the counter and call event.notify(1).
   [gen_baton] is read from Gen/Sites.v, i.e. from the source, on every run. *)
From AL.Sched Require Import SemEvSched.
Lemma sem_baton_premise : gen_baton = true.
Proof. vm_compute. reflexivity. Qed.
