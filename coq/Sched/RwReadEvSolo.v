(* RwReadEvSolo.v — tie between the reader-side micro-step machine of the RwLock (RwReadEvSched.v) and the poll-granular
   model (RwApi.v), hence — through the correspondence check — between that machine and the implementation on sequential
   schedules. [rstep2] runs an operation on the model; the machine follows: WRITER_BIT is set / cleared (and the pending
   no_writer.notify(1) delivered) whenever the model's operation set / cleared it — whatever writer-side operation did it:
   the machine's writers are abstract —, and polls and drops of read() futures run on the machine without interleaving (the
   future's first poll is told whether the word it cached at creation had the bit). Then the states are compared:
   WRITER_BIT, the entries of no_writer in order (listener ids are not compared: the model numbers the listeners of its three
   events from one supply), and per read() future: unpolled / waiting (position of its listener, woken flag) / done.
   Executable definitions only (extracted into the driver). *)
From AL Require Import Base Api Mutex RwLock RwApi.
From AL.Sched Require RwReadEvSched.
From Coq Require Import Lia.
Import RwReadEvSched.
Open Scope N_scope.
Open Scope list_scope.

Definition NFUTS : nat := 64.

Fixpoint solo (fuel : nat) (s : gst) (i : nat) : gst :=
  match fuel with
  | O => s
  | S k =>
      match getf s i with
      | Some f => match fpc f with
                  | R0 | RLoad1 | RLoad2 | RNotify | RDropL => solo k (step true s (AStep i false)) i
                  | _ => s
                  end
      | None => s
      end
  end.

Definition bit (w : N) : bool := N.odd w.
Definition read_cached (x : rworld) (fid : nat) : option N :=
  match alookup fid (r_futs x) with Some (mkRfut _ (FRead c _) _ _) => Some c | _ => None end.

(* the machine's move for the model's operation [o] (x: model state before, x': after) *)
Definition micro_op (x x' : rworld) (s : gst) (o : rop) : gst :=
  let reader_part :=
    match o with
    | RPoll f _ => match read_cached x f with
                   | Some c => Some (solo 24 (step true s (APoll f (bit c))) f)
                   | None => None
                   end
    | RDropFut f => match read_cached x f with Some _ => Some (step true s (ACancel f)) | None => None end
    | _ => None
    end in
  match reader_part with
  | Some s' => s'
  | None =>
      (* some other operation: follow what it did to WRITER_BIT *)
      let b := bit (sw1 (r_sh x)) in
      let b' := bit (sw1 (r_sh x')) in
      if negb b && b' then step true s AWSet
      else if b && negb b' then step true (step true s AWClear) APend
      else s
  end.

Definition norm_est (e : estate) : estate := match e with Task w => Task (Nat.div w 4) | _ => e end.
Definition estate_eqb (a b : estate) : bool :=
  match a, b with
  | Created, Created => true
  | Task v, Task w => Nat.eqb v w
  | Notified x, Notified y => Bool.eqb x y
  | _, _ => false
  end.
Fixpoint states_eqb (a b : event) : bool :=
  match a, b with
  | [], [] => true
  | x :: r, y :: r' => estate_eqb (norm_est (est x)) (est y) && states_eqb r r'
  | _, _ => false
  end.
Fixpoint pos (id : nat) (l : event) : option nat :=
  match l with
  | [] => None
  | e :: r => if Nat.eqb (eid e) id then Some 0%nat else option_map S (pos id r)
  end.
Definition optnat_eqb (a b : option nat) : bool :=
  match a, b with Some x, Some y => Nat.eqb x y | None, None => true | _, _ => false end.
Definition lpos (o : option nat) (l : event) : option nat := match o with Some id => pos id l | None => None end.

Definition fut_rel (x : rworld) (s : gst) (fid : nat) : bool :=
  match alookup fid (r_futs x), getf s fid with
  | Some (mkRfut _ (FRead _ lis) _ m), Some g =>
      match fm_st m, fpc g with
      | FUnpolled, RIdle => true
      | FPending, RParked => optnat_eqb (lpos lis (se2 (r_sh x))) (lpos (flis g) (g_ev s)) && Bool.eqb (fm_woken m) (fwok g)
      | FDone, RDone => match lis, flis g with None, None => true | _, _ => false end
      | _, _ => false
      end
  | Some _, Some g => match fpc g with RIdle => true | _ => false end     (* not a read() future: its slot is unused *)
  | None, Some g => match fpc g with RIdle | RGone => true | _ => false end
  | _, None => false
  end.
Definition simrel (x : rworld) (s : gst) : bool :=
  Bool.eqb (bit (sw1 (r_sh x))) (g_wb s) && states_eqb (se2 (r_sh x)) (g_ev s) && (g_pend s =? 0) &&
  forallb (fut_rel x s) (seq 0 (r_nf x)).

Definition rw2_init : rworld * gst := (rw0, g0 NFUTS).
Definition rstep2 (xs : rworld * gst) (o : rop) : (rworld * gst) * obs * bool :=
  let '(x, s) := xs in
  let '(x', ob) := rstep x o in
  let s' := match o_res ob with RInvalid => s | _ => micro_op x x' s o end in
  let out_of_scope := Nat.leb NFUTS (r_nf x') in
  ((x', s'), ob, out_of_scope || simrel x' s').

Fixpoint first_diff (xs : rworld * gst) (ops : list rop) (k : N) : N :=
  match ops with
  | [] => 0
  | o :: r => let '(xs', _, ok) := rstep2 xs o in if ok then first_diff xs' r (k + 1) else k + 1
  end.
Definition rw_read_micro_check (ops : list rop) : N := first_diff rw2_init ops 0.
