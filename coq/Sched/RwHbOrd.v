(* RwHbOrd.v — the only facts about the source's Orderings that the happens-before theorem of the RwLock needs: every
   site through which a guard is obtained acquires on the state word, every site through which a guard is given up
   releases on it. [gen_rwflags] is read from Gen/Sites.v, i.e. from the source, on every run. *)
From AL.Sched Require Import RwHbSched.
Lemma rw_ord_premises : rw_ord_ok = true.
Proof. vm_compute. reflexivity. Qed.
