(* RwComp3.v — the three micro-step machines of the RwLock TOGETHER: reader side (WRITER_BIT + no_writer), writer side
   (reader count + WRITER_BIT + no_readers) and the inner mutex (its word + lock_ops), for every schedule (C06, all four
   clauses at the granularity of atomic actions).

   As in RwComp.v a composed action is translated, depending on the composed state, into the actions of the component
   machines that the corresponding step of the code consists of; in addition the composed state counts what is alive
   outside the three machines:
     k_rd   read guards alive                     k_up   upgradable guards alive (each holds the inner mutex)
     k_hold lock futures of write() / upgradable_read() that have acquired the inner mutex and have not yet done their
            next step (fetch_or / the reader increment) — within one poll in the code
     k_owe  threads that have cleared WRITER_BIT / given up an upgradable guard and still owe the mutex's fetch_sub(1).
   Every component of a composed run is a run of that component's machine, so the three no-lost-wake-up theorems hold
   of it. The coherence invariant ties the components together:
     the two copies of WRITER_BIT agree and equal "some future is past the inner mutex";
     the writer side's reader count = k_rd + k_up;
     the guards of the inner mutex  = k_up + (1 if some future is past the mutex) + k_owe + k_hold.
   With it the four clauses of C06 become statements about what is alive. Which lock future belongs to which write() is
   not tracked (any write() slot may enter when some lock future holds the mutex): more schedules, same theorem. *)
From AL Require Import Base BaseFacts EventFacts.
From AL.Sched Require Import EvOwn.
From AL.Sched Require RwReadEvSched RwWriteEvSched RwReadEvInv RwWriteEvInv MutexEvSched MutexEvInv RwComp.
From Coq Require Import Lia.
Import RwComp(enter_ok, wpc, read_succeeds, R_wb_step, W_bits, wspec, wbit).
Open Scope N_scope.
Open Scope list_scope.

Inductive xact :=
(* the inner mutex: lock futures of write() / upgradable_read() *)
| XMPoll (i : nat) | XMStep (i : nat) (clock : bool) | XMCancel (i : nat) | XMPend | XRelease
(* readers *)
| XRPoll (i : nat) (lw0 : bool) | XRStep (i : nat) (fail : bool) | XRCancel (i : nat) | XRUnlock | XPendNW
(* writers and upgraders *)
| XEnter (j : nat) | XWPoll (j : nat) | XWStep (j : nat) | XWCancel (j : nat) | XWUnlock (j : nat) | XPendNR
| XDowngrade (j : nat) | XDowngradeUp (j : nat)
(* upgradable readers *)
| XUpDone | XUpgrade (j : nat) | XUpUnlock | XUpDowngrade
(* the try_ family *)
| XTryWrite (j : nat) | XTryUp | XTryFail | XTryRead.

Record xst := mkX {
  kR : RwReadEvSched.gst; kW : RwWriteEvSched.gst; kM : MutexEvSched.gst;
  sR : list RwReadEvSched.act; sW : list RwWriteEvSched.act; sM : list MutexEvSched.act;
  k_rd : N; k_up : N; k_owe : N; k_hold : N }.

(* the translation: component actions and the new counters *)
Record xtr := mkT { tR : list RwReadEvSched.act; tW : list RwWriteEvSched.act; tM : list MutexEvSched.act; n_rd : N; n_up : N; n_owe : N; n_hold : N }.
Definition same (s : xst) : xtr := mkT [] [] [] (k_rd s) (k_up s) (k_owe s) (k_hold s).

Definition m_own (s : xst) (a : MutexEvSched.act) : xtr :=
  (* an action of a lock future: if it acquires the mutex, one more future holds it *)
  mkT [] [] [a] (k_rd s) (k_up s) (k_owe s) (k_hold s + (MutexEvSched.g_guards (MutexEvSched.step true (kM s) a) - MutexEvSched.g_guards (kM s))).

Definition tr (s : xst) (a : xact) : xtr :=
  match a with
  | XMPoll i => m_own s (MutexEvSched.APoll i)
  | XMStep i c => m_own s (MutexEvSched.AStep i c)
  | XMCancel i => m_own s (MutexEvSched.ACancel i)
  | XMPend => m_own s MutexEvSched.APend
  | XRelease => if 0 <? k_owe s then mkT [] [] [MutexEvSched.ARelease] (k_rd s) (k_up s) (k_owe s - 1) (k_hold s) else same s
  | XRPoll i lw0 => mkT [RwReadEvSched.APoll i lw0] [] [] (k_rd s) (k_up s) (k_owe s) (k_hold s)
  | XRStep i fail =>
      if read_succeeds (kR s) i fail then mkT [RwReadEvSched.AStep i fail] [RwWriteEvSched.ARead] [] (k_rd s + 1) (k_up s) (k_owe s) (k_hold s)
      else mkT [RwReadEvSched.AStep i fail] [] [] (k_rd s) (k_up s) (k_owe s) (k_hold s)
  | XRCancel i => mkT [RwReadEvSched.ACancel i] [] [] (k_rd s) (k_up s) (k_owe s) (k_hold s)
  | XRUnlock => if 0 <? k_rd s then mkT [] [RwWriteEvSched.ARUnlock] [] (k_rd s - 1) (k_up s) (k_owe s) (k_hold s) else same s
  | XPendNW => mkT [RwReadEvSched.APend] [] [] (k_rd s) (k_up s) (k_owe s) (k_hold s)
  | XEnter j =>
      if (0 <? k_hold s) && enter_ok (kW s) j false
      then mkT [RwReadEvSched.AWSet] [RwWriteEvSched.AEnter j false] [] (k_rd s) (k_up s) (k_owe s) (k_hold s - 1) else same s
  | XWPoll j => mkT [] [RwWriteEvSched.APoll j] [] (k_rd s) (k_up s) (k_owe s) (k_hold s)
  | XWStep j => mkT [] [RwWriteEvSched.AStep j] [] (k_rd s) (k_up s) (k_owe s) (k_hold s)
  | XWCancel j =>
      match wpc (kW s) j with
      | Some RwWriteEvSched.WParked | Some RwWriteEvSched.WNew => mkT [RwReadEvSched.AWClear] [RwWriteEvSched.ACancel j] [] (k_rd s) (k_up s) (k_owe s + 1) (k_hold s)
      | _ => mkT [] [RwWriteEvSched.ACancel j] [] (k_rd s) (k_up s) (k_owe s) (k_hold s)
      end
  | XWUnlock j =>
      match wpc (kW s) j with
      | Some RwWriteEvSched.WDone => mkT [RwReadEvSched.AWClear] [RwWriteEvSched.AUnlock j] [] (k_rd s) (k_up s) (k_owe s + 1) (k_hold s)
      | _ => same s
      end
  | XPendNR => mkT [] [RwWriteEvSched.APend] [] (k_rd s) (k_up s) (k_owe s) (k_hold s)
  | XDowngrade j =>
      match wpc (kW s) j with
      | Some RwWriteEvSched.WDone => mkT [RwReadEvSched.AWClear] [RwWriteEvSched.AUnlock j; RwWriteEvSched.ARead] [] (k_rd s + 1) (k_up s) (k_owe s + 1) (k_hold s)
      | _ => same s
      end
  | XDowngradeUp j =>
      match wpc (kW s) j with
      | Some RwWriteEvSched.WDone => mkT [RwReadEvSched.AWClear] [RwWriteEvSched.AUnlock j; RwWriteEvSched.ARead] [] (k_rd s) (k_up s + 1) (k_owe s) (k_hold s)
      | _ => same s
      end
  | XUpDone =>
      if (0 <? k_hold s) && negb (RwWriteEvSched.g_wb (kW s)) then mkT [] [RwWriteEvSched.ARead] [] (k_rd s) (k_up s + 1) (k_owe s) (k_hold s - 1) else same s
  | XUpgrade j =>
      if (0 <? k_up s) && enter_ok (kW s) j true then mkT [RwReadEvSched.AWSet] [RwWriteEvSched.AEnter j true] [] (k_rd s) (k_up s - 1) (k_owe s) (k_hold s) else same s
  | XUpUnlock => if 0 <? k_up s then mkT [] [RwWriteEvSched.ARUnlock] [] (k_rd s) (k_up s - 1) (k_owe s + 1) (k_hold s) else same s
  | XUpDowngrade => if 0 <? k_up s then mkT [] [] [] (k_rd s + 1) (k_up s - 1) (k_owe s + 1) (k_hold s) else same s
  | XTryWrite j =>
      if (MutexEvSched.g_w (kM s) =? 0) && enter_ok (kW s) j false && (RwWriteEvSched.g_rd (kW s) =? 0)
      then mkT [RwReadEvSched.AWSet] [RwWriteEvSched.AEnter j false] [MutexEvSched.ATry] (k_rd s) (k_up s) (k_owe s) (k_hold s) else same s
  | XTryUp =>
      if (MutexEvSched.g_w (kM s) =? 0) && negb (RwWriteEvSched.g_wb (kW s)) then mkT [] [RwWriteEvSched.ARead] [MutexEvSched.ATry] (k_rd s) (k_up s + 1) (k_owe s) (k_hold s) else same s
  | XTryFail => if MutexEvSched.g_w (kM s) =? 0 then mkT [] [] [MutexEvSched.ATry] (k_rd s) (k_up s) (k_owe s + 1) (k_hold s) else same s
  | XTryRead => if negb (RwWriteEvSched.g_wb (kW s)) then mkT [] [RwWriteEvSched.ARead] [] (k_rd s + 1) (k_up s) (k_owe s) (k_hold s) else same s
  end.

Definition xstep (s : xst) (a : xact) : xst :=
  let t := tr s a in
  mkX (fold_left (RwReadEvSched.step true) (tR t) (kR s)) (fold_left (RwWriteEvSched.step true) (tW t) (kW s)) (fold_left (MutexEvSched.step true) (tM t) (kM s))
      (sR s ++ tR t) (sW s ++ tW t) (sM s ++ tM t) (n_rd t) (n_up t) (n_owe t) (n_hold t).
Definition x0 (nr nw nm : nat) : xst := mkX (RwReadEvSched.g0 nr) (RwWriteEvSched.g0 0 nw) (MutexEvSched.g0 nm) [] [] [] 0 0 0 0.
Definition xrun (nr nw nm : nat) (sched : list xact) : xst := fold_left xstep sched (x0 nr nw nm).

(* ---------- every component of a composed run is a run of its machine ---------- *)
Definition Comp (nr nw nm : nat) (s : xst) : Prop :=
  kR s = RwReadEvSched.run true nr (sR s) /\ kW s = RwWriteEvSched.run true 0 nw (sW s) /\ kM s = MutexEvSched.run true nm (sM s).
Lemma xstep_Comp nr nw nm s a : Comp nr nw nm s -> Comp nr nw nm (xstep s a).
Proof.
  intros (HR & HW & HM). unfold Comp, xstep. cbn [kR kW kM sR sW sM]. unfold RwReadEvSched.run, RwWriteEvSched.run, MutexEvSched.run in *.
  rewrite !fold_left_app. rewrite <- HR, <- HW, <- HM. repeat split.
Qed.
Lemma xrun_Comp nr nw nm sched : Comp nr nw nm (xrun nr nw nm sched).
Proof.
  unfold xrun. assert (H : Comp nr nw nm (x0 nr nw nm)) by (repeat split). revert H. generalize (x0 nr nw nm).
  induction sched as [|a l IH]; intros s H; cbn [fold_left]; [exact H|]. apply IH. apply xstep_Comp. exact H.
Qed.

(* ---------- what the component actions do to the shared quantities ---------- *)
Lemma W_rd_step s a : RwWriteEvSched.g_rd (RwWriteEvSched.step true s a) =
  match a with
  | RwWriteEvSched.AEnter j up => if enter_ok s j up && up then RwWriteEvSched.g_rd s - 1 else RwWriteEvSched.g_rd s
  | RwWriteEvSched.ARead => if RwWriteEvSched.g_wb s then RwWriteEvSched.g_rd s else RwWriteEvSched.g_rd s + 1
  | RwWriteEvSched.ARUnlock => if 0 <? RwWriteEvSched.g_rd s then RwWriteEvSched.g_rd s - 1 else RwWriteEvSched.g_rd s
  | _ => RwWriteEvSched.g_rd s
  end.
Proof.
  unfold enter_ok, wpc. destruct a as [i up|i|i|i|i| | |]; cbn [RwWriteEvSched.step].
  - destruct (RwWriteEvSched.getf s i) as [f|]; cbn [option_map]; [|reflexivity]. destruct (RwWriteEvSched.fpc f); try reflexivity.
    destruct (RwWriteEvSched.g_act s || (up && (RwWriteEvSched.g_rd s =? 0))); cbn [negb andb]; [reflexivity|]. destruct up; reflexivity.
  - destruct (RwWriteEvSched.getf s i) as [f|]; [|reflexivity]. destruct (RwWriteEvSched.fpc f); reflexivity.
  - destruct (RwWriteEvSched.getf s i) as [f|]; [|reflexivity]. destruct (RwWriteEvSched.fpc f); try reflexivity.
    + destruct (RwWriteEvSched.g_rd s =? 0); reflexivity.
    + destruct (RwWriteEvSched.flis f) as [id|]; [|reflexivity]. destruct (ev_poll id i (RwWriteEvSched.g_ev s)) as [[l [|]]|]; reflexivity.
    + unfold RwWriteEvSched.do_drop. cbn [RwWriteEvSched.g_ev RwWriteEvSched.with_fut]. destruct (ev_drop_opt (RwWriteEvSched.flis f) (RwWriteEvSched.g_ev s)). reflexivity.
    + unfold RwWriteEvSched.do_drop. cbn [RwWriteEvSched.g_ev RwWriteEvSched.with_fut]. destruct (ev_drop_opt (RwWriteEvSched.flis f) (RwWriteEvSched.g_ev s)). reflexivity.
  - destruct (RwWriteEvSched.getf s i) as [f|]; [|reflexivity]. destruct (RwWriteEvSched.fpc f); reflexivity.
  - destruct (RwWriteEvSched.getf s i) as [f|]; [|reflexivity]. destruct (RwWriteEvSched.fpc f); reflexivity.
  - destruct (RwWriteEvSched.g_wb s); reflexivity.
  - destruct (0 <? RwWriteEvSched.g_rd s); reflexivity.
  - destruct (0 <? RwWriteEvSched.g_pend s); [|reflexivity]. unfold RwWriteEvSched.do_notify. cbn [RwWriteEvSched.g_ev]. destruct (ev_notify 1 false (RwWriteEvSched.g_ev s)). reflexivity.
Qed.

Definition m_own_act (a : MutexEvSched.act) : bool := match a with MutexEvSched.ARelease | MutexEvSched.ATry => false | _ => true end.
Lemma M_guards_mono s a : m_own_act a = true -> MutexEvSched.g_guards s <= MutexEvSched.g_guards (MutexEvSched.step true s a).
Proof.
  intro H. destruct a as [i|i clock|i| | |]; try discriminate; cbn [MutexEvSched.step].
  - destruct (MutexEvSched.getf s i) as [f|]; [|lia]. destruct (MutexEvSched.fpc f); cbn; lia.
  - destruct (MutexEvSched.getf s i) as [f|]; [|lia].
    destruct (MutexEvSched.fpc f); try (cbn; lia);
      repeat match goal with
             | |- context [if ?c then _ else _] => destruct c
             | |- context [MutexEvSched.wait_step _ _ _ _ _] => unfold MutexEvSched.wait_step
             | |- context [match MutexEvSched.flis ?f with _ => _ end] => destruct (MutexEvSched.flis f)
             | |- context [match ev_poll ?a ?b ?c with _ => _ end] => destruct (ev_poll a b c) as [[? [|]]|]
             | |- context [MutexEvSched.do_drop ?o ?x] => rewrite (proj1 (proj2 (MutexEvInv.drop_futs o x)))
             | |- context [MutexEvSched.do_notify ?n ?x] => rewrite (proj1 (proj2 (MutexEvInv.notify_futs n x)))
             end; cbn; try lia.
  - destruct (MutexEvSched.getf s i) as [f|]; [|lia]. destruct (MutexEvSched.fpc f); cbn; lia.
  - destruct (0 <? MutexEvSched.g_pend s); [|lia]. rewrite (proj1 (proj2 (MutexEvInv.notify_futs _ _))). cbn. lia.
Qed.
Lemma M_guards_try s : MutexEvSched.g_guards (MutexEvSched.step true s MutexEvSched.ATry) = if MutexEvSched.g_w s =? 0 then MutexEvSched.g_guards s + 1 else MutexEvSched.g_guards s.
Proof. cbn [MutexEvSched.step]. destruct (MutexEvSched.g_w s =? 0); reflexivity. Qed.
Lemma M_guards_release s : MutexEvSched.g_guards (MutexEvSched.step true s MutexEvSched.ARelease) = if 0 <? MutexEvSched.g_guards s then MutexEvSched.g_guards s - 1 else MutexEvSched.g_guards s.
Proof. cbn [MutexEvSched.step]. destruct (0 <? MutexEvSched.g_guards s); reflexivity. Qed.

(* ---------- coherence ---------- *)
Definition b2N (b : bool) : N := if b then 1 else 0.
Record Coh (s : xst) : Prop := mkCoh {
  co_bit : RwReadEvSched.g_wb (kR s) = RwWriteEvSched.g_wb (kW s);
  co_act : RwWriteEvSched.g_act (kW s) = RwWriteEvSched.g_wb (kW s);
  co_rd : RwWriteEvSched.g_rd (kW s) = k_rd s + k_up s;
  co_mutex : MutexEvSched.g_guards (kM s) = k_up s + b2N (RwWriteEvSched.g_act (kW s)) + k_owe s + k_hold s }.

(* a future past the inner mutex means g_act (the accounting invariant of the writer side, which holds of the component
   because it is a run of its machine) *)
Lemma act_of_pc nw sw j p : wpc (RwWriteEvSched.run true 0 nw sw) j = Some p -> RwWriteEvInv.actpc (RwWriteEvSched.mkF p None false) = true -> RwWriteEvSched.g_act (RwWriteEvSched.run true 0 nw sw) = true.
Proof.
  intros Hp Ap. pose proof (RwWriteEvInv.run_inv sw 0 nw) as (_ & Ai & _). unfold RwWriteEvInv.Ainv in Ai.
  unfold wpc in Hp. destruct (RwWriteEvSched.getf (RwWriteEvSched.run true 0 nw sw) j) as [f|] eqn:L; [|discriminate]. cbn in Hp. inversion Hp; subst p.
  assert (Af : RwWriteEvInv.actpc f = true) by (rewrite RwWriteEvInv.actpc_eq in *; cbn [RwWriteEvSched.fpc] in Ap; exact Ap).
  pose proof (RwWriteEvInv.cntb_ge RwWriteEvInv.actpc j f _ L Af) as G. destruct (RwWriteEvSched.g_act (RwWriteEvSched.run true 0 nw sw)); [reflexivity | cbn in Ai; lia].
Qed.

Ltac wsimp1 := first
  [ rewrite R_wb_step
  | match goal with |- context [RwWriteEvSched.g_wb (RwWriteEvSched.step true ?x ?a)] => rewrite (proj1 (W_bits x a)) end
  | match goal with |- context [RwWriteEvSched.g_act (RwWriteEvSched.step true ?x ?a)] => rewrite (proj2 (W_bits x a)) end
  | rewrite W_rd_step | rewrite M_guards_try | rewrite M_guards_release ].
Ltac wsimp := repeat (wsimp1; cbn [wspec wbit fst snd]).
Ltac fin C1 C2 C3 C4 := constructor; cbn [kR kW kM k_rd k_up k_owe k_hold fold_left tR tW tM n_rd n_up n_owe n_hold]; wsimp;
  rewrite ?C1, ?C2 in *; unfold b2N in *; try assumption; try reflexivity; try lia.

Ltac post C2 := cbn [wbit wspec fst snd andb]; wsimp; rewrite ?C2 in *; cbv iota in *; try reflexivity; try assumption; try lia.

Lemma xstep_Coh nr nw nm s a : Comp nr nw nm s -> Coh s -> Coh (xstep s a).
Proof.
  intros (_ & HW & _) [C1 C2 C3 C4]. unfold xstep.
  assert (ACT : forall j p, wpc (kW s) j = Some p -> RwWriteEvInv.actpc (RwWriteEvSched.mkF p None false) = true -> RwWriteEvSched.g_act (kW s) = true).
  { intros j p. rewrite HW. apply act_of_pc. }
  assert (ENT : forall j up, enter_ok (kW s) j up = true -> RwWriteEvSched.g_act (kW s) = false).
  { intros j up Ee. unfold enter_ok in Ee. destruct (wpc (kW s) j) as [[]|]; try discriminate. apply Bool.negb_true_iff in Ee. apply Bool.orb_false_iff in Ee. apply Ee. }
  destruct a; cbn [tr].
  - (* XMPoll *) pose proof (M_guards_mono (kM s) (MutexEvSched.APoll i) eq_refl) as G. unfold m_own. fin C1 C2 C3 C4.
  - pose proof (M_guards_mono (kM s) (MutexEvSched.AStep i clock) eq_refl) as G. unfold m_own. fin C1 C2 C3 C4.
  - pose proof (M_guards_mono (kM s) (MutexEvSched.ACancel i) eq_refl) as G. unfold m_own. fin C1 C2 C3 C4.
  - pose proof (M_guards_mono (kM s) MutexEvSched.APend eq_refl) as G. unfold m_own. fin C1 C2 C3 C4.
  - (* XRelease *) destruct (0 <? k_owe s) eqn:E; [|unfold same; fin C1 C2 C3 C4]. apply N.ltb_lt in E.
    assert (Gp : 0 <? MutexEvSched.g_guards (kM s) = true) by (apply N.ltb_lt; unfold b2N in C4; lia). fin C1 C2 C3 C4. all: rewrite ?Gp; post C2.
  - (* XRPoll *) fin C1 C2 C3 C4.
  - (* XRStep *) destruct (read_succeeds (kR s) i fail) eqn:E; [|fin C1 C2 C3 C4].
    assert (Wb : RwWriteEvSched.g_wb (kW s) = false).
    { unfold read_succeeds in E. destruct (RwReadEvSched.getf (kR s) i) as [f|]; [|discriminate]. destruct (RwReadEvSched.fpc f); try discriminate.
      apply Bool.andb_true_iff in E. destruct E as (E & _). apply Bool.andb_true_iff in E. destruct E as (_ & E). apply Bool.negb_true_iff in E. congruence. }
    fin C1 C2 C3 C4. all: rewrite ?Wb; post C2.
  - fin C1 C2 C3 C4.
  - (* XRUnlock *) destruct (0 <? k_rd s) eqn:E; [|unfold same; fin C1 C2 C3 C4]. apply N.ltb_lt in E.
    assert (Gp : 0 <? RwWriteEvSched.g_rd (kW s) = true) by (apply N.ltb_lt; lia). fin C1 C2 C3 C4. all: rewrite ?Gp; post C2.
  - fin C1 C2 C3 C4.
  - (* XEnter *) destruct ((0 <? k_hold s) && enter_ok (kW s) j false) eqn:E; [|unfold same; fin C1 C2 C3 C4].
    apply Bool.andb_true_iff in E. destruct E as (Eh & Ee). apply N.ltb_lt in Eh. pose proof (ENT j false Ee) as Af.
    fin C1 C2 C3 C4. all: rewrite ?Ee; cbn [wbit wspec fst snd andb]; rewrite ?Af in *; post C2.
  - fin C1 C2 C3 C4.
  - fin C1 C2 C3 C4.
  - (* XWCancel *) destruct (wpc (kW s) j) as [p|] eqn:E; [destruct p|]; fin C1 C2 C3 C4.
    all: rewrite ?E; cbn [wbit wspec fst snd andb]; try (pose proof (ACT j _ E eq_refl) as At; rewrite ?At in * ); post C2.
  - (* XWUnlock *) destruct (wpc (kW s) j) as [p|] eqn:E; [destruct p|]; try solve [unfold same; fin C1 C2 C3 C4].
    pose proof (ACT j _ E eq_refl) as At. fin C1 C2 C3 C4. all: rewrite ?E; cbn [wbit wspec fst snd andb]; rewrite ?At in *; post C2.
  - fin C1 C2 C3 C4.
  - (* XDowngrade *) destruct (wpc (kW s) j) as [p|] eqn:E; [destruct p|]; try solve [unfold same; fin C1 C2 C3 C4].
    pose proof (ACT j _ E eq_refl) as At. fin C1 C2 C3 C4. all: rewrite ?E; cbn [wbit wspec fst snd andb]; rewrite ?At in *; post C2.
  - (* XDowngradeUp *) destruct (wpc (kW s) j) as [p|] eqn:E; [destruct p|]; try solve [unfold same; fin C1 C2 C3 C4].
    pose proof (ACT j _ E eq_refl) as At. fin C1 C2 C3 C4. all: rewrite ?E; cbn [wbit wspec fst snd andb]; rewrite ?At in *; post C2.
  - (* XUpDone *) destruct ((0 <? k_hold s) && negb (RwWriteEvSched.g_wb (kW s))) eqn:E; [|unfold same; fin C1 C2 C3 C4].
    apply Bool.andb_true_iff in E. destruct E as (Eh & Ew). apply N.ltb_lt in Eh. apply Bool.negb_true_iff in Ew.
    fin C1 C2 C3 C4. all: rewrite ?Ew in *; post C2.
  - (* XUpgrade *) destruct ((0 <? k_up s) && enter_ok (kW s) j true) eqn:E; [|unfold same; fin C1 C2 C3 C4].
    apply Bool.andb_true_iff in E. destruct E as (Eu & Ee). apply N.ltb_lt in Eu. pose proof (ENT j true Ee) as Af.
    fin C1 C2 C3 C4. all: rewrite ?Ee; cbn [wbit wspec fst snd andb]; rewrite ?Af in *; post C2.
  - (* XUpUnlock *) destruct (0 <? k_up s) eqn:E; [|unfold same; fin C1 C2 C3 C4]. apply N.ltb_lt in E.
    assert (Gp : 0 <? RwWriteEvSched.g_rd (kW s) = true) by (apply N.ltb_lt; lia). fin C1 C2 C3 C4. all: rewrite ?Gp; post C2.
  - (* XUpDowngrade *) destruct (0 <? k_up s) eqn:E; [|unfold same; fin C1 C2 C3 C4]. apply N.ltb_lt in E. fin C1 C2 C3 C4.
  - (* XTryWrite *) destruct ((MutexEvSched.g_w (kM s) =? 0) && enter_ok (kW s) j false && (RwWriteEvSched.g_rd (kW s) =? 0)) eqn:E; [|unfold same; fin C1 C2 C3 C4].
    apply Bool.andb_true_iff in E. destruct E as (E & Er). apply Bool.andb_true_iff in E. destruct E as (Em & Ee). pose proof (ENT j false Ee) as Af.
    fin C1 C2 C3 C4. all: rewrite ?Ee, ?Em; cbn [wbit wspec fst snd andb]; rewrite ?Af in *; post C2.
  - (* XTryUp *) destruct ((MutexEvSched.g_w (kM s) =? 0) && negb (RwWriteEvSched.g_wb (kW s))) eqn:E; [|unfold same; fin C1 C2 C3 C4].
    apply Bool.andb_true_iff in E. destruct E as (Em & Ew). apply Bool.negb_true_iff in Ew.
    fin C1 C2 C3 C4. all: rewrite ?Ew, ?Em in *; post C2.
  - (* XTryFail *) destruct (MutexEvSched.g_w (kM s) =? 0) eqn:Em; [|unfold same; fin C1 C2 C3 C4]. fin C1 C2 C3 C4. all: rewrite ?Em; post C2.
  - (* XTryRead *) destruct (negb (RwWriteEvSched.g_wb (kW s))) eqn:Ew; [|unfold same; fin C1 C2 C3 C4]. apply Bool.negb_true_iff in Ew.
    fin C1 C2 C3 C4. all: rewrite ?Ew in *; post C2.
Qed.

Theorem xrun_inv nr nw nm sched : Comp nr nw nm (xrun nr nw nm sched) /\ Coh (xrun nr nw nm sched).
Proof.
  unfold xrun. assert (H : Comp nr nw nm (x0 nr nw nm) /\ Coh (x0 nr nw nm)) by (split; [repeat split | constructor; reflexivity]).
  revert H. generalize (x0 nr nw nm). induction sched as [|a l IH]; intros s (HC & HK); cbn [fold_left]; [split; assumption|].
  apply IH. split; [apply xstep_Comp; exact HC | apply (xstep_Coh nr nw nm); assumption].
Qed.

(* ---------- C06 on the composed run ---------- *)
Theorem rw3_no_lost_wakeup nr nw nm sched : let s := xrun nr nw nm sched in
  RwReadEvSched.lostb (kR s) = false /\ RwWriteEvSched.lostb (kW s) = false /\ MutexEvSched.lostb (kM s) = false.
Proof.
  intro s. destruct (xrun_inv nr nw nm sched) as ((HR & HW & HM) & _). fold s in HR, HW, HM. rewrite HR, HW, HM.
  split; [apply RwReadEvInv.rw_read_sched_no_lost_wakeup | split; [apply RwWriteEvInv.rw_write_sched_no_lost_wakeup | apply MutexEvInv.mutex_sched_no_lost_wakeup]].
Qed.

Lemma cntb_zero_W (P : RwWriteEvSched.fut -> bool) l : (forall f, In f l -> P f = false) -> RwWriteEvInv.cntb P l = 0.
Proof. induction l as [|x r IH]; intro H; cbn; [reflexivity|]. rewrite (H x (or_introl eq_refl)). rewrite IH; [reflexivity|]. intros f Hf. apply H. right. exact Hf. Qed.
Lemma cntb_zero_M (P : MutexEvSched.fut -> bool) l : (forall f, In f l -> P f = false) -> MutexEvInv.cntb P l = 0.
Proof. induction l as [|x r IH]; intro H; cbn; [reflexivity|]. rewrite (H x (or_introl eq_refl)). rewrite IH; [reflexivity|]. intros f Hf. apply H. right. exact Hf. Qed.
Lemma existsb_false_In {A} (P : A -> bool) l : existsb P l = false -> forall x, In x l -> P x = false.
Proof. intros H x Hx. destruct (P x) eqn:E; [|reflexivity]. assert (existsb P l = true) by (apply existsb_exists; exists x; split; assumption). congruence. Qed.

(* nobody is past the inner mutex on the writer side: no write guard alive (WDone), every upgrade() future has been
   polled at least once (WNew) *)
Definition no_writer_alive (s : xst) : Prop := forall f, In f (RwWriteEvSched.g_futs (kW s)) -> RwWriteEvSched.fpc f <> RwWriteEvSched.WDone /\ RwWriteEvSched.fpc f <> RwWriteEvSched.WNew.

(* clause (d) and the heart of (a): no reader of any kind is left and the writer side is at rest: no polled write() /
   upgrade() waits, and if no write guard is alive either, nobody is past the inner mutex: WRITER_BIT is clear *)
Lemma rw3_writer_side nr nw nm sched : let s := xrun nr nw nm sched in
  k_rd s = 0 -> k_up s = 0 -> RwWriteEvSched.quiescentb (kW s) = true ->
  existsb RwWriteEvSched.parkedb (RwWriteEvSched.g_futs (kW s)) = false /\ (no_writer_alive s -> RwWriteEvSched.g_act (kW s) = false /\ RwReadEvSched.g_wb (kR s) = false).
Proof.
  intros s Zr Zu Q. destruct (xrun_inv nr nw nm sched) as ((HR & HW & HM) & [C1 C2 C3 C4]). fold s in HR, HW, HM, C1, C2, C3, C4.
  destruct (rw3_no_lost_wakeup nr nw nm sched) as (_ & LW & _). fold s in LW.
  assert (Rd : RwWriteEvSched.g_rd (kW s) = 0) by (rewrite C3; lia).
  assert (NP : existsb RwWriteEvSched.parkedb (RwWriteEvSched.g_futs (kW s)) = false).
  { unfold RwWriteEvSched.lostb in LW. rewrite Rd, Q in LW. cbn in LW. exact LW. }
  split; [exact NP|]. intro NW.
  assert (A0 : RwWriteEvInv.cntb RwWriteEvInv.actpc (RwWriteEvSched.g_futs (kW s)) = 0).
  { apply cntb_zero_W. intros f Hf. destruct (NW f Hf) as (N1 & N2).
    pose proof (existsb_false_In _ _ NP f Hf) as Pf. unfold RwWriteEvSched.quiescentb in Q. apply Bool.andb_true_iff in Q. destruct Q as (QF & _).
    rewrite forallb_forall in QF. specialize (QF f Hf). unfold RwWriteEvSched.at_rest in QF. unfold RwWriteEvSched.parkedb in Pf. rewrite RwWriteEvInv.actpc_eq.
    destruct (RwWriteEvSched.fpc f); try reflexivity; try discriminate; try contradiction. }
  pose proof (RwWriteEvInv.run_inv (sW s) 0 nw) as (_ & Ai & _). rewrite <- HW in Ai. unfold RwWriteEvInv.Ainv in Ai. rewrite A0 in Ai.
  assert (Act : RwWriteEvSched.g_act (kW s) = false) by (destruct (RwWriteEvSched.g_act (kW s)); [cbn in Ai; discriminate | reflexivity]).
  split; [exact Act | rewrite C1, <- C2; exact Act].
Qed.

(* clause (a): no guard of any kind is alive, nobody owes an unlock, nobody is in the middle of an acquisition, all three
   sides are at rest (every woken future re-polled, no notify pending) ==> NOTHING waits: no read(), no write() / upgrade(),
   no write() / upgradable_read() queued on the inner mutex *)
Theorem rw3_idle nr nw nm sched : let s := xrun nr nw nm sched in
  k_rd s = 0 -> k_up s = 0 -> k_owe s = 0 -> k_hold s = 0 -> no_writer_alive s ->
  RwReadEvSched.quiescentb (kR s) = true -> RwWriteEvSched.quiescentb (kW s) = true -> MutexEvSched.quiescentb (kM s) = true ->
  existsb RwReadEvSched.parkedb (RwReadEvSched.g_futs (kR s)) = false /\ existsb RwWriteEvSched.parkedb (RwWriteEvSched.g_futs (kW s)) = false /\ existsb MutexEvSched.parked (MutexEvSched.g_futs (kM s)) = false.
Proof.
  intros s Zr Zu Zo Zh NW QR QW QM.
  destruct (xrun_inv nr nw nm sched) as ((HR & HW & HM) & [C1 C2 C3 C4]). fold s in HR, HW, HM, C1, C2, C3, C4.
  destruct (rw3_no_lost_wakeup nr nw nm sched) as (LR & _ & LM). fold s in LR, LM.
  destruct (rw3_writer_side nr nw nm sched Zr Zu QW) as (NPW & K). fold s in NPW, K. destruct (K NW) as (Act & Wb).
  split; [|split; [exact NPW|]].
  - unfold RwReadEvSched.lostb in LR. rewrite Wb, QR in LR. cbn in LR. exact LR.
  - assert (G0 : MutexEvSched.g_guards (kM s) = 0) by (rewrite C4, Act, Zu, Zo, Zh; reflexivity).
    pose proof (MutexEvInv.run_inv (sM s) nm) as (_ & (Wi & _) & _). rewrite <- HM in Wi.
    assert (H0 : MutexEvInv.cntb MutexEvInv.holdpc (MutexEvSched.g_futs (kM s)) = 0).
    { apply cntb_zero_M. intros f Hf. unfold MutexEvSched.quiescentb in QM. apply Bool.andb_true_iff in QM. destruct QM as (QF & _).
      rewrite forallb_forall in QF. specialize (QF f Hf). unfold MutexEvSched.at_rest in QF. rewrite MutexEvInv.holdpc_eq. destruct (MutexEvSched.fpc f); try reflexivity; discriminate. }
    assert (Ev : MutexEvSched.g_w (kM s) mod 2 = 0).
    { rewrite Wi, G0, H0. rewrite N.add_0_r, N.mul_comm. apply N.mod_mul. discriminate. }
    unfold MutexEvSched.lostb in LM. rewrite Ev, QM in LM. cbn in LM. exact LM.
Qed.

(* clause (c): no write or upgradable guard alive, nobody past the inner mutex, nobody owing an unlock or in the middle of
   an acquisition, the mutex side at rest ==> nothing waits for the inner mutex (readers may be alive) *)
Theorem rw3_mutex_free nr nw nm sched : let s := xrun nr nw nm sched in
  k_up s = 0 -> k_owe s = 0 -> k_hold s = 0 -> RwWriteEvSched.g_act (kW s) = false -> MutexEvSched.quiescentb (kM s) = true ->
  existsb MutexEvSched.parked (MutexEvSched.g_futs (kM s)) = false.
Proof.
  intros s Zu Zo Zh Act QM.
  destruct (xrun_inv nr nw nm sched) as ((HR & HW & HM) & [C1 C2 C3 C4]). fold s in HR, HW, HM, C1, C2, C3, C4.
  destruct (rw3_no_lost_wakeup nr nw nm sched) as (_ & _ & LM). fold s in LM.
  assert (G0 : MutexEvSched.g_guards (kM s) = 0) by (rewrite C4, Act, Zu, Zo, Zh; reflexivity).
  pose proof (MutexEvInv.run_inv (sM s) nm) as (_ & (Wi & _) & _). rewrite <- HM in Wi.
  assert (H0 : MutexEvInv.cntb MutexEvInv.holdpc (MutexEvSched.g_futs (kM s)) = 0).
  { apply cntb_zero_M. intros f Hf. unfold MutexEvSched.quiescentb in QM. apply Bool.andb_true_iff in QM. destruct QM as (QF & _).
    rewrite forallb_forall in QF. specialize (QF f Hf). unfold MutexEvSched.at_rest in QF. rewrite MutexEvInv.holdpc_eq. destruct (MutexEvSched.fpc f); try reflexivity; discriminate. }
  assert (Ev : MutexEvSched.g_w (kM s) mod 2 = 0).
  { rewrite Wi, G0, H0. rewrite N.add_0_r, N.mul_comm. apply N.mod_mul. discriminate. }
  unfold MutexEvSched.lostb in LM. rewrite Ev, QM in LM. cbn in LM. exact LM.
Qed.

(* clause (b): nobody past the inner mutex (no write guard, no announced writer, no pending upgrade) and the reader side at
   rest ==> no read() waits *)
Theorem rw3_readers nr nw nm sched : let s := xrun nr nw nm sched in
  RwWriteEvSched.g_act (kW s) = false -> RwReadEvSched.quiescentb (kR s) = true -> existsb RwReadEvSched.parkedb (RwReadEvSched.g_futs (kR s)) = false.
Proof.
  intros s Act QR. destruct (xrun_inv nr nw nm sched) as (_ & [C1 C2 C3 C4]). fold s in C1, C2, C3, C4.
  destruct (rw3_no_lost_wakeup nr nw nm sched) as (LR & _). fold s in LR.
  assert (Wb : RwReadEvSched.g_wb (kR s) = false) by (rewrite C1, <- C2; exact Act).
  unfold RwReadEvSched.lostb in LR. rewrite Wb, QR in LR. cbn in LR. exact LR.
Qed.

(* non-vacuity: a reader holds; a write() takes the inner mutex, announces itself and parks on no_readers; a read() parks on
   no_writer; an upgradable_read() parks on the inner mutex — three futures wait, each on its own event, legitimately. The
   reader leaves; the writer completes, its guard is dropped, the three notifies and the unlock happen; the read() and the
   upgradable_read() complete; their guards are dropped: everything is back at zero and at rest, the hypotheses of
   rw3_idle hold. *)
Definition rw3_example_schedule : list xact :=
 [XRPoll 0 false; XRStep 0 false; XRStep 0 false;
  XMPoll 0; XMStep 0 false; XEnter 0; XWStep 0; XWStep 0; XWStep 0; XWStep 0;
  XRPoll 1 true; XRStep 1 false; XRStep 1 false; XRStep 1 false;
  XMPoll 1; XMStep 1 false; XMStep 1 false; XMStep 1 false; XMStep 1 false;
  XRUnlock; XPendNR; XWPoll 0; XWStep 0; XWStep 0;
  XWUnlock 0; XPendNW; XRelease; XMPend;
  XRPoll 1 true; XRStep 1 false; XRStep 1 false; XRStep 1 false; XRStep 1 false; XRStep 1 false;
  XMPoll 1; XMStep 1 false; XMStep 1 false; XUpDone;
  XRUnlock; XUpUnlock; XPendNR; XRelease; XMPend].
Example rw3_example :
  let mid := xrun 2 1 2 (firstn 19 rw3_example_schedule) in
  let fin := xrun 2 1 2 rw3_example_schedule in
  (k_rd mid = 1 /\ map RwReadEvSched.fpc (RwReadEvSched.g_futs (kR mid)) = [RwReadEvSched.RDone; RwReadEvSched.RParked] /\ map RwWriteEvSched.fpc (RwWriteEvSched.g_futs (kW mid)) = [RwWriteEvSched.WParked] /\
   map MutexEvSched.fpc (MutexEvSched.g_futs (kM mid)) = [MutexEvSched.PDone; MutexEvSched.PParked] /\ MutexEvSched.g_w (kM mid) = 1 /\ RwReadEvSched.g_wb (kR mid) = true) /\
  (k_rd fin = 0 /\ k_up fin = 0 /\ k_owe fin = 0 /\ k_hold fin = 0 /\
   RwReadEvSched.quiescentb (kR fin) = true /\ RwWriteEvSched.quiescentb (kW fin) = true /\ MutexEvSched.quiescentb (kM fin) = true /\
   map RwReadEvSched.fpc (RwReadEvSched.g_futs (kR fin)) = [RwReadEvSched.RDone; RwReadEvSched.RDone] /\ map RwWriteEvSched.fpc (RwWriteEvSched.g_futs (kW fin)) = [RwWriteEvSched.WGone] /\
   map MutexEvSched.fpc (MutexEvSched.g_futs (kM fin)) = [MutexEvSched.PDone; MutexEvSched.PDone] /\ MutexEvSched.g_w (kM fin) = 0).
Proof. vm_compute. repeat split. Qed.
