(* EvOwn.v — generic part of the micro-step machines that carry an event list: futures own the entries of the list
   (the waker of future i is i), wakers set the owner's woken flag. Parametric in the record of a future. *)
From AL Require Import Base BaseFacts EventFacts.
From Coq Require Import Lia.
Open Scope list_scope.

Fixpoint set_nth {A} (i : nat) (x : A) (l : list A) : list A :=
  match l, i with
  | [], _ => []
  | _ :: r, O => x :: r
  | y :: r, S i => y :: set_nth i x r
  end.
Definition memb (x : nat) (l : list nat) : bool := existsb (Nat.eqb x) l.

(* ---------- lists ---------- *)
Lemma nth_set_same {A} i (x y : A) l : nth_error l i = Some y -> nth_error (set_nth i x l) i = Some x.
Proof. revert i. induction l as [|a r IH]; intros [|i] H; cbn in *; try discriminate; [reflexivity | apply IH; exact H]. Qed.
Lemma nth_set_other {A} i j (x : A) l : i <> j -> nth_error (set_nth i x l) j = nth_error l j.
Proof. revert i j. induction l as [|a r IH]; intros [|i] [|j] H; cbn; try reflexivity; [contradiction | apply IH; congruence]. Qed.
Lemma nth_set_inv {A} i j (x y g : A) l : nth_error l i = Some y -> nth_error (set_nth i x l) j = Some g ->
  (j = i /\ g = x) \/ (j <> i /\ nth_error l j = Some g).
Proof.
  intros L H. destruct (Nat.eq_dec j i) as [->|N].
  - rewrite (nth_set_same _ _ _ _ L) in H. inversion H. left. split; reflexivity.
  - rewrite nth_set_other in H by congruence. right. split; assumption.
Qed.

Lemma existsb_set_inv {A} (P : A -> bool) i f x fs : nth_error fs i = Some f -> existsb P (set_nth i x fs) = true ->
  P x = true \/ exists j g, j <> i /\ nth_error fs j = Some g /\ P g = true.
Proof.
  intros L H. apply existsb_exists in H. destruct H as (g & Hg & Pg). apply In_nth_error in Hg. destruct Hg as (j & Lj).
  destruct (nth_set_inv _ _ _ _ _ _ L Lj) as [(-> & ->)|(N & Lj')]; [left; exact Pg | right; exists j, g; repeat split; assumption].
Qed.
Lemma existsb_nth {A} (P : A -> bool) i f fs : nth_error fs i = Some f -> P f = true -> existsb P fs = true.
Proof. intros L H. apply existsb_exists. exists f. split; [apply (nth_error_In _ _ L) | exact H]. Qed.
Arguments existsb_nth {A} P i f {fs}.

(* ---------- facts about the event list alone ---------- *)
Definition notified (id : nat) (l : event) : bool := match ev_find id l with Some (Notified _) => true | _ => false end.
Lemma find_app id l l2 : ev_find id (l ++ l2) = match ev_find id l with Some st => Some st | None => ev_find id l2 end.
Proof. induction l as [|e r IH]; cbn; [reflexivity|]. destruct (Nat.eqb (eid e) id); [reflexivity | exact IH]. Qed.
Lemma find_remove_other id id0 l : id <> id0 -> ev_find id (ev_remove id0 l) = ev_find id l.
Proof.
  intro N. induction l as [|e r IH]; cbn; [reflexivity|]. destruct (Nat.eqb (eid e) id0) eqn:Q0.
  - apply Nat.eqb_eq in Q0. destruct (Nat.eqb (eid e) id) eqn:Q; [apply Nat.eqb_eq in Q; congruence | reflexivity].
  - cbn. destruct (Nat.eqb (eid e) id); [reflexivity | exact IH].
Qed.
Lemma find_set_other id id0 st l : id <> id0 -> ev_find id (ev_set id0 st l) = ev_find id l.
Proof.
  intro N. induction l as [|e r IH]; cbn; [reflexivity|]. destruct (Nat.eqb (eid e) id0) eqn:Q0.
  - apply Nat.eqb_eq in Q0. cbn. destruct (Nat.eqb id0 id) eqn:Q; [apply Nat.eqb_eq in Q; congruence|].
    destruct (Nat.eqb (eid e) id) eqn:Q1; [apply Nat.eqb_eq in Q1; congruence | reflexivity].
  - cbn. destruct (Nat.eqb (eid e) id); [reflexivity | exact IH].
Qed.
Lemma notified_upd add ws l l' id : Forall2 (upd add ws) l l' -> notified id l = true -> notified id l' = true.
Proof.
  unfold notified. induction 1 as [|e e' r r' U _ IH]; cbn; [auto|].
  assert (E : eid e' = eid e) by (destruct U as [->|(_ & -> & _)]; reflexivity). rewrite E.
  destruct (Nat.eqb (eid e) id); [|exact IH].
  destruct U as [->|(Nn & -> & _)]; [auto|]. cbn. intros _. reflexivity.
Qed.
Lemma notified_has id l : notified id l = true -> has_notified l = true.
Proof.
  unfold notified. destruct (ev_find id l) as [[| |a]|] eqn:Fd; try discriminate. intros _.
  apply ev_find_In in Fd. unfold has_notified. apply existsb_exists. exists (mkEntry id (Notified a)). split; [exact Fd | reflexivity].
Qed.

Lemma has_set id w l : (forall a, ev_find id l <> Some (Notified a)) -> has_notified l = true -> has_notified (ev_set id (Task w) l) = true.
Proof.
  unfold has_notified. induction l as [|e r IH]; cbn; intros NF H; [discriminate|].
  destruct (Nat.eqb (eid e) id) eqn:Q.
  - cbn. apply Bool.orb_true_iff in H. destruct H as [H|H]; [|exact H].
    exfalso. unfold is_notified in H. destruct (est e) as [| |a] eqn:Se; try discriminate. apply (NF a). reflexivity.
  - cbn. apply Bool.orb_true_iff in H. destruct H as [H|H]; [rewrite H; reflexivity|]. rewrite IH; [apply Bool.orb_true_r | exact NF | exact H].
Qed.
Lemma notify_ne n add l : fst (ev_notify n add l) <> [] -> l <> [].
Proof. intros H ->. apply H. unfold ev_notify. destruct add; [reflexivity|]. destruct (n <? N.of_nat (count_notified [])); reflexivity. Qed.
Lemma drop_has o l : NoDup (ids l) -> has_notified l = true ->
  fst (ev_drop_opt o l) = [] \/ has_notified (fst (ev_drop_opt o l)) = true.
Proof.
  intros ND H. destruct o as [id|]; cbn [ev_drop_opt fst]; [|right; exact H].
  unfold ev_drop. destruct (ev_find id l) as [[|w0|a]|] eqn:Fd; cbn [fst].
  - right. apply has_notified_remove; auto. intros st Q. rewrite Fd in Q. inversion Q; subst. exact Logic.I.
  - right. apply has_notified_remove; auto. intros st Q. rewrite Fd in Q. inversion Q; subst. exact Logic.I.
  - destruct (ev_remove id l) as [|e r] eqn:Q; [left; destruct a; reflexivity|]. right. destruct a.
    + unfold ev_notify. apply mark_has; [lia | discriminate].
    + apply notify_has; [lia | discriminate].
  - right. exact H.
Qed.
(* a drop keeps the notifications of the other listeners *)
Lemma drop_mono o l id : (forall id0, o = Some id0 -> id <> id0) -> notified id l = true -> notified id (fst (ev_drop_opt o l)) = true.
Proof.
  intros N H. destruct o as [id0|]; cbn [ev_drop_opt fst]; [|exact H]. specialize (N id0 eq_refl).
  assert (R : notified id (ev_remove id0 l) = true) by (unfold notified in *; rewrite find_remove_other by exact N; exact H).
  unfold ev_drop. destruct (ev_find id0 l) as [[|w0|a]|]; cbn [fst]; try exact R; [|exact H].
  pose proof (notify_rel 1 a (ev_remove id0 l)) as U. destruct (ev_notify 1 a (ev_remove id0 l)) as [l' ws]. cbn [fst].
  apply (notified_upd a ws _ _ id U R).
Qed.

Lemma or3 a b c : c = true -> a || b || c = true.
Proof. intros ->. rewrite Bool.orb_true_r. reflexivity. Qed.
Lemma or2 a b c : b = true -> a || b || c = true.
Proof. intros ->. rewrite Bool.orb_true_r. reflexivity. Qed.
Lemma or1 a b c : a = true -> a || b || c = true.
Proof. intros ->. reflexivity. Qed.


Section EvOwn.
Variable F : Type.
Variable lisF : F -> option nat.      (* the listener of the future *)
Variable parkedF : F -> bool.         (* its last poll returned Pending and no poll is in progress *)
Variable wokF : F -> bool.            (* its waker was called since its last poll started *)
Variable wakeF : F -> F.              (* calling its waker *)
Variable okF : F -> Prop.             (* machine-specific consistency of the record *)
Hypothesis lis_wake : forall f, lisF (wakeF f) = lisF f.
Hypothesis parked_wake : forall f, parkedF (wakeF f) = parkedF f.
Hypothesis wok_wake : forall f, wokF (wakeF f) = true.
Hypothesis ok_wake : forall f, okF f -> okF (wakeF f).

Fixpoint wake_from (k : nat) (ws : list waker) (l : list F) : list F :=
  match l with
  | [] => []
  | f :: r => (if memb k ws then wakeF f else f) :: wake_from (S k) ws r
  end.

Definition ent_ok (i : nat) (f : F) (e : entry) : Prop :=
  match est e with
  | Created => parkedF f = false
  | Task w => w = i
  | Notified _ => parkedF f = true -> wokF f = true
  end.

Lemma nth_wake k ws l i : nth_error (wake_from k ws l) i = option_map (fun f => if memb (k + i) ws then wakeF f else f) (nth_error l i).
Proof.
  revert k i. induction l as [|a r IH]; intros k [|i]; cbn [wake_from nth_error option_map]; try reflexivity.
  - rewrite Nat.add_0_r. reflexivity.
  - rewrite IH. replace (S k + i)%nat with (k + S i)%nat by lia. reflexivity.
Qed.
Lemma memb_In x l : memb x l = true <-> In x l.
Proof.
  unfold memb. rewrite existsb_exists. split.
  - intros (y & Hy & E). apply Nat.eqb_eq in E. subst. exact Hy.
  - intro H. exists x. split; [exact H | apply Nat.eqb_refl].
Qed.

Lemma existsb_wake (P : F -> bool) k ws fs : (forall f, P (wakeF f) = P f) -> existsb P (wake_from k ws fs) = existsb P fs.
Proof. intro H. revert k. induction fs as [|f r IH]; intro k; cbn; [reflexivity|]. rewrite IH. destruct (memb k ws); [rewrite H|]; reflexivity. Qed.
Lemma wake_nil k fs : wake_from k [] fs = fs.
Proof. revert k. induction fs as [|f r IH]; intro k; cbn; [reflexivity|]. rewrite IH. reflexivity. Qed.

(* ---------- ownership ---------- *)
Record OwnP (l : event) (nid : nat) (fs : list F) : Prop := mkOwn {
  ow_nd : NoDup (ids l);
  ow_fresh : forall id, In id (ids l) -> (id < nid)%nat;
  ow_owner : forall e, In e l -> exists i f, nth_error fs i = Some f /\ lisF f = Some (eid e) /\ ent_ok i f e;
  ow_listed : forall i f id, nth_error fs i = Some f -> lisF f = Some id -> In id (ids l);
  ow_inj : forall i j f g id, nth_error fs i = Some f -> nth_error fs j = Some g -> lisF f = Some id -> lisF g = Some id -> i = j;
  ow_pc : forall i f, nth_error fs i = Some f -> okF f
}.

Lemma ent_ok_wake i f e : ent_ok i f e -> ent_ok i (wakeF f) e.
Proof. unfold ent_ok. rewrite parked_wake, wok_wake. destruct (est e); auto. Qed.
Lemma pc_ok_wake f : okF f -> okF (wakeF f).
Proof. apply ok_wake. Qed.

(* future i changes, keeping its listener *)
Lemma OwnP_upd_fut l nid fs i f f' : OwnP l nid fs -> nth_error fs i = Some f -> lisF f' = lisF f -> okF f' ->
  (forall e, In e l -> lisF f = Some (eid e) -> ent_ok i f e -> ent_ok i f' e) -> OwnP l nid (set_nth i f' fs).
Proof.
  intros [A B C D E P] L HL HP HE. constructor; auto.
  - intros e He. destruct (C e He) as (j & g & Lg & Sg & Ok). destruct (Nat.eq_dec j i) as [->|N].
    + rewrite L in Lg. inversion Lg; subst g. exists i, f'. split; [apply (nth_set_same _ _ _ _ L)|]. split; [congruence | apply HE; assumption].
    + exists j, g. split; [rewrite nth_set_other by congruence; exact Lg | split; assumption].
  - intros j g id Lg Sg. destruct (nth_set_inv _ _ _ _ _ _ L Lg) as [(-> & ->)|(N & Lg')]; [apply (D i f id L); congruence | apply (D j g id Lg' Sg)].
  - intros j1 j2 a1 a2 id L1 L2 S1 S2.
    assert (T : forall j a, nth_error (set_nth i f' fs) j = Some a -> lisF a = Some id -> exists a0, nth_error fs j = Some a0 /\ lisF a0 = Some id).
    { intros j a La Sa. destruct (nth_set_inv _ _ _ _ _ _ L La) as [(-> & ->)|(N & La')]; [exists f; split; [exact L | congruence] | exists a; split; assumption]. }
    destruct (T j1 a1 L1 S1) as (b1 & M1 & T1). destruct (T j2 a2 L2 S2) as (b2 & M2 & T2). apply (E j1 j2 b1 b2 id); assumption.
  - intros j g Lg. destruct (nth_set_inv _ _ _ _ _ _ L Lg) as [(-> & ->)|(N & Lg')]; [exact HP | apply (P j g Lg')].
Qed.

(* wakers are called: flags only *)
Lemma OwnP_wake l nid fs ws : OwnP l nid fs -> OwnP l nid (wake_from 0 ws fs).
Proof.
  intros [A B C D E P].
  assert (LW : forall j g, lisF (if memb j ws then wakeF g else g) = lisF g) by (intros j g; destruct (memb j ws); [apply lis_wake | reflexivity]).
  constructor; auto.
  - intros e He. destruct (C e He) as (j & g & Lg & Sg & Ok). exists j, (if memb j ws then wakeF g else g).
    rewrite nth_wake, Lg. cbn. split; [reflexivity|]. split; [rewrite LW; exact Sg|]. destruct (memb j ws); [apply ent_ok_wake; exact Ok | exact Ok].
  - intros j g id Lg Sg. rewrite nth_wake in Lg. destruct (nth_error fs j) as [g0|] eqn:Q; [|discriminate]. cbn in Lg. inversion Lg; subst g.
    apply (D j g0 id Q). rewrite LW in Sg. exact Sg.
  - intros j1 j2 a1 a2 id L1 L2 S1 S2. rewrite nth_wake in L1, L2.
    destruct (nth_error fs j1) as [b1|] eqn:Q1; [|discriminate]. destruct (nth_error fs j2) as [b2|] eqn:Q2; [|discriminate].
    cbn in L1, L2. inversion L1; inversion L2; subst. rewrite LW in S1, S2. apply (E j1 j2 b1 b2 id Q1 Q2); assumption.
  - intros j g Lg. rewrite nth_wake in Lg. destruct (nth_error fs j) as [g0|] eqn:Q; [|discriminate]. cbn in Lg. inversion Lg.
    destruct (memb j ws); [apply pc_ok_wake|]; apply (P j g0 Q).
Qed.

(* a notify: entries are marked, the wakers of the marked entries called *)
Lemma OwnP_upd add ws l l' nid fs : Forall2 (upd add ws) l l' -> OwnP l nid fs -> OwnP l' nid (wake_from 0 ws fs).
Proof.
  intros R [A B C D E P]. pose proof (upd_ids _ _ _ _ R) as I.
  pose proof (OwnP_wake l nid fs ws (mkOwn _ _ _ A B C D E P)) as [A' B' C' D' E' P'].
  constructor; auto.
  - rewrite I. exact A.
  - rewrite I. exact B.
  - intros e' He'. destruct (upd_In _ _ _ _ _ R He') as (e & He & U). destruct U as [->|(Nn & -> & W)]; [apply C'; exact He|].
    destruct (C e He) as (j & g & Lg & Sg & Ok). exists j, (if memb j ws then wakeF g else g). rewrite nth_wake, Lg. cbn [option_map Nat.add].
    split; [reflexivity|]. split; [destruct (memb j ws); [rewrite lis_wake|]; exact Sg|].
    unfold ent_ok in *. cbn [est]. unfold is_notified in Nn. destruct (est e) as [|w|a] eqn:Q; try discriminate.
    + destruct (memb j ws); rewrite ?parked_wake; intro H; congruence.
    + subst w. assert (M : memb j ws = true). { apply memb_In. apply W. unfold wake_of. rewrite Q. left. reflexivity. }
      rewrite M. intros _. apply wok_wake.
  - intros j g id Lg Sg. rewrite I. apply (D' j g id Lg Sg).
Qed.
Lemma OwnP_notify n add l nid fs : OwnP l nid fs ->
  OwnP (fst (ev_notify n add l)) nid (wake_from 0 (snd (ev_notify n add l)) fs).
Proof.
  intro O. pose proof (notify_rel n add l) as R. destruct (ev_notify n add l) as [l' ws]. cbn [fst snd]. apply (OwnP_upd add ws l l'); assumption.
Qed.

(* future i gives up its listener id: the entry is removed *)
Lemma OwnP_remove l nid fs i f f' id : OwnP l nid fs -> nth_error fs i = Some f -> lisF f = Some id -> lisF f' = None -> okF f' ->
  OwnP (ev_remove id l) nid (set_nth i f' fs).
Proof.
  intros [A B C D E P] L Ls Ln HP. constructor.
  - apply NoDup_remove_ev. exact A.
  - intros x Hx. apply ids_remove_incl in Hx. apply B. exact Hx.
  - intros e He. pose proof (In_remove_entry_neq _ _ _ A He) as Ne. apply In_remove_entry in He.
    destruct (C e He) as (j & g & Lg & Sg & Ok). assert (N : j <> i). { intros ->. rewrite L in Lg. inversion Lg; subst g. congruence. }
    exists j, g. split; [rewrite nth_set_other by congruence; exact Lg | split; assumption].
  - intros j g x Lg Sg. destruct (nth_set_inv _ _ _ _ _ _ L Lg) as [(-> & ->)|(N & Lg')]; [congruence|].
    apply In_remove; [exact A|]. split; [apply (D j g x Lg' Sg)|]. intros ->. apply N. apply (E j i g f id Lg' L Sg Ls).
  - intros j1 j2 a1 a2 x L1 L2 S1 S2.
    destruct (nth_set_inv _ _ _ _ _ _ L L1) as [(-> & ->)|(N1 & L1')]; [congruence|].
    destruct (nth_set_inv _ _ _ _ _ _ L L2) as [(-> & ->)|(N2 & L2')]; [congruence|]. apply (E j1 j2 a1 a2 x); assumption.
  - intros j g Lg. destruct (nth_set_inv _ _ _ _ _ _ L Lg) as [(-> & ->)|(N & Lg')]; [exact HP | apply (P j g Lg')].
Qed.

(* future i (without a listener) registers a new one *)
Lemma OwnP_listen l nid fs i f f' : OwnP l nid fs -> nth_error fs i = Some f -> lisF f = None ->
  lisF f' = Some nid -> parkedF f' = false -> okF f' ->
  OwnP (ev_listen nid l) (S nid) (set_nth i f' fs).
Proof.
  intros [A B C D E P] L Ln Ls' Np HP. unfold ev_listen.
  assert (NI : ~ In nid (ids l)) by (intro H; apply B in H; lia).
  constructor.
  - rewrite map_app. cbn. apply NoDup_app_fresh; assumption.
  - intros x Hx. rewrite map_app in Hx. apply in_app_or in Hx. cbn in Hx. destruct Hx as [Hx|[<-|[]]]; [apply B in Hx; lia | lia].
  - intros e He. apply in_app_or in He. destruct He as [He|[<-|[]]].
    + destruct (C e He) as (j & g & Lg & Sg & Ok). assert (N : j <> i) by (intros ->; rewrite L in Lg; inversion Lg; subst g; congruence).
      exists j, g. split; [rewrite nth_set_other by congruence; exact Lg | split; assumption].
    + exists i, f'. split; [apply (nth_set_same _ _ _ _ L)|]. split; [exact Ls'|]. unfold ent_ok. cbn. exact Np.
  - intros j g x Lg Sg. rewrite map_app. apply in_or_app. destruct (nth_set_inv _ _ _ _ _ _ L Lg) as [(-> & ->)|(N & Lg')].
    + right. rewrite Ls' in Sg. inversion Sg. left. reflexivity.
    + left. apply (D j g x Lg' Sg).
  - intros j1 j2 a1 a2 x L1 L2 S1 S2.
    destruct (nth_set_inv _ _ _ _ _ _ L L1) as [(-> & ->)|(N1 & L1')]; destruct (nth_set_inv _ _ _ _ _ _ L L2) as [(-> & ->)|(N2 & L2')]; try reflexivity.
    + rewrite Ls' in S1. inversion S1; subst x. exfalso. apply NI. apply (D j2 a2 nid L2' S2).
    + rewrite Ls' in S2. inversion S2; subst x. exfalso. apply NI. apply (D j1 a1 nid L1' S1).
    + apply (E j1 j2 a1 a2 x); assumption.
  - intros j g Lg. destruct (nth_set_inv _ _ _ _ _ _ L Lg) as [(-> & ->)|(N & Lg')]; [exact HP | apply (P j g Lg')].
Qed.

(* future i polls its listener id, which is not notified: its waker is stored *)
Lemma OwnP_set_task l nid fs i f f' id : OwnP l nid fs -> nth_error fs i = Some f -> lisF f = Some id ->
  lisF f' = Some id -> okF f' ->
  OwnP (ev_set id (Task i) l) nid (set_nth i f' fs).
Proof.
  intros [A B C D E P] L Ls Ls' HP. constructor.
  - rewrite ids_set. exact A.
  - rewrite ids_set. exact B.
  - intros e He. destruct (In_set _ _ _ _ A He) as [(-> & Hin)|(He' & Ne)].
    + exists i, f'. split; [apply (nth_set_same _ _ _ _ L)|]. split; [exact Ls' | reflexivity].
    + destruct (C e He') as (j & g & Lg & Sg & Ok). assert (N : j <> i) by (intros ->; rewrite L in Lg; inversion Lg; subst g; congruence).
      exists j, g. split; [rewrite nth_set_other by congruence; exact Lg | split; assumption].
  - intros j g x Lg Sg. rewrite ids_set. destruct (nth_set_inv _ _ _ _ _ _ L Lg) as [(-> & ->)|(N & Lg')]; [apply (D i f x L); congruence | apply (D j g x Lg' Sg)].
  - intros j1 j2 a1 a2 x L1 L2 S1 S2.
    assert (T : forall j a, nth_error (set_nth i f' fs) j = Some a -> lisF a = Some x -> exists a0, nth_error fs j = Some a0 /\ lisF a0 = Some x).
    { intros j a La Sa. destruct (nth_set_inv _ _ _ _ _ _ L La) as [(-> & ->)|(N & La')]; [exists f; split; [exact L | congruence] | exists a; split; assumption]. }
    destruct (T j1 a1 L1 S1) as (b1 & M1 & T1). destruct (T j2 a2 L2 S2) as (b2 & M2 & T2). apply (E j1 j2 b1 b2 x); assumption.
  - intros j g Lg. destruct (nth_set_inv _ _ _ _ _ _ L Lg) as [(-> & ->)|(N & Lg')]; [exact HP | apply (P j g Lg')].
Qed.

(* future i drops its listener (if any): removed, a notification it holds is forwarded *)
Lemma OwnP_drop l nid fs i f f' : OwnP l nid fs -> nth_error fs i = Some f -> lisF f' = None -> okF f' ->
  OwnP (fst (ev_drop_opt (lisF f) l)) nid (wake_from 0 (snd (ev_drop_opt (lisF f) l)) (set_nth i f' fs)).
Proof.
  intros O L Ln HP. destruct (lisF f) as [id|] eqn:Ls; cbn [ev_drop_opt fst snd].
  2:{ apply OwnP_wake. apply (OwnP_upd_fut l nid fs i f f' O L); [congruence | exact HP|]. intros e _ Q. congruence. }
  pose proof (OwnP_remove l nid fs i f f' id O L Ls Ln HP) as OR.
  unfold ev_drop. destruct (ev_find id l) as [[|w0|a]|] eqn:Fd; cbn [fst snd].
  - apply OwnP_wake. exact OR.
  - apply OwnP_wake. exact OR.
  - apply OwnP_notify. exact OR.
  - exfalso. pose proof (ow_listed _ _ _ O i f id L Ls) as Hin. apply ev_find_None in Fd. contradiction.
Qed.


End EvOwn.
