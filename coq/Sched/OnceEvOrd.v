(* OnceEvOrd.v — the facts about the source that the schedule-level theorem of the OnceCell (C08) needs: the guard of
   a failed initialiser stores Uninitialized and calls active_initializers.notify(1); a successful initialiser stores
   Initialized and calls active_initializers.notify_additional(usize::MAX). Read from Gen/Sites.v on every run. *)
From AL.Sched Require Import OnceEvSched.
Lemma once_gn_premise : gen_once_gn = true.
Proof. vm_compute. reflexivity. Qed.
Lemma once_na_premise : gen_once_na = true.
Proof. vm_compute. reflexivity. Qed.
