(* RwComp3Solo.v — tie between the PRODUCT of the three RwLock machines (RwComp3.v) and the poll-granular model (RwApi.v),
   hence — through the correspondence check — between the product's translation table and the implementation on
   sequential schedules. [xstep2] runs an operation on the model; the product follows with the composed actions that
   operation consists of, without interleaving (a poll of a write() that gets the inner mutex = the lock future's actions on
   the mutex machine, XEnter, the writer-side loop; a write-guard drop = XWUnlock, the no_writer notify, the mutex's
   fetch_sub and its notify; ...). Then the states are compared: each component with the relation of its own lockstep
   (RwReadEvSolo.simrel, RwWriteEvSolo.simrel), the inner mutex's word and event with the model's, every lock future with
   the model's lock future, and the product's counters with what the model says is alive (read guards, upgradable
   guards; nobody owes an unlock or is mid-acquisition between operations).
   Executable definitions only (extracted into the driver). *)
From AL Require Import Base Api Mutex RwLock RwApi.
From AL.Sched Require RwReadEvSolo RwWriteEvSolo RwComp3.
From Coq Require Import Lia.
Import RwComp3.
Open Scope N_scope.
Open Scope list_scope.

Definition mpc (s : xst) (i : nat) : option MutexEvSched.pcs := option_map MutexEvSched.fpc (MutexEvSched.getf (kM s) i).

Fixpoint xsoloR (fuel : nat) (s : xst) (i : nat) : xst :=
  match fuel with
  | O => s
  | S k => match RwReadEvSched.getf (kR s) i with
           | Some f => match RwReadEvSched.fpc f with
                       | RwReadEvSched.R0 | RwReadEvSched.RLoad1 | RwReadEvSched.RLoad2 | RwReadEvSched.RNotify | RwReadEvSched.RDropL => xsoloR k (xstep s (XRStep i false)) i
                       | _ => s
                       end
           | None => s
           end
  end.
Fixpoint xsoloW (fuel : nat) (s : xst) (j : nat) : xst :=
  match fuel with
  | O => s
  | S k => match RwWriteEvSched.getf (kW s) j with
           | Some f => match RwWriteEvSched.fpc f with
                       | RwWriteEvSched.WLoad | RwWriteEvSched.WListen | RwWriteEvSched.WPoll | RwWriteEvSched.WDropL | RwWriteEvSched.WCan => xsoloW k (xstep s (XWStep j)) j
                       | _ => s
                       end
           | None => s
           end
  end.
Fixpoint xsoloM (fuel : nat) (s : xst) (i : nat) : xst :=
  match fuel with
  | O => s
  | S k => match mpc s i with
           | Some MutexEvSched.PIdle | Some MutexEvSched.PParked | Some MutexEvSched.PDone | Some MutexEvSched.PGone | None => s
           | _ => xsoloM k (xstep s (XMStep i false)) i
           end
  end.

Definition fst_of (x : rworld) (fid : nat) : option rfutst := option_map rf_st (alookup fid (r_futs x)).
Definition spare (s : xst) : nat := match RwWriteEvSolo.find_spare (kW s) with Some j => j | None => 0%nat end.
Definition done_slot (s : xst) : nat := match RwWriteEvSolo.find_done (kW s) with Some j => j | None => 0%nat end.
Definition steps (s : xst) (l : list xact) : xst := fold_left xstep l s.

Definition after_mutex (s : xst) (f : nat) (write : bool) : xst :=
  match mpc s f with
  | Some MutexEvSched.PDone => if 0 <? k_hold s then (if write then xsoloW 24 (xstep s (XEnter f)) f else xstep s XUpDone) else s
  | _ => s
  end.

Definition micro3 (x : rworld) (res : res) (s : xst) (o : rop) : xst :=
  match o with
  | RPoll f _ =>
      match fst_of x f with
      | Some (FRead c _) => xsoloR 24 (xstep s (XRPoll f (RwReadEvSolo.bit c))) f
      | Some (FUpRead _) => after_mutex (xsoloM 40 (xstep s (XMPoll f)) f) f false
      | Some (FWrite _ (WAcquiring _)) => after_mutex (xsoloM 40 (xstep s (XMPoll f)) f) f true
      | Some (FWrite _ WWaiting) | Some (FUpgrade true _) => xsoloW 24 (xstep s (XWPoll f)) f
      | _ => s
      end
  | RUpgrade _ => xstep s (XUpgrade (r_nf x))
  | RDropFut f =>
      match fst_of x f with
      | Some (FRead _ _) => xstep s (XRCancel f)
      | Some (FUpRead _) => xsoloM 8 (xstep s (XMCancel f)) f
      | Some (FWrite _ (WAcquiring _)) => xstep (xsoloM 8 (xstep s (XMCancel f)) f) (XWCancel f)
      | Some (FWrite _ WWaiting) | Some (FUpgrade true _) => steps (xsoloW 4 (xstep s (XWCancel f)) f) [XPendNW; XRelease; XMPend]
      | _ => s
      end
  | RTry KRead _ => match res with RSome _ => xstep s XTryRead | _ => s end
  | RTry KUpRead _ => match res with RSome _ => xstep s XTryUp | _ => s end
  | RTry KWrite _ =>
      match res with
      | RSome _ => let j := spare s in xsoloW 8 (xstep s (XTryWrite j)) j
      | _ => if sw0 (r_sh x) =? 0 then steps s [XTryFail; XRelease; XMPend] else s
      end
  | RTryUpgrade _ => match res with RSome _ => let j := spare s in xsoloW 8 (steps s [XUpgrade j; XWPoll j]) j | _ => s end
  | RDowngrade g =>
      match alookup g (r_guards x) with
      | Some (GU, _) => steps s [XUpDowngrade; XRelease; XMPend]
      | Some (GW, _) => steps s [XDowngrade (done_slot s); XPendNW; XRelease; XMPend]
      | _ => s
      end
  | RDowngradeUp _ => steps s [XDowngradeUp (done_slot s); XPendNW]
  | RDropGuard g =>
      match alookup g (r_guards x) with
      | Some (GR, _) => steps s [XRUnlock; XPendNR]
      | Some (GU, _) => steps s [XUpUnlock; XPendNR; XRelease; XMPend]
      | Some (GW, _) => steps s [XWUnlock (done_slot s); XPendNW; XRelease; XMPend]
      | None => s
      end
  | _ => s
  end.

(* ---------- comparison ---------- *)
Definition norm_est (e : estate) : estate := match e with Task w => Task (Nat.div w 4) | _ => e end.
Definition estate_eqb (a b : estate) : bool :=
  match a, b with
  | Created, Created => true
  | Task v, Task w => Nat.eqb v w
  | Notified p, Notified q => Bool.eqb p q
  | _, _ => false
  end.
Fixpoint states_eqb (a b : event) : bool :=
  match a, b with
  | [], [] => true
  | p :: r, q :: r' => estate_eqb (norm_est (est p)) (est q) && states_eqb r r'
  | _, _ => false
  end.
Fixpoint pos (id : nat) (l : event) : option nat :=
  match l with
  | [] => None
  | e :: r => if Nat.eqb (eid e) id then Some 0%nat else option_map S (pos id r)
  end.
Definition optnat_eqb (a b : option nat) : bool :=
  match a, b with Some p, Some q => Nat.eqb p q | None, None => true | _, _ => false end.
Definition lpos (o : option nat) (l : event) : option nat := match o with Some id => pos id l | None => None end.

(* the lock future [l] of a model future against slot [g] of the mutex machine *)
Definition lock_rel (x : rworld) (s : xst) (m : fmeta) (l : lockfut) (g : MutexEvSched.fut) : bool :=
  match l, MutexEvSched.fpc g with
  | None, MutexEvSched.PIdle => true
  | Some (mkAcq true lis stv), MutexEvSched.PParked =>
      optnat_eqb (lpos lis (se0 (r_sh x))) (lpos (MutexEvSched.flis g) (MutexEvSched.g_ev (kM s))) && Bool.eqb stv (MutexEvSched.fstv g) && Bool.eqb (fm_woken m) (MutexEvSched.fwok g)
  | Some (mkAcq false _ _), MutexEvSched.PDone => true
  | None, MutexEvSched.PDone => true                       (* acquired on the fast path *)
  | _, _ => false
  end.
Definition mfut_rel (x : rworld) (s : xst) (fid : nat) : bool :=
  match MutexEvSched.getf (kM s) fid with
  | None => false
  | Some g =>
      match alookup fid (r_futs x) with
      | Some (mkRfut _ (FUpRead l) _ m) => lock_rel x s m l g
      | Some (mkRfut _ (FWrite _ (WAcquiring l)) _ m) => lock_rel x s m l g
      | Some (mkRfut _ (FWrite _ _) _ _) => match MutexEvSched.fpc g with MutexEvSched.PDone => true | _ => false end
      | Some _ => match MutexEvSched.fpc g with MutexEvSched.PIdle => true | _ => false end
      | None => match MutexEvSched.fpc g with MutexEvSched.PIdle | MutexEvSched.PDone | MutexEvSched.PGone => true | _ => false end
      end
  end.
Definition count_g (k : gkind) (x : rworld) : N := N.of_nat (length (filter (fun p => gkind_eqb (fst (snd p)) k) (r_guards x))).

Definition simrel3 (x : rworld) (s : xst) : bool :=
  RwReadEvSolo.simrel x (kR s) && RwWriteEvSolo.simrel x (kW s) &&
  (MutexEvSched.g_w (kM s) =? sw0 (r_sh x)) && states_eqb (se0 (r_sh x)) (MutexEvSched.g_ev (kM s)) && (MutexEvSched.g_pend (kM s) =? 0) &&
  forallb (mfut_rel x s) (seq 0 (r_nf x)) &&
  (k_rd s =? count_g GR x) && (k_up s =? count_g GU x) && (k_owe s =? 0) && (k_hold s =? 0).

Definition x3_init : rworld * xst := (rw0, x0 RwReadEvSolo.NFUTS (RwWriteEvSolo.NF + RwWriteEvSolo.NT) RwReadEvSolo.NFUTS).
Definition xstep2 (xs : rworld * xst) (o : rop) : (rworld * xst) * obs * bool :=
  let '(x, s) := xs in
  let '(x', ob) := rstep x o in
  let s' := match o_res ob with RInvalid => s | r => micro3 x r s o end in
  let out_of_scope := Nat.leb RwWriteEvSolo.NF (r_nf x') || Nat.leb RwWriteEvSolo.NT (r_ng x') in
  ((x', s'), ob, out_of_scope || simrel3 x' s').

Fixpoint first_diff (xs : rworld * xst) (ops : list rop) (k : N) : N :=
  match ops with
  | [] => 0
  | o :: r => let '(xs', _, ok) := xstep2 xs o in if ok then first_diff xs' r (k + 1) else k + 1
  end.
Definition rw3_micro_check (ops : list rop) : N := first_diff x3_init ops 0.

Example solo3_smoke1 : rw3_micro_check
  [RTry KRead false; RStart KWrite false; RPoll 0 0; RStart KRead false; RPoll 1 0; RStart KUpRead false; RPoll 2 0;
   RDropGuard 0; RPoll 0 1; RDowngrade 1; RPoll 1 1; RPoll 2 1; RDropGuard 1; RDropGuard 2; RDropGuard 3] = 0.
Proof. vm_compute. reflexivity. Qed.
