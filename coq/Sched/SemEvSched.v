(* SemEvSched.v — the Semaphore TOGETHER WITH its event at the granularity of single atomic actions, for any
   number of acquire futures and releasing threads and EVERY schedule (C07, schedule half).

   Sites (src/semaphore.rs, pinned by Tie_Semaphore). An acquire future's poll is
       loop { match try_acquire() { Some(g) => { listener = None; [if count.load() > 0 { event.notify(1) }] return Ready }
                                    None => if listener.is_none() { listener = Some(event.listen()) }
                                            else { ready!(strategy.poll(listener, cx)) } } }
   and is cut at every atomic action: the (successful) compare_exchange of try_acquire, the load that sees 0,
   listen / listener poll (one critical section of the event's list each), the listener drop, the load of the
   baton check and its notify. Guard drop = fetch_add(1) ; notify(1) and add_permits(n) = fetch_add(n) ;
   notify(n) are cut between the two. Any other thread may act between two actions of a poll.
   The bracketed statement is the repair of finding F5; [bt = false] is the code without it.

   The event is the model of event-listener in Base.v (ev_listen / ev_poll / ev_drop / ev_notify: notify(n) counts
   the entries that are already notified; a dropped notified listener passes its notification on), i.e. the one
   validated against the real crate by the correspondence check. Control flow of try_acquire is
   over-approximated as in SemSched.v: the compare_exchange may succeed at any instant at which count > 0, and
   try_acquire returns None only at an instant at which the counter reads 0. The waker of future i is i: a wake-up
   sets the future's [woken] flag; polls may start at any time (spurious polls included). *)
From Coq Require Import String.
From AL Require Import Base BaseFacts EventFacts.
From AL.Gen Require Import Sites.
From AL.Tie Require Import TieLib.
From Coq Require Import Lia.
Open Scope N_scope.
Open Scope list_scope.

Inductive pcs :=
| PIdle      (* created, never polled *)
| PTry       (* inside poll: about to run try_acquire *)
| PNone      (* inside poll: try_acquire returned None *)
| PGot       (* inside poll: try_acquire returned a guard; about to drop the listener *)
| PBaton     (* inside poll: about to load the counter for the baton check *)
| PNotify    (* inside poll: about to call event.notify(1) *)
| PParked    (* poll returned Pending *)
| PDone      (* poll returned Ready; the future is kept alive *)
| PGone.     (* dropped *)

Record fut := mkF { fpc : pcs; flis : option nat; fwok : bool }.

Record gst := mkG {
  g_cnt : N;                (* the counter *)
  g_ev : event;             (* the event's list *)
  g_nid : nat;              (* next listener id *)
  g_futs : list fut;        (* the acquire futures; the waker of future i is i *)
  g_pend : list N;          (* threads between fetch_add(n) and notify(n) *)
  g_held : N                (* guards alive *)
}.

Inductive act :=
| APoll (i : nat)      (* a poll of future i starts *)
| ACas (i : nat)       (* its compare_exchange succeeds *)
| AZero (i : nat)      (* its try_acquire reads 0 and returns None *)
| AWait (i : nat)      (* listen(), or the poll of its listener *)
| ADropLis (i : nat)   (* *this.listener = None after a successful try_acquire *)
| ABaton (i : nat)     (* count.load() of the baton check *)
| ANotify (i : nat)    (* event.notify(1) of the baton check *)
| ARelease             (* guard drop, first half: fetch_add(1) *)
| AAdd (n : N)         (* add_permits(n), first half: fetch_add(n) *)
| APend (k : nat)      (* the k-th thread that is between its fetch_add and its notify calls notify *)
| ATry                 (* a successful try_acquire of some thread (barging) *)
| AForget              (* SemaphoreGuard::forget *)
| ACancel (i : nat).   (* future i is dropped (between polls) *)

Fixpoint set_nth {A} (i : nat) (x : A) (l : list A) : list A :=
  match l, i with
  | [], _ => []
  | _ :: r, O => x :: r
  | y :: r, S i => y :: set_nth i x r
  end.
Fixpoint del_nth {A} (i : nat) (l : list A) : list A :=
  match l, i with
  | [], _ => []
  | _ :: r, O => r
  | y :: r, S i => y :: del_nth i r
  end.

Definition memb (x : nat) (l : list nat) : bool := existsb (Nat.eqb x) l.
Definition fwake (f : fut) : fut := mkF (fpc f) (flis f) true.
Fixpoint wake_from (k : nat) (ws : list waker) (l : list fut) : list fut :=
  match l with
  | [] => []
  | f :: r => (if memb k ws then fwake f else f) :: wake_from (S k) ws r
  end.

Definition getf (s : gst) (i : nat) : option fut := nth_error (g_futs s) i.
Definition with_fut (s : gst) (i : nat) (f : fut) : gst :=
  mkG (g_cnt s) (g_ev s) (g_nid s) (set_nth i f (g_futs s)) (g_pend s) (g_held s).
Definition with_ev (s : gst) (l : event) (ws : list waker) : gst :=
  mkG (g_cnt s) l (g_nid s) (wake_from 0 ws (g_futs s)) (g_pend s) (g_held s).
Definition do_notify (n : N) (s : gst) : gst :=
  let '(l, ws) := ev_notify n false (g_ev s) in with_ev s l ws.
Definition do_drop (o : option nat) (s : gst) : gst :=
  let '(l, ws) := ev_drop_opt o (g_ev s) in with_ev s l ws.

Definition step (bt : bool) (s : gst) (a : act) : gst :=
  match a with
  | APoll i =>
      match getf s i with
      | Some f => match fpc f with
                  | PIdle | PParked => with_fut s i (mkF PTry (flis f) false)
                  | _ => s
                  end
      | None => s
      end
  | ACas i =>
      match getf s i with
      | Some f => match fpc f with
                  | PTry => if 0 <? g_cnt s
                            then mkG (g_cnt s - 1) (g_ev s) (g_nid s) (set_nth i (mkF PGot (flis f) (fwok f)) (g_futs s)) (g_pend s) (g_held s + 1)
                            else s
                  | _ => s
                  end
      | None => s
      end
  | AZero i =>
      match getf s i with
      | Some f => match fpc f with
                  | PTry => if g_cnt s =? 0 then with_fut s i (mkF PNone (flis f) (fwok f)) else s
                  | _ => s
                  end
      | None => s
      end
  | AWait i =>
      match getf s i with
      | Some f =>
          match fpc f with
          | PNone =>
              match flis f with
              | None => mkG (g_cnt s) (ev_listen (g_nid s) (g_ev s)) (S (g_nid s))
                            (set_nth i (mkF PTry (Some (g_nid s)) (fwok f)) (g_futs s)) (g_pend s) (g_held s)
              | Some id =>
                  match ev_poll id i (g_ev s) with
                  | Some (l, true) => mkG (g_cnt s) l (g_nid s) (set_nth i (mkF PTry None (fwok f)) (g_futs s)) (g_pend s) (g_held s)
                  | Some (l, false) => mkG (g_cnt s) l (g_nid s) (set_nth i (mkF PParked (Some id) (fwok f)) (g_futs s)) (g_pend s) (g_held s)
                  | None => s
                  end
              end
          | _ => s
          end
      | None => s
      end
  | ADropLis i =>
      match getf s i with
      | Some f => match fpc f with
                  | PGot => do_drop (flis f) (with_fut s i (mkF (if bt then PBaton else PDone) None (fwok f)))
                  | _ => s
                  end
      | None => s
      end
  | ABaton i =>
      match getf s i with
      | Some f => match fpc f with
                  | PBaton => with_fut s i (mkF (if 0 <? g_cnt s then PNotify else PDone) (flis f) (fwok f))
                  | _ => s
                  end
      | None => s
      end
  | ANotify i =>
      match getf s i with
      | Some f => match fpc f with
                  | PNotify => do_notify 1 (with_fut s i (mkF PDone (flis f) (fwok f)))
                  | _ => s
                  end
      | None => s
      end
  | ARelease =>
      if 0 <? g_held s then mkG (g_cnt s + 1) (g_ev s) (g_nid s) (g_futs s) (g_pend s ++ [1]) (g_held s - 1) else s
  | AAdd n => mkG (g_cnt s + n) (g_ev s) (g_nid s) (g_futs s) (g_pend s ++ [n]) (g_held s)
  | APend k =>
      match nth_error (g_pend s) k with
      | Some n => do_notify n (mkG (g_cnt s) (g_ev s) (g_nid s) (g_futs s) (del_nth k (g_pend s)) (g_held s))
      | None => s
      end
  | ATry => if 0 <? g_cnt s then mkG (g_cnt s - 1) (g_ev s) (g_nid s) (g_futs s) (g_pend s) (g_held s + 1) else s
  | AForget => if 0 <? g_held s then mkG (g_cnt s) (g_ev s) (g_nid s) (g_futs s) (g_pend s) (g_held s - 1) else s
  | ACancel i =>
      match getf s i with
      | Some f => match fpc f with
                  | PIdle | PParked | PDone => do_drop (flis f) (with_fut s i (mkF PGone None false))
                  | _ => s
                  end
      | None => s
      end
  end.

Definition g0 (permits : N) (nfuts : nat) : gst := mkG permits [] 0 (repeat (mkF PIdle None false) nfuts) [] 0.
Definition run (bt : bool) (permits : N) (nfuts : nat) (sched : list act) : gst :=
  fold_left (step bt) sched (g0 permits nfuts).

(* ---------- the property, as a statement about states ---------- *)
(* nothing is in flight: no thread is inside a poll or between a fetch_add and its notify, and every future whose
   waker was called has been polled again *)
Definition at_rest (f : fut) : bool :=
  match fpc f with
  | PIdle | PDone | PGone => true
  | PParked => negb (fwok f)
  | _ => false
  end.
Definition quiescentb (s : gst) : bool := forallb at_rest (g_futs s) && match g_pend s with [] => true | _ => false end.
Definition parked (f : fut) : bool := match fpc f with PParked => true | _ => false end.
(* a lost wake-up: a permit is available, nothing is in flight, and a polled future waits *)
Definition lostb (s : gst) : bool := (0 <? g_cnt s) && quiescentb s && existsb parked (g_futs s).

(* the schedule of finding F5: two permits held; A and B wait; a release notifies A; a barging thread takes the
   permit; A's re-poll fails its try_acquire and is preempted; two more releases (both notify(1) are absorbed by
   A's still-notified entry); A resumes, consumes its notification, acquires and completes *)
Definition f5_schedule : list act :=
  [ATry; ATry;
   APoll 0; AZero 0; AWait 0; AZero 0; AWait 0;
   APoll 1; AZero 1; AWait 1; AZero 1; AWait 1;
   ARelease; APend 0; ATry;
   APoll 0; AZero 0;
   ARelease; APend 0; ARelease; APend 0;
   AWait 0; ACas 0; ADropLis 0].

(* ---------- which machine the source is: read from Gen/Sites.v, i.e. from the source, on every run ---------- *)
(* both poll functions contain, before their listen() site, a load of the counter immediately followed by
   event.notify(1) *)
Fixpoint baton_before_listen (l : list (string * string * list string)) : bool :=
  match l with
  | [] => false
  | (k, r, _) :: rest =>
      if String.eqb k "listen" then false
      else if String.eqb k "load" && String.eqb r "this.semaphore.count" then
        match rest with
        | (k2, r2, a2) :: _ =>
            (String.eqb k2 "notify" && String.eqb r2 "this.semaphore.event" && match a2 with [x] => String.eqb x "1" | _ => false end)
            || baton_before_listen rest
        | [] => false
        end
      else baton_before_listen rest
  end.
Definition has_baton (fname : string) : bool :=
  match fn_shape fname with
  | Some (sites, _) => baton_before_listen sites
  | None => false
  end.
Definition gen_baton : bool :=
  has_baton "semaphore::AcquireInner::poll_with_strategy" && has_baton "semaphore::AcquireArcInner::poll_with_strategy".

(* what the check prints when the theorem's premise fails: does the F5 schedule lose a wake-up on the machine the source is? *)
Definition f5_report : bool * list act := (lostb (run gen_baton 2 2 f5_schedule), f5_schedule).

(* read by the check when the premise (SemEvOrd.v) or a tie lemma of the Semaphore fails *)
Definition ord_report : list (string * bool) :=
  [("semaphore::AcquireInner::poll_with_strategy: count.load() ; event.notify(1) after a successful try_acquire"%string, has_baton "semaphore::AcquireInner::poll_with_strategy");
   ("semaphore::AcquireArcInner::poll_with_strategy: count.load() ; event.notify(1) after a successful try_acquire"%string, has_baton "semaphore::AcquireArcInner::poll_with_strategy")].
Definition bad_schedule : option (list act) := if negb gen_baton && fst f5_report then Some f5_schedule else None.
