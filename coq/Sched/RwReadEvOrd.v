(* RwReadEvOrd.v — the only fact about the source that the schedule-level theorem of the RwLock's reader side (C06 (b))
   needs: in RawRead::poll_with_strategy the compare_exchange is followed by `*this.listener = None`.
   [gen_rd_bt] is read from Gen/Sites.v, i.e. from the source, on every run. *)
From AL.Sched Require Import RwReadEvSched.
Lemma rd_bt_premise : gen_rd_bt = true.
Proof. vm_compute. reflexivity. Qed.
