(* BarrierComp.v — the Barrier's machine TOGETHER WITH the machine of its inner state mutex (C09, schedule half).

   BarrierEvSched.v takes each critical section of the state mutex as one atomic action and says nothing about a wait()
   that is queued on that mutex: such a future is "inside a poll" there, although in the code its poll has returned Pending
   (it is parked on the mutex's lock_ops). Here a composed action is translated into actions of the two machines: the lock
   futures of the wait()s run on MutexEvSched.v; a critical section (BArrive, BReacq) runs as one action of the barrier's
   machine only while some lock future holds the mutex and has not yet used it ([y_hold]), and then owes the unlock
   ([y_owe]). Each component of a composed run is a run of its machine. Coherence: guards of the mutex = y_hold + y_owe.
   Consequence, for every composed schedule: nobody holds the mutex or owes its unlock, the mutex side is at rest, and every
   wait() is at rest — where a wait() that needs the state mutex counts as at rest only if a lock future is parked on it
   (that is what its Pending means) — ==> no lock future is parked at all, so no wait() is stuck before a critical section,
   and no wait() of a finished generation waits. *)
From AL Require Import Base BaseFacts EventFacts.
From AL.Sched Require Import EvOwn.
From AL.Sched Require BarrierEvSched BarrierEvInv MutexEvSched MutexEvInv RwComp3.
From Coq Require Import Lia.
Import RwComp3(M_guards_mono, M_guards_release, cntb_zero_M).
Open Scope N_scope.
Open Scope list_scope.

Inductive yact :=
| YMPoll (i : nat) | YMStep (i : nat) (clock : bool) | YMCancel (i : nat) | YMPend | YRelease
| YBPoll (i : nat) | YBStep (i : nat) | YBCancel (i : nat).

Record yst := mkY { yB : BarrierEvSched.gst; yM : MutexEvSched.gst; tB : list BarrierEvSched.act; tM : list MutexEvSched.act; y_owe : N; y_hold : N }.

Definition critpc (f : BarrierEvSched.fut) : bool := match BarrierEvSched.fpc f with BarrierEvSched.BArrive | BarrierEvSched.BReacq => true | _ => false end.
Definition crit (s : yst) (i : nat) : bool := match BarrierEvSched.getf (yB s) i with Some f => critpc f | None => false end.

Record ytr := mkT { aB : list BarrierEvSched.act; aM : list MutexEvSched.act; n_owe : N; n_hold : N }.
Definition m_own (s : yst) (a : MutexEvSched.act) : ytr :=
  mkT [] [a] (y_owe s) (y_hold s + (MutexEvSched.g_guards (MutexEvSched.step true (yM s) a) - MutexEvSched.g_guards (yM s))).
Definition tr (s : yst) (a : yact) : ytr :=
  match a with
  | YMPoll i => m_own s (MutexEvSched.APoll i)
  | YMStep i c => m_own s (MutexEvSched.AStep i c)
  | YMCancel i => m_own s (MutexEvSched.ACancel i)
  | YMPend => m_own s MutexEvSched.APend
  | YRelease => if 0 <? y_owe s then mkT [] [MutexEvSched.ARelease] (y_owe s - 1) (y_hold s) else mkT [] [] (y_owe s) (y_hold s)
  | YBPoll i => mkT [BarrierEvSched.APoll i] [] (y_owe s) (y_hold s)
  | YBStep i =>
      if crit s i then (if 0 <? y_hold s then mkT [BarrierEvSched.AStep i] [] (y_owe s + 1) (y_hold s - 1) else mkT [] [] (y_owe s) (y_hold s))
      else mkT [BarrierEvSched.AStep i] [] (y_owe s) (y_hold s)
  | YBCancel i => mkT [BarrierEvSched.ACancel i] [] (y_owe s) (y_hold s)
  end.
Definition ystep (s : yst) (a : yact) : yst :=
  let t := tr s a in
  mkY (fold_left (BarrierEvSched.step true) (aB t) (yB s)) (fold_left (MutexEvSched.step true) (aM t) (yM s)) (tB s ++ aB t) (tM s ++ aM t) (n_owe t) (n_hold t).
Definition y0 (p : N) (nb nm : nat) : yst := mkY (BarrierEvSched.g0 p nb) (MutexEvSched.g0 nm) [] [] 0 0.
Definition yrun (p : N) (nb nm : nat) (sched : list yact) : yst := fold_left ystep sched (y0 p nb nm).

Record Inv (p : N) (nb nm : nat) (k : nat) (s : yst) : Prop := mkInv {
  iv_B : yB s = BarrierEvSched.run true p nb (tB s);
  iv_M : yM s = MutexEvSched.run true nm (tM s);
  iv_len : (length (tB s) <= k)%nat;
  iv_guards : MutexEvSched.g_guards (yM s) = y_hold s + y_owe s }.

Lemma tr_lenB s a : (length (aB (tr s a)) <= 1)%nat.
Proof. destruct a; cbn [tr m_own aB length]; try lia; try (destruct (0 <? y_owe s); cbn; lia). destruct (crit s i); [destruct (0 <? y_hold s)|]; cbn; lia. Qed.

Lemma ystep_Inv p nb nm k s a : Inv p nb nm k s -> Inv p nb nm (S k) (ystep s a).
Proof.
  intros [HB HM HL HG]. constructor; unfold ystep; cbn [yB yM tB tM y_owe y_hold].
  - unfold BarrierEvSched.run in *. rewrite fold_left_app, <- HB. reflexivity.
  - unfold MutexEvSched.run in *. rewrite fold_left_app, <- HM. reflexivity.
  - rewrite app_length. pose proof (tr_lenB s a). lia.
  - destruct a; cbn [tr m_own aM aB n_owe n_hold fold_left].
    + pose proof (M_guards_mono (yM s) (MutexEvSched.APoll i) eq_refl). lia.
    + pose proof (M_guards_mono (yM s) (MutexEvSched.AStep i clock) eq_refl). lia.
    + pose proof (M_guards_mono (yM s) (MutexEvSched.ACancel i) eq_refl). lia.
    + pose proof (M_guards_mono (yM s) MutexEvSched.APend eq_refl). lia.
    + destruct (0 <? y_owe s) eqn:E; cbn [aM n_owe n_hold fold_left]; [|exact HG]. apply N.ltb_lt in E.
      rewrite M_guards_release. assert (Gp : 0 <? MutexEvSched.g_guards (yM s) = true) by (apply N.ltb_lt; lia). rewrite Gp. lia.
    + exact HG.
    + destruct (crit s i); [destruct (0 <? y_hold s) eqn:E|]; cbn [aM n_owe n_hold fold_left]; try exact HG. apply N.ltb_lt in E. lia.
    + exact HG.
Qed.

Theorem yrun_Inv p nb nm sched : Inv p nb nm (length sched) (yrun p nb nm sched).
Proof.
  unfold yrun. assert (H : Inv p nb nm 0 (y0 p nb nm)) by (constructor; cbn; try reflexivity; lia).
  assert (G : forall sc s k, Inv p nb nm k s -> Inv p nb nm (k + length sc) (fold_left ystep sc s)).
  { induction sc as [|a l IH]; intros s k Hs; cbn [fold_left length]; [rewrite Nat.add_0_r; exact Hs|].
    replace (k + S (length l))%nat with (S k + length l)%nat by lia. apply IH. apply ystep_Inv. exact Hs. }
  exact (G sched _ 0%nat H).
Qed.

(* a wait() future is at rest in the composed system: at rest in the barrier's machine, or waiting for the state mutex
   with a lock future parked on it (its poll returned Pending from lock().await) *)
Definition comp_at_rest (s : yst) (f : BarrierEvSched.fut) : Prop :=
  BarrierEvSched.at_rest f = true \/ (critpc f = true /\ existsb MutexEvSched.parked (MutexEvSched.g_futs (yM s)) = true).

Theorem barrier_comp_no_lost_wakeup p nb nm sched : let s := yrun p nb nm sched in
  N.of_nat (length sched) <= BarrierEvSched.NMAX ->
  y_hold s = 0 -> y_owe s = 0 -> MutexEvSched.quiescentb (yM s) = true ->
  (forall f, In f (BarrierEvSched.g_futs (yB s)) -> comp_at_rest s f) ->
  existsb MutexEvSched.parked (MutexEvSched.g_futs (yM s)) = false /\ BarrierEvSched.quiescentb (yB s) = true /\ existsb (BarrierEvSched.stale (yB s)) (BarrierEvSched.g_futs (yB s)) = false.
Proof.
  intros s LB Zh Zo QM AR. destruct (yrun_Inv p nb nm sched) as [HB HM HL HG]. fold s in HB, HM, HL, HG.
  assert (G0 : MutexEvSched.g_guards (yM s) = 0) by (rewrite HG, Zh, Zo; reflexivity).
  pose proof (MutexEvInv.run_inv (tM s) nm) as (_ & (Wi & _) & _). rewrite <- HM in Wi.
  assert (H0 : MutexEvInv.cntb MutexEvInv.holdpc (MutexEvSched.g_futs (yM s)) = 0).
  { apply cntb_zero_M. intros f Hf. pose proof QM as QM'. unfold MutexEvSched.quiescentb in QM'. apply Bool.andb_true_iff in QM'. destruct QM' as (QF & _).
    rewrite forallb_forall in QF. specialize (QF f Hf). unfold MutexEvSched.at_rest in QF. rewrite MutexEvInv.holdpc_eq. destruct (MutexEvSched.fpc f); try reflexivity; discriminate. }
  assert (Ev : MutexEvSched.g_w (yM s) mod 2 = 0) by (rewrite Wi, G0, H0; rewrite N.add_0_r, N.mul_comm; apply N.mod_mul; discriminate).
  assert (NP : existsb MutexEvSched.parked (MutexEvSched.g_futs (yM s)) = false).
  { pose proof (MutexEvInv.mutex_sched_no_lost_wakeup (tM s) nm) as LM. rewrite <- HM in LM. unfold MutexEvSched.lostb in LM. rewrite Ev, QM in LM. cbn in LM. exact LM. }
  assert (QB : BarrierEvSched.quiescentb (yB s) = true).
  { unfold BarrierEvSched.quiescentb. apply forallb_forall. intros f Hf. destruct (AR f Hf) as [R|(_ & P)]; [exact R | congruence]. }
  split; [exact NP|]. split; [exact QB|].
  assert (LBt : N.of_nat (length (tB s)) <= BarrierEvSched.NMAX) by lia.
  pose proof (BarrierEvInv.barrier_sched_no_lost_wakeup (tB s) p nb LBt) as L. rewrite <- HB in L. unfold BarrierEvSched.lostb in L. rewrite QB in L. cbn in L. exact L.
Qed.

(* non-vacuity: a Barrier of 2; the first party takes the state mutex (fast path) and runs its critical section; before it
   unlocks, the second party's lock future parks on the mutex: the second wait() needs the state mutex and is at rest only
   in the composed sense; then the unlock and its notify happen, the second party gets the mutex, arrives, leads, notifies;
   the first party is woken, re-polls, re-acquires the mutex, finds the generation over and completes *)
Definition bcomp_schedule : list yact :=
  [YBPoll 0; YMPoll 0; YMStep 0 false; YBStep 0;                                   (* party 0: mutex by the fast path, Initial section: listens *)
   YBPoll 1; YMPoll 1; YMStep 1 false; YMStep 1 false; YMStep 1 false; YMStep 1 false;  (* party 1: its lock future parks *)
   YBStep 0;                                                                       (* party 0 polls its listener: parked *)
   YRelease; YMPend;                                                               (* party 0's unlock + notify(1) *)
   YMPoll 1; YMStep 1 false; YMStep 1 false; YBStep 1; YRelease; YMPend;           (* party 1 gets the mutex, arrives: leader, notify(MAX) *)
   YBPoll 0; YBStep 0; YMPoll 2; YMStep 2 false; YBStep 0; YRelease; YMPend].      (* party 0: woken, Reacquiring section: done *)
Example bcomp_example :
  let mid := yrun 2 2 3 (firstn 11 bcomp_schedule) in
  let fin := yrun 2 2 3 bcomp_schedule in
  (map BarrierEvSched.fpc (BarrierEvSched.g_futs (yB mid)) = [BarrierEvSched.BParked; BarrierEvSched.BArrive] /\ map MutexEvSched.fpc (MutexEvSched.g_futs (yM mid)) = [MutexEvSched.PDone; MutexEvSched.PParked; MutexEvSched.PIdle] /\ y_owe mid = 1) /\
  (map BarrierEvSched.fpc (BarrierEvSched.g_futs (yB fin)) = [BarrierEvSched.BDone; BarrierEvSched.BDone] /\ map BarrierEvSched.flead (BarrierEvSched.g_futs (yB fin)) = [false; true] /\
   y_hold fin = 0 /\ y_owe fin = 0 /\ MutexEvSched.g_w (yM fin) = 0 /\ MutexEvSched.quiescentb (yM fin) = true /\ BarrierEvSched.quiescentb (yB fin) = true).
Proof. vm_compute. repeat split. Qed.
