(* BarrierEvOrd.v — the only fact about the source that the schedule-level theorem of the Barrier (C09) needs: the
   leader calls event.notify(usize::MAX). [gen_bar_ln] is read from Gen/Sites.v, i.e. from the source, on every run. *)
From AL.Sched Require Import BarrierEvSched.
Lemma bar_ln_premise : gen_bar_ln = true.
Proof. vm_compute. reflexivity. Qed.
