(* MutexSched.v — the Mutex at the granularity of single atomic operations on its state word,
   for ANY number of threads and EVERY schedule, with release/acquire views.

   Each step is one of the atomic sites of src/mutex.rs (the list of sites, their operands and
   their order are pinned by Tie_Mutex; their Orderings are read from Gen/Sites.v and are
   parameters of this machine). Control flow is over-approximated: a thread may attempt any
   acquiring site at any time it does not hold the lock; it may drop its starvation ticket at any
   time it has one; it unlocks only if it holds the lock (that is what owning a guard means).
   Over-approximating control flow is sound for the safety statements proved here.

   Views (the standard operational release/acquire semantics restricted to RMWs): every site on
   the word is a read-modify-write or a failed compare_exchange. An RMW reads the latest value in
   modification order; if its ordering includes Acquire the thread's view absorbs the word's message
   view V; if it includes Release, V absorbs the thread's view; a Relaxed RMW continues the release
   sequence (V is kept). A failed compare_exchange is a load: it may absorb V (harmless) and writes
   nothing. Dropping a guard issues a fresh ticket into the dropper's view before its release
   operation: the ticket stands for everything the thread did to the value under that guard.
   Event operations transfer no view. *)
From Coq Require Import List NArith Bool Arith Lia String.
From AL Require Import Base BaseFacts.
From AL.Gen Require Import Sites.
From AL.Tie Require Import TieLib.
Import ListNotations.
Open Scope N_scope.

Record mords := mkMords {
  o_try : ord;        (* success ordering of compare_exchange(0,1) in try_lock *)
  o_try_arc : ord;    (* ... try_lock_arc *)
  o_cas_a : ord;      (* AcquireSlow: compare_exchange(0,1) right after listen *)
  o_cas_b : ord;      (* AcquireSlow: compare_exchange(0,1) after a consumed notification *)
  o_cas23 : ord;      (* AcquireSlow: compare_exchange(2,3) *)
  o_or : ord;         (* AcquireSlow: fetch_or(1) *)
  o_add2 : ord;       (* AcquireSlow: fetch_add(2) *)
  o_sub2 : ord;       (* take_mutex: fetch_sub(2) *)
  o_unlock : ord      (* unlock_unchecked: fetch_sub(1) *)
}.

Inductive action :=
| ACas01 (site : nat)     (* one of the four compare_exchange(0,1) sites: 0 try_lock, 1 try_lock_arc, 2 cas_a, 3 cas_b *)
| ACas23
| AFetchOr
| AAdd2
| ASub2
| AUnlock.

Record tst := mkT { t_holds : bool; t_starved : bool; t_view : list nat }.
Definition t0 : tst := mkT false false [].

Record gst := mkG {
  g_w : N;                  (* the state word *)
  g_V : list nat;           (* message view of the word *)
  g_thr : list tst;         (* thread-local states, indexed by thread id *)
  g_issued : list nat;      (* tickets issued so far (one per guard drop) *)
  g_next : nat
}.
Definition g0 (nthreads : nat) : gst := mkG 0 [] (repeat t0 nthreads) [] 0.

Fixpoint upd_thr (i : nat) (t : tst) (l : list tst) : list tst :=
  match l, i with
  | [], _ => []
  | _ :: r, O => t :: r
  | x :: r, S i => x :: upd_thr i t r
  end.

Section Machine.
Variable O : mords.

Definition cas01_ord (site : nat) : ord :=
  match site with 0%nat => o_try O | 1%nat => o_try_arc O | 2%nat => o_cas_a O | _ => o_cas_b O end.

Definition acq (o : ord) (t : tst) (V : list nat) : tst :=
  if is_acquire o then mkT (t_holds t) (t_starved t) (t_view t ++ V) else t.
Definition rel (o : ord) (t : tst) (V : list nat) : list nat :=
  if is_release o then V ++ t_view t else V.

Definition step (g : gst) (i : nat) (a : action) : gst :=
  match nth_error (g_thr g) i with
  | None => g
  | Some t =>
    match a with
    | ACas01 site =>
        if t_holds t then g else
        let o := cas01_ord site in
        if g_w g =? 0 then
          let t' := acq o t (g_V g) in
          mkG 1 (rel o t (g_V g)) (upd_thr i (mkT true (t_starved t) (t_view t')) (g_thr g)) (g_issued g) (g_next g)
        else g                                  (* failed CAS: a load; nothing the proofs depend on *)
    | ACas23 =>
        if t_holds t || negb (t_starved t) then g else
        if g_w g =? 2 then
          let t' := acq (o_cas23 O) t (g_V g) in
          mkG 3 (rel (o_cas23 O) t (g_V g)) (upd_thr i (mkT true (t_starved t) (t_view t')) (g_thr g)) (g_issued g) (g_next g)
        else g
    | AFetchOr =>
        if t_holds t || negb (t_starved t) then g else
        let t' := acq (o_or O) t (g_V g) in
        let won := g_w g mod 2 =? 0 in
        mkG (N.lor (g_w g) 1) (rel (o_or O) t (g_V g))
            (upd_thr i (mkT (if won then true else t_holds t) (t_starved t) (t_view t')) (g_thr g)) (g_issued g) (g_next g)
    | AAdd2 =>
        if t_holds t || t_starved t then g else
        let t' := acq (o_add2 O) t (g_V g) in
        mkG (g_w g + 2) (rel (o_add2 O) t (g_V g)) (upd_thr i (mkT (t_holds t) true (t_view t')) (g_thr g)) (g_issued g) (g_next g)
    | ASub2 =>
        if negb (t_starved t) then g else
        let t' := acq (o_sub2 O) t (g_V g) in
        mkG (g_w g - 2) (rel (o_sub2 O) t (g_V g)) (upd_thr i (mkT (t_holds t) false (t_view t')) (g_thr g)) (g_issued g) (g_next g)
    | AUnlock =>
        if negb (t_holds t) then g else
        let tk := g_next g in
        let t1 := mkT true (t_starved t) (tk :: t_view t) in      (* the work done under the guard *)
        let t' := acq (o_unlock O) t1 (g_V g) in
        mkG (g_w g - 1) (rel (o_unlock O) t1 (g_V g)) (upd_thr i (mkT false (t_starved t) (t_view t')) (g_thr g))
            (tk :: g_issued g) (S tk)
    end
  end.

Definition run (n : nat) (sched : list (nat * action)) : gst :=
  fold_left (fun g p => step g (fst p) (snd p)) sched (g0 n).

(* ---------- invariants ---------- *)
Definition b2N (b : bool) : N := if b then 1 else 0.
Fixpoint holders (l : list tst) : N := match l with [] => 0 | t :: r => b2N (t_holds t) + holders r end.
Fixpoint starvers (l : list tst) : N := match l with [] => 0 | t :: r => b2N (t_starved t) + starvers r end.

Definition Excl (g : gst) : Prop :=
  g_w g = 2 * starvers (g_thr g) + holders (g_thr g) /\ holders (g_thr g) <= 1.

(* happens-before: whoever holds the lock has seen every ticket; if nobody does, the word carries them *)
Definition Hb (g : gst) : Prop :=
  (holders (g_thr g) = 0 -> incl (g_issued g) (g_V g)) /\
  (forall i t, nth_error (g_thr g) i = Some t -> t_holds t = true -> incl (g_issued g) (t_view t)).

Lemma holders_upd i t t' l : nth_error l i = Some t ->
  holders (upd_thr i t' l) + b2N (t_holds t) = holders l + b2N (t_holds t').
Proof.
  revert i. induction l as [|x r IH]; intros [|i] H; cbn in H; try discriminate.
  - inversion H; subst. cbn. lia.
  - specialize (IH i H). cbn [upd_thr holders]. lia.
Qed.
Lemma starvers_upd i t t' l : nth_error l i = Some t ->
  starvers (upd_thr i t' l) + b2N (t_starved t) = starvers l + b2N (t_starved t').
Proof.
  revert i. induction l as [|x r IH]; intros [|i] H; cbn in H; try discriminate.
  - inversion H; subst. cbn. lia.
  - specialize (IH i H). cbn [upd_thr starvers]. lia.
Qed.
Lemma holders_In i t l : nth_error l i = Some t -> b2N (t_holds t) <= holders l.
Proof. revert i. induction l as [|x r IH]; intros [|i] H; cbn in H; try discriminate; cbn.
  - inversion H; subst. lia. - specialize (IH i H). lia. Qed.
Lemma starvers_In i t l : nth_error l i = Some t -> b2N (t_starved t) <= starvers l.
Proof. revert i. induction l as [|x r IH]; intros [|i] H; cbn in H; try discriminate; cbn.
  - inversion H; subst. lia. - specialize (IH i H). lia. Qed.
Lemma nth_upd_same i t t' l : nth_error l i = Some t -> nth_error (upd_thr i t' l) i = Some t'.
Proof. revert i. induction l as [|x r IH]; intros [|i] H; cbn in H; try discriminate; cbn; auto. Qed.
Lemma nth_upd_other i j t' l : i <> j -> nth_error (upd_thr i t' l) j = nth_error l j.
Proof.
  revert i j. induction l as [|x r IH]; intros [|i] [|j] N; cbn; try reflexivity; try congruence.
  apply IH. congruence.
Qed.

Lemma holders_zero l : holders l = 0 -> forall i t, nth_error l i = Some t -> t_holds t = false.
Proof.
  intros H i t N. pose proof (holders_In i t l N) as L. destruct (t_holds t); [cbn in L; lia | reflexivity].
Qed.
Lemma incl_app_r {A} (a b c : list A) : incl a c -> incl a (b ++ c).
Proof. intros H x Hx. apply in_or_app. right. auto. Qed.
Lemma incl_app_l {A} (a b c : list A) : incl a b -> incl a (b ++ c).
Proof. intros H x Hx. apply in_or_app. left. auto. Qed.

Lemma acq_holds o t V : t_holds (acq o t V) = t_holds t.
Proof. unfold acq. destruct (is_acquire o); reflexivity. Qed.
Lemma acq_starved o t V : t_starved (acq o t V) = t_starved t.
Proof. unfold acq. destruct (is_acquire o); reflexivity. Qed.
Lemma acq_view_mono o t V : incl (t_view t) (t_view (acq o t V)).
Proof. unfold acq. destruct (is_acquire o); cbn; [apply incl_appl | ]; apply incl_refl. Qed.
Lemma acq_view_gets o t V : is_acquire o = true -> incl V (t_view (acq o t V)).
Proof. intro H. unfold acq. rewrite H. cbn. apply incl_appr, incl_refl. Qed.
Lemma rel_mono o t V : incl V (rel o t V).
Proof. unfold rel. destruct (is_release o); [apply incl_appl|]; apply incl_refl. Qed.
Lemma rel_gets o t V : is_release o = true -> incl (t_view t) (rel o t V).
Proof. intro H. unfold rel. rewrite H. apply incl_appr, incl_refl. Qed.

(* ---------- mutual exclusion for every schedule ---------- *)
Lemma step_Excl g i a : Excl g -> Excl (step g i a).
Proof.
  intros (E & L). unfold step. destruct (nth_error (g_thr g) i) as [t|] eqn:N; [|split; auto].
  pose proof (holders_In _ _ _ N) as HI. pose proof (starvers_In _ _ _ N) as SI.
  destruct a.
  - destruct (t_holds t) eqn:Hh; [split; auto|].
    destruct (g_w g =? 0) eqn:Z; [|split; auto].
    assert (Z' : g_w g = 0) by lia.
    pose proof (holders_upd i t (mkT true (t_starved t) (t_view (acq (cas01_ord site) t (g_V g)))) _ N) as HU.
    pose proof (starvers_upd i t (mkT true (t_starved t) (t_view (acq (cas01_ord site) t (g_V g)))) _ N) as SU.
    cbn [t_holds t_starved] in HU, SU. rewrite Hh in HU. cbn [b2N] in *.
    unfold Excl. cbn [g_w g_thr]. split; lia.
  - destruct (t_holds t || negb (t_starved t)) eqn:C; [split; auto|].
    apply Bool.orb_false_iff in C. destruct C as (Hh & Hs). apply Bool.negb_false_iff in Hs.
    destruct (g_w g =? 2) eqn:Z; [|split; auto].
    assert (Z' : g_w g = 2) by lia.
    pose proof (holders_upd i t (mkT true (t_starved t) (t_view (acq (o_cas23 O) t (g_V g)))) _ N) as HU.
    pose proof (starvers_upd i t (mkT true (t_starved t) (t_view (acq (o_cas23 O) t (g_V g)))) _ N) as SU.
    cbn [t_holds t_starved] in HU, SU. rewrite Hh in HU. rewrite Hs in SI. cbn [b2N] in *.
    unfold Excl. cbn [g_w g_thr]. split; lia.
  - destruct (t_holds t || negb (t_starved t)) eqn:C; [split; auto|].
    apply Bool.orb_false_iff in C. destruct C as (Hh & Hs). apply Bool.negb_false_iff in Hs.
    set (t' := acq (o_or O) t (g_V g)).
    destruct (mod2_cases (g_w g)) as [Ev|Od]; rewrite ?Ev, ?Od.
    + replace (0 =? 0) with true by reflexivity. rewrite lor_1_even by exact Ev.
      pose proof (holders_upd i t (mkT true (t_starved t) (t_view t')) _ N) as HU.
      pose proof (starvers_upd i t (mkT true (t_starved t) (t_view t')) _ N) as SU.
      cbn [t_holds t_starved] in HU, SU. rewrite Hh in HU. cbn [b2N] in *.
      assert (H0 : holders (g_thr g) = 0).
      { rewrite E in Ev. rewrite N.add_comm, N.mul_comm, N.mod_add in Ev by lia.
        destruct (N.eq_dec (holders (g_thr g)) 0); [assumption|]. replace (holders (g_thr g)) with 1 in Ev by lia. discriminate. }
      unfold Excl. cbn [g_w g_thr]. split; lia.
    + replace (1 =? 0) with false by reflexivity. rewrite lor_1_odd by exact Od.
      pose proof (holders_upd i t (mkT (t_holds t) (t_starved t) (t_view t')) _ N) as HU.
      pose proof (starvers_upd i t (mkT (t_holds t) (t_starved t) (t_view t')) _ N) as SU.
      cbn [t_holds t_starved] in HU, SU.
      unfold Excl. cbn [g_w g_thr]. split; lia.
  - destruct (t_holds t || t_starved t) eqn:C; [split; auto|].
    apply Bool.orb_false_iff in C. destruct C as (Hh & Hs).
    set (t' := acq (o_add2 O) t (g_V g)).
    pose proof (holders_upd i t (mkT (t_holds t) true (t_view t')) _ N) as HU.
    pose proof (starvers_upd i t (mkT (t_holds t) true (t_view t')) _ N) as SU.
    cbn [t_holds t_starved] in HU, SU. rewrite Hs in SU. cbn [b2N] in *.
    unfold Excl. cbn [g_w g_thr]. split; lia.
  - destruct (t_starved t) eqn:Hs; cbn [negb]; [|split; auto].
    set (t' := acq (o_sub2 O) t (g_V g)).
    pose proof (holders_upd i t (mkT (t_holds t) false (t_view t')) _ N) as HU.
    pose proof (starvers_upd i t (mkT (t_holds t) false (t_view t')) _ N) as SU.
    cbn [t_holds t_starved] in HU, SU. rewrite Hs in SU. cbn [b2N] in *.
    unfold Excl. cbn [g_w g_thr]. split; lia.
  - destruct (t_holds t) eqn:Hh; cbn [negb]; [|split; auto].
    set (t1 := mkT true (t_starved t) (g_next g :: t_view t)).
    set (t' := acq (o_unlock O) t1 (g_V g)).
    pose proof (holders_upd i t (mkT false (t_starved t) (t_view t')) _ N) as HU.
    pose proof (starvers_upd i t (mkT false (t_starved t) (t_view t')) _ N) as SU.
    cbn [t_holds t_starved] in HU, SU. rewrite Hh in HU. cbn [b2N] in *.
    unfold Excl. cbn [g_w g_thr]. split; lia.
Qed.

Lemma Excl_init n : Excl (g0 n).
Proof. unfold Excl, g0. cbn. induction n; cbn; [split; lia|]. destruct IHn. split; lia. Qed.

Theorem run_Excl n sched : Excl (run n sched).
Proof.
  unfold run. generalize (Excl_init n). generalize (g0 n).
  induction sched as [|[i a] r IH]; intros g I; cbn [fold_left]; [exact I|]. apply IH. apply step_Excl. exact I.
Qed.

(* ---------- happens-before, under the ordering premises ---------- *)
Definition ord_premises : bool :=
  is_acquire (o_try O) && is_acquire (o_try_arc O) && is_acquire (o_cas_a O) && is_acquire (o_cas_b O) &&
  is_acquire (o_cas23 O) && is_acquire (o_or O) && is_release (o_unlock O).

Lemma step_Hb g i a : ord_premises = true -> Excl g -> Hb g -> Hb (step g i a).
Proof.
  intros P (E & L) (H1 & H2).
  unfold ord_premises in P. repeat (apply andb_prop in P; destruct P as (P & ?)).
  unfold step. destruct (nth_error (g_thr g) i) as [t|] eqn:N; [|split; auto].
  pose proof (holders_In _ _ _ N) as HI. pose proof (starvers_In _ _ _ N) as SI.
  (* generic facts about a step that makes thread i the holder from a state without holder *)
  assert (ACQ : forall o w V', is_acquire o = true -> holders (g_thr g) = 0 ->
             Hb (mkG w V' (upd_thr i (mkT true (t_starved t) (t_view (acq o t (g_V g)))) (g_thr g)) (g_issued g) (g_next g))).
  { intros o w V' Ao Hz. split; cbn [g_thr g_issued g_V].
    - intro Z. pose proof (holders_upd i t (mkT true (t_starved t) (t_view (acq o t (g_V g)))) _ N) as HU. cbn [t_holds b2N] in HU. lia.
    - intros j tj Nj Hj. destruct (Nat.eq_dec i j) as [->|D].
      + rewrite (nth_upd_same _ _ _ _ N) in Nj. inversion Nj; subst. cbn [t_view].
        eapply incl_tran; [apply (H1 Hz) | apply acq_view_gets; exact Ao].
      + rewrite nth_upd_other in Nj by exact D. rewrite (holders_zero _ Hz _ _ Nj) in Hj. discriminate. }
  (* generic facts about a step of thread i that changes no holder and issues no ticket *)
  assert (KEEP : forall w V' t', incl (g_V g) V' -> t_holds t' = t_holds t -> incl (t_view t) (t_view t') ->
             Hb (mkG w V' (upd_thr i t' (g_thr g)) (g_issued g) (g_next g))).
  { intros w V' t' IV Hh Iv. split; cbn [g_thr g_issued g_V].
    - intro Z. pose proof (holders_upd i t t' _ N) as HU. rewrite Hh in HU.
      eapply incl_tran; [apply H1; lia | exact IV].
    - intros j tj Nj Hj. destruct (Nat.eq_dec i j) as [->|D].
      + rewrite (nth_upd_same _ _ _ _ N) in Nj. inversion Nj; subst.
        eapply incl_tran; [apply (H2 _ _ N); congruence | exact Iv].
      + rewrite nth_upd_other in Nj by exact D. apply (H2 _ _ Nj Hj). }
  destruct a.
  - destruct (t_holds t) eqn:Hh; [split; auto|].
    destruct (g_w g =? 0) eqn:Z; [|split; auto].
    apply ACQ; [destruct site as [|[|[|k]]]; cbn; assumption | lia].
  - destruct (t_holds t || negb (t_starved t)) eqn:C; [split; auto|].
    apply Bool.orb_false_iff in C. destruct C as (Hh & Hs). apply Bool.negb_false_iff in Hs. rewrite Hs in SI. cbn in SI.
    destruct (g_w g =? 2) eqn:Z; [|split; auto]. apply ACQ; [assumption | lia].
  - destruct (t_holds t || negb (t_starved t)) eqn:C; [split; auto|].
    apply Bool.orb_false_iff in C. destruct C as (Hh & Hs).
    destruct (mod2_cases (g_w g)) as [Ev|Od]; rewrite ?Ev, ?Od.
    + replace (0 =? 0) with true by reflexivity. apply ACQ; [assumption|].
      rewrite E in Ev. rewrite N.add_comm, N.mul_comm, N.mod_add in Ev by lia.
      destruct (N.eq_dec (holders (g_thr g)) 0); [assumption|]. replace (holders (g_thr g)) with 1 in Ev by lia. discriminate.
    + replace (1 =? 0) with false by reflexivity.
      apply KEEP; [apply rel_mono | reflexivity | cbn; apply acq_view_mono].
  - destruct (t_holds t || t_starved t) eqn:C; [split; auto|].
    apply KEEP; [apply rel_mono | reflexivity | cbn; apply acq_view_mono].
  - destruct (t_starved t) eqn:Hs; cbn [negb]; [|split; auto].
    apply KEEP; [apply rel_mono | reflexivity | cbn; apply acq_view_mono].
  - destruct (t_holds t) eqn:Hh; cbn [negb]; [|split; auto].
    set (t1 := mkT true (t_starved t) (g_next g :: t_view t)).
    assert (I1 : incl (g_next g :: g_issued g) (t_view t1)).
    { cbn [t1 t_view]. intros x [->|Hx]; [left; reflexivity | right; apply (H2 _ _ N Hh); exact Hx]. }
    assert (H0' : holders (upd_thr i (mkT false (t_starved t) (t_view (acq (o_unlock O) t1 (g_V g)))) (g_thr g)) = 0).
    { pose proof (holders_upd i t (mkT false (t_starved t) (t_view (acq (o_unlock O) t1 (g_V g)))) _ N) as HU.
      cbn [t_holds] in HU. rewrite Hh in HU. cbn [b2N] in HU. try rewrite Hh in HI. cbn in HI. lia. }
    split; cbn [g_thr g_issued g_V].
    + intros _. eapply incl_tran; [exact I1 | apply rel_gets; assumption].
    + intros j tj Nj Hj. rewrite (holders_zero _ H0' _ _ Nj) in Hj. discriminate.
Qed.

Lemma Hb_init n : Hb (g0 n).
Proof. split; cbn; [intros _ x []|]. intros i t N H. apply nth_error_In in N. apply repeat_spec in N. subst. discriminate. Qed.

Theorem run_Hb n sched : ord_premises = true -> Hb (run n sched).
Proof.
  intro P. unfold run.
  assert (G : forall g, Excl g -> Hb g -> Hb (fold_left (fun g p => step g (fst p) (snd p)) sched g) /\
                                      Excl (fold_left (fun g p => step g (fst p) (snd p)) sched g)).
  { induction sched as [|[i a] r IH]; intros g Ex Hg; cbn [fold_left]; [split; assumption|].
    apply IH; [apply step_Excl; exact Ex | apply step_Hb; assumption]. }
  apply G; [apply Excl_init | apply Hb_init].
Qed.
End Machine.

(* ---------- instantiation with the orderings read from the source ---------- *)
Definition ord_at (fn : string) (site arg : nat) : ord :=
  nth arg (nth site (fn_ords fn) []) Relaxed.
(* the k-th site of [fn] with this kind and these operands (robust against sites of other kinds being added) *)
Definition sites_of (fn : string) : list site :=
  match find_fn fn fns with Some f => f_sites f | None => [] end.
Definition list_string_eqb (a b : list string) : bool :=
  Nat.eqb (length a) (length b) && forallb (fun p => String.eqb (fst p) (snd p)) (combine a b).
Definition ord_of (fn kind : string) (args : list string) (k arg : nat) : ord :=
  match nth_error (filter (fun s => String.eqb (s_kind s) kind && list_string_eqb (s_args s) args) (sites_of fn)) k with
  | Some s => nth arg (s_ords s) Relaxed
  | None => Relaxed
  end.
Definition gen_mords : mords := mkMords
  (ord_at "mutex::Mutex::try_lock" 0 0)
  (ord_at "mutex::Mutex::try_lock_arc" 0 0)
  (ord_of "mutex::AcquireSlow::poll_with_strategy" "compare_exchange" ["0"; "1"] 0 0)
  (ord_of "mutex::AcquireSlow::poll_with_strategy" "compare_exchange" ["0"; "1"] 1 0)
  (ord_of "mutex::AcquireSlow::poll_with_strategy" "compare_exchange" ["2"; "3"] 0 0)
  (ord_of "mutex::AcquireSlow::poll_with_strategy" "fetch_or" ["1"] 0 0)
  (ord_of "mutex::AcquireSlow::poll_with_strategy" "fetch_add" ["2"] 0 0)
  (ord_at "mutex::AcquireSlow::take_mutex" 0 0)
  (ord_at "mutex::Mutex::unlock_unchecked" 0 0).


(* ---------- search support: an executable form of Hb and a bounded schedule search ----------
   (used only when [mutex_ord_premises] no longer checks, to exhibit a schedule of the model on which
   the happens-before statement fails; it is not part of any proof) *)
Definition inclb (a b : list nat) : bool := forallb (fun x => existsb (Nat.eqb x) b) a.
Definition hb_okb (g : gst) : bool :=
  (if holders (g_thr g) =? 0 then inclb (g_issued g) (g_V g) else true) &&
  forallb (fun t => if t_holds t then inclb (g_issued g) (t_view t) else true) (g_thr g).
Definition all_actions : list action := [ACas01 0; ACas01 1; ACas01 2; ACas01 3; ACas23; AFetchOr; AAdd2; ASub2; AUnlock].
Definition moves (n : nat) : list (nat * action) := list_prod (seq 0 n) all_actions.
Fixpoint search (O : mords) (n depth : nat) (g : gst) (pre : list (nat * action)) : option (list (nat * action)) :=
  if negb (hb_okb g) then Some (rev pre) else
  match depth with
  | O => None
  | S d => fold_left (fun acc m => match acc with Some _ => acc | None => search O n d (step O g (fst m) (snd m)) (m :: pre) end) (moves n) None
  end.
Definition bad_schedule : option (list (nat * action)) := search gen_mords 2 4 (g0 2) [].
Definition ord_report : list (string * ord * bool) :=
  [("mutex::Mutex::try_lock compare_exchange(0,1) success", o_try gen_mords, is_acquire (o_try gen_mords));
   ("mutex::Mutex::try_lock_arc compare_exchange(0,1) success", o_try_arc gen_mords, is_acquire (o_try_arc gen_mords));
   ("mutex::AcquireSlow::poll_with_strategy compare_exchange(0,1) after listen, success", o_cas_a gen_mords, is_acquire (o_cas_a gen_mords));
   ("mutex::AcquireSlow::poll_with_strategy compare_exchange(0,1) after notification, success", o_cas_b gen_mords, is_acquire (o_cas_b gen_mords));
   ("mutex::AcquireSlow::poll_with_strategy compare_exchange(2,3) success", o_cas23 gen_mords, is_acquire (o_cas23 gen_mords));
   ("mutex::AcquireSlow::poll_with_strategy fetch_or(1)", o_or gen_mords, is_acquire (o_or gen_mords));
   ("mutex::Mutex::unlock_unchecked fetch_sub(1)", o_unlock gen_mords, is_release (o_unlock gen_mords))].
