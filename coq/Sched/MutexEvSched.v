(* MutexEvSched.v — the Mutex TOGETHER WITH its event lock_ops at the granularity of single atomic actions, for
   any number of lock futures, unlocking and barging threads and EVERY schedule (C05, schedule half).

   Sites (src/mutex.rs, pinned by Tie_Mutex). A poll of a lock()/lock_arc() future is cut at every atomic action:
     first poll:            try_lock = compare_exchange(0,1)                                          [PFast]
     AcquireSlow, hot loop: listen() | poll of the listener (one critical section of the list each)   [PU0]
                            compare_exchange(0,1) right after listen()                                [PUCas1]
                              (success: *this.listener = None — the repair of finding F6 —           [PUDrop]
                               1: loop; otherwise: break)
                            compare_exchange(0,1) after a consumed notification                       [PUCas2]
                              (1: the clock decides — oracle — between loop and break;
                               >= 2: lock_ops.notify(1), then break)                                  [PUNotify]
                            break: state.fetch_add(2), starved = true                                 [PAdd2]
     fair loop:             listen() | poll of the listener                                           [PS0]
                            compare_exchange(2,3) right after listen()                                [PSCas]
                              (success: *this.listener = None [PSDrop], take_mutex; odd: loop;
                               even: lock_ops.notify(1) [PSNotify], loop)
                            fetch_or(1) after a consumed notification (even: take_mutex; odd: loop)   [PSOr]
                            take_mutex of a starved operation: state.fetch_sub(2)                     [PSTake]
   Guard drop = state.fetch_sub(1) ; lock_ops.notify(1), cut between the two. Dropping a pending starved future =
   PinnedDrop (take_mutex: fetch_sub(2)) [PCTake], then its listener [PCDrop]. Any other thread may act between
   two actions. [bt = false] is the code before fix a3c1bed (no PUDrop / PSDrop: the listener stays registered).

   The event is the model of event-listener in Base.v, the one validated against the real crate by the
   correspondence check. The word is an unbounded N here (the 2^64 wrap is in the history machine). The waker
   of future i is i; polls may start at any time; futures are dropped only between polls. *)
From Coq Require Import String.
From AL Require Import Base BaseFacts EventFacts.
From AL.Gen Require Import Sites.
From AL.Tie Require Import TieLib.
From Coq Require Import Lia.
Open Scope N_scope.
Open Scope list_scope.

Inductive pcs :=
| PIdle | PFast
| PU0 | PUCas1 | PUDrop | PUCas2 | PUNotify | PAdd2
| PS0 | PSCas | PSDrop | PSNotify | PSOr | PSTake
| PParked | PDone | PCTake | PCDrop | PGone.

Record fut := mkF { fpc : pcs; flis : option nat; fwok : bool; fstv : bool }.

Record gst := mkG {
  g_w : N;                  (* the state word: bit 0 locked, the rest twice the number of starved operations *)
  g_ev : event;             (* lock_ops *)
  g_nid : nat;
  g_futs : list fut;
  g_pend : N;               (* threads between fetch_sub(1) and notify(1) *)
  g_guards : N              (* guards alive *)
}.

Inductive act :=
| APoll (i : nat)               (* a poll of future i starts *)
| AStep (i : nat) (clock : bool) (* the next atomic action of the poll (or drop) of future i in progress; [clock]: the answer of
                                   the starvation clock, used at PUCas2 only *)
| ACancel (i : nat)             (* future i is dropped (between polls) *)
| ARelease                      (* guard drop, first half: fetch_sub(1) *)
| APend                         (* a thread between fetch_sub(1) and notify(1) calls notify(1) *)
| ATry.                         (* a successful try_lock of some thread (barging) *)

Fixpoint set_nth {A} (i : nat) (x : A) (l : list A) : list A :=
  match l, i with
  | [], _ => []
  | _ :: r, O => x :: r
  | y :: r, S i => y :: set_nth i x r
  end.
Definition memb (x : nat) (l : list nat) : bool := existsb (Nat.eqb x) l.
Definition fwake (f : fut) : fut := mkF (fpc f) (flis f) true (fstv f).
Fixpoint wake_from (k : nat) (ws : list waker) (l : list fut) : list fut :=
  match l with
  | [] => []
  | f :: r => (if memb k ws then fwake f else f) :: wake_from (S k) ws r
  end.

Definition getf (s : gst) (i : nat) : option fut := nth_error (g_futs s) i.
(* future i becomes f, the word w, guards g *)
Definition updw (s : gst) (i : nat) (f : fut) (w : N) (g : N) : gst :=
  mkG w (g_ev s) (g_nid s) (set_nth i f (g_futs s)) (g_pend s) g.
Definition with_fut (s : gst) (i : nat) (f : fut) : gst := updw s i f (g_w s) (g_guards s).
Definition with_ev (s : gst) (l : event) (ws : list waker) : gst :=
  mkG (g_w s) l (g_nid s) (wake_from 0 ws (g_futs s)) (g_pend s) (g_guards s).
Definition do_notify (n : N) (s : gst) : gst :=
  let '(l, ws) := ev_notify n false (g_ev s) in with_ev s l ws.
Definition do_drop (o : option nat) (s : gst) : gst :=
  let '(l, ws) := ev_drop_opt o (g_ev s) in with_ev s l ws.
Definition setpc (p : pcs) (f : fut) : fut := mkF p (flis f) (fwok f) (fstv f).

(* listen() or the poll of the listener, at a loop head; [pl]: pc after listen, [pr]: pc after a consumed notification *)
Definition wait_step (s : gst) (i : nat) (f : fut) (pl pr : pcs) : gst :=
  match flis f with
  | None => mkG (g_w s) (ev_listen (g_nid s) (g_ev s)) (S (g_nid s))
                (set_nth i (mkF pl (Some (g_nid s)) (fwok f) (fstv f)) (g_futs s)) (g_pend s) (g_guards s)
  | Some id =>
      match ev_poll id i (g_ev s) with
      | Some (l, true) => mkG (g_w s) l (g_nid s) (set_nth i (mkF pr None (fwok f) (fstv f)) (g_futs s)) (g_pend s) (g_guards s)
      | Some (l, false) => mkG (g_w s) l (g_nid s) (set_nth i (mkF PParked (Some id) (fwok f) (fstv f)) (g_futs s)) (g_pend s) (g_guards s)
      | None => s
      end
  end.

Definition step (bt : bool) (s : gst) (a : act) : gst :=
  match a with
  | APoll i =>
      match getf s i with
      | Some f => match fpc f with
                  | PIdle => with_fut s i (mkF PFast (flis f) false (fstv f))
                  | PParked => with_fut s i (mkF (if fstv f then PS0 else PU0) (flis f) false (fstv f))
                  | _ => s
                  end
      | None => s
      end
  | AStep i clock =>
      match getf s i with
      | Some f =>
          match fpc f with
          | PFast => if g_w s =? 0 then updw s i (setpc PDone f) 1 (g_guards s + 1) else with_fut s i (setpc PU0 f)
          | PU0 => wait_step s i f PUCas1 PUCas2
          | PUCas1 =>
              if g_w s =? 0 then
                (if bt then updw s i (setpc PUDrop f) 1 (g_guards s) else updw s i (setpc PDone f) 1 (g_guards s + 1))
              else if g_w s =? 1 then with_fut s i (setpc PU0 f)
              else with_fut s i (setpc PAdd2 f)
          | PUDrop => do_drop (flis f) (updw s i (mkF PDone None (fwok f) (fstv f)) (g_w s) (g_guards s + 1))
          | PUCas2 =>
              if g_w s =? 0 then updw s i (setpc PDone f) 1 (g_guards s + 1)
              else if g_w s =? 1 then with_fut s i (setpc (if clock then PAdd2 else PU0) f)
              else with_fut s i (setpc PUNotify f)
          | PUNotify => do_notify 1 (with_fut s i (setpc PAdd2 f))
          | PAdd2 => updw s i (mkF PS0 (flis f) (fwok f) true) (g_w s + 2) (g_guards s)
          | PS0 => wait_step s i f PSCas PSOr
          | PSCas =>
              if g_w s =? 2 then updw s i (setpc (if bt then PSDrop else PSTake) f) 3 (g_guards s)
              else if g_w s mod 2 =? 1 then with_fut s i (setpc PS0 f)
              else with_fut s i (setpc PSNotify f)
          | PSDrop => do_drop (flis f) (with_fut s i (mkF PSTake None (fwok f) (fstv f)))
          | PSNotify => do_notify 1 (with_fut s i (setpc PS0 f))
          | PSOr => if g_w s mod 2 =? 0 then updw s i (setpc PSTake f) (g_w s + 1) (g_guards s) else with_fut s i (setpc PS0 f)
          | PSTake => updw s i (mkF PDone (flis f) (fwok f) false) (g_w s - 2) (g_guards s + 1)
          | PCTake => updw s i (mkF PCDrop (flis f) (fwok f) false) (g_w s - 2) (g_guards s)
          | PCDrop => do_drop (flis f) (with_fut s i (mkF PGone None false false))
          | _ => s
          end
      | None => s
      end
  | ACancel i =>
      match getf s i with
      | Some f => match fpc f with
                  | PIdle => with_fut s i (setpc PGone f)
                  | PParked => with_fut s i (setpc (if fstv f then PCTake else PCDrop) f)
                  | PDone => with_fut s i (setpc PCDrop f)
                  | _ => s
                  end
      | None => s
      end
  | ARelease =>
      if 0 <? g_guards s then mkG (g_w s - 1) (g_ev s) (g_nid s) (g_futs s) (g_pend s + 1) (g_guards s - 1) else s
  | APend =>
      if 0 <? g_pend s then do_notify 1 (mkG (g_w s) (g_ev s) (g_nid s) (g_futs s) (g_pend s - 1) (g_guards s)) else s
  | ATry => if g_w s =? 0 then mkG 1 (g_ev s) (g_nid s) (g_futs s) (g_pend s) (g_guards s + 1) else s
  end.

Definition g0 (nfuts : nat) : gst := mkG 0 [] 0 (repeat (mkF PIdle None false false) nfuts) 0 0.
Definition run (bt : bool) (nfuts : nat) (sched : list act) : gst := fold_left (step bt) sched (g0 nfuts).

(* ---------- the property, as a statement about states ---------- *)
Definition at_rest (f : fut) : bool :=
  match fpc f with
  | PIdle | PDone | PGone => true
  | PParked => negb (fwok f)
  | _ => false
  end.
Definition quiescentb (s : gst) : bool := forallb at_rest (g_futs s) && (g_pend s =? 0).
Definition parked (f : fut) : bool := match fpc f with PParked => true | _ => false end.
(* a lost wake-up: the mutex is unlocked, nothing is in flight (no thread inside a poll, a drop or between fetch_sub
   and notify; every future whose waker was called has been polled again), and a polled lock future waits *)
Definition lostb (s : gst) : bool := (g_w s mod 2 =? 0) && quiescentb s && existsb parked (g_futs s).

(* the schedule of finding F6: a barger holds the lock; A's first poll fails its try_lock; the holder unlocks;
   A listens and its compare_exchange succeeds — A is Ready and kept alive; B polls and parks behind A's entry;
   A's guard is dropped: notify(1) marks A's dead entry *)
Definition f6_schedule (bt : bool) : list act :=
  [ATry; APoll 0; AStep 0 false; ARelease; APend; AStep 0 false; AStep 0 false] ++ (if bt then [AStep 0 false] else []) ++
  [APoll 1; AStep 1 false; AStep 1 false; AStep 1 false; AStep 1 false; ARelease; APend].

(* ---------- which machine the source is: read from Gen/Sites.v on every run ---------- *)
(* in AcquireSlow::poll_with_strategy every listen() site is followed by its compare_exchange and then by
   `*this.listener = None` (site kind set_none), and there are two of them (hot loop, fair loop) *)
Fixpoint drops_after_listen (l : list (string * string * list string)) : bool :=
  match l with
  | [] => true
  | (k, _, _) :: r =>
      if String.eqb k "listen" then
        match r with
        | (k1, _, _) :: (k2, r2, _) :: _ =>
            String.eqb k1 "compare_exchange" && String.eqb k2 "set_none" && String.eqb r2 "*this.listener" && drops_after_listen r
        | _ => false
        end
      else drops_after_listen r
  end.
Definition gen_mutex_bt : bool :=
  match fn_shape "mutex::AcquireSlow::poll_with_strategy" with
  | Some (sites, _) => drops_after_listen sites && Nat.eqb (length (filter (fun x => String.eqb (fst (fst x)) "listen") sites)) 2
  | None => false
  end.
(* is there no `*this.listener = None` at all in the function (then the machine [bt = false] is the source)? *)
Definition no_listener_drop (fname : string) : bool :=
  match fn_shape fname with
  | Some (sites, _) => negb (existsb (fun x => String.eqb (fst (fst x)) "set_none" && String.eqb (snd (fst x)) "*this.listener") sites)
  | None => false
  end.
(* what the check prints when the premise (MutexEvOrd.v) or a tie lemma of the Mutex fails: if the source is the machine
   without the listener drops, the schedule of finding F6 evaluated on that machine *)
Definition f6_report : bool * list act := (lostb (run false 2 (f6_schedule false)), f6_schedule false).
Definition ord_report : list (string * bool) :=
  [("mutex::AcquireSlow::poll_with_strategy: `*this.listener = None` follows the compare_exchange after each of the two listen() sites"%string, gen_mutex_bt)].
Definition bad_schedule : option (list act) :=
  if negb gen_mutex_bt && no_listener_drop "mutex::AcquireSlow::poll_with_strategy" && fst f6_report then Some (snd f6_report) else None.
