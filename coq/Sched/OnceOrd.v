(* OnceOrd.v — the only facts about the source's Orderings that the happens-before theorem of the OnceCell
   needs: the loads of the state are Acquire and the store of Initialized is a Release.
   [gen_oords] is read from Gen/Sites.v, i.e. from the source, on every run. *)
From AL.Sched Require Import OnceSched.
Lemma once_ord_premises : once_ord_ok = true.
Proof. vm_compute. reflexivity. Qed.
