(* TieLib.v — reading the generated site tables (coq/Gen/Sites.v, regenerated from the
   source by tools/extract on every run). *)
From Coq Require Import List String.
From AL.Gen Require Import Sites.
Import ListNotations.
Open Scope string_scope.

Definition shape (f : fn_info) : list (string * string * list string) * string :=
  (map (fun s => (s_kind s, s_recv s, s_args s)) (f_sites f), f_body f).

Fixpoint find_fn (n : string) (l : list fn_info) : option fn_info :=
  match l with
  | [] => None
  | f :: r => if String.eqb (f_name f) n then Some f else find_fn n r
  end.

Definition fn_shape (n : string) := option_map shape (find_fn n fns).
Definition fn_ords (n : string) : list (list ord) :=
  match find_fn n fns with Some f => map s_ords (f_sites f) | None => [] end.

(* names of the functions of a module (prefix) that contain atomic / event sites *)
Definition prefix_of (p s : string) : bool := String.prefix p s.
Definition site_fns (modp : string) : list string :=
  map f_name (filter (fun f => prefix_of modp (f_name f) && match f_sites f with [] => false | _ => true end)%bool fns).

(* orderings as release / acquire capabilities *)
Definition is_acquire (o : ord) : bool :=
  match o with Acquire | AcqRel | SeqCst => true | _ => false end.
Definition is_release (o : ord) : bool :=
  match o with Release | AcqRel | SeqCst => true | _ => false end.
