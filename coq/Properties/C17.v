(* C17 — blocked operations sleep: no busy-waiting (history half).
   For each of the five primitives and every reachable state of its machine (after ANY history ops0), consider
   ANY sequence of settle polls: each one re-polls, with any waker, a future that is pending and whose most
   recent waker has been called since its last poll (flagged woken) — in any order, for as long as there is one.
   (1) C17_*_settle: such a sequence has at most
         Semaphore   3 * pending + 2 * listeners          Mutex    5 * pending + 2 * listeners
         Barrier     4 * pending + 2 * listeners          RwLock   5 * pending + 2 * listeners (three events)
         OnceCell    4 * pending + 5 * listeners
       polls, where `listeners` <= pending is the number of registered entries. So while nothing is released,
       acquired, started or cancelled, re-polling every woken future reaches a state with no outstanding
       wake-up after a number of polls bounded by a small multiple of the number of pending futures: pending
       acquisitions do not keep waking themselves or each other.
       Proof: a potential  (#pending flagged woken) + 2 * (#notified entries) + 3 * (#pending)
       [+ #pending lock operations not yet starved, for the (inner) mutex; + 3 * #entries until the OnceCell is
       initialised] strictly decreases at every settle poll; the wake-up pass of an operation flags at most one
       pending future per waker it called because wakers identify their future (Settle.cW_wake).
   (2) C17_*_polls_terminate: no poll exhausts the fuel of its loop or takes an unreachable branch: a single
       poll performs a bounded number of iterations and returns.
   The code proved is the repaired one: on the pre-fix tree (F3: woken readers passing the notification on
   before looking at the state) the RwLock read path wakes another reader while staying pending with the
   writer bit set, and the potential does not decrease. *)
From AL Require Import Base Api Mutex MutexApi Semaphore SemApi RwLock RwApi OnceApi BarrierApi
                       MutexLive SemLive RwLive OnceInv BarrierInv Settle SemSettle BarrierSettle OnceSettle MutexSettle RwSettle.
From AL.Tie Require Tie_Mutex Tie_Semaphore Tie_Raw Tie_RwLock Tie_RwFutures Tie_OnceCell Tie_Barrier.

Theorem C17_semaphore_settle : forall (n : N) (ops0 ops : list sop), SemSettle.settle_run (srun n ops0) ops ->
  N.of_nat (length ops) <= 4 * sP (srun n ops0) + 2 * N.of_nat (length (se0 (s_sh (srun n ops0)))).
Proof. exact sem_settle_bound. Qed.

Theorem C17_mutex_settle : forall ops0 ops : list mop, N.of_nat (length ops0) + N.of_nat (length ops) < MutexLive.LIVE_BOUND ->
  msettle_run (mrun ops0) ops ->
  N.of_nat (length ops) <= 5 * mP (mrun ops0) + 2 * N.of_nat (length (se0 (m_sh (mrun ops0)))).
Proof. exact mutex_settle_bound. Qed.

Theorem C17_rwlock_settle : forall ops0 ops : list rop, N.of_nat (length ops0) + N.of_nat (length ops) < RLIVE_BOUND ->
  rsettle_run (rrun ops0) ops ->
  N.of_nat (length ops) <= 5 * rP (rrun ops0) +
    2 * (N.of_nat (length (se0 (r_sh (rrun ops0)))) + N.of_nat (length (se1 (r_sh (rrun ops0)))) + N.of_nat (length (se2 (r_sh (rrun ops0))))).
Proof. exact rw_settle_bound. Qed.

Theorem C17_oncecell_settle : forall ops0 ops : list oop, N.of_nat (length ops0) + N.of_nat (length ops) + 1 < ONCE_BOUND ->
  osettle_run (orun ops0) ops ->
  N.of_nat (length ops) <= 4 * oP (orun ops0) + 5 * sL (o_sh (orun ops0)).
Proof. exact once_settle_bound. Qed.

Theorem C17_barrier_settle : forall (n : N) (ops0 ops : list bop), n < USZ -> N.of_nat (length ops0) + N.of_nat (length ops) + 1 < BAR_BOUND ->
  bsettle_run (brun n ops0) ops ->
  N.of_nat (length ops) <= 4 * bP (brun n ops0) + 2 * N.of_nat (length (se1 (b_sh (brun n ops0)))).
Proof. exact bar_settle_bound. Qed.

Theorem C17_mutex_polls_terminate : forall ops : list mop, N.of_nat (length ops) < MutexLive.LIVE_BOUND -> serr (m_sh (mrun ops)) = false.
Proof. exact mutex_no_error. Qed.
Theorem C17_semaphore_polls_terminate : forall (n : N) (ops : list sop), serr (s_sh (srun n ops)) = false.
Proof. exact sem_no_error. Qed.
Theorem C17_rwlock_polls_terminate : forall ops : list rop, N.of_nat (length ops) < RLIVE_BOUND -> serr (r_sh (rrun ops)) = false.
Proof. exact rw_no_error. Qed.
Theorem C17_oncecell_polls_terminate : forall ops : list oop, N.of_nat (length ops) < ONCE_BOUND -> serr (o_sh (orun ops)) = false.
Proof. exact once_no_error. Qed.
Theorem C17_barrier_polls_terminate : forall (n : N) (ops : list bop), n < USZ -> N.of_nat (length ops) < BAR_BOUND -> serr (b_sh (brun n ops)) = false.
Proof. exact barrier_no_error. Qed.

(* non-vacuity: two waiters behind a holder, one of them starved by the oracle; the guard is dropped (first waiter
   woken); a settle run of two polls: the woken unstarved waiter finds the starved one ahead in the protocol,
   passes the notification on and becomes starved; the starved waiter is woken and acquires; then nobody is woken *)
Example C17_nonvacuous :
  let x := mrun [MTry false; MLock false; MLock false; MSetOracle [true; true]; MPoll 0 0; MPoll 1 0; MDropGuard 0; MTry false; MPoll 0 1; MDropGuard 1] in
  mW x = 1 /\ msettle_run x [MPoll 1 1; MPoll 0 2] /\
  mW (fst (mstep (fst (mstep x (MPoll 1 1))) (MPoll 0 2))) = 0.
Proof.
  vm_compute. split; [reflexivity|]. split; [|reflexivity].
  split; [exists 1%nat, 1%nat; eexists; repeat split; try reflexivity; Lia.lia|].
  split; [exists 0%nat, 2%nat; eexists; repeat split; try reflexivity; Lia.lia | exact I].
Qed.

(* the error flag is what fuel exhaustion sets *)
Example C17_fuel_is_observable :
  serr (snd (fst (acq_poll W0 E0 0%nat (mkAcq false None false) sh0))) = true.
Proof. reflexivity. Qed.

Print Assumptions C17_semaphore_settle.
Print Assumptions C17_mutex_settle.
Print Assumptions C17_rwlock_settle.
Print Assumptions C17_oncecell_settle.
Print Assumptions C17_barrier_settle.
Print Assumptions C17_mutex_polls_terminate.
