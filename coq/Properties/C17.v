(* C17 — blocked operations sleep: no busy-waiting. PARTIAL.
   Proved here, for every history of each of the five machines: no poll ever exhausts the fuel of its loop
   and none takes a branch the code treats as unreachable (serr stays false). The fuel constants are the
   loop bounds of the model (Mutex 12, Semaphore 8, RwLock 10 (+8 for the CAS loops), OnceCell 8, Barrier 8
   iterations): a single poll of any future, in any reachable state, with any waker, performs at most that
   many iterations of its acquire loop and then returns — it cannot spin, whatever the other futures do.
   NOT proved: the bound on the NUMBER OF POLLS needed to settle ("re-polling every woken future reaches
   quiescence after at most c * pending polls"). That statement needs the converse of the ownership
   invariant (a pending future flagged woken owns a notified entry; rests on wakers being unique per
   future) and a potential function (notified entries + pending futures + unstarved mutex waiters); it is
   decided by the harness monitor on the implementation (<= 3*pending+3 polls at every settle point, and
   the watchdog for outright hangs) and by the correspondence of every wake-up list with the model. *)
From AL Require Import Base Api Mutex MutexApi Semaphore SemApi RwLock RwApi OnceApi BarrierApi
                       MutexLive SemLive RwLive OnceInv BarrierInv.
From AL.Tie Require Tie_Mutex Tie_Semaphore Tie_Raw Tie_RwLock Tie_RwFutures Tie_OnceCell Tie_Barrier.

Theorem C17_mutex_polls_terminate_partial : forall ops : list mop, N.of_nat (length ops) < MutexLive.LIVE_BOUND -> serr (m_sh (mrun ops)) = false.
Proof. exact mutex_no_error. Qed.
Theorem C17_semaphore_polls_terminate_partial : forall (n : N) (ops : list sop), serr (s_sh (srun n ops)) = false.
Proof. exact sem_no_error. Qed.
Theorem C17_rwlock_polls_terminate_partial : forall ops : list rop, N.of_nat (length ops) < RLIVE_BOUND -> serr (r_sh (rrun ops)) = false.
Proof. exact rw_no_error. Qed.
Theorem C17_oncecell_polls_terminate_partial : forall ops : list oop, N.of_nat (length ops) < ONCE_BOUND -> serr (o_sh (orun ops)) = false.
Proof. exact once_no_error. Qed.
Theorem C17_barrier_polls_terminate_partial : forall (n : N) (ops : list bop), n < USZ -> N.of_nat (length ops) < BAR_BOUND -> serr (b_sh (brun n ops)) = false.
Proof. exact barrier_no_error. Qed.

(* the error flag is what fuel exhaustion sets: a 13-iteration loop would show up here *)
Example C17_fuel_is_observable :
  serr (snd (fst (acq_poll W0 E0 0%nat (mkAcq false None false) sh0))) = true.
Proof. reflexivity. Qed.

Print Assumptions C17_mutex_polls_terminate_partial.
Print Assumptions C17_semaphore_polls_terminate_partial.
Print Assumptions C17_rwlock_polls_terminate_partial.
Print Assumptions C17_oncecell_polls_terminate_partial.
Print Assumptions C17_barrier_polls_terminate_partial.
