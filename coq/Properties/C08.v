(* C08 — OnceCell: waiters finish on init; a failed initialiser hands over (history half).
   For every history of fewer than 2^64-2 operations (see C04 for the alphabet):
   - C08_waiters_finish: in every reachable state in which the cell is Initialized and every woken task has
     been polled again, no wait / get_or_init / get_or_try_init / set future is pending: initialisation
     notified every listener of both events (notify_additional(usize::MAX)) with its latest waker, and each
     completes at its next poll.
   - C08_hand_over: (a) the cell is Initializing only while some future is actually running its closure —
     after Err, panic or cancellation of the running initialiser it is Uninitialized again, never stuck;
     (b) when the cell is Uninitialized at rest, no get_or_init-style caller is still queued on
     active_initializers: the guard's notify(1) woke one of them (the notification is forwarded if that one
     is cancelled), and at its poll it runs its own closure (it finds the state Uninitialized).
   "The error or panic is reported only to the caller whose closure produced it" is by construction of the
   model's init_finish (the outcome goes to the polling future only) and is compared with the implementation
   by the correspondence check. Blocking forms and thread interleavings: not proved. *)
From AL Require Import Base Api OnceApi OnceInv.
From AL.Tie Require Tie_OnceCell.
From AL.Sched Require OnceEvSched OnceEvInv OnceEvOrd.

Theorem C08_waiters_finish : forall ops : list oop, N.of_nat (length ops) < ONCE_BOUND ->
  let x := orun ops in quiescent x -> sw0 (o_sh x) = 2 ->
  forall fid f, alookup fid (o_futs x) = Some f -> fm_st (of_meta f) <> FPending.
Proof. exact once_waiters_finish. Qed.

Theorem C08_hand_over : forall ops : list oop, N.of_nat (length ops) < ONCE_BOUND ->
  let x := orun ops in
  (sw0 (o_sh x) = 1 -> exists fid f k g, alookup fid (o_futs x) = Some f /\ of_st f = OFInit k (IRunning None) g) /\
  (quiescent x -> sw0 (o_sh x) = 0 -> forall fid f k id g, alookup fid (o_futs x) = Some f -> of_st f <> OFInit k (IWait id) g).
Proof. exact once_hand_over. Qed.

Theorem C08_invariant : forall ops : list oop, N.of_nat (length ops) < ONCE_BOUND -> OInv (orun ops).
Proof. exact run_OInv. Qed.

(* non-vacuity: the running initialiser is CANCELLED while two callers and a waiter are queued: the cell is
   empty again, the first queued caller is woken (state not quiescent); it is cancelled too before being
   polled: the notification is forwarded to the second, which then initialises; the waiter completes *)
Example C08_nonvacuous :
  let x := orun [OStartInit IKInit; OStartInit IKInit; OStartInit IKTry; OStartWait; OPoll 0 0; OPoll 1 0; OPoll 2 0; OPoll 3 0; ODropFut 0] in
  sw0 (o_sh x) = 0 /\ ~ quiescent x /\
  let y := fst (ostep x (ODropFut 1)) in
  ~ quiescent y /\
  map o_res (otrace y [OResolve 2 (OOk 4); OPoll 2 1; OPoll 3 1]) = [RUnit; RVal 4; RVal 4].
Proof.
  vm_compute. split; [reflexivity|]. split.
  - intro Q. apply (Q 1%nat _ eq_refl). split; reflexivity.
  - split; [|reflexivity]. intro Q. apply (Q 2%nat _ eq_refl). split; reflexivity.
Qed.

(* ---------- schedule half: every interleaving of atomic actions ---------- *)
(* The micro-step machine of Sched/OnceEvSched.v cuts initialize_or_wait (get_or_init, get_or_try_init, set) at each
   atomic action: the load of the state, the compare_exchange, listen(), the poll of the listener, the stores, the
   notifies, the drop of the local listener on return or when the future is dropped. The closure is abstract (runs any
   time, Pending any number of times, Ok, Err / panic, or the future is dropped while it runs). Any number of futures;
   polls start at any time. [gen_once_gn], [gen_once_na] say which machine the source is (read from Gen/Sites.v).
   For EVERY schedule shorter than 2^64 - 1 actions:
   (1) hand-over and completion: when nobody is initialising (the cell is empty again after a failed or cancelled
       initialiser, or it is initialised), no thread is inside a poll or a drop and every future whose waker was called
       has been polled again, no polled future waits on active_initializers;
   (2) never stuck: the state is Initializing only while some future is the initialiser. *)
Theorem C08_sched : forall (sched : list OnceEvSched.act) (nfuts : nat), N.of_nat (length sched) <= OnceEvSched.NMAX ->
  OnceEvSched.lostb (OnceEvSched.run OnceEvSched.gen_once_gn OnceEvSched.gen_once_na nfuts sched) = false.
Proof. rewrite OnceEvOrd.once_gn_premise, OnceEvOrd.once_na_premise. exact OnceEvInv.once_sched_no_lost_wakeup. Qed.

Theorem C08_sched_never_stuck : forall (sched : list OnceEvSched.act) (nfuts : nat), N.of_nat (length sched) <= OnceEvSched.NMAX ->
  OnceEvSched.stuckb (OnceEvSched.run OnceEvSched.gen_once_gn OnceEvSched.gen_once_na nfuts sched) = false.
Proof. rewrite OnceEvOrd.once_gn_premise, OnceEvOrd.once_na_premise. exact OnceEvInv.once_sched_never_stuck. Qed.

(* teeth: the machine whose guard stores Uninitialized without notify(1) loses the hand-over; with it the parked
   future is woken and becomes the initialiser *)
Theorem C08_sched_no_guard_notify_refuted :
  OnceEvSched.lostb (OnceEvSched.run false true 2 OnceEvSched.handover_schedule) = true.
Proof. exact OnceEvInv.once_sched_no_guard_notify_refuted. Qed.

Print Assumptions C08_waiters_finish.
Print Assumptions C08_hand_over.
Print Assumptions C08_invariant.
Print Assumptions C08_sched.
Print Assumptions C08_sched_never_stuck.
Print Assumptions C08_sched_no_guard_notify_refuted.
