(* C03 — Semaphore: never over-issues permits and conserves them.
   Statements only; every proof is `exact <lemma of Proofs/SemCount.v>`.
   Quantifier: every poll-granular history [ops] (any length, any number of live
   futures and guards, cancellation anywhere), every initial count [n : N] and every
   add_permits argument. Hypothesis [s_total < 2^64]: the code has no overflow check
   on fetch_add; [s_total] = initial + everything added. *)
From AL Require Import Base Api Semaphore SemApi SemCount.
From AL.Tie Require Tie_Semaphore.
From AL.Sched Require SemSched.

Theorem C03_conserve : forall (n : N) (ops : list sop),
  s_total (srun n ops) < USZ ->
  sw0 (s_sh (srun n ops)) + outstanding (srun n ops) = s_total (srun n ops).
Proof. exact sem_conservation. Qed.

Theorem C03_never_over_issues : forall (n : N) (ops : list sop),
  s_total (srun n ops) < USZ ->
  outstanding (srun n ops) <= s_total (srun n ops).
Proof. intros n ops B. pose proof (sem_conservation n ops B). Lia.lia. Qed.

Theorem C03_try_exact : forall (n : N) (ops : list sop) (arc : bool),
  s_handles (srun n ops) <> 0%nat ->
  o_res (snd (sstep (srun n ops) (STry arc))) =
  (if 0 <? sw0 (s_sh (srun n ops)) then RSome (s_ng (srun n ops)) else RNone).
Proof. intros n ops arc. exact (try_exact (srun n ops) arc). Qed.

Theorem C03_drop_returns_one : forall x g arc,
  alookup g (s_guards x) = Some arc -> sw0 (s_sh x) + 1 < USZ ->
  sw0 (s_sh (fst (sstep x (SDropGuard g)))) = sw0 (s_sh x) + 1.
Proof. exact drop_guard_returns_one. Qed.

Theorem C03_forget_returns_none : forall x g,
  sw0 (s_sh (fst (sstep x (SForget g)))) = sw0 (s_sh x).
Proof. exact forget_returns_none. Qed.

Theorem C03_add_permits_adds_n : forall x n,
  s_handles x <> 0%nat -> sw0 (s_sh x) + n < USZ ->
  sw0 (s_sh (fst (sstep x (SAdd n)))) = sw0 (s_sh x) + n /\
  s_total (fst (sstep x (SAdd n))) = s_total x + n.
Proof. exact add_permits_adds_n. Qed.

Theorem C03_total_is_initial_plus_added : forall n, s_total (sw_init n) = n.
Proof. reflexivity. Qed.
Theorem C03_only_add_changes_total : forall x o,
  (forall n, o <> SAdd n) -> s_total (fst (sstep x o)) = s_total x.
Proof. exact only_add_changes_total. Qed.

(* non-vacuity: a contended history (two permits, three acquirers, a forget, an
   add_permits, a cancellation) satisfies the hypothesis and has outstanding permits *)
(* ---- schedule half: every interleaving of the atomic operations on the counter (compare_exchange(c, c-1)
   with ANY expected value, however stale; fetch_add), ANY number of threads: permits are conserved, hence
   never over-issued ---- *)
Theorem C03_conserve_sched : forall (init : N) (n : nat) (sched : list (nat * SemSched.saction)),
  let g := SemSched.srun init n sched in
  SemSched.sg_count g + SemSched.sumN (SemSched.sg_held g) + SemSched.sg_forgot g = SemSched.sg_total g.
Proof. exact SemSched.srun_Cons. Qed.

Example C03_sched_nonvacuous :
  let g := SemSched.srun 1 2 [(0, SemSched.SCas 1); (1, SemSched.SCas 1); (1, SemSched.SCas 0); (0, SemSched.SRelease); (1, SemSched.SCas 1); (0, SemSched.SAdd 2)]%nat in
  SemSched.sg_held g = [0; 1] /\ SemSched.sg_count g = 2.
Proof. vm_compute. split; reflexivity. Qed.

Example C03_nonvacuous :
  let x := srun 2 [SAcquire false; SAcquire true; SAcquire false; SPoll 0 0; SPoll 1 0; SPoll 2 0;
                   SForget 0; SAdd 1; SPoll 2 0; SDropFut 1; STry false] in
  s_total x < USZ /\ outstanding x = 3 /\ sw0 (s_sh x) = 0 /\ s_total x = 3.
Proof. vm_compute. repeat split; reflexivity. Qed.

Print Assumptions C03_conserve.
Print Assumptions C03_conserve_sched.
Print Assumptions C03_never_over_issues.
Print Assumptions C03_try_exact.
Print Assumptions C03_drop_returns_one.
Print Assumptions C03_forget_returns_none.
Print Assumptions C03_add_permits_adds_n.
Print Assumptions C03_only_add_changes_total.
