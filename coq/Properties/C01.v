(* C01 — Mutex: at most one holder (history half).
   Statements only; proofs are `exact <lemma of Proofs/MutexInv.v>`.
   Quantifier: every poll-granular history [ops] over lock / lock_arc / try_lock /
   try_lock_arc / poll with any waker / cancellation at any point / guard drop /
   every oracle stream (the starvation branch taken or not at each evaluation) /
   Arc handle clone and drop. [OPS_BOUND] = 2^62 operations: beyond it the code's
   own overflow guard (abort) is reachable. *)
From AL Require Import Base Api Mutex MutexApi MutexInv.
From AL.Tie Require Tie_Mutex.

Theorem C01_excl_hist : forall ops : list mop,
  N.of_nat (length ops) < OPS_BOUND ->
  (length (m_guards (mrun ops)) <= 1)%nat.
Proof. exact mutex_at_most_one_guard. Qed.

(* the invariant behind it: state word = 2 * starved live lock operations + guards alive *)
Theorem C01_word_counts_holders : forall ops : list mop,
  N.of_nat (length ops) < OPS_BOUND ->
  sw0 (m_sh (mrun ops)) = tickets (m_futs (mrun ops)) + N.of_nat (length (m_guards (mrun ops))).
Proof. intros ops B. apply (run_WInv ops B). Qed.

(* non-vacuity: a contended history that goes through the starved path and ends
   with a guard alive, a starved waiter and an ordinary waiter *)
Example C01_nonvacuous :
  let x := mrun [MTry false; MLock false; MLock true; MPoll 0 0; MPoll 1 0; MDropGuard 0; MTry true;
                 MSetOracle [true]; MPoll 0 1; MPoll 1 0] in
  length (m_guards x) = 1%nat /\ sw0 (m_sh x) = 3 /\ tickets (m_futs x) = 2 /\ length (se0 (m_sh x)) = 2%nat.
Proof. vm_compute. repeat split. Qed.

Print Assumptions C01_excl_hist.
Print Assumptions C01_word_counts_holders.
