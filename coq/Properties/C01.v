(* C01 — Mutex: at most one holder (history half).
   Statements only; proofs are `exact <lemma of Proofs/MutexInv.v>`.
   Quantifier: every poll-granular history [ops] over lock / lock_arc / try_lock /
   try_lock_arc / poll with any waker / cancellation at any point / guard drop /
   every oracle stream (the starvation branch taken or not at each evaluation) /
   Arc handle clone and drop. [OPS_BOUND] = 2^62 operations: beyond it the code's
   own overflow guard (abort) is reachable. *)
From AL Require Import Base Api Mutex MutexApi MutexInv.
From AL.Tie Require Tie_Mutex.
From AL.Sched Require Import MutexSched MutexOrd.

Theorem C01_excl_hist : forall ops : list mop,
  N.of_nat (length ops) < OPS_BOUND ->
  (length (m_guards (mrun ops)) <= 1)%nat.
Proof. exact mutex_at_most_one_guard. Qed.

(* the invariant behind it: state word = 2 * starved live lock operations + guards alive *)
Theorem C01_word_counts_holders : forall ops : list mop,
  N.of_nat (length ops) < OPS_BOUND ->
  sw0 (m_sh (mrun ops)) = tickets (m_futs (mrun ops)) + N.of_nat (length (m_guards (mrun ops))).
Proof. intros ops B. apply (run_WInv ops B). Qed.

(* ---- schedule half: every interleaving of the atomic operations on the state word, ANY number of
   threads, no bound on preemptions or length; [run gen_mords n sched] executes the schedule [sched]
   (a list of (thread, site) pairs) on n threads, with the Orderings read from the source ---- *)
Theorem C01_excl_sched : forall (n : nat) (sched : list (nat * action)),
  holders (g_thr (run gen_mords n sched)) <= 1 /\
  g_w (run gen_mords n sched) = 2 * starvers (g_thr (run gen_mords n sched)) + holders (g_thr (run gen_mords n sched)).
Proof. intros n sched. destruct (run_Excl gen_mords n sched) as (E & L). split; assumption. Qed.

(* ---- happens-before half (view semantics): at every point of every schedule, the thread that holds the
   lock has in its view the ticket of every earlier guard drop (everything done to the value under any
   earlier guard), and when nobody holds it the state word's message view carries them all ---- *)
Theorem C01_hb_view : forall (n : nat) (sched : list (nat * action)), Hb (run gen_mords n sched).
Proof. intros n sched. apply run_Hb. exact mutex_ord_premises. Qed.

Example C01_sched_nonvacuous :
  let g := run gen_mords 3 [(0, ACas01 0); (1, ACas01 2); (1, AAdd2); (0, AUnlock); (2, ACas01 1); (1, AFetchOr); (1, ASub2); (1, AUnlock)]%nat in
  g_w g = 0 /\ g_issued g = [1; 0]%nat /\ holders (g_thr g) = 0.
Proof. vm_compute. repeat split. Qed.

(* non-vacuity: a contended history that goes through the starved path and ends
   with a guard alive, a starved waiter and an ordinary waiter *)
Example C01_nonvacuous :
  let x := mrun [MTry false; MLock false; MLock true; MPoll 0 0; MPoll 1 0; MDropGuard 0; MTry true;
                 MSetOracle [true]; MPoll 0 1; MPoll 1 0] in
  length (m_guards x) = 1%nat /\ sw0 (m_sh x) = 3 /\ tickets (m_futs x) = 2 /\ length (se0 (m_sh x)) = 2%nat.
Proof. vm_compute. repeat split. Qed.

Print Assumptions C01_excl_hist.
Print Assumptions C01_word_counts_holders.
Print Assumptions C01_excl_sched.
Print Assumptions C01_hb_view.
