(* C02 — RwLock: many readers xor one writer, at most one upgradable reader (history half).
   Statements only. Quantifier: every poll-granular history over the full alphabet: the
   five future kinds in both flavours (start / poll with any waker / cancel at any point),
   try_read / try_upgradable_read / try_write, upgrade, try_upgrade, the three downgrades,
   guard drops, Arc handles. [nR], [nU], [nW] count the read / upgradable / write guards alive. *)
From AL Require Import Base Api Mutex RwLock RwApi RwInv.
From AL.Tie Require Tie_Mutex Tie_Raw Tie_RwLock Tie_RwFutures.

Theorem C02_excl_hist : forall ops : list rop,
  N.of_nat (length ops) < OPS_BOUND ->
  let x := rrun ops in
  nW x <= 1 /\ nU x <= 1 /\ (nW x = 1 -> nR x = 0 /\ nU x = 0).
Proof. exact rw_exclusion. Qed.

(* the invariant behind it *)
Theorem C02_state_counts_guards : forall ops : list rop,
  N.of_nat (length ops) < OPS_BOUND ->
  let x := rrun ops in
  sw1 (r_sh x) = 2 * (nR x + nU x) + nW x + nH x /\
  sw0 (r_sh x) = nT x + nU x + nW x + nH x.
Proof. intros ops B x. destruct (run_RInv ops B) as (A & B' & _). split; assumption. Qed.

(* non-vacuity: two readers and an upgradable reader alive, a writer waiting for them,
   another writer queued on the inner mutex *)
Example C02_nonvacuous :
  let x := rrun [RTry KRead false; RTry KRead true; RTry KUpRead false; RStart KWrite false; RPoll 0 0;
                 RDowngrade 2; RPoll 0 0; RStart KWrite true; RPoll 1 0] in
  nR x = 3 /\ nU x = 0 /\ nW x = 0 /\ nH x = 1 /\ sw1 (r_sh x) = 7 /\ sw0 (r_sh x) = 1.
Proof. vm_compute. repeat split. Qed.

Print Assumptions C02_excl_hist.
Print Assumptions C02_state_counts_guards.
