(* C02 — RwLock: many readers xor one writer, at most one upgradable reader (history half).
   Statements only. Quantifier: every poll-granular history over the full alphabet: the
   five future kinds in both flavours (start / poll with any waker / cancel at any point),
   try_read / try_upgradable_read / try_write, upgrade, try_upgrade, the three downgrades,
   guard drops, Arc handles. [nR], [nU], [nW] count the read / upgradable / write guards alive. *)
From AL Require Import Base Api Mutex RwLock RwApi RwInv.
From AL.Tie Require Tie_Mutex Tie_Raw Tie_RwLock Tie_RwFutures.
From AL.Sched Require RwSched RwHbSched RwHbOrd.

Theorem C02_excl_hist : forall ops : list rop,
  N.of_nat (length ops) < OPS_BOUND ->
  let x := rrun ops in
  nW x <= 1 /\ nU x <= 1 /\ (nW x = 1 -> nR x = 0 /\ nU x = 0).
Proof. exact rw_exclusion. Qed.

(* the invariant behind it *)
Theorem C02_state_counts_guards : forall ops : list rop,
  N.of_nat (length ops) < OPS_BOUND ->
  let x := rrun ops in
  sw1 (r_sh x) = 2 * (nR x + nU x) + nW x + nH x /\
  sw0 (r_sh x) = nT x + nU x + nW x + nH x.
Proof. intros ops B x. destruct (run_RInv ops B) as (A & B' & _). split; assumption. Qed.

(* non-vacuity: two readers and an upgradable reader alive, a writer waiting for them,
   another writer queued on the inner mutex *)
(* ---- schedule half: every interleaving of the atomic operations on the state word (the inner mutex taken
   as an atomic lock, cf. C01_excl_sched), ANY number of threads, no bound on length: at most one writer, at
   most one upgradable reader, a writer excludes every reader; the word counts what is held ---- *)
Theorem C02_excl_sched : forall (n : nat) (sched : list (nat * RwSched.raction)),
  let g := RwSched.rrun_s n sched in
  RwSched.cnt RwSched.fW (RwSched.rg_thr g) <= 1 /\
  RwSched.cnt RwSched.fU (RwSched.rg_thr g) + RwSched.cnt RwSched.fA (RwSched.rg_thr g) <= 1 /\
  (1 <= RwSched.cnt RwSched.fW (RwSched.rg_thr g) ->
     RwSched.cnt RwSched.fR (RwSched.rg_thr g) = 0 /\ RwSched.cnt RwSched.fU (RwSched.rg_thr g) = 0) /\
  RwSched.rg_w g = 2 * (RwSched.cnt RwSched.fR (RwSched.rg_thr g) + RwSched.cnt RwSched.fU (RwSched.rg_thr g)) + RwSched.cnt RwSched.fA (RwSched.rg_thr g).
Proof. exact RwSched.rw_sched_exclusion. Qed.

Example C02_sched_nonvacuous :
  let g := RwSched.rrun_s 3 [(0, RwSched.RReadCas 0); (1, RwSched.RMutexLock); (1, RwSched.RAnnounce); (2, RwSched.RReadCas 2); (1, RwSched.RObserve);
                             (0, RwSched.RReadUnlock); (1, RwSched.RObserve); (2, RwSched.RReadCas 1); (1, RwSched.RDowngradeToUp)]%nat in
  RwSched.rg_w g = 2 /\ RwSched.cnt RwSched.fU (RwSched.rg_thr g) = 1 /\ RwSched.cnt RwSched.fR (RwSched.rg_thr g) = 0.
Proof. vm_compute. repeat split. Qed.

Example C02_nonvacuous :
  let x := rrun [RTry KRead false; RTry KRead true; RTry KUpRead false; RStart KWrite false; RPoll 0 0;
                 RDowngrade 2; RPoll 0 0; RStart KWrite true; RPoll 1 0] in
  nR x = 3 /\ nU x = 0 /\ nW x = 0 /\ nH x = 1 /\ sw1 (r_sh x) = 7 /\ sw0 (r_sh x) = 1.
Proof. vm_compute. repeat split. Qed.

(* ---------- the two happens-before clauses, for every schedule ---------- *)
(* Sched/RwHbSched.v runs the machine of C02_excl_sched with release/acquire views on the state word (the operational
   semantics of MutexSched.v): dropping a write guard (write_unlock, both downgrades) issues a WRITE ticket into the
   dropper's view before its releasing operation, dropping a read or upgradable-read guard issues a READ ticket; a ticket
   stands for everything the thread did to the value under that guard. Which sites acquire / release is read from
   Gen/Sites.v ([gen_rwflags]; premise rw_ord_premises: every site that hands out a guard acquires, every site that
   gives one up releases).
   For ANY number of threads and EVERY schedule: every thread that holds a guard of any kind has every write ticket
   issued so far in its view (all accesses under a write guard happen-before every later guard's accesses), and the
   thread that holds the write guard has every read ticket in its view (all reads under read and upgradable-read guards
   happen-before the next writer's writes). *)
Theorem C02_hb_view : forall (n : nat) (sched : list (nat * RwSched.raction)),
  let h := RwHbSched.hrun RwHbSched.gen_rwflags n sched in
  forall i t v, nth_error (RwSched.rg_thr (RwHbSched.h_g h)) i = Some t -> nth_error (RwHbSched.h_tv h) i = Some v ->
    (RwHbSched.holds t = true -> incl (RwHbSched.h_wt h) v) /\ (RwSched.rt_w t = true -> incl (RwHbSched.h_rt h) v).
Proof.
  intros n sched h. destruct (RwHbSched.hrun_Hb RwHbSched.gen_rwflags n sched RwHbOrd.rw_ord_premises) as ((_ & _ & H & _) & _). exact H.
Qed.
(* and the roles of that machine are those of C02_excl_sched *)
Theorem C02_hb_roles : forall (n : nat) (sched : list (nat * RwSched.raction)),
  RwSched.RExcl (RwHbSched.h_g (RwHbSched.hrun RwHbSched.gen_rwflags n sched)).
Proof. intros n sched. apply (RwHbSched.hrun_Hb RwHbSched.gen_rwflags n sched RwHbOrd.rw_ord_premises). Qed.
(* teeth: with write_unlock's fetch_and not a release a reader obtains a guard without the writer's ticket; with
   try_write's compare_exchange not an acquire a writer obtains the guard without a reader's ticket *)
Example C02_hb_teeth :
  RwHbSched.hb_okb (RwHbSched.hrun (RwHbSched.mkRwF true true true true true true true false true true) 2 (nth 0 RwHbSched.candidates [])) = false /\
  RwHbSched.hb_okb (RwHbSched.hrun (RwHbSched.mkRwF true true false true true true true true true true) 2 (nth 6 RwHbSched.candidates [])) = false.
Proof. split; [exact RwHbSched.rw_hb_teeth_release | exact RwHbSched.rw_hb_teeth_acquire]. Qed.

Print Assumptions C02_excl_hist.
Print Assumptions C02_excl_sched.
Print Assumptions C02_state_counts_guards.
Print Assumptions C02_hb_view.
Print Assumptions C02_hb_roles.
