(* C09 — Barrier: a generation releases exactly when its n-th waiter arrives (history half).
   (1) Refinement. For every n < 2^64 and every history of fewer than 2^64 - 2 operations (waits created,
   polled with any wakers, spuriously, in any order, dropped at any point; completed waits kept alive),
   the results of the model of src/barrier.rs are, poll by poll, those of the abstract barrier [astep]:
     - a wait ARRIVES at its first poll; the arrival that makes the count reach n completes at once as
       leader (is_leader() = true), resets the count and opens the next generation;
     - an earlier arrival records the generation it arrived in and is Pending;
     - a later poll of such a wait is Pending while its generation is current and completes with
       is_leader() = false as soon as it is not;
     - nothing else completes a wait, dropped waits still count as arrived (as in the code).
   [astep] is 25 lines and is the reading of the property; C09_spec_sane shows it never lets more waits
   of the current generation be outstanding than have arrived, and the count stays below n.
   (2) Liveness. In every reachable state in which every woken task has been polled again, every wait
   that is still pending belongs to the current generation and that generation is short of n arrivals:
   once the n-th has arrived, every live wait of that generation has been woken (its latest waker) and
   completes at its next poll (by (1)).
   (3) The barrier's inner mutex is free and has no queued listener between polls; no unreachable branch. *)
From AL Require Import Base Api Mutex BarrierApi BarrierInv.
From AL.Tie Require Tie_Barrier Tie_Mutex.
From AL.Sched Require BarrierEvSched BarrierEvInv BarrierEvOrd MutexEvSched BarrierComp.

Theorem C09_refines : forall (n : N) (ops : list bop), n < USZ -> N.of_nat (length ops) < BAR_BOUND ->
  map o_res (btrace (bw_init n) ops) = atrace n a_init ops /\ abs (brun n ops) = arun n ops /\ BInv (brun n ops).
Proof. exact barrier_refines. Qed.

Theorem C09_released_complete : forall (n : N) (ops : list bop), n < USZ -> N.of_nat (length ops) < BAR_BOUND ->
  let x := brun n ops in quiescent x ->
  forall fid f, alookup fid (b_futs x) = Some f -> fm_st (bf_meta f) = FPending ->
  exists id, bf_st f = mkBf None (Some id) (BWaiting (sw2 (b_sh x))) /\ sw1 (b_sh x) < n.
Proof. exact barrier_released_complete. Qed.

Theorem C09_spec_sane : forall (n : N) (ops : list bop),
  let a := arun n ops in
  (a_cnt a < n \/ a_cnt a = 0) /\ ApiFacts.asum (is_wait (a_gen a)) (a_futs a) <= a_cnt a /\
  Forall (fun p => match snd p with AWait g => g <= a_gen a | _ => True end) (a_futs a).
Proof. exact arun_AInv. Qed.

Theorem C09_mutex_free : forall (n : N) (ops : list bop), n < USZ -> N.of_nat (length ops) < BAR_BOUND ->
  sw0 (b_sh (brun n ops)) = 0 /\ se0 (b_sh (brun n ops)) = [].
Proof. exact barrier_mutex_free. Qed.

Theorem C09_no_error : forall (n : N) (ops : list bop), n < USZ -> N.of_nat (length ops) < BAR_BOUND -> serr (b_sh (brun n ops)) = false.
Proof. exact barrier_no_error. Qed.

(* non-vacuity: n = 2, two generations; the first waiter of generation 0 stays unpolled while the whole of
   generation 1 goes through, and is then released with is_leader() = false; the leaders are the 2nd and 4th arrival *)
Example C09_nonvacuous :
  map o_res (btrace (bw_init 2) [BStart; BStart; BStart; BStart; BPoll 0 0; BPoll 0 1; BPoll 1 0; BPoll 2 0; BPoll 3 0; BPoll 2 1; BPoll 0 2])
  = [RUnit; RUnit; RUnit; RUnit; RPending; RPending; RLeader true; RPending; RLeader true; RLeader false; RLeader false].
Proof. vm_compute. reflexivity. Qed.

(* ---------- schedule half: every interleaving ---------- *)
(* The micro-step machine of Sched/BarrierEvSched.v: the critical sections of the state mutex (arrival; re-check after a
   notification) are atomic actions — mutual exclusion and liveness of that mutex are C01 and C05 —, the poll of the
   listener happens outside them; any number of wait() futures, spurious polls, cancellation of waiting futures.
   [gen_bar_ln] says which machine the source is (read from Gen/Sites.v).
   For EVERY schedule shorter than 2^64 - 1 actions: when no thread is inside a poll or a drop and every future whose waker
   was called has been polled again, no polled wait() whose generation is over still waits. *)
Theorem C09_sched : forall (sched : list BarrierEvSched.act) (parties : N) (nfuts : nat), N.of_nat (length sched) <= BarrierEvSched.NMAX ->
  BarrierEvSched.lostb (BarrierEvSched.run BarrierEvSched.gen_bar_ln parties nfuts sched) = false.
Proof. rewrite BarrierEvOrd.bar_ln_premise. exact BarrierEvInv.barrier_sched_no_lost_wakeup. Qed.

(* teeth: the machine whose leader does not notify leaves the other parties asleep *)
Theorem C09_sched_no_notify_refuted : BarrierEvSched.lostb (BarrierEvSched.run false 3 3 BarrierEvSched.trio_schedule) = true.
Proof. exact BarrierEvInv.barrier_sched_no_notify_refuted. Qed.

(* ---------- the barrier's machine TOGETHER WITH the machine of its state mutex (Sched/BarrierComp.v) ---------- *)
(* In C09_sched a critical section of the state mutex is one atomic action and a wait() queued on that mutex is "inside a
   poll". In the product the lock futures of the wait()s run on the Mutex machine of C05; a critical section runs only while
   a lock future holds the mutex, and then owes the unlock. For every composed schedule (shorter than 2^64 - 1 actions):
   nobody holds the mutex or owes its unlock, the mutex side is at rest, every wait() is at rest — a wait() that needs the
   state mutex counting as at rest only if a lock future is parked on it (what its Pending means) — ==> no lock future is
   parked, no wait() is stuck before a critical section, and no wait() of a finished generation waits. *)
Theorem C09_sched_with_mutex : forall (p : N) (nb nm : nat) (sched : list BarrierComp.yact),
  let s := BarrierComp.yrun p nb nm sched in
  N.of_nat (length sched) <= BarrierEvSched.NMAX ->
  BarrierComp.y_hold s = 0 -> BarrierComp.y_owe s = 0 -> MutexEvSched.quiescentb (BarrierComp.yM s) = true ->
  (forall f, In f (BarrierEvSched.g_futs (BarrierComp.yB s)) -> BarrierComp.comp_at_rest s f) ->
  existsb MutexEvSched.parked (MutexEvSched.g_futs (BarrierComp.yM s)) = false /\
  BarrierEvSched.quiescentb (BarrierComp.yB s) = true /\
  existsb (BarrierEvSched.stale (BarrierComp.yB s)) (BarrierEvSched.g_futs (BarrierComp.yB s)) = false.
Proof. exact BarrierComp.barrier_comp_no_lost_wakeup. Qed.
Example C09_sched_with_mutex_nonvacuous :
  let mid := BarrierComp.yrun 2 2 3 (firstn 11 BarrierComp.bcomp_schedule) in
  let fin := BarrierComp.yrun 2 2 3 BarrierComp.bcomp_schedule in
  (map BarrierEvSched.fpc (BarrierEvSched.g_futs (BarrierComp.yB mid)) = [BarrierEvSched.BParked; BarrierEvSched.BArrive] /\
   map MutexEvSched.fpc (MutexEvSched.g_futs (BarrierComp.yM mid)) = [MutexEvSched.PDone; MutexEvSched.PParked; MutexEvSched.PIdle] /\ BarrierComp.y_owe mid = 1) /\
  (map BarrierEvSched.fpc (BarrierEvSched.g_futs (BarrierComp.yB fin)) = [BarrierEvSched.BDone; BarrierEvSched.BDone] /\
   map BarrierEvSched.flead (BarrierEvSched.g_futs (BarrierComp.yB fin)) = [false; true] /\
   BarrierComp.y_hold fin = 0 /\ BarrierComp.y_owe fin = 0 /\ MutexEvSched.g_w (BarrierComp.yM fin) = 0 /\
   MutexEvSched.quiescentb (BarrierComp.yM fin) = true /\ BarrierEvSched.quiescentb (BarrierComp.yB fin) = true).
Proof. exact BarrierComp.bcomp_example. Qed.

Print Assumptions C09_refines.
Print Assumptions C09_released_complete.
Print Assumptions C09_spec_sane.
Print Assumptions C09_mutex_free.
Print Assumptions C09_no_error.
Print Assumptions C09_sched.
Print Assumptions C09_sched_no_notify_refuted.
Print Assumptions C09_sched_with_mutex.
