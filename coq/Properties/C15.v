(* C15 — Arc-owned guards and futures neither leak nor over-release the lock (history half).
   For every operation history of the Mutex, Semaphore and RwLock machines (Arc and borrowed
   operations mixed, cancellation at every point, forget, conversions, handle clone / drop):
     strong count = user handles + owned guards alive + futures that still own a handle
   (lock_arc until it completes, acquire_arc until it is dropped, upgrade of an Arc guard until it
   completes); the lock and its value are dropped exactly when that count reaches 0, at most once
   (for the RwLock this uses that whatever borrows the lock or a user's handle — every future except an
   UpgradeArc, every borrowed guard — keeps a user handle alive, which the machine enforces on RDropArc as
   the borrow checker does, and that an UpgradeArc owns its handle until it completes). Memory safety of
   the unsafe pointer plumbing is outside the model. *)
From AL Require Import Base Api Mutex MutexApi Semaphore SemApi RwLock RwApi ArcCount RwDrop.
From AL.Tie Require Tie_Mutex Tie_Semaphore Tie_Raw Tie_RwLock Tie_RwFutures.

Theorem C15_mutex_count : forall ops : list mop,
  N.of_nat (m_strong (mrun ops)) = N.of_nat (m_handles (mrun ops)) + m_ag (mrun ops) + m_of (mrun ops).
Proof. intro ops. apply (run_MArc ops). Qed.
Theorem C15_mutex_dropped_once : forall ops : list mop,
  m_dropped (mrun ops) = (if Nat.eqb (m_strong (mrun ops)) 0 then 1 else 0)%nat.
Proof. intro ops. apply (run_MArc ops). Qed.

Theorem C15_semaphore_count : forall n (ops : list sop),
  N.of_nat (s_strong (srun n ops)) = N.of_nat (s_handles (srun n ops)) + s_ag (srun n ops) + s_of (srun n ops).
Proof. intros n ops. apply (run_SArc n ops). Qed.
Theorem C15_semaphore_dropped_once : forall n (ops : list sop),
  s_dropped (srun n ops) = (if Nat.eqb (s_strong (srun n ops)) 0 then 1 else 0)%nat.
Proof. intros n ops. apply (run_SArc n ops). Qed.

Theorem C15_rwlock_count : forall ops : list rop,
  N.of_nat (r_strong (rrun ops)) = N.of_nat (r_handles (rrun ops)) + r_ag (rrun ops) + r_of (rrun ops).
Proof. intro ops. apply (run_RArc ops). Qed.

Theorem C15_rwlock_dropped_once : forall ops : list rop,
  r_dropped (rrun ops) = (if Nat.eqb (r_strong (rrun ops)) 0 then 1 else 0)%nat.
Proof. intro ops. apply (run_RDrop ops). Qed.

Corollary C15_rwlock_guard_valid : forall ops g gk,
  alookup g (r_guards (rrun ops)) = Some (gk, true) -> (1 <= r_strong (rrun ops))%nat /\ r_dropped (rrun ops) = 0%nat.
Proof.
  intros ops g gk L. pose proof (C15_rwlock_count ops) as E.
  pose proof (ApiFacts.asum_In (fun v : gkind * bool => b2n (snd v)) _ _ _ (ApiFacts.alookup_In _ _ _ L)) as H. cbn in H. unfold r_ag in E.
  assert (S1 : (1 <= r_strong (rrun ops))%nat) by Lia.lia. split; [exact S1|].
  rewrite C15_rwlock_dropped_once. destruct (r_strong (rrun ops)); [Lia.lia | reflexivity].
Qed.

(* an owned guard keeps the lock alive after every user handle is gone *)
Corollary C15_mutex_guard_valid : forall ops g,
  alookup g (m_guards (mrun ops)) = Some true -> (1 <= m_strong (mrun ops))%nat.
Proof.
  intros ops g L. pose proof (C15_mutex_count ops) as E.
  pose proof (ApiFacts.asum_In b2n _ _ _ (ApiFacts.alookup_In _ _ _ L)) as H. cbn in H. unfold m_ag in E. Lia.lia.
Qed.

Example C15_nonvacuous :
  let x := mrun [MLock true; MTry true; MPoll 0 0; MCloneArc; MDropArc; MDropArc; MDropGuard 0; MPoll 0 0] in
  m_handles x = 0%nat /\ m_strong x = 1%nat /\ m_ag x = 1 /\ m_of x = 0 /\ m_dropped x = 0%nat.
Proof. vm_compute. repeat split. Qed.
Example C15_rw_nonvacuous :
  let x := rrun [RTry KUpRead true; RUpgrade 0; RStart KRead true; RCloneArc; RPoll 0 0; RDropArc; RPoll 1 0; RDowngrade 1; RPoll 1 0] in
  r_handles x = 1%nat /\ r_strong x = 3%nat /\ r_ag x = 2.
Proof. vm_compute. repeat split. Qed.

Print Assumptions C15_mutex_count.
Print Assumptions C15_mutex_dropped_once.
Print Assumptions C15_semaphore_count.
Print Assumptions C15_semaphore_dropped_once.
Print Assumptions C15_rwlock_count.
Print Assumptions C15_rwlock_dropped_once.
Print Assumptions C15_rwlock_guard_valid.
Print Assumptions C15_mutex_guard_valid.
