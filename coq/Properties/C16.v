(* C16 — Thread-safety markers and variance of public types are sound.
   The domain is finite: the public types with a type parameter T (list [public_T], computed from the
   tables the translator reads from the source) times the four kinds of T (Send+Sync, Send only,
   Sync only, neither). Each statement is a [forallb ... = true] over that domain, decided by
   vm_compute and lifted with forallb_forall — a proof, not a sample. The rule set [required_send] /
   [required_sync] is the property text written as functions of the capabilities read from the source
   (Deref / DerefMut impls, by-value conversion methods, future => output, ownership of the payload or
   of an Arc of the lock); two facts are modelled rather than derived and are named in MarkerModel.v:
   which guards coexist with other readers (from C02), and that RwLockReadGuardArc owns its Arc through
   a raw pointer. *)
From Coq Require Import List String Bool.
From AL.Gen Require Import Markers Rustc.
From AL.Markers Require Import MarkerModel Tie16.
From AL.Tie Require Tie_Types.
Import ListNotations.
Open Scope string_scope.

Theorem C16_send_sound : forall n k, In n public_T -> In k all_kinds ->
  declared true n k = true -> sat (required_send n) k = true /\ structural true n k = true.
Proof.
  assert (H : forallb (fun n => forallb (fun k => send_row_ok n k) all_kinds) public_T = true) by (vm_compute; reflexivity).
  intros n k Hn Hk D. rewrite forallb_forall in H. specialize (H n Hn). rewrite forallb_forall in H. specialize (H k Hk).
  unfold send_row_ok in H. rewrite D in H. cbn [implb] in H. apply andb_prop in H. exact H.
Qed.

Theorem C16_sync_sound : forall n k, In n public_T -> In k all_kinds ->
  declared false n k = true -> sat (required_sync n) k = true.
Proof.
  assert (H : forallb (fun n => forallb (fun k => sync_row_ok n k) all_kinds) public_T = true) by (vm_compute; reflexivity).
  intros n k Hn Hk D. rewrite forallb_forall in H. specialize (H n Hn). rewrite forallb_forall in H. specialize (H k Hk).
  unfold sync_row_ok in H. rewrite D in H. cbn [implb] in H. exact H.
Qed.

(* in particular: write guards and the write / upgrade futures require both bounds: they are public,
   and Send only for the kind Send+Sync *)
Definition kind_is_SS (k : kind) : bool := match k with KSS => true | _ => false end.
Theorem C16_write_side_needs_both :
  forallb (fun n => mem_s n public_T && forallb (fun k => implb (declared true n k) (kind_is_SS k)) all_kinds)
          ["RwLockWriteGuard"; "RwLockWriteGuardArc"; "Write"; "WriteArc"; "Upgrade"; "UpgradeArc"] = true.
Proof. vm_compute. reflexivity. Qed.

(* guards that can give &mut T (directly or after a conversion) are invariant in T; only read guards are covariant *)
Theorem C16_variance : forall g, In g guards -> variance_row_ok g = true.
Proof.
  assert (H : forallb variance_row_ok guards = true) by (vm_compute; reflexivity).
  intros g Hg. rewrite forallb_forall in H. exact (H g Hg).
Qed.
Theorem C16_only_read_guards_covariant : filter covariant_ty guards = ["RwLockReadGuard"; "RwLockReadGuardArc"].
Proof. vm_compute. reflexivity. Qed.

(* borrowed guards and futures cannot outlive their lock; MutexGuardArc::source requires T: Send (rustc's verdicts) *)
Theorem C16_lifetimes_and_source :
  forallb (fun p => if String.prefix "outlives:" (fst p) then negb (snd p) else true) rustc_compiles = true /\
  assoc "source_not_send" rustc_compiles = Some false /\ assoc "source_send" rustc_compiles = Some true /\
  In ("MutexGuardArc", "source", ["Send"]) method_bounds.
Proof. vm_compute. repeat split. left. reflexivity. Qed.

(* non-vacuity: the tables are not empty and contain both accepted and rejected rows *)
Example C16_nonvacuous :
  List.length public_T = 21%nat /\ declared true "RwLockReadGuard" KY = true /\ declared true "RwLockWriteGuard" KS = false /\
  declared true "MutexGuard" KS = true /\ required_send "RwLockUpgradableReadGuard" = ["Send"; "Sync"].
Proof. vm_compute. repeat split. Qed.

Print Assumptions C16_send_sound.
Print Assumptions C16_sync_sound.
Print Assumptions C16_write_side_needs_both.
Print Assumptions C16_variance.
Print Assumptions C16_only_read_guards_covariant.
Print Assumptions C16_lifetimes_and_source.
