(* C07 — Semaphore: every available permit reaches a waiter. History half first, schedule half below.
   For every operation history (any initial count, acquire / acquire_arc futures polled with any
   wakers, spuriously, cancelled at any point of their life, completed futures kept alive for any
   time, try_acquire, guard drops in any number in a row, forget, add_permits(n) for every n):
   in every reachable state in which a permit is available and no pending future is flagged woken
   (= every task whose waker was called has been polled again), no polled acquire future is pending.
   [fm_woken] is set exactly when the waker of the future's LAST poll is called, so the statement also
   says that the most recent waker is the one that gets called. *)
From AL Require Import Base Api Semaphore SemApi SemLive.
From AL.Tie Require Tie_Semaphore.
From AL.Sched Require SemEvSched SemEvInv SemEvOrd.

Theorem C07_hist : forall (n : N) (ops : list sop),
  let x := srun n ops in
  quiescent x -> 0 < sw0 (s_sh x) ->
  forall fid f, alookup fid (s_futs x) = Some f -> fm_st (sf_meta f) <> FPending.
Proof. exact sem_no_lost_wakeup. Qed.

(* the invariant behind it, in every reachable state: entries of the event are in bijection with the
   listeners of pending futures, each entry carries its owner's latest waker or is notified with the
   owner flagged woken, and if a permit is available some entry is notified *)
Theorem C07_invariant : forall (n : N) (ops : list sop), SLive (srun n ops).
Proof. exact run_SLive. Qed.

(* the model never takes a branch the code treats as unreachable and no poll spins *)
Theorem C07_no_error : forall (n : N) (ops : list sop), serr (s_sh (srun n ops)) = false.
Proof. exact sem_no_error. Qed.

(* non-vacuity: two permits released in a row while two waiters are pending: only the first is notified
   (notify(1) counts the notified entry), it is woken, and the state is not quiescent; after the woken
   waiter is polled (it completes, its notified listener forwards), the second is woken in turn *)
Example C07_nonvacuous :
  let x := srun 0 [SAdd 1; SAdd 1; STry false; STry false; SAcquire false; SAcquire true; SPoll 0 0; SPoll 1 0;
                   SDropGuard 0; SDropGuard 1] in
  sw0 (s_sh x) = 2 /\ ~ quiescent x /\
  let y := fst (sstep x (SPoll 0 0)) in
  sw0 (s_sh y) = 1 /\ (exists f, alookup 1%nat (s_futs y) = Some f /\ fm_woken (sf_meta f) = true).
Proof.
  vm_compute. split; [reflexivity|]. split.
  - intro Q. apply (Q 0%nat _ eq_refl). split; reflexivity.
  - split; [reflexivity|]. eexists. split; reflexivity.
Qed.

(* ---------- schedule half: every interleaving of atomic actions ---------- *)
(* The micro-step machine of Sched/SemEvSched.v cuts every poll of an acquire future, every guard drop and every
   add_permits at each atomic action on the counter and each critical section of the event's list; any number of
   futures, releasing and barging threads; polls start at any time. [gen_baton] says which machine the source is
   (read from Gen/Sites.v): with or without the repair of finding F5.
   For EVERY schedule: in a state in which a permit is available, no thread is inside a poll or between its
   fetch_add and its notify, and every future whose waker was called has been polled again, no polled future
   waits. *)
Theorem C07_sched : forall (sched : list SemEvSched.act) (permits : N) (nfuts : nat),
  SemEvSched.lostb (SemEvSched.run SemEvSched.gen_baton permits nfuts sched) = false.
Proof. rewrite SemEvOrd.sem_baton_premise. exact SemEvInv.sem_sched_no_lost_wakeup. Qed.

(* the same for states that are not at rest: a permit and a waiting future imply that something is in flight — a
   thread owes a notify, an entry is notified, or a future is inside a poll at a point from which it will run
   try_acquire or the baton check *)
Theorem C07_sched_inflight : forall (sched : list SemEvSched.act) (permits : N) (nfuts : nat),
  let s := SemEvSched.run SemEvSched.gen_baton permits nfuts sched in
  0 < SemEvSched.g_cnt s -> existsb SemEvSched.parked (SemEvSched.g_futs s) = true -> SemEvInv.inflight s = true.
Proof. rewrite SemEvOrd.sem_baton_premise. exact SemEvInv.sem_sched_inflight. Qed.

(* the statement has teeth: the machine WITHOUT the baton step (the code before fix 04640ce) loses a wake-up on the
   schedule of finding F5; with it the same schedule, continued, wakes the second waiter *)
Theorem C07_sched_prefix_refuted : SemEvSched.lostb (SemEvSched.run false 2 2 SemEvSched.f5_schedule) = true.
Proof. exact SemEvInv.sem_sched_prefix_refuted. Qed.
Example C07_sched_nonvacuous :
  let s := SemEvSched.run true 2 2 (SemEvSched.f5_schedule ++ [SemEvSched.ABaton 0; SemEvSched.ANotify 0]) in
  SemEvSched.g_cnt s = 1 /\ nth_error (SemEvSched.g_futs s) 1 = Some (SemEvSched.mkF SemEvSched.PParked (Some 1%nat) true).
Proof. exact SemEvInv.sem_sched_f5_repaired. Qed.

Print Assumptions C07_hist.
Print Assumptions C07_invariant.
Print Assumptions C07_no_error.
Print Assumptions C07_sched.
Print Assumptions C07_sched_inflight.
Print Assumptions C07_sched_prefix_refuted.
