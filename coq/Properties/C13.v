(* C13 — Mutex eventual fairness: a starved waiter closes the fast path (first clause, history half).
   A lock operation is "starved" from the poll in which it took a starvation ticket
   (fetch_add(2): the oracle answered that it has waited beyond the threshold, or it met a starved
   peer) until it acquires the mutex or is dropped: [ftick f = 2]. While such an operation is alive,
   try_lock / try_lock_arc return None in every reachable state — also while bit 0 is clear —
   for every oracle stream. The ordering clause (no later lock operation overtakes the starved one
   when polls are serialised) is not yet proved; it is monitored on the implementation. *)
From AL Require Import Base Api Mutex MutexApi MutexInv.
From AL.Tie Require Tie_Mutex.
From AL.Sched Require MutexEvSched MutexEvInv MutexEvOrd.

Theorem C13_closed_hist : forall (ops : list mop) (arc : bool),
  N.of_nat (length ops) < OPS_BOUND ->
  m_handles (mrun ops) <> 0%nat ->
  starved_alive (mrun ops) ->
  o_res (snd (mstep (mrun ops) (MTry arc))) = RNone.
Proof. intros ops arc B H S. apply starved_closes_fast_path; auto. apply run_WInv; exact B. Qed.

(* a starved operation keeps its ticket in the state word: word >= 2 *)
Theorem C13_ticket_in_word : forall ops fid f,
  N.of_nat (length ops) < OPS_BOUND ->
  In (fid, f) (m_futs (mrun ops)) -> ftick f = 2 -> 2 <= sw0 (m_sh (mrun ops)).
Proof.
  intros ops fid f B Hin T. destruct (run_WInv ops B) as (E & _).
  pose proof (tickets_In _ _ _ Hin). Lia.lia.
Qed.

(* non-vacuity: the mutex is unlocked (bit 0 clear) while a starved waiter is pending *)
Example C13_nonvacuous :
  let x := mrun [MTry false; MLock false; MPoll 0 0; MDropGuard 0; MTry false; MSetOracle [true]; MPoll 0 0; MDropGuard 1] in
  starved_alive x /\ sw0 (m_sh x) = 2 /\ m_guards x = [] /\ o_res (snd (mstep x (MTry false))) = RNone.
Proof.
  vm_compute. split; [|repeat split].
  eexists 0%nat, _. split; [left; reflexivity | reflexivity].
Qed.

(* ---------- schedule half of the try_lock clause: every interleaving of atomic actions ---------- *)
(* On the micro-step machine of Sched/MutexEvSched.v (see C05), in EVERY reachable state of EVERY schedule: while some lock
   operation holds a starvation ticket (from its fetch_add(2) until its take_mutex or its drop) the state word is not 0, so
   a try_lock — the compare_exchange(0,1) of any thread, at any instant, also while the mutex is momentarily unlocked —
   fails and changes nothing. *)
Theorem C13_closed_sched : forall (sched : list MutexEvSched.act) (nfuts : nat),
  let s := MutexEvSched.run MutexEvSched.gen_mutex_bt nfuts sched in
  (exists i f, MutexEvSched.getf s i = Some f /\ MutexEvSched.fstv f = true) ->
  MutexEvSched.g_w s <> 0 /\ MutexEvSched.step MutexEvSched.gen_mutex_bt s MutexEvSched.ATry = s.
Proof. rewrite MutexEvOrd.mutex_bt_premise. exact MutexEvInv.mutex_sched_starved_closes_fast_path. Qed.

Print Assumptions C13_closed_hist.
Print Assumptions C13_ticket_in_word.
Print Assumptions C13_closed_sched.
