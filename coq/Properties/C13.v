(* C13 — Mutex eventual fairness: a starved waiter closes the fast path (first clause, history half).
   A lock operation is "starved" from the poll in which it took a starvation ticket
   (fetch_add(2): the oracle answered that it has waited beyond the threshold, or it met a starved
   peer) until it acquires the mutex or is dropped: [ftick f = 2]. While such an operation is alive,
   try_lock / try_lock_arc return None in every reachable state — also while bit 0 is clear —
   for every oracle stream. The ordering clause (no later lock operation overtakes the starved one
   when polls are serialised) is C13_order_hist below (Proofs/MutexOrder.v). *)
From AL Require Import Base Api Mutex MutexApi MutexInv MutexLive MutexOrder.
From AL.Tie Require Tie_Mutex.
From AL.Sched Require MutexEvSched MutexEvInv MutexEvOrd.

Theorem C13_closed_hist : forall (ops : list mop) (arc : bool),
  N.of_nat (length ops) < OPS_BOUND ->
  m_handles (mrun ops) <> 0%nat ->
  starved_alive (mrun ops) ->
  o_res (snd (mstep (mrun ops) (MTry arc))) = RNone.
Proof. intros ops arc B H S. apply starved_closes_fast_path; auto. apply run_WInv; exact B. Qed.

(* a starved operation keeps its ticket in the state word: word >= 2 *)
Theorem C13_ticket_in_word : forall ops fid f,
  N.of_nat (length ops) < OPS_BOUND ->
  In (fid, f) (m_futs (mrun ops)) -> ftick f = 2 -> 2 <= sw0 (m_sh (mrun ops)).
Proof.
  intros ops fid f B Hin T. destruct (run_WInv ops B) as (E & _).
  pose proof (tickets_In _ _ _ Hin). Lia.lia.
Qed.

(* non-vacuity: the mutex is unlocked (bit 0 clear) while a starved waiter is pending *)
Example C13_nonvacuous :
  let x := mrun [MTry false; MLock false; MPoll 0 0; MDropGuard 0; MTry false; MSetOracle [true]; MPoll 0 0; MDropGuard 1] in
  starved_alive x /\ sw0 (m_sh x) = 2 /\ m_guards x = [] /\ o_res (snd (mstep x (MTry false))) = RNone.
Proof.
  vm_compute. split; [|repeat split].
  eexists 0%nat, _. split; [left; reflexivity | reflexivity].
Qed.

(* ---------- the ordering clause (polls serialised: the poll-granular machine) ---------- *)
(* For every history ops1 ++ ops2 and every oracle stream: if lock operation A holds a starvation ticket after ops1, B is a
   lock operation started after that moment (its id is not yet in use after ops1: it is created by an MLock of ops2), and
   A still holds its ticket after ops1 ++ ops2 — it has neither acquired the mutex nor been dropped in between (a ticket
   that is given up never comes back) — then a poll of B does not complete: no later operation acquires the mutex before
   the starved one. The proof (MutexOrder.v) keeps three invariants of lock_ops: the queue is sorted by age and only its
   head can be notified; while somebody is starved and an entry is notified the mutex is unlocked, so the starved
   operation never has to re-register; the later operations' entries are behind A's. *)
Theorem C13_order_hist : forall (ops1 ops2 : list mop) (a b k g : nat) (fa fa' : mfut),
  N.of_nat (length (ops1 ++ ops2)) < LIVE_BOUND ->
  alookup a (m_futs (mrun ops1)) = Some fa -> ftick fa = 2 ->
  (m_nf (mrun ops1) <= b)%nat ->
  alookup a (m_futs (mrun (ops1 ++ ops2))) = Some fa' -> ftick fa' = 2 ->
  o_res (snd (mstep (mrun (ops1 ++ ops2)) (MPoll b k))) <> RReady g.
Proof. exact mutex_starved_order. Qed.

(* the two invariants of lock_ops it rests on, in every reachable state: sorted by listener id, only the head notified;
   word >= 2 and some entry notified ==> word even *)
Theorem C13_queue_invariants : forall ops, N.of_nat (length ops) < LIVE_BOUND ->
  let s := m_sh (mrun ops) in
  Sorted.StronglySorted Nat.lt (map eid (se0 s)) /\ tail_clean (se0 s) = true /\
  (2 <= sw0 s -> EventFacts.has_notified (se0 s) = true -> sw0 s mod 2 = 0).
Proof. intros ops B. destruct (run_OInv ops B) as ([A _ C] & J). split; [exact A | split; [exact C | exact J]]. Qed.

(* non-vacuity: A (future 0) is starved behind a barging try_lock; B (future 1) is started afterwards and queues; the guard
   is dropped: the mutex is UNLOCKED, A is notified but not yet polled; a poll of B returns Pending, a poll of A Ready *)
Example C13_order_nonvacuous :
  let ops1 := [MTry false; MLock false; MPoll 0 0; MDropGuard 0; MTry false; MSetOracle [true]; MPoll 0 0] in
  let ops2 := [MLock false; MPoll 1 0; MDropGuard 1] in
  let x := mrun (ops1 ++ ops2) in
  (exists fa, alookup 0 (m_futs (mrun ops1)) = Some fa /\ ftick fa = 2) /\ m_nf (mrun ops1) = 1%nat /\
  (exists fa', alookup 0 (m_futs x) = Some fa' /\ ftick fa' = 2) /\ m_guards x = [] /\ sw0 (m_sh x) mod 2 = 0 /\
  o_res (snd (mstep x (MPoll 1 1))) = RPending /\ o_res (snd (mstep x (MPoll 0 1))) = RReady 2.
Proof. vm_compute. repeat split; eexists; split; reflexivity. Qed.

(* ---------- schedule half of the try_lock clause: every interleaving of atomic actions ---------- *)
(* On the micro-step machine of Sched/MutexEvSched.v (see C05), in EVERY reachable state of EVERY schedule: while some lock
   operation holds a starvation ticket (from its fetch_add(2) until its take_mutex or its drop) the state word is not 0, so
   a try_lock — the compare_exchange(0,1) of any thread, at any instant, also while the mutex is momentarily unlocked —
   fails and changes nothing. *)
Theorem C13_closed_sched : forall (sched : list MutexEvSched.act) (nfuts : nat),
  let s := MutexEvSched.run MutexEvSched.gen_mutex_bt nfuts sched in
  (exists i f, MutexEvSched.getf s i = Some f /\ MutexEvSched.fstv f = true) ->
  MutexEvSched.g_w s <> 0 /\ MutexEvSched.step MutexEvSched.gen_mutex_bt s MutexEvSched.ATry = s.
Proof. rewrite MutexEvOrd.mutex_bt_premise. exact MutexEvInv.mutex_sched_starved_closes_fast_path. Qed.

Print Assumptions C13_closed_hist.
Print Assumptions C13_ticket_in_word.
Print Assumptions C13_closed_sched.
Print Assumptions C13_order_hist.
Print Assumptions C13_queue_invariants.
