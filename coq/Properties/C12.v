(* C12 — RwLock is write-preferring: a waiting writer stops new readers (history half).
   For every history shorter than 2^61 operations (alphabet as C06):
   - C12_writer_announced: in every quiescent reachable state in which a polled write() or an upgrade is
     pending and no write or upgradable guard is alive, a writer has announced itself: nH = 1 and WRITER_BIT
     is set in the state word.
   - C12_try_read_fails: whenever WRITER_BIT is set (write guard, announced writer or pending upgrade),
     try_read / try_read_arc return None (exact characterisation, C14_try_read_exact).
   - C12_reader_blocked: whenever WRITER_BIT is set, every poll of every read() future returns Pending —
     whatever its cached state, whether or not it was notified.
   - "lasts until a writer has obtained and released the lock or the pending writers have been dropped":
     WRITER_BIT is cleared only by write_unlock, the two downgrades of a write guard and the cancellation of
     the announced writer (RawWrite / RawUpgrade drop) — pinned by the site lists of Tie_Raw / Tie_RwFutures;
     with the counting invariant (C02/C11: state = 2*(R+U) + W + H) the bit is set exactly while W + H = 1.
   - readers let in earlier are unaffected: their guards stay valid (C02), and the writer completes when the
     last of them leaves (C06 (d)). *)
From AL Require Import Base Api Mutex RwLock RwApi RwWord RwInv RwLive.
From AL.Tie Require Tie_Raw Tie_RwLock Tie_RwFutures Tie_Mutex.
From AL.Sched Require RwSched.

Theorem C12_writer_announced : forall ops : list rop, N.of_nat (length ops) < RLIVE_BOUND ->
  let x := rrun ops in quiescent x -> nU x = 0 -> nW x = 0 ->
  forall fid f, alookup fid (r_futs x) = Some f -> fm_st (rf_meta f) = FPending ->
  (exists nr ws, rf_st f = FWrite nr ws) \/ (exists hl l, rf_st f = FUpgrade hl l) ->
  nH x = 1 /\ has_writer (sw1 (r_sh x)) = true.
Proof. exact rw_writer_announced. Qed.

Theorem C12_reader_blocked : forall ops : list rop, N.of_nat (length ops) < RLIVE_BOUND ->
  let x := rrun ops in has_writer (sw1 (r_sh x)) = true ->
  forall fid f c l k, alookup fid (r_futs x) = Some f -> rf_st f = FRead c l -> fm_st (rf_meta f) <> FDone -> (k < 4)%nat ->
  o_res (snd (rstep x (RPoll fid k))) = RPending.
Proof. exact rw_reader_blocked. Qed.

Theorem C12_try_read_fails : forall (ops : list rop) arc, N.of_nat (length ops) < RwInv.OPS_BOUND -> r_handles (rrun ops) <> 0%nat ->
  nW (rrun ops) + nH (rrun ops) <> 0 -> o_res (snd (rstep (rrun ops) (RTry KRead arc))) = RNone.
Proof.
  intros ops arc B H NZ. rewrite (try_read_result (rrun ops) arc (run_RInv ops B) (run_small ops B) H).
  destruct (nW (rrun ops) + nH (rrun ops) =? 0) eqn:Q; [apply N.eqb_eq in Q; contradiction | reflexivity].
Qed.

(* WRITER_BIT is set exactly while a write guard is alive or a writer / upgrader has announced itself *)
Theorem C12_bit_iff : forall ops : list rop, N.of_nat (length ops) < RwInv.OPS_BOUND ->
  (has_writer (sw1 (r_sh (rrun ops))) = true <-> nW (rrun ops) + nH (rrun ops) = 1).
Proof.
  intros ops B. destruct (run_RInv ops B) as (EQ1 & _ & Le & _). rewrite has_writer_odd, EQ1. split.
  - intro Od. destruct (N.eq_dec (nW (rrun ops) + nH (rrun ops)) 0) as [Z|NZ]; [|lia]. exfalso.
    replace (2 * (nR (rrun ops) + nU (rrun ops)) + nW (rrun ops) + nH (rrun ops)) with (0 + (nR (rrun ops) + nU (rrun ops)) * 2) in Od by lia.
    rewrite N.mod_add in Od by discriminate. discriminate Od.
  - intro O. replace (2 * (nR (rrun ops) + nU (rrun ops)) + nW (rrun ops) + nH (rrun ops)) with (1 + (nR (rrun ops) + nU (rrun ops)) * 2) by lia.
    rewrite N.mod_add by discriminate. reflexivity.
Qed.

(* non-vacuity: two readers hold; a write() is polled: it gets the inner mutex, announces itself and waits;
   try_read now fails and a new read() stays pending; when the last reader leaves the writer is woken *)
Example C12_nonvacuous :
  let x := rrun [RTry KRead false; RTry KRead false; RStart KWrite false; RPoll 0 0; RStart KRead false] in
  nH x = 1 /\ nW x = 0 /\ quiescent x /\
  o_res (snd (rstep x (RTry KRead false))) = RNone /\ o_res (snd (rstep x (RPoll 1 0))) = RPending /\
  let y := rrun [RTry KRead false; RTry KRead false; RStart KWrite false; RPoll 0 0; RStart KRead false; RDropGuard 0; RDropGuard 1] in
  ~ quiescent y /\ o_res (snd (rstep y (RPoll 0 1))) = RReady 2%nat.
Proof.
  vm_compute. split; [reflexivity|]. split; [reflexivity|]. split.
  - intros fid f L (P & W). destruct fid as [|[|fid]]; inversion L; subst; discriminate.
  - split; [reflexivity|]. split; [reflexivity|]. split; [|reflexivity]. intro Q. apply (Q 0%nat _ eq_refl). split; reflexivity.
Qed.

(* ---------- schedule half: every interleaving of atomic operations on the state word ---------- *)
(* On the machine of C02_excl_sched (any number of threads, every schedule): while a writer is announced — WRITER_BIT is
   set by a write() past the inner mutex, by an upgrade in progress, or a write guard is alive — the compare_exchange of
   try_read / read(), attempted with any expected value that has the bit clear, however stale, fails and changes
   nothing: no reader gets in. *)
Theorem C12_blocked_sched : forall (n : nat) (sched : list (nat * RwSched.raction)) (i : nat) (c : N),
  let g := RwSched.rrun_s n sched in
  1 <= RwSched.cnt RwSched.fA (RwSched.rg_thr g) -> RwSched.rstep g i (RwSched.RReadCas c) = g.
Proof. exact RwSched.rw_sched_writer_blocks_readers. Qed.

Print Assumptions C12_writer_announced.
Print Assumptions C12_reader_blocked.
Print Assumptions C12_try_read_fails.
Print Assumptions C12_bit_iff.
Print Assumptions C12_blocked_sched.
