(* C05 — Mutex: no lost wake-up. History half first, schedule half below.
   For every operation history shorter than 2^61 operations (lock / lock_arc futures polled with any
   of 4 wakers each, spuriously, in any order; every outcome of the starvation clock through the oracle
   stream; cancellation of a future at every point of its life — unpolled, pending, starved, notified
   but not re-polled, completed but not dropped; try_lock(_arc); guard drops; Arc handle clones and
   drops): in every reachable state where no guard is alive and no pending future is flagged woken
   (= every task whose waker has been called has been polled again), no polled lock future is pending.
   [fm_woken] is set exactly when the waker passed at the future's LAST poll is called, so the
   statement also says the most recent waker is the one that gets called. *)
From AL Require Import Base Api Mutex MutexApi MutexInv MutexLive.
From AL.Tie Require Tie_Mutex.
From AL.Sched Require MutexEvSched MutexEvInv MutexEvOrd.

Theorem C05_hist : forall ops : list mop, N.of_nat (length ops) < LIVE_BOUND ->
  let x := mrun ops in
  quiescent x -> m_guards x = [] ->
  forall fid f, alookup fid (m_futs x) = Some f -> fm_st (mf_meta f) <> FPending.
Proof. exact mutex_no_lost_wakeup. Qed.

(* the invariant behind it, in every reachable state: entries of lock_ops are in bijection with the
   listeners of pending lock futures, each entry carries its owner's latest waker or is notified with
   its owner flagged woken; and when the word is even (unlocked) and >= 2 (a starved waiter) or any
   entry exists, some entry is notified *)
Theorem C05_invariant : forall ops : list mop, N.of_nat (length ops) < LIVE_BOUND ->
  MLive (mrun ops) /\ WInv (mrun ops).
Proof. exact run_MLive. Qed.

(* the model never takes a branch the code treats as unreachable and no poll runs out of loop fuel *)
Theorem C05_no_error : forall ops : list mop, N.of_nat (length ops) < LIVE_BOUND -> serr (m_sh (mrun ops)) = false.
Proof. exact mutex_no_error. Qed.

(* with no future alive, no listener is left in lock_ops (C10 for the Mutex: cancellation leaves no entry) *)
Theorem C05_idle_event : forall ops : list mop, N.of_nat (length ops) < LIVE_BOUND ->
  m_futs (mrun ops) = [] -> se0 (m_sh (mrun ops)) = [].
Proof. exact mutex_idle_event. Qed.

(* non-vacuity: a guard is held, two waiters (one starved by the oracle) queue, the guard is dropped:
   the first waiter is notified and flagged woken — the state is unlocked but not quiescent; the notified
   waiter is then CANCELLED before being re-polled, its notification is forwarded and the second is woken;
   after it is polled the state is quiescent, locked again, and only then nothing else is required *)
Example C05_nonvacuous :
  let x := mrun [MTry false; MLock false; MLock true; MSetOracle [false; true]; MPoll 0 0; MPoll 1 1; MDropGuard 0] in
  m_guards x = [] /\ ~ quiescent x /\
  let y := fst (mstep x (MDropFut 0)) in
  m_guards y = [] /\ ~ quiescent y /\
  (exists f, alookup 1%nat (m_futs y) = Some f /\ fm_st (mf_meta f) = FPending /\ fm_woken (mf_meta f) = true) /\
  let z := fst (mstep y (MPoll 1 2)) in
  (exists f, alookup 1%nat (m_futs z) = Some f /\ fm_st (mf_meta f) = FDone) /\ length (m_guards z) = 1%nat.
Proof.
  vm_compute. split; [reflexivity|]. split.
  - intro Q. apply (Q 0%nat _ eq_refl). split; reflexivity.
  - split; [reflexivity|]. split.
    + intro Q. apply (Q 1%nat _ eq_refl). split; reflexivity.
    + split; [eexists; repeat split; reflexivity|]. split; [eexists; split; reflexivity | reflexivity].
Qed.

(* ---------- schedule half: every interleaving of atomic actions ---------- *)
(* The micro-step machine of Sched/MutexEvSched.v cuts every poll of a lock future (fast path, hot loop, the switch
   to the fair protocol, fair loop, take_mutex), every guard drop and every drop of a pending future at each atomic
   action on the state word and each critical section of lock_ops; any number of futures, unlocking and barging
   threads; polls start at any time; the starvation clock answers anything. [gen_mutex_bt] says which machine the
   source is (read from Gen/Sites.v): with or without the repair of finding F6.
   For EVERY schedule: in a state in which the mutex is unlocked, no thread is inside a poll, a drop or between its
   fetch_sub and its notify, and every future whose waker was called has been polled again, no polled future waits. *)
Theorem C05_sched : forall (sched : list MutexEvSched.act) (nfuts : nat),
  MutexEvSched.lostb (MutexEvSched.run MutexEvSched.gen_mutex_bt nfuts sched) = false.
Proof. rewrite MutexEvOrd.mutex_bt_premise. exact MutexEvInv.mutex_sched_no_lost_wakeup. Qed.

(* the same for states that are not at rest: unlocked, and a future waits on an entry that is not notified (other
   than a future about to run the compare_exchange that follows its listen()) => a thread owes a notify, an entry is
   notified, or a future is inside a poll at a point from which it will take the lock or call notify(1) *)
Theorem C05_sched_inflight : forall (sched : list MutexEvSched.act) (nfuts : nat),
  let s := MutexEvSched.run MutexEvSched.gen_mutex_bt nfuts sched in
  MutexEvSched.g_w s mod 2 = 0 -> MutexEvInv.needy s = true -> MutexEvInv.inflight s = true.
Proof. rewrite MutexEvOrd.mutex_bt_premise. exact MutexEvInv.mutex_sched_inflight. Qed.

(* the invariants behind it (ownership of the entries, word = lock bit + 2 * starved operations, in-flight) *)
Theorem C05_sched_invariants : forall (sched : list MutexEvSched.act) (nfuts : nat),
  let s := MutexEvSched.run MutexEvSched.gen_mutex_bt nfuts sched in
  MutexEvInv.Own s /\ MutexEvInv.Winv s /\ MutexEvInv.Tinv s.
Proof. rewrite MutexEvOrd.mutex_bt_premise. exact MutexEvInv.run_inv. Qed.

(* the statement has teeth: the machine WITHOUT the listener drops (the code before fix a3c1bed) loses a wake-up on
   the schedule of finding F6; with them the same schedule wakes the second waiter; the fair protocol is reachable *)
Theorem C05_sched_prefix_refuted : MutexEvSched.lostb (MutexEvSched.run false 2 (MutexEvSched.f6_schedule false)) = true.
Proof. exact MutexEvInv.mutex_sched_prefix_refuted. Qed.
Example C05_sched_nonvacuous :
  let s := MutexEvSched.run true 2 (MutexEvSched.f6_schedule true) in
  MutexEvSched.g_w s = 0 /\ nth_error (MutexEvSched.g_futs s) 1 = Some (MutexEvSched.mkF MutexEvSched.PParked (Some 1%nat) true false).
Proof. exact MutexEvInv.mutex_sched_f6_repaired. Qed.

Print Assumptions C05_hist.
Print Assumptions C05_invariant.
Print Assumptions C05_no_error.
Print Assumptions C05_idle_event.
Print Assumptions C05_sched.
Print Assumptions C05_sched_inflight.
Print Assumptions C05_sched_invariants.
Print Assumptions C05_sched_prefix_refuted.
