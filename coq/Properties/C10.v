(* C10 — cancelling an acquisition at any point leaves no trace (history half).
   Mutex and Semaphore: proved in full for poll-granular histories. After ANY history (futures dropped
   never polled, pending, starved, notified-but-not-repolled, or completed; in any order), in every
   reachable state with no guard alive and no acquisition pending (completed futures may still be alive):
     Mutex:     state word = 0 (no starvation ticket, not locked), lock_ops has no entry, try_lock succeeds;
     Semaphore: the event has no entry and count + forgotten = initial + added, i.e. every permit that was
                not forgotten is in the counter, where try_acquire takes it (C14_try_acquire_exact).
   RwLock: with no future and no guard alive the two words are 0 (C10_rw_words_partial; hence all try_*
   succeed, C14_free_lock_succeeds) and none of its three events (inner mutex lock_ops, no_readers, no_writer)
   holds an entry (C10_rw_events) — whatever was cancelled on the way, including an announced writer and an
   upgrade (whose cancellation clears WRITER_BIT, wakes a reader and releases the inner mutex: the liveness
   conditions of C06 hold in the state after every cancellation, C06_invariant). *)
From AL Require Import Base Api Mutex MutexApi Semaphore SemApi RwLock RwApi MutexInv MutexLive SemCount SemLive Cancel RwInv RwLive.
From AL.Tie Require Tie_Mutex Tie_Semaphore Tie_Raw Tie_RwLock Tie_RwFutures.
From AL.Sched Require MutexEvSched MutexEvInv MutexEvOrd.

Theorem C10_mutex_no_trace : forall (ops : list mop) (arc : bool), N.of_nat (length ops) < LIVE_BOUND ->
  let x := mrun ops in
  (forall fid f, alookup fid (m_futs x) = Some f -> fm_st (mf_meta f) <> FPending) -> m_guards x = [] ->
  sw0 (m_sh x) = 0 /\ se0 (m_sh x) = [] /\
  (m_handles x <> 0%nat -> o_res (snd (mstep x (MTry arc))) = RSome (m_ng x)).
Proof. exact mutex_cancel_no_trace. Qed.

Theorem C10_sem_no_trace : forall (n : N) (ops : list sop), s_total (srun n ops) < USZ ->
  let x := srun n ops in
  (forall fid f, alookup fid (s_futs x) = Some f -> fm_st (sf_meta f) <> FPending) -> s_guards x = [] ->
  se0 (s_sh x) = [] /\ sw0 (s_sh x) + N.of_nat (s_forgot x) = s_total x.
Proof. exact sem_cancel_no_trace. Qed.

Theorem C10_rw_words_partial : forall (ops : list rop), N.of_nat (length ops) < RwInv.OPS_BOUND ->
  r_futs (rrun ops) = [] -> r_guards (rrun ops) = [] ->
  sw0 (r_sh (rrun ops)) = 0 /\ sw1 (r_sh (rrun ops)) = 0.
Proof.
  intros ops B F G. pose proof (run_RInv ops B) as (Q1 & Q0 & _).
  unfold nR, nU, nW, nH, nT in *. rewrite F, G in *. cbn in Q1, Q0. split; assumption.
Qed.

Theorem C10_rw_events : forall (ops : list rop), N.of_nat (length ops) < RLIVE_BOUND ->
  r_futs (rrun ops) = [] -> se0 (r_sh (rrun ops)) = [] /\ se1 (r_sh (rrun ops)) = [] /\ se2 (r_sh (rrun ops)) = [].
Proof. exact rw_idle_events. Qed.

(* non-vacuity: word = 3 (locked + one starved waiter), two entries; the guard is dropped, the notified
   waiter and then the starved waiter are cancelled; nothing is left *)
Example C10_nonvacuous :
  let pre := [MTry false; MLock false; MLock true; MSetOracle [true; true; true]; MPoll 0 0; MPoll 1 0;
              MDropGuard 0; MTry false; MPoll 0 1] in
  let x := mrun pre in
  sw0 (m_sh x) = 3 /\ length (se0 (m_sh x)) = 2%nat /\
  let y := fst (mstep x (MDropGuard 1)) in
  let z := mrun (pre ++ [MDropGuard 1; MDropFut 1; MDropFut 0]) in
  sw0 (m_sh y) = 2 /\ sw0 (m_sh z) = 0 /\ se0 (m_sh z) = [] /\ m_futs z = [] /\ m_guards z = [].
Proof. vm_compute. repeat split. Qed.

(* ---------- schedule half, Mutex: every interleaving of atomic actions ---------- *)
(* On the micro-step machine of C05 (Sched/MutexEvSched.v): for EVERY schedule, when every future has been dropped or was
   never polled — in whatever state it was dropped: pending, starved (its ticket is given back by take_mutex, then its
   listener goes), notified — no guard is alive and nothing is in flight, the mutex is as if never used: the state word
   is 0 and lock_ops has no entry. *)
Theorem C10_mutex_no_trace_sched : forall (sched : list MutexEvSched.act) (nfuts : nat),
  let s := MutexEvSched.run MutexEvSched.gen_mutex_bt nfuts sched in
  (forall f, In f (MutexEvSched.g_futs s) -> MutexEvSched.fpc f = MutexEvSched.PIdle \/ MutexEvSched.fpc f = MutexEvSched.PGone) ->
  MutexEvSched.g_guards s = 0 -> MutexEvSched.g_w s = 0 /\ MutexEvSched.g_ev s = [].
Proof. rewrite MutexEvOrd.mutex_bt_premise. exact MutexEvInv.mutex_sched_no_trace. Qed.

Print Assumptions C10_mutex_no_trace.
Print Assumptions C10_sem_no_trace.
Print Assumptions C10_rw_words_partial.
Print Assumptions C10_rw_events.
Print Assumptions C10_mutex_no_trace_sched.
