(* C04 — OnceCell: initialised at most once, and only a complete value is ever visible (history half).
   For every history of fewer than 2^64-2 operations over wait / get_or_init / get_or_try_init / set futures
   (polled with any wakers, spuriously, in any order; their closures' futures resolved Ok / Err / panic at
   any time or never; cancelled at any point: unpolled, queued, running, completed), get, take, drop:
   - C04_once: since the last take the cell has been initialised at most once, and exactly once iff its
     state is Initialized; at most one initialiser closure is running, and one is running iff the state is
     Initializing (so none is started once the cell is initialised); the slot holds a value iff Initialized;
     the state word is always one of the three states.
   - C04_value_visible: whenever any operation returns a value (wait, get_or_init, get_or_try_init, set
     returning Ok, get, take), it is the value stored in the slot by the one successful initialiser and the
     cell is (or, for take, was) Initialized: a reference is never handed out for an empty or half-initialised cell.
   - C04_no_error: no debug_assert / unreachable branch is taken and initialize_or_wait never spins.
   - C04_payload_accounting / C04_all_dropped_once: every payload is dropped exactly once (OnceDrops.v).
   - C04_set_hand_back: set hands its argument back exactly when it was not the one that initialised the cell (OnceSet.v).
   Blocking forms and thread interleavings: harness op initb, loom scenarios, schedule-level theorems below. *)
From AL Require Import Base Api OnceApi OnceInv.
From AL Require OnceDrops OnceSet.
From AL.Tie Require Tie_OnceCell.
From AL.Sched Require OnceSched OnceOrd.

Theorem C04_once : forall ops : list oop, N.of_nat (length ops) < ONCE_BOUND ->
  let x := orun ops in
  (o_inits x <= 1)%nat /\ (o_inits x = 1%nat <-> sw0 (o_sh x) = 2) /\
  nrun x <= 1 /\ (nrun x = 1 <-> sw0 (o_sh x) = 1) /\
  (sw0 (o_sh x) = 2 <-> exists v, o_value x = Some v) /\
  (sw0 (o_sh x) = 0 \/ sw0 (o_sh x) = 1 \/ sw0 (o_sh x) = 2).
Proof. exact once_at_most_once. Qed.

Theorem C04_value_visible : forall (ops : list oop) (o : oop) (v : N), N.of_nat (length ops) < ONCE_BOUND ->
  let x := orun ops in
  o_res (snd (ostep x o)) = RVal v ->
  (o = OTake /\ sw0 (o_sh x) = 2 /\ o_value x = Some v) \/
  (o <> OTake /\ sw0 (o_sh (fst (ostep x o))) = 2 /\ o_value (fst (ostep x o)) = Some v).
Proof. exact once_value_visible. Qed.

Theorem C04_no_error : forall ops : list oop, N.of_nat (length ops) < ONCE_BOUND -> serr (o_sh (orun ops)) = false.
Proof. exact once_no_error. Qed.

(* ---- schedule half: every interleaving of the atomic operations on the state word, ANY number of threads:
   exactly one initialiser while Initializing, none otherwise; the slot is written only by it; the cell is
   initialised at most once ---- *)
Theorem C04_excl_sched : forall (n : nat) (sched : list (nat * OnceSched.oaction)),
  OnceSched.OExcl (OnceSched.orun OnceSched.gen_oords n sched).
Proof. intros n sched. apply OnceSched.orun_OExcl. Qed.

(* ---- happens-before half (view semantics): "only a complete value is ever visible" — every reference handed
   out by a load that reads Initialized is to a value whose write (its ticket) is in the receiving thread's
   view. Its only premises about the code are the Orderings read from the source: the loads are Acquire and
   the store of Initialized is a Release (once_ord_premises) ---- *)
Theorem C04_hb_view : forall (n : nat) (sched : list (nat * OnceSched.oaction)),
  OnceSched.OHb (OnceSched.orun OnceSched.gen_oords n sched).
Proof.
  intros n sched. apply OnceSched.orun_OHb. pose proof OnceOrd.once_ord_premises as P.
  unfold OnceSched.once_ord_ok in P. apply andb_prop in P. exact (proj1 P).
Qed.

Example C04_sched_nonvacuous :
  let g := OnceSched.orun OnceSched.gen_oords 2 [(0, OnceSched.OCas); (1, OnceSched.OCas); (1, OnceSched.OLoad); (0, OnceSched.OWrite); (0, OnceSched.OStoreInit); (1, OnceSched.OLoad)]%nat in
  OnceSched.og_st g = 2 /\ (exists t, nth_error (OnceSched.og_thr g) 1 = Some t /\ OnceSched.ot_refs t = [0%nat] /\ In 0%nat (OnceSched.ot_view t)).
Proof. vm_compute. split; [reflexivity|]. eexists. split; [reflexivity|]. split; [reflexivity | left; reflexivity]. Qed.

(* non-vacuity: two get_or_init race; the first runs its closure, the second queues; the first fails;
   the second is woken, runs its own closure and initialises; a late `set` gets its argument back *)
Example C04_nonvacuous :
  map o_res (otrace ow0 [OStartInit IKTry; OStartInit IKInit; OPoll 0 0; OPoll 1 0; OResolve 0 (OErr 7); OPoll 0 1; OResolve 1 (OOk 5);
                         OPoll 1 1; OStartInit (IKSet 9); OPoll 2 0; OGet])
  = [RUnit; RUnit; RPending; RPending; RUnit; RErr 7; RUnit; RVal 5; RUnit; RErr 9; RVal 5].
Proof. vm_compute. reflexivity. Qed.

(* ---------- the stored value is dropped exactly once ---------- *)
(* For every history: a payload comes into existence as the argument of a `set` future or as the value a get_or_init /
   get_or_try_init closure produced and that got stored ([made], read off the steps); it is owned by the initialised cell or
   by a `set` future that has not finished ([owed]); the model counts every drop ([o_drops]: the value handed back by a `set`
   that did not initialise, the argument of a cancelled `set`, `take`, the drop of an initialised cell — compared with the
   implementation's drop counter on every operation of the correspondence run). Drops so far + payloads owned now = payloads
   made so far: nothing is dropped twice, nothing is lost; once nothing is owned any more (the cell dropped or emptied by take,
   no `set` pending) every payload made has been dropped exactly once. *)
Theorem C04_payload_accounting : forall ops : list oop, N.of_nat (length ops) < ONCE_BOUND ->
  N.of_nat (o_drops (orun ops)) + OnceDrops.owed (orun ops) = OnceDrops.made ow0 ops.
Proof. exact OnceDrops.once_payload_accounting. Qed.
Theorem C04_all_dropped_once : forall ops : list oop, N.of_nat (length ops) < ONCE_BOUND ->
  OnceDrops.owed (orun ops) = 0 -> N.of_nat (o_drops (orun ops)) = OnceDrops.made ow0 ops.
Proof. exact OnceDrops.once_all_dropped. Qed.
Example C04_drops_nonvacuous :
  let ops := [OStartInit (IKSet 5); OStartInit (IKSet 6); OPoll 0 0; OPoll 1 0; OStartInit (IKSet 7); ODropFut 0; ODropFut 1; ODropFut 2;
              OTake; OStartInit IKInit; OResolve 3 (OOk 8); OPoll 3 0; OStartInit (IKSet 9); OPoll 4 0; ODropFut 3; ODropFut 4; ODropCell] in
  OnceDrops.made ow0 ops = 5 /\ o_drops (orun ops) = 5%nat /\ OnceDrops.owed (orun ops) = 0.
Proof. exact OnceDrops.once_drops_example. Qed.

(* For every history and every set(v) future in the state it leads to, a poll of that future
     - returns Ok(&v) only in the step in which it itself moved the cell from empty to initialised with v (one more
       initialisation, nothing dropped);
     - returns Err(v) — its own argument, handed back (and dropped by the caller: one more drop) — only when the cell is
       initialised and this step neither touched the stored value nor initialised anything;
     - otherwise returns Pending (or the poll is rejected) and changes neither the value nor the counters.
   It never returns another value, an error of somebody else, or a panic. *)
Theorem C04_set_hand_back : forall (ops : list oop) (fid kk : nat) (v : N) (ist : ist) (gate : option outcome) (m : fmeta),
  alookup fid (o_futs (orun ops)) = Some (mkOfut (OFInit (IKSet v) ist gate) m) ->
  OnceSet.set_poll_spec v (orun ops) (fst (ostep (orun ops) (OPoll fid kk))) (o_res (snd (ostep (orun ops) (OPoll fid kk)))).
Proof. exact OnceSet.set_hand_back. Qed.
Check (eq_refl : OnceSet.set_poll_spec = fun (v : N) (x x' : oworld) (r : res) =>
  match r with
  | RVal r0 => r0 = v /\ o_value x' = Some v /\ sw0 (o_sh x') = ST_INIT /\ o_inits x' = S (o_inits x) /\ o_drops x' = o_drops x
  | RErr e => e = v /\ o_value x' = o_value x /\ sw0 (o_sh x') = ST_INIT /\ o_inits x' = o_inits x /\ o_drops x' = S (o_drops x)
  | RPending | RInvalid => o_value x' = o_value x /\ o_inits x' = o_inits x /\ o_drops x' = o_drops x
  | _ => False
  end).
(* non-vacuity: A runs get_or_init, B calls set(7) and waits behind it, A completes with 9: B's next poll hands 7 back;
   on an empty cell set(7) initialises it and returns Ok(&7) *)
Example C04_set_nonvacuous :
  let ops := [OStartInit IKInit; OPoll 0 0; OStartInit (IKSet 7); OPoll 1 0; OResolve 0 (OOk 9); OPoll 0 0] in
  o_res (snd (ostep (orun ops) (OPoll 1 0))) = RErr 7 /\ o_value (fst (ostep (orun ops) (OPoll 1 0))) = Some 9 /\
  o_res (snd (ostep (orun [OStartInit (IKSet 7)]) (OPoll 0 0))) = RVal 7.
Proof. vm_compute. repeat split. Qed.

Print Assumptions C04_once.
Print Assumptions C04_excl_sched.
Print Assumptions C04_hb_view.
Print Assumptions C04_value_visible.
Print Assumptions C04_no_error.
Print Assumptions C04_payload_accounting.
Print Assumptions C04_all_dropped_once.
Print Assumptions C04_set_hand_back.
