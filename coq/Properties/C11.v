(* C11 — RwLock: upgrade, try_upgrade and the downgrades are atomic transitions (history half).
   [nU + nW + nH] counts the holders of the single "converter slot": an upgradable guard, a
   write guard, a write() future that has announced itself and waits for readers, a pending
   upgrade (polled or not). It never exceeds one in any reachable state, so from the moment a
   task obtains an upgradable or write guard, through every conversion (each conversion maps one
   holder to one holder in a single step), until the resulting guard is dropped, no other task
   holds a write or upgradable guard or has announced a write. *)
From AL Require Import Base Api Mutex RwLock RwApi RwInv.
From AL.Tie Require Tie_Mutex Tie_Raw Tie_RwLock Tie_RwFutures.
From AL.Sched Require RwSched RwSchedConv.

Theorem C11_single_converter_hist : forall ops : list rop,
  N.of_nat (length ops) < OPS_BOUND ->
  nU (rrun ops) + nW (rrun ops) + nH (rrun ops) <= 1.
Proof. exact rw_single_converter. Qed.

(* the value changes only through a write guard (whose holder is that unique converter) *)
Theorem C11_value_frame : forall x o,
  r_val (fst (rstep x o)) <> r_val x ->
  exists g a, o = RBump g /\ alookup g (r_guards x) = Some (GW, a).
Proof. exact value_changes_only_by_writer. Qed.

(* while an upgrade is pending (or a writer has announced itself, or a write guard is alive),
   try_read / try_upgradable_read / try_write all fail *)
Theorem C11_pending_upgrade_excludes : forall ops k arc,
  N.of_nat (length ops) < OPS_BOUND ->
  r_handles (rrun ops) <> 0%nat ->
  1 <= nW (rrun ops) + nH (rrun ops) ->
  o_res (snd (rstep (rrun ops) (RTry k arc))) = RNone.
Proof.
  intros ops k arc B Hh H1.
  apply try_fails_when_writer; auto; [apply run_RInv | apply run_small]; exact B.
Qed.

Example C11_nonvacuous :
  let x := rrun [RTry KUpRead true; RTry KRead false; RUpgrade 0; RPoll 0 0; RStart KWrite false; RPoll 1 0] in
  nH x = 1 /\ nU x = 0 /\ nW x = 0 /\ nR x = 1 /\ o_res (snd (rstep x (RTry KRead false))) = RNone.
Proof. vm_compute. repeat split. Qed.

(* ---------- schedule half: every interleaving of the atomic operations on the state word ---------- *)
(* On the machine of C02_excl_sched (Sched/RwSched.v: any number of threads, every schedule, each conversion ONE atomic
   action that keeps the inner mutex — upgrade() = fetch_sub(ONE_READER - WRITER_BIT), try_upgrade =
   compare_exchange(ONE_READER, WRITER_BIT), the downgrades = fetch_add(ONE_READER - WRITER_BIT); pinned by Tie_Raw):
   in every reachable state at most one thread is an upgradable reader, a pending upgrader, an announced writer or a
   writer, and that thread holds the inner mutex ... *)
Theorem C11_single_converter_sched : forall (n : nat) (sched : list (nat * RwSched.raction)),
  let g := RwSched.rrun_s n sched in
  RwSched.cnt RwSched.fU (RwSched.rg_thr g) + RwSched.cnt RwSched.fA (RwSched.rg_thr g) <= 1 /\ forall i ti, nth_error (RwSched.rg_thr g) i = Some ti -> RwSchedConv.has_role ti = true ->
    RwSched.rt_m ti = true /\ RwSched.rg_m g = true.
Proof. exact RwSchedConv.rw_sched_single_converter. Qed.

(* ... and while it is, the attempts of every OTHER thread to take the inner mutex, to become an upgradable reader
   (with any expected value), to announce itself as a writer, to try_write, or to convert, change nothing: there is no
   instant — before, between or after the conversion steps — at which another writer or upgradable reader gets in *)
Theorem C11_converter_excludes_sched : forall (n : nat) (sched : list (nat * RwSched.raction)) (i : nat) (ti : RwSched.rtst) (j : nat),
  let g := RwSched.rrun_s n sched in
  nth_error (RwSched.rg_thr g) i = Some ti -> RwSchedConv.has_role ti = true -> j <> i ->
  RwSched.rstep g j RwSched.RMutexLock = g /\ (forall c, RwSched.rstep g j (RwSched.RUpCas c) = g) /\ RwSched.rstep g j RwSched.RAnnounce = g /\ RwSched.rstep g j RwSched.RTryWriteCas = g /\ RwSched.rstep g j RwSched.RUpgradeStart = g /\ RwSched.rstep g j RwSched.RTryUpgrade = g /\ RwSched.rstep g j RwSched.RDowngradeWrite = g /\ RwSched.rstep g j RwSched.RDowngradeToUp = g.
Proof. exact RwSchedConv.rw_sched_converter_excludes. Qed.

(* non-vacuity: thread 0 is an upgradable reader, starts an upgrade while thread 1 reads; thread 2 tries everything in
   between and nothing changes; the reader leaves, the upgrade completes, is downgraded to upgradable again *)
Example C11_sched_nonvacuous :
  let pre := [(0, RwSched.RMutexLock); (0, RwSched.RUpCas 0); (1, RwSched.RReadCas 2); (0, RwSched.RUpgradeStart)]%nat in
  let g := RwSched.rrun_s 3 pre in
  RwSched.rg_w g = 3 /\ RwSched.cnt RwSched.fA (RwSched.rg_thr g) = 1 /\ RwSched.rstep g 2 RwSched.RMutexLock = g /\ RwSched.rstep g 2 RwSched.RTryWriteCas = g /\ RwSched.rstep g 2 (RwSched.RReadCas 2) = g /\ (let g2 := RwSched.rrun_s 3 (pre ++ [(1, RwSched.RReadUnlock); (0, RwSched.RObserve); (0, RwSched.RDowngradeToUp)]%nat) in
  RwSched.rg_w g2 = 2 /\ RwSched.cnt RwSched.fU (RwSched.rg_thr g2) = 1 /\ RwSched.cnt RwSched.fW (RwSched.rg_thr g2) = 0 /\ RwSched.rg_m g2 = true).
Proof. vm_compute. repeat split. Qed.

Print Assumptions C11_single_converter_hist.
Print Assumptions C11_value_frame.
Print Assumptions C11_pending_upgrade_excludes.
Print Assumptions C11_single_converter_sched.
Print Assumptions C11_converter_excludes_sched.
