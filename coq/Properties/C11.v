(* C11 — RwLock: upgrade, try_upgrade and the downgrades are atomic transitions (history half).
   [nU + nW + nH] counts the holders of the single "converter slot": an upgradable guard, a
   write guard, a write() future that has announced itself and waits for readers, a pending
   upgrade (polled or not). It never exceeds one in any reachable state, so from the moment a
   task obtains an upgradable or write guard, through every conversion (each conversion maps one
   holder to one holder in a single step), until the resulting guard is dropped, no other task
   holds a write or upgradable guard or has announced a write. *)
From AL Require Import Base Api Mutex RwLock RwApi RwInv.
From AL.Tie Require Tie_Mutex Tie_Raw Tie_RwLock Tie_RwFutures.

Theorem C11_single_converter_hist : forall ops : list rop,
  N.of_nat (length ops) < OPS_BOUND ->
  nU (rrun ops) + nW (rrun ops) + nH (rrun ops) <= 1.
Proof. exact rw_single_converter. Qed.

(* the value changes only through a write guard (whose holder is that unique converter) *)
Theorem C11_value_frame : forall x o,
  r_val (fst (rstep x o)) <> r_val x ->
  exists g a, o = RBump g /\ alookup g (r_guards x) = Some (GW, a).
Proof. exact value_changes_only_by_writer. Qed.

(* while an upgrade is pending (or a writer has announced itself, or a write guard is alive),
   try_read / try_upgradable_read / try_write all fail *)
Theorem C11_pending_upgrade_excludes : forall ops k arc,
  N.of_nat (length ops) < OPS_BOUND ->
  r_handles (rrun ops) <> 0%nat ->
  1 <= nW (rrun ops) + nH (rrun ops) ->
  o_res (snd (rstep (rrun ops) (RTry k arc))) = RNone.
Proof.
  intros ops k arc B Hh H1.
  apply try_fails_when_writer; auto; [apply run_RInv | apply run_small]; exact B.
Qed.

Example C11_nonvacuous :
  let x := rrun [RTry KUpRead true; RTry KRead false; RUpgrade 0; RPoll 0 0; RStart KWrite false; RPoll 1 0] in
  nH x = 1 /\ nU x = 0 /\ nW x = 0 /\ nR x = 1 /\ o_res (snd (rstep x (RTry KRead false))) = RNone.
Proof. vm_compute. repeat split. Qed.

Print Assumptions C11_single_converter_hist.
Print Assumptions C11_value_frame.
Print Assumptions C11_pending_upgrade_excludes.
