(* C14 — try_* operations are exact when uncontended and never wait (history half).
   In every reachable state of every history the result of each try_* is characterised exactly by
   the state words, and through the counting invariants by what is alive:
     try_lock(_arc)            = Some  <->  no guard alive and no starved lock operation pending
     try_read(_arc)            = Some  <->  no write guard, no announced writer, no pending upgrade
     try_upgradable_read(_arc) = Some  <->  inner mutex word = 0 (nobody holds or is queued-and-starved on it)
     try_write(_arc)           = Some  <->  inner mutex word = 0 and state = 0
     try_upgrade               = Ok    <->  no other reader alive
     try_acquire(_arc)         = Some  <->  a permit is available
   The try_* functions contain no listen / strategy.poll site (pinned by the Tie lemmas imported below,
   which fix their site lists); "never registers" at run time is monitored on the implementation. *)
From AL Require Import Base Api Mutex MutexApi Semaphore SemApi RwLock RwApi MutexInv SemCount RwInv.
From AL.Tie Require Tie_Mutex Tie_Semaphore Tie_Raw Tie_RwLock Tie_RwFutures.
From AL.Sched Require RwSched RwSchedConv SemSched MutexSched.

Theorem C14_try_lock_exact : forall (ops : list mop) arc,
  N.of_nat (length ops) < MutexInv.OPS_BOUND -> m_handles (mrun ops) <> 0%nat ->
  (o_res (snd (mstep (mrun ops) (MTry arc))) = RSome (m_ng (mrun ops)) <->
   (m_guards (mrun ops) = [] /\ tickets (m_futs (mrun ops)) = 0)).
Proof. intros ops arc B H. apply try_lock_exact; auto. apply MutexInv.run_WInv; exact B. Qed.

Theorem C14_try_lock_total : forall (ops : list mop) arc,
  N.of_nat (length ops) < MutexInv.OPS_BOUND -> m_handles (mrun ops) <> 0%nat ->
  o_res (snd (mstep (mrun ops) (MTry arc))) =
  if sw0 (m_sh (mrun ops)) =? 0 then RSome (m_ng (mrun ops)) else RNone.
Proof. intros ops arc B H. apply try_result; auto. apply MutexInv.run_WInv; exact B. Qed.

Theorem C14_try_acquire_exact : forall (n : N) (ops : list sop) (arc : bool),
  s_handles (srun n ops) <> 0%nat ->
  o_res (snd (sstep (srun n ops) (STry arc))) =
  (if 0 <? sw0 (s_sh (srun n ops)) then RSome (s_ng (srun n ops)) else RNone).
Proof. intros n ops arc. exact (try_exact (srun n ops) arc). Qed.

Theorem C14_try_read_exact : forall (ops : list rop) arc,
  N.of_nat (length ops) < RwInv.OPS_BOUND -> r_handles (rrun ops) <> 0%nat ->
  o_res (snd (rstep (rrun ops) (RTry KRead arc))) =
  if nW (rrun ops) + nH (rrun ops) =? 0 then RSome (r_ng (rrun ops)) else RNone.
Proof. intros ops arc B H. apply try_read_result; auto; [apply run_RInv | apply run_small]; exact B. Qed.

Theorem C14_try_upgradable_read_exact : forall (ops : list rop) arc,
  N.of_nat (length ops) < RwInv.OPS_BOUND -> r_handles (rrun ops) <> 0%nat ->
  o_res (snd (rstep (rrun ops) (RTry KUpRead arc))) =
  if sw0 (r_sh (rrun ops)) =? 0 then RSome (r_ng (rrun ops)) else RNone.
Proof. intros ops arc B H. apply try_upread_result; auto; [apply run_RInv | apply run_small]; exact B. Qed.

Theorem C14_try_write_exact : forall (ops : list rop) arc,
  N.of_nat (length ops) < RwInv.OPS_BOUND -> r_handles (rrun ops) <> 0%nat ->
  o_res (snd (rstep (rrun ops) (RTry KWrite arc))) =
  if (sw0 (r_sh (rrun ops)) =? 0) && (sw1 (r_sh (rrun ops)) =? 0) then RSome (r_ng (rrun ops)) else RNone.
Proof. intros ops arc B H. apply try_write_result; auto; [apply run_RInv | apply run_small]; exact B. Qed.

Theorem C14_try_upgrade_exact : forall (ops : list rop) g arc,
  N.of_nat (length ops) < RwInv.OPS_BOUND ->
  alookup g (r_guards (rrun ops)) = Some (GU, arc) ->
  (o_res (snd (rstep (rrun ops) (RTryUpgrade g))) = RSome g <-> nR (rrun ops) = 0).
Proof. intros ops g arc B L. apply (try_upgrade_exact _ g arc); auto. apply run_RInv; exact B. Qed.

(* with nothing alive every try_* succeeds *)
Theorem C14_free_lock_succeeds : forall (ops : list rop) k arc,
  N.of_nat (length ops) < RwInv.OPS_BOUND -> r_handles (rrun ops) <> 0%nat ->
  r_futs (rrun ops) = [] -> r_guards (rrun ops) = [] ->
  o_res (snd (rstep (rrun ops) (RTry k arc))) = RSome (r_ng (rrun ops)).
Proof.
  intros ops k arc B H F G.
  pose proof (run_RInv ops B) as I. pose proof I as (Q1 & Q0 & _).
  unfold nR, nU, nW, nH, nT in *. rewrite F, G in *. cbn in Q1, Q0.
  destruct k.
  - rewrite C14_try_read_exact by auto. unfold nW, nH. rewrite F, G. reflexivity.
  - rewrite C14_try_upgradable_read_exact by auto. rewrite Q0. reflexivity.
  - rewrite C14_try_write_exact by auto. rewrite Q0, Q1. reflexivity.
Qed.

Example C14_nonvacuous :
  let x := rrun [RTry KRead false; RTry KUpRead false] in
  o_res (snd (rstep x (RTryUpgrade 1))) = RNone /\ nR x = 1 /\
  o_res (snd (rstep x (RTry KWrite false))) = RNone /\ o_res (snd (rstep x (RTry KRead false))) = RSome 2%nat.
Proof. vm_compute. repeat split. Qed.

(* ---------- schedule half ("never succeeds in conflict"): every interleaving of the atomic operations ---------- *)
(* On the word-level machines of C02_excl_sched / C03_conserve_sched (any number of threads, every schedule, the
   compare_exchange of a try_* attempted with ANY expected value, however stale): a try_* that changes anything found no
   conflict at that very instant. (For the Mutex this is C01_excl_sched: the word is the lock.) *)
Theorem C14_try_write_sched : forall (n : nat) (sched : list (nat * RwSched.raction)) (i : nat),
  let g := RwSched.rrun_s n sched in
  RwSched.rstep g i RwSched.RTryWriteCas <> g ->
  RwSched.cnt RwSched.fR (RwSched.rg_thr g) = 0 /\ RwSched.cnt RwSched.fU (RwSched.rg_thr g) = 0 /\ RwSched.cnt RwSched.fA (RwSched.rg_thr g) = 0 /\ RwSched.cnt RwSched.fW (RwSched.rg_thr g) = 0.
Proof. exact RwSchedConv.rw_sched_try_write_exact. Qed.
Theorem C14_try_upgrade_sched : forall (n : nat) (sched : list (nat * RwSched.raction)) (i : nat),
  let g := RwSched.rrun_s n sched in
  RwSched.rstep g i RwSched.RTryUpgrade <> g ->
  RwSched.cnt RwSched.fR (RwSched.rg_thr g) = 0 /\ RwSched.cnt RwSched.fU (RwSched.rg_thr g) = 1 /\ RwSched.cnt RwSched.fA (RwSched.rg_thr g) = 0.
Proof. exact RwSchedConv.rw_sched_try_upgrade_exact. Qed.
Theorem C14_try_read_sched : forall (n : nat) (sched : list (nat * RwSched.raction)) (i : nat) (c : N),
  let g := RwSched.rrun_s n sched in
  RwSched.rstep g i (RwSched.RReadCas c) <> g ->
  RwSched.cnt RwSched.fA (RwSched.rg_thr g) = 0 /\ RwSched.cnt RwSched.fW (RwSched.rg_thr g) = 0.
Proof. exact RwSchedConv.rw_sched_try_read_exact. Qed.
Theorem C14_try_upgradable_read_sched : forall (n : nat) (sched : list (nat * RwSched.raction)) (i : nat) (c : N),
  let g := RwSched.rrun_s n sched in
  RwSched.rstep g i (RwSched.RUpCas c) <> g ->
  RwSched.cnt RwSched.fU (RwSched.rg_thr g) = 0 /\ RwSched.cnt RwSched.fA (RwSched.rg_thr g) = 0 /\ RwSched.cnt RwSched.fW (RwSched.rg_thr g) = 0.
Proof. exact RwSchedConv.rw_sched_try_upgradable_exact. Qed.
Theorem C14_try_acquire_sched : forall (init : N) (n : nat) (sched : list (nat * SemSched.saction)) (i : nat) (c : N),
  let g := SemSched.srun init n sched in
  SemSched.sstep g i (SemSched.SCas c) <> g ->
  0 < SemSched.sg_count g /\ SemSched.sg_count (SemSched.sstep g i (SemSched.SCas c)) = SemSched.sg_count g - 1.
Proof. exact SemSched.sem_sched_try_acquire_exact. Qed.

Example C14_sched_nonvacuous :
  let g := RwSched.rrun_s 2 [(0, RwSched.RMutexLock)]%nat in
  RwSched.rstep g 0 RwSched.RTryWriteCas <> g /\ RwSched.rstep (RwSched.rrun_s 2 [(1, RwSched.RReadCas 0); (0, RwSched.RMutexLock)]%nat) 0 RwSched.RTryWriteCas =
    RwSched.rrun_s 2 [(1, RwSched.RReadCas 0); (0, RwSched.RMutexLock)]%nat.
Proof. split; [vm_compute; discriminate | vm_compute; reflexivity]. Qed.

Print Assumptions C14_try_lock_exact.
Print Assumptions C14_try_acquire_exact.
Print Assumptions C14_try_read_exact.
Print Assumptions C14_try_upgradable_read_exact.
Print Assumptions C14_try_write_exact.
Print Assumptions C14_try_upgrade_exact.
Print Assumptions C14_free_lock_succeeds.
Print Assumptions C14_try_write_sched.
Print Assumptions C14_try_upgrade_sched.
Print Assumptions C14_try_read_sched.
Print Assumptions C14_try_upgradable_read_sched.
Print Assumptions C14_try_acquire_sched.
