(* C06 — RwLock: no lost wake-up on any release, downgrade, upgrade or cancellation (history half).
   For every history shorter than 2^61 operations over the full RwLock alphabet (read / upgradable_read /
   write / upgrade futures, borrowed and Arc, polled with any wakers, spuriously, in any order; every outcome
   of the inner mutex's starvation clock; cancellation at every point: unpolled, queued on the inner mutex,
   announced and waiting for readers, notified but not re-polled, completed but kept alive; try_read /
   try_upgradable_read / try_write / try_upgrade; the three downgrades; guard drops; Arc handles), in every
   reachable state in which every task whose waker was called has been polled again (quiescent):
     (a) no guard alive (and every upgrade future polled at least once)  =>  nothing is pending;
     (b) no write guard and no announced writer / upgrader               =>  no read() is pending;
     (c) no write or upgradable guard and no announced writer            =>  nothing waits for the inner mutex:
         no upgradable_read() and no write() is pending (a fortiori nothing else);
     (d) no guard alive at all                                           =>  no write() / upgrade is left announced.
   nW / nU / nR count the write / upgradable / read guards alive, nH the announced writers (a write() in its
   WaitingReaders phase or an upgrade future that still owns the lock; at most one of nU, nW, nH is 1 — C11).
   All four follow from C06_invariant: the ownership invariant of lock_ops, no_readers and no_writer plus
   the three availability conditions. The code proved is the repaired one (fix commits F1–F3, see known_findings.json). *)
From AL Require Import Base Api Mutex RwLock RwApi RwInv RwLive.
From AL.Tie Require Tie_Raw Tie_RwLock Tie_RwFutures Tie_Mutex.
From AL.Sched Require RwReadEvSched RwReadEvInv RwReadEvOrd RwWriteEvSched RwWriteEvInv RwWriteEvOrd RwComp RwComp3 MutexEvSched MutexEvInv MutexEvOrd.

Theorem C06_idle_nothing_pending : forall ops : list rop, N.of_nat (length ops) < RLIVE_BOUND ->
  let x := rrun ops in quiescent x -> r_guards x = [] -> no_unpolled_upgrade x ->
  forall fid f, alookup fid (r_futs x) = Some f -> fm_st (rf_meta f) <> FPending.
Proof. exact rw_idle_nothing_pending. Qed.

Theorem C06_readers_not_blocked : forall ops : list rop, N.of_nat (length ops) < RLIVE_BOUND ->
  let x := rrun ops in quiescent x -> nW x = 0 -> nH x = 0 ->
  forall fid f c l, alookup fid (r_futs x) = Some f -> rf_st f = FRead c l -> fm_st (rf_meta f) <> FPending.
Proof. exact rw_readers_not_blocked. Qed.

Theorem C06_mutex_free_nothing_waits : forall ops : list rop, N.of_nat (length ops) < RLIVE_BOUND ->
  let x := rrun ops in quiescent x -> nU x = 0 -> nW x = 0 -> nH x = 0 ->
  forall fid f, alookup fid (r_futs x) = Some f -> fm_st (rf_meta f) = FPending ->
  match rf_st f with FUpRead _ => False | FWrite _ _ => False | FUpgrade _ _ => False | FRead _ _ => False end.
Proof. exact rw_mutex_waiters_not_blocked. Qed.

Theorem C06_writer_not_blocked : forall ops : list rop, N.of_nat (length ops) < RLIVE_BOUND ->
  let x := rrun ops in quiescent x -> nR x = 0 -> nU x = 0 -> nW x = 0 -> no_unpolled_upgrade x -> nH x = 0.
Proof. exact rw_writer_not_blocked. Qed.

Theorem C06_invariant : forall ops : list rop, N.of_nat (length ops) < RLIVE_BOUND -> RLive (rrun ops) /\ RInv (rrun ops).
Proof. exact run_RLive. Qed.

Theorem C06_no_error : forall ops : list rop, N.of_nat (length ops) < RLIVE_BOUND -> serr (r_sh (rrun ops)) = false.
Proof. exact rw_no_error. Qed.

(* non-vacuity: a writer holds; a reader, an upgradable reader and a second writer queue up; the writer
   downgrades to upgradable (F1: this must wake the reader): not quiescent, reader flagged woken *)
Example C06_nonvacuous :
  let x := rrun [RTry KWrite false; RStart KRead false; RStart KUpRead false; RStart KWrite true; RPoll 0 0; RPoll 1 0; RPoll 2 0; RDowngradeUp 0] in
  ~ quiescent x /\ (exists f, alookup 0%nat (r_futs x) = Some f /\ fm_woken (rf_meta f) = true) /\
  o_res (snd (rstep x (RPoll 0 1))) = RReady 1%nat.
Proof.
  vm_compute. split.
  - intro Q. apply (Q 0%nat _ eq_refl). split; reflexivity.
  - split; [eexists; split; reflexivity | reflexivity].
Qed.

(* ---------- schedule half, clause (b): every interleaving of atomic actions ---------- *)
(* The micro-step machine of Sched/RwReadEvSched.v cuts every poll of a read() future at each atomic action
   (compare_exchange, listen, the two loads of the word, the poll of the listener, notify(1), the drop of the listener);
   writers are abstract (WRITER_BIT is set at any time it is clear, cleared at any time it is set, the clearing thread
   owing no_writer.notify(1)); any number of futures and writers; polls start at any time; what a future saw when it
   was created is arbitrary. [gen_rd_bt] says which machine the source is (read from Gen/Sites.v).
   For EVERY schedule: in a state in which WRITER_BIT is clear (no write guard alive and no writer or upgrader past the
   inner mutex), no thread is inside a poll or between clearing the bit and its notify, and every future whose waker
   was called has been polled again, no polled read() waits. *)
Theorem C06_sched_readers : forall (sched : list RwReadEvSched.act) (nfuts : nat),
  RwReadEvSched.lostb (RwReadEvSched.run RwReadEvSched.gen_rd_bt nfuts sched) = false.
Proof. rewrite RwReadEvOrd.rd_bt_premise. exact RwReadEvInv.rw_read_sched_no_lost_wakeup. Qed.

Theorem C06_sched_readers_inflight : forall (sched : list RwReadEvSched.act) (nfuts : nat),
  let s := RwReadEvSched.run RwReadEvSched.gen_rd_bt nfuts sched in
  RwReadEvSched.g_wb s = false -> RwReadEvInv.needy s = true -> RwReadEvInv.inflight s = true.
Proof. rewrite RwReadEvOrd.rd_bt_premise. exact RwReadEvInv.rw_read_sched_inflight. Qed.

(* ---------- schedule half, clause (d) ---------- *)
(* The micro-step machine of Sched/RwWriteEvSched.v: the reader count, WRITER_BIT and the event no_readers at
   atomic-action granularity; a write() past the inner mutex (fetch_or) and an upgrade() (fetch_sub that sets the bit and
   removes the upgrader's own count) run the same loop, cut at its load, listen, the poll of the listener and the drop
   of the listener; a reader leaving is cut between its fetch_sub and its notify(1); cancellation = write_unlock, then the
   listener; the inner mutex is abstract (at most one future between its fetch_or / fetch_sub and the end of its guard).
   For EVERY schedule: when no reader is left, nothing is in flight and every woken future has been polled again, no
   polled write() / upgrade() waits on no_readers. *)
Theorem C06_sched_writer : forall (sched : list RwWriteEvSched.act) (readers : N) (nfuts : nat),
  RwWriteEvSched.lostb (RwWriteEvSched.run RwWriteEvSched.gen_wr_bt readers nfuts sched) = false.
Proof. rewrite RwWriteEvOrd.wr_bt_premise. exact RwWriteEvInv.rw_write_sched_no_lost_wakeup. Qed.

Theorem C06_sched_writer_prefix_refuted :
  RwWriteEvSched.lostb (RwWriteEvSched.run false 1 2 (RwWriteEvSched.f2c_schedule false)) = true.
Proof. exact RwWriteEvInv.rw_write_sched_prefix_refuted. Qed.

(* ---------- the two sides TOGETHER on one WRITER_BIT (Sched/RwComp.v) ---------- *)
(* A composed action is translated, depending on the composed state, into the actions of the two machines that the
   corresponding atomic step of the code consists of (a reader's successful compare_exchange is also the writer side's
   ARead; write()'s fetch_or / upgrade()'s fetch_sub is also the reader side's AWSet; write_unlock of a guard or of a
   cancelled future, and the downgrades, are also AWClear, ...). Each component of a composed run is a run of that
   component's machine, so both theorems above hold of it; the two copies of WRITER_BIT agree and equal "some future is
   past the inner mutex" (coherence), which turns clause (b) into a statement about writers:
   for every composed schedule, with NO write() / upgrade() future between its fetch_or / fetch_sub and the end of its
   write guard, and the reader side at rest, no polled read() waits; with no reader left and the writer side at rest, no
   polled write() / upgrade() waits. The inner mutex stays abstract (clause (c) is C05_sched, below). *)
Theorem C06_sched_composed : forall (nr nw : nat) (sched : list RwComp.cact),
  let s := RwComp.crun nr nw sched in
  (RwWriteEvInv.cntb RwWriteEvInv.actpc (RwWriteEvSched.g_futs (RwComp.cW s)) = 0 ->
   RwReadEvSched.quiescentb (RwComp.cR s) = true -> existsb RwReadEvSched.parkedb (RwReadEvSched.g_futs (RwComp.cR s)) = false) /\
  (RwWriteEvSched.g_rd (RwComp.cW s) = 0 ->
   RwWriteEvSched.quiescentb (RwComp.cW s) = true -> existsb RwWriteEvSched.parkedb (RwWriteEvSched.g_futs (RwComp.cW s)) = false) /\
  RwReadEvSched.g_wb (RwComp.cR s) = RwWriteEvSched.g_wb (RwComp.cW s) /\
  RwWriteEvSched.g_act (RwComp.cW s) = RwWriteEvSched.g_wb (RwComp.cW s).
Proof.
  intros nr nw sched s. split; [exact (RwComp.rw_comp_readers nr nw sched)|]. split; [exact (RwComp.rw_comp_writer nr nw sched)|].
  exact (RwComp.crun_Coh nr nw sched).
Qed.
Example C06_sched_composed_nonvacuous :
  let s := RwComp.crun 2 1 [RwComp.CRPoll 0 false; RwComp.CRStep 0 false; RwComp.CRStep 0 false;
                            RwComp.CWEnter 0 false; RwComp.CWStep 0; RwComp.CWStep 0; RwComp.CWStep 0; RwComp.CWStep 0;
                            RwComp.CRPoll 1 true; RwComp.CRStep 1 false; RwComp.CRStep 1 false; RwComp.CRStep 1 false;
                            RwComp.CRUnlock; RwComp.CPendNR; RwComp.CWPoll 0; RwComp.CWStep 0; RwComp.CWStep 0;
                            RwComp.CWUnlock 0; RwComp.CPendNW; RwComp.CRPoll 1 true; RwComp.CRStep 1 false; RwComp.CRStep 1 false;
                            RwComp.CRStep 1 false; RwComp.CRStep 1 false; RwComp.CRStep 1 false] in
  RwReadEvSched.g_wb (RwComp.cR s) = false /\ RwWriteEvSched.g_rd (RwComp.cW s) = 1 /\
  option_map RwReadEvSched.fpc (RwReadEvSched.getf (RwComp.cR s) 1) = Some RwReadEvSched.RDone /\
  option_map RwWriteEvSched.fpc (RwWriteEvSched.getf (RwComp.cW s) 0) = Some RwWriteEvSched.WGone.
Proof. exact RwComp.rw_comp_example. Qed.

(* ---------- ALL THREE machines together (Sched/RwComp3.v): reader side, writer side and the inner mutex ---------- *)
(* The product of the three micro-step machines, with counters for what is alive outside them (read guards, upgradable
   guards, lock futures that hold the mutex and have not yet taken their next step, threads that owe the mutex's
   fetch_sub(1)). Every component of a composed run is a run of its machine; the coherence invariant ties the two copies
   of WRITER_BIT, the reader count and the guards of the inner mutex to what is alive. For EVERY composed schedule:
   (a) nothing alive (no read / upgradable / write guard, nobody past the mutex, nobody owing an unlock or in the middle of
       an acquisition) and all three sides at rest  ==>  NOTHING waits: no read(), no write() / upgrade(), and no write() /
       upgradable_read() queued on the inner mutex;
   (b) nobody past the inner mutex and the reader side at rest  ==>  no read() waits;
   (c) no upgradable guard, nobody past the mutex, nobody owing an unlock / mid-acquisition, the mutex side at rest  ==>
       nothing waits for the inner mutex;
   (d) no reader of any kind left and the writer side at rest  ==>  no write() / upgrade() waits. *)
Theorem C06_sched_all_idle : forall (nr nw nm : nat) (sched : list RwComp3.xact),
  let s := RwComp3.xrun nr nw nm sched in
  RwComp3.k_rd s = 0 -> RwComp3.k_up s = 0 -> RwComp3.k_owe s = 0 -> RwComp3.k_hold s = 0 -> RwComp3.no_writer_alive s ->
  RwReadEvSched.quiescentb (RwComp3.kR s) = true -> RwWriteEvSched.quiescentb (RwComp3.kW s) = true -> MutexEvSched.quiescentb (RwComp3.kM s) = true ->
  existsb RwReadEvSched.parkedb (RwReadEvSched.g_futs (RwComp3.kR s)) = false /\
  existsb RwWriteEvSched.parkedb (RwWriteEvSched.g_futs (RwComp3.kW s)) = false /\
  existsb MutexEvSched.parked (MutexEvSched.g_futs (RwComp3.kM s)) = false.
Proof. exact RwComp3.rw3_idle. Qed.
Theorem C06_sched_all_readers : forall (nr nw nm : nat) (sched : list RwComp3.xact),
  let s := RwComp3.xrun nr nw nm sched in
  RwWriteEvSched.g_act (RwComp3.kW s) = false -> RwReadEvSched.quiescentb (RwComp3.kR s) = true ->
  existsb RwReadEvSched.parkedb (RwReadEvSched.g_futs (RwComp3.kR s)) = false.
Proof. exact RwComp3.rw3_readers. Qed.
Theorem C06_sched_all_mutex : forall (nr nw nm : nat) (sched : list RwComp3.xact),
  let s := RwComp3.xrun nr nw nm sched in
  RwComp3.k_up s = 0 -> RwComp3.k_owe s = 0 -> RwComp3.k_hold s = 0 -> RwWriteEvSched.g_act (RwComp3.kW s) = false ->
  MutexEvSched.quiescentb (RwComp3.kM s) = true -> existsb MutexEvSched.parked (MutexEvSched.g_futs (RwComp3.kM s)) = false.
Proof. exact RwComp3.rw3_mutex_free. Qed.
Theorem C06_sched_all_writer : forall (nr nw nm : nat) (sched : list RwComp3.xact),
  let s := RwComp3.xrun nr nw nm sched in
  RwComp3.k_rd s = 0 -> RwComp3.k_up s = 0 -> RwWriteEvSched.quiescentb (RwComp3.kW s) = true ->
  existsb RwWriteEvSched.parkedb (RwWriteEvSched.g_futs (RwComp3.kW s)) = false /\
  (RwComp3.no_writer_alive s -> RwWriteEvSched.g_act (RwComp3.kW s) = false /\ RwReadEvSched.g_wb (RwComp3.kR s) = false).
Proof. exact RwComp3.rw3_writer_side. Qed.
(* the coherence invariant itself, and: each component of a composed run is a run of its own machine *)
Theorem C06_sched_all_coherent : forall (nr nw nm : nat) (sched : list RwComp3.xact),
  RwComp3.Comp nr nw nm (RwComp3.xrun nr nw nm sched) /\ RwComp3.Coh (RwComp3.xrun nr nw nm sched).
Proof. exact RwComp3.xrun_inv. Qed.
Example C06_sched_all_nonvacuous :
  let mid := RwComp3.xrun 2 1 2 (firstn 19 RwComp3.rw3_example_schedule) in
  let fin := RwComp3.xrun 2 1 2 RwComp3.rw3_example_schedule in
  (RwComp3.k_rd mid = 1 /\ map RwReadEvSched.fpc (RwReadEvSched.g_futs (RwComp3.kR mid)) = [RwReadEvSched.RDone; RwReadEvSched.RParked] /\
   map RwWriteEvSched.fpc (RwWriteEvSched.g_futs (RwComp3.kW mid)) = [RwWriteEvSched.WParked] /\
   map MutexEvSched.fpc (MutexEvSched.g_futs (RwComp3.kM mid)) = [MutexEvSched.PDone; MutexEvSched.PParked] /\
   MutexEvSched.g_w (RwComp3.kM mid) = 1 /\ RwReadEvSched.g_wb (RwComp3.kR mid) = true) /\
  (RwComp3.k_rd fin = 0 /\ RwComp3.k_up fin = 0 /\ RwComp3.k_owe fin = 0 /\ RwComp3.k_hold fin = 0 /\
   RwReadEvSched.quiescentb (RwComp3.kR fin) = true /\ RwWriteEvSched.quiescentb (RwComp3.kW fin) = true /\ MutexEvSched.quiescentb (RwComp3.kM fin) = true /\
   map RwReadEvSched.fpc (RwReadEvSched.g_futs (RwComp3.kR fin)) = [RwReadEvSched.RDone; RwReadEvSched.RDone] /\
   map RwWriteEvSched.fpc (RwWriteEvSched.g_futs (RwComp3.kW fin)) = [RwWriteEvSched.WGone] /\
   map MutexEvSched.fpc (MutexEvSched.g_futs (RwComp3.kM fin)) = [MutexEvSched.PDone; MutexEvSched.PDone] /\ MutexEvSched.g_w (RwComp3.kM fin) = 0).
Proof. exact RwComp3.rw3_example. Qed.

(* writers and upgradable readers queue on the inner mutex, which is the Mutex of C05: its schedule-level theorem
   (clause (c): with the inner mutex free nothing waits on it) is C05_sched, restated here for the record *)
Theorem C06_sched_inner_mutex : forall (sched : list MutexEvSched.act) (nfuts : nat),
  MutexEvSched.lostb (MutexEvSched.run MutexEvSched.gen_mutex_bt nfuts sched) = false.
Proof. rewrite MutexEvOrd.mutex_bt_premise. exact MutexEvInv.mutex_sched_no_lost_wakeup. Qed.

(* teeth: the machine without the listener drop (the code before fix 40a2a26, finding F2b) loses a wake-up *)
Theorem C06_sched_readers_prefix_refuted :
  RwReadEvSched.lostb (RwReadEvSched.run false 2 (RwReadEvSched.f2b_schedule false)) = true.
Proof. exact RwReadEvInv.rw_read_sched_prefix_refuted. Qed.

Print Assumptions C06_idle_nothing_pending.
Print Assumptions C06_readers_not_blocked.
Print Assumptions C06_mutex_free_nothing_waits.
Print Assumptions C06_writer_not_blocked.
Print Assumptions C06_invariant.
Print Assumptions C06_no_error.
Print Assumptions C06_sched_readers.
Print Assumptions C06_sched_readers_inflight.
Print Assumptions C06_sched_inner_mutex.
Print Assumptions C06_sched_readers_prefix_refuted.
Print Assumptions C06_sched_writer.
Print Assumptions C06_sched_writer_prefix_refuted.
Print Assumptions C06_sched_composed.
Print Assumptions C06_sched_all_idle.
Print Assumptions C06_sched_all_readers.
Print Assumptions C06_sched_all_mutex.
Print Assumptions C06_sched_all_writer.
Print Assumptions C06_sched_all_coherent.
