(* RwSettle.v — C17 for the RwLock: re-polling woken futures settles after a bounded number of polls.
   Potential: Phi = (#pending flagged woken) + 2 * (#notified entries of lock_ops, no_readers, no_writer)
                    + 3 * (#pending) + (#pending operations queued on the inner mutex that are not yet starved). *)
From AL Require Import Base Api Mutex RwLock RwApi BaseFacts ApiFacts EventFacts OwnUpd MutexWord MutexPaths LockLive MutexFrame
                       RwWord RwInv RwPaths RwLive Settle LockSettle.
From Coq Require Import Lia.

Definition rh_wake (wk : list waker) (f : rfut) : rfut := mkRfut (rf_arc f) (rf_st f) (rf_owns f) (meta_wake wk (rf_meta f)).
Lemma rh_wake_meta wk f : rf_meta (rh_wake wk f) = meta_wake wk (rf_meta f). Proof. reflexivity. Qed.

Definition st_unst (st : rfutst) : N :=
  match st with
  | FUpRead (Some a) => ustar (a_starved a)
  | FWrite _ (WAcquiring (Some a)) => ustar (a_starved a)
  | _ => 0
  end.
Definition runst (f : rfut) : N := if pendb (rf_meta f) then st_unst (rf_st f) else 0.
Definition rW (x : rworld) : N := cW rfut rf_meta (r_futs x).
Definition rP (x : rworld) : N := cP rfut rf_meta (r_futs x).
Definition rU (x : rworld) : N := asum runst (r_futs x).
Definition sN3 (s : sh) : N := cN (se0 s) + cN (se1 s) + cN (se2 s).
Definition rPhi (x : rworld) : N := rW x + 2 * sN3 (r_sh x) + 3 * rP x + rU x.
Definition rWOK (x : rworld) : Prop := wakers_ok rfut rf_meta (r_futs x).

Lemma r_wake_all_eq wk x : r_futs (r_wake_all wk x) = wake_all rfut rh_wake wk (r_futs x).
Proof. reflexivity. Qed.

Lemma runst_wake wk f : runst (rh_wake wk f) = runst f.
Proof.
  unfold runst, pendb. cbn [rf_meta rf_st rh_wake]. unfold meta_wake. destruct (fm_st (rf_meta f)) eqn:S; try (rewrite S; reflexivity).
  destruct (fm_w (rf_meta f)) as [w|]; [|rewrite S; reflexivity]. destruct (mem_nat w wk); [reflexivity | rewrite S; reflexivity].
Qed.
Lemma rU_wake wk l : asum runst (wake_all rfut rh_wake wk l) = asum runst l.
Proof. unfold wake_all. induction l as [|[k f] l IH]; cbn [map asum fst snd]; [reflexivity|]. rewrite runst_wake, IH. reflexivity. Qed.

(* the futures list through one operation of the RwLock machine *)
Lemma rWOK_step x o : rWOK x -> rWOK (fst (rstep x o)).
Proof.
  intro WO. unfold rstep. set (x0 := r_upd x (set_wk [] (r_sh x)) (r_futs x) (r_guards x)).
  assert (W0' : rWOK x0) by exact WO.
  assert (CORE : rWOK (fst (rstep_core x0 o))).
  { revert W0'. generalize x0. clear. intros x WO. unfold rstep_core. destruct o; cbv beta iota zeta.
    - destruct (Nat.eqb (r_handles x) 0); [exact WO|]. cbn [fst]. unfold rWOK. cbn [r_futs r_bump_f r_upd]. apply wakers_ok_app; [exact WO | reflexivity].
    - destruct (alookup g (r_guards x)) as [[[| |] arc]|]; try exact WO. cbn [fst]. unfold rWOK. cbn [r_futs r_bump_f r_upd]. apply wakers_ok_app; [exact WO | reflexivity].
    - destruct (alookup f (r_futs x)) as [fu|] eqn:L; [|exact WO].
      destruct (fstatus_eqb (fm_st (rf_meta fu)) FDone || Nat.leb 4 k) eqn:V; [exact WO|].
      apply Bool.orb_false_iff in V. destruct V as (_ & V2). apply Nat.leb_gt in V2.
      destruct (rfut_poll (wtag f k) (rf_st fu) (r_sh x)) as [[st s'] r].
      assert (G : forall own m, wakers_ok rfut rf_meta (aupdate f (mkRfut (rf_arc fu) st own (mkMeta m (Some (wtag f k)) false)) (r_futs x))).
      { intros own m. apply wakers_ok_aupdate; [exact WO|]. intros w Hw. cbn in Hw. inversion Hw. exists k. split; [exact V2 | reflexivity]. }
      destruct r as [gk|]; [destruct (rf_arc fu && negb (rf_owns fu))|]; apply G.
    - destruct (alookup f (r_futs x)) as [fu|] eqn:L; [|exact WO].
      assert (G : wakers_ok rfut rf_meta (aremove f (r_futs x))) by (apply wakers_ok_aremove; exact WO).
      destruct (rf_owns fu); exact G.
    - destruct (Nat.eqb (r_handles x) 0); [exact WO|].
      destruct (match k with KRead => rw_try_read (r_sh x) | KUpRead => rw_try_upgradable_read (r_sh x) | KWrite => rw_try_write (r_sh x) end) as [s' ok].
      destruct ok; [destruct arc|]; exact WO.
    - destruct (alookup g (r_guards x)) as [[[| |] arc]|]; try exact WO. destruct (rw_try_upgrade (r_sh x)) as [s' ok]. destruct ok; exact WO.
    - destruct (alookup g (r_guards x)) as [[[| |] arc]|]; exact WO.
    - destruct (alookup g (r_guards x)) as [[[| |] arc]|]; exact WO.
    - destruct (alookup g (r_guards x)) as [[gk arc]|]; [|exact WO]. destruct arc; exact WO.
    - destruct (alookup g (r_guards x)); exact WO.
    - destruct (alookup g (r_guards x)) as [[[| |] a]|]; exact WO.
    - destruct (Nat.eqb (r_handles x) 0); exact WO.
    - destruct (Nat.eqb (r_handles x) 0); [exact WO|]. destruct (Nat.eqb (r_handles x) 1 && r_borrowed_alive x); exact WO. }
  destruct (rstep_core x0 o) as [x1 r]. cbn [fst] in *. unfold rWOK. rewrite r_wake_all_eq. apply wakers_ok_wake; [apply rh_wake_meta | exact CORE].
Qed.

(* ---------- per-kind accounting of one settle poll (store level) ---------- *)
(* read(): registered on no_writer *)
Lemma read_counts w c id s : swk s = [] ->
  match read_spec w c (Some id) s with
  | PReady _ s' => N.of_nat (length (swk s')) + 2 * sN3 s' <= 2 * sN3 s + 3
  | PPending _ s' => N.of_nat (length (swk s')) + 2 * sN3 s' <= 2 * sN3 s
  | PFuel _ _ => True
  end.
Proof.
  intro WK. unfold read_spec. pose proof (cN_remove id (se2 s)) as CR. pose proof (cN_set_task id w (se2 s)) as CS. unfold notified_at in CR, CS.
  destruct (ev_find id (se2 s)) as [[|w0|a]|] eqn:Fd.
  1,2: cbn [swk se0 se1 se2 sete]; unfold sN3; cbn [se0 se1 se2 sete]; rewrite WK, (CS eq_refl); cbn [length]; lia.
  2:{ cbn. rewrite WK. cbn. unfold sN3. cbn. lia. }
  cbv zeta. set (s1 := sete E2 (ev_remove id (se2 s)) s).
  destruct (has_writer (sw1 s)).
  - unfold RwPaths.reg. cbn [gete]. unfold sN3, s1. cbn [swk se0 se1 se2 sete set_nid]. rewrite WK, cN_app. cbn [is_notified est length]. lia.
  - destruct (notify_world2 1 false s1) as (Q2 & Qk & Q0 & Q1 & _). pose proof (notify1_count (se2 s1)) as NC.
    destruct (ev_notify 1 false (se2 s1)) as [l' ws]. cbn [fst snd] in Q2, Qk. destruct NC as (NC1 & NC2 & NC3).
    unfold sN3. cbn [swk se0 se1 se2 setw]. rewrite Q2, Qk, Q0, Q1. unfold s1 in *. cbn [swk se0 se1 se2 sete] in *. rewrite WK. cbn [app]. lia.
Qed.

(* waiting on no_readers *)
Lemma wait_counts w id s : swk s = [] ->
  let '(l', s', b) := wait_spec w (Some id) s in
  if b then N.of_nat (length (swk s')) + 2 * sN3 s' <= 2 * sN3 s + 3
  else N.of_nat (length (swk s')) + 2 * sN3 s' <= 2 * sN3 s.
Proof.
  intro WK. unfold wait_spec. destruct (sw1 s =? 1).
  - destruct (drop_proj E1 (Some id) s) as (P1 & P2 & P3 & _). cbn [gete ev_drop_opt] in P1, P2.
    pose proof (P3 E0 ltac:(discriminate)) as P30. pose proof (P3 E2 ltac:(discriminate)) as P32. cbn [gete] in P30, P32.
    pose proof (drop_count id (se1 s)) as DC. destruct (ev_drop id (se1 s)) as [l' ws]. cbn [fst snd] in P1, P2. destruct DC as (D1 & D2).
    assert (NA : notified_at id (se1 s) <= 1) by (unfold notified_at; destruct (ev_find id (se1 s)) as [[| |]|]; lia).
    unfold sN3. rewrite P1, P2, P30, P32, WK. cbn [app]. lia.
  - pose proof (cN_remove id (se1 s)) as CR. pose proof (cN_set_task id w (se1 s)) as CS. unfold notified_at in CR, CS.
    destruct (ev_find id (se1 s)) as [[|w0|a]|] eqn:Fd.
    1,2: unfold sN3; cbn [swk se0 se1 se2 sete]; rewrite WK, (CS eq_refl); cbn [length]; lia.
    + unfold RwPaths.reg. cbn [gete]. unfold sN3. cbn [swk se0 se1 se2 sete set_nid]. rewrite WK, cN_app. cbn [is_notified est length]. lia.
    + cbn. rewrite WK. cbn. unfold sN3. cbn. lia.
Qed.

(* a queued lock operation on the inner mutex *)
Lemma rlock_counts w st id s : fresh0 s -> NoDup (map eid (se0 s)) -> In id (map eid (se0 s)) -> swk s = [] -> sw0 s + 2 < USZ ->
  let '(l', s', r) := lock_poll W0 E0 w (Some (mkAcq true (Some id) st)) s in
  se1 s' = se1 s /\ se2 s' = se2 s /\ sw1 s' = sw1 s /\ (snid s <= snid s')%nat /\
  (if r then N.of_nat (length (swk s')) + 2 * cN (se0 s') + 2 <= 2 * cN (se0 s) + ustar st
   else exists a', l' = Some a' /\ N.of_nat (length (swk s')) + 2 * cN (se0 s') + ustar (a_starved a') <= 2 * cN (se0 s) + ustar st).
Proof.
  intros F ND Hin WK Bd. pose proof (oth_lock_poll w (Some (mkAcq true (Some id) st)) s) as OT.
  unfold lock_poll in *. rewrite (later_paths w st id s F Hin Bd) in *.
  pose proof (lock_later_counts w st id s F ND Hin WK) as LC.
  destruct (later_spec w (mkAcq true (Some id) st) id s) as [[a' s'] r]. cbn [fst snd] in OT. destruct OT as [O1 O2 O3 O4 O5 O6].
  split; [exact O3|]. split; [exact O4|]. split; [exact O1|]. split; [exact O5|].
  destruct r; [exact LC | exists a'; split; [reflexivity | exact LC]].
Qed.

Lemma rfut_poll_counts x fid f w : RLive x -> RInv x -> rsmall2 x -> swk (r_sh x) = [] ->
  alookup fid (r_futs x) = Some f -> fm_st (rf_meta f) = FPending ->
  let '(st', s', r) := rfut_poll w (rf_st f) (r_sh x) in
  N.of_nat (length (swk s')) + 2 * sN3 s' + (match r with Some _ => 0 | None => 3 + st_unst st' end) <= 2 * sN3 (r_sh x) + st_unst (rf_st f) + 3.
Proof.
  intros HL HI B WK L P. pose proof HL as [I0 I1 I2 Sh K Er A0 A1 A2].
  destruct (word_bounds x HI B) as (B1 & B0).
  pose proof (Sh fid f L) as S0. unfold rshape1 in S0. rewrite P in S0.
  destruct (rf_st f) as [c l|l|nr ws|hl l] eqn:St.
  - (* read() *)
    destruct S0 as ((id & ->) & HC & Bc). unfold rfut_poll. change RWFUEL with (S (S (S (S 6%nat)))).
    rewrite read_paths; [|exact (ib_fresh _ _ _ _ _ _ _ I2) | clear - B1; lia | exact Bc | intros _; exact HC].
    pose proof (read_counts w c id (r_sh x) WK) as RC.
    destruct (read_spec w c (Some id) (r_sh x)) as [[c' l'] s'|[c' l'] s'|[c' l'] s'] eqn:RS; cbn [st_unst]; [lia | lia | exfalso; apply (read_spec_nofuel _ _ _ _ _ _ RS)].
  - (* upgradable_read(): queued on the inner mutex *)
    destruct S0 as (id & st & ->).
    assert (Ls : lis0 f = Some id) by (unfold lis0; rewrite St; reflexivity).
    pose proof (ib_listed _ _ _ _ _ _ _ I0 fid f id L Ls) as Hin.
    pose proof (rlock_counts w st id (r_sh x) (ib_fresh _ _ _ _ _ _ _ I0) (ib_nodup _ _ _ _ _ _ _ I0) Hin WK) as LC.
    unfold rfut_poll, upread_poll.
    destruct (lock_poll W0 E0 w (Some (mkAcq true (Some id) st)) (r_sh x)) as [[l' s1] r].
    destruct LC as (E1' & E2' & W1' & _ & LC); [rewrite USZ_val; change isize_max with 9223372036854775807 in B0; clear - B0; lia|].
    destruct r; cbn [negb].
    + cbn [getw]. rewrite W1'. destruct (isize_max <? sw1 (r_sh x)) eqn:Q; [apply N.ltb_lt in Q; clear - Q B1; lia|].
      change RFUEL with (S 7%nat). rewrite <- W1'. rewrite inc_readers_paths. unfold sN3. cbn [swk se0 se1 se2 setw]. rewrite E1', E2'. cbn [st_unst a_starved]. lia.
    + destruct LC as (a' & -> & LC). unfold sN3. rewrite E1', E2'. cbn [st_unst a_starved]. lia.
  - destruct S0 as [(-> & l & -> & (id & st & ->))|((id & ->) & ->)].
    + (* write(): still queued on the inner mutex *)
      assert (Ls : lis0 f = Some id) by (unfold lis0; rewrite St; reflexivity).
      pose proof (ib_listed _ _ _ _ _ _ _ I0 fid f id L Ls) as Hin.
      pose proof (rlock_counts w st id (r_sh x) (ib_fresh _ _ _ _ _ _ _ I0) (ib_nodup _ _ _ _ _ _ _ I0) Hin WK) as LC.
      unfold rfut_poll. change RWFUEL with (S (S (S (S 6%nat)))).
      rewrite write_acq_paths.
      2:{ intros l' s1 E. pose proof (oth_lock_poll w (Some (mkAcq true (Some id) st)) (r_sh x)) as OT. rewrite E in OT. cbn [fst snd] in OT. destruct OT as [_ _ O3 _ O5 _].
          intros i Hi. cbn [gete] in Hi. rewrite O3 in Hi. apply (ib_fresh _ _ _ _ _ _ _ I1) in Hi. lia. }
      destruct (lock_poll W0 E0 w (Some (mkAcq true (Some id) st)) (r_sh x)) as [[l' s1] r].
      destruct LC as (E1' & E2' & W1' & _ & LC); [rewrite USZ_val; change isize_max with 9223372036854775807 in B0; clear - B0; lia|].
      destruct r; cbn [negb].
      * unfold announce. destruct (sw1 s1 =? 1); [|destruct (N.lor (sw1 s1) 1 =? 1)].
        -- unfold sN3. cbn [swk se0 se1 se2 setw]. rewrite E1', E2'. cbn [st_unst a_starved]. lia.
        -- unfold sN3. cbn [swk se0 se1 se2 setw set_nid]. rewrite E1', E2'. cbn [st_unst a_starved]. lia.
        -- unfold RwPaths.reg. cbn [gete]. unfold sN3. cbn [swk se0 se1 se2 setw set_nid sete]. rewrite E1', E2', cN_app. cbn [is_notified est st_unst a_starved]. lia.
      * destruct LC as (a' & -> & LC). unfold sN3. rewrite E1', E2'. cbn [st_unst a_starved]. lia.
    + (* write(): announced, waiting for the readers *)
      unfold rfut_poll. change RWFUEL with (S (S (S 7%nat))). rewrite write_wait_paths by exact (ib_fresh _ _ _ _ _ _ _ I1).
      pose proof (wait_counts w id (r_sh x) WK) as WC. destruct (wait_spec w (Some id) (r_sh x)) as [[l' s'] b]. unfold wpres_of. destruct b; cbn [st_unst]; lia.
  - (* upgrade *)
    destruct S0 as (-> & id & ->). unfold rfut_poll. cbn [negb]. change RWFUEL with (S (S (S 7%nat))). rewrite upgrade_paths by exact (ib_fresh _ _ _ _ _ _ _ I1).
    pose proof (wait_counts w id (r_sh x) WK) as WC. destruct (wait_spec w (Some id) (r_sh x)) as [[l' s'] b]. unfold pres_of. destruct b; cbn [st_unst]; lia.
Qed.

Lemma rw_settle_step x fid k f : RLive x -> RInv x -> rsmall2 x -> rWOK x ->
  alookup fid (r_futs x) = Some f -> fm_st (rf_meta f) = FPending -> fm_woken (rf_meta f) = true -> (k < 4)%nat ->
  rPhi (fst (rstep x (RPoll fid k))) + 1 <= rPhi x.
Proof.
  intros HL HI B WO L P Wk K4. pose proof HL as [I0 I1 I2 Sh [K1 K2] Er A0 A1 A2].
  assert (WF : wW rfut rf_meta f = 1) by (unfold wW, pendb; rewrite P, Wk; reflexivity).
  assert (PF : wP rfut rf_meta f = 1) by (unfold wP, pendb; rewrite P; reflexivity).
  assert (UF : runst f = st_unst (rf_st f)) by (unfold runst, pendb; rewrite P; reflexivity).
  unfold rstep. set (x0 := r_upd x (set_wk [] (r_sh x)) (r_futs x) (r_guards x)).
  assert (HL0 : RLive x0) by (destruct HL; constructor; assumption).
  assert (HI0 : RInv x0) by exact HI. assert (B0 : rsmall2 x0) by exact B.
  pose proof (rfut_poll_counts x0 fid f (wtag fid k) HL0 HI0 B0 eq_refl L P) as RC.
  unfold rstep_core. cbv zeta. change (r_futs x0) with (r_futs x). rewrite L.
  assert (V : fstatus_eqb (fm_st (rf_meta f)) FDone || Nat.leb 4 k = false).
  { apply Bool.orb_false_iff. split; [rewrite P; reflexivity | apply Nat.leb_gt; exact K4]. }
  rewrite V. destruct (rfut_poll (wtag fid k) (rf_st f) (r_sh x0)) as [[st' s'] r].
  change (sN3 (r_sh x0)) with (sN3 (r_sh x)) in RC.
  assert (FIN : forall f' x1, fm_w (rf_meta f') = Some (wtag fid k) -> wW rfut rf_meta f' = 0 ->
            r_futs x1 = aupdate fid f' (r_futs x) -> r_sh x1 = s' ->
            N.of_nat (length (swk s')) + 2 * sN3 s' + 3 * wP rfut rf_meta f' + runst f' <= 2 * sN3 (r_sh x) + st_unst (rf_st f) + 3 ->
            rPhi (r_wake_all (swk (r_sh x1)) x1) + 1 <= rPhi x).
  { intros f' x1 Hw WF' EF ES NUM. unfold rPhi, rW, rP, rU. rewrite r_wake_all_eq. change (r_sh (r_wake_all (swk (r_sh x1)) x1)) with (r_sh x1).
    rewrite rU_wake, EF, ES.
    destruct (upd_wake_counts rfut rf_meta rh_wake rh_wake_meta (r_futs x) fid k f f' (swk s') K1 WO K4 L Hw) as (UW & UP).
    pose proof (asum_aupdate runst fid f f' (r_futs x) L) as UU. rewrite WF, WF' in UW. rewrite PF in UP. rewrite UF in UU. unfold cW, cP in *. lia. }
  destruct r as [gk|].
  - set (f' := mkRfut (rf_arc f) st' false (mkMeta FDone (Some (wtag fid k)) false)).
    destruct (rf_arc f && negb (rf_owns f)); cbn [fst]; apply (FIN f'); try reflexivity; change (wP rfut rf_meta f') with 0; change (runst f') with 0; lia.
  - set (f' := mkRfut (rf_arc f) st' (rf_owns f) (mkMeta FPending (Some (wtag fid k)) false)).
    cbn [fst]. apply (FIN f'); try reflexivity. change (wP rfut rf_meta f') with 1. change (runst f') with (st_unst st'). lia.
Qed.

Fixpoint rsettle_run (x : rworld) (ops : list rop) : Prop :=
  match ops with
  | [] => True
  | o :: r => (exists fid k f, o = RPoll fid k /\ (k < 4)%nat /\ alookup fid (r_futs x) = Some f /\
                               fm_st (rf_meta f) = FPending /\ fm_woken (rf_meta f) = true) /\ rsettle_run (fst (rstep x o)) r
  end.

Lemma rw_settle_gen ops : forall x, RLive x -> RInv x -> rWOK x ->
  2 * N.of_nat (length ops + (length (r_futs x) + length (r_guards x))) + 8 <= isize_max ->
  rsettle_run x ops -> N.of_nat (length ops) <= rPhi x.
Proof.
  induction ops as [|o r IH]; intros x HL HI WO B SR; [cbn; lia|]. destruct SR as ((fid & k & f & -> & K4 & L & P & Wk) & SR).
  assert (B2 : rsmall2 x) by (unfold rsmall2; cbn [length] in B; clear - B; lia).
  pose proof (rw_settle_step x fid k f HL HI B2 WO L P Wk K4) as ST. cbn [length] in *.
  assert (N.of_nat (length r) <= rPhi (fst (rstep x (RPoll fid k)))).
  { apply IH; [apply step_RLive; assumption | apply step_RInv; [exact HI | apply rsmall2_small; exact B2] | apply rWOK_step; exact WO | | exact SR].
    pose proof (sizes_grow x (RPoll fid k)) as G. clear - B G. lia. }
  lia.
Qed.

Lemma run_rWOK ops : rWOK (rrun ops).
Proof.
  unfold rrun. assert (H : rWOK rw0) by (intros k f w []). revert H. generalize rw0.
  induction ops as [|o l IH]; intros x H; cbn [fold_left]; [exact H|]. apply IH. apply rWOK_step. exact H.
Qed.

Lemma rW_le_rP x : rW x <= rP x.
Proof. unfold rW, rP, cW, cP. induction (r_futs x) as [|[k f] l IH]; cbn [asum]; [lia|]. unfold wW, wP in *. destruct (pendb (rf_meta f)); destruct (fm_woken (rf_meta f)); cbn; lia. Qed.
Lemma rU_le_rP x : rU x <= rP x.
Proof.
  unfold rU, rP, cP. induction (r_futs x) as [|[k f] l IH]; cbn [asum]; [lia|]. unfold runst, wP in *.
  destruct (pendb (rf_meta f)); [|lia]. assert (st_unst (rf_st f) <= 1).
  { unfold st_unst. destruct (rf_st f) as [c l0|[a|]|nr [[a|]| |]|hl l0]; try lia; destruct (a_starved a); cbn; lia. }
  lia.
Qed.

(* C17 for the RwLock: from any reachable state, however the woken futures are re-polled, at most
   5 * pending + 2 * listeners (of the three events) polls happen before no pending future is flagged woken *)
Theorem rw_settle_bound ops0 ops : N.of_nat (length ops0) + N.of_nat (length ops) < RLIVE_BOUND ->
  rsettle_run (rrun ops0) ops ->
  N.of_nat (length ops) <= 5 * rP (rrun ops0) +
    2 * (N.of_nat (length (se0 (r_sh (rrun ops0)))) + N.of_nat (length (se1 (r_sh (rrun ops0)))) + N.of_nat (length (se2 (r_sh (rrun ops0))))).
Proof.
  intros B SR. assert (B0 : N.of_nat (length ops0) < RLIVE_BOUND) by (clear - B; lia).
  destruct (run_RLive ops0 B0) as (HL & HI).
  assert (N.of_nat (length ops) <= rPhi (rrun ops0)).
  { apply (rw_settle_gen ops _ HL HI (run_rWOK ops0)); [|exact SR].
    pose proof (run_sizes ops0 rw0) as RS. cbn [rw0 r_futs r_guards length] in RS. unfold RLIVE_BOUND in B. change isize_max with 9223372036854775807.
    unfold rrun. clear - B RS. lia. }
  unfold rPhi, sN3 in H. pose proof (rW_le_rP (rrun ops0)). pose proof (rU_le_rP (rrun ops0)). unfold cN in H.
  pose proof (count_le_len (se0 (r_sh (rrun ops0)))). pose proof (count_le_len (se1 (r_sh (rrun ops0)))). pose proof (count_le_len (se2 (r_sh (rrun ops0)))). lia.
Qed.
