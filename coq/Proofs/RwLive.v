(* RwLive.v — RwLock: no lost wake-up (C06) and writer preference (C12), for every history.
   The ownership invariant of the three events (inner mutex lock_ops = E0, no_readers = E1,
   no_writer = E2) and the availability conditions:
     A0  mutex word even            => lock_ops empty or holds a notified entry
     A1  state = WRITER_BIT exactly => no_readers empty or holds a notified entry
     A2  writer bit clear           => no_writer empty or holds a notified entry *)
From AL Require Import Base Api Mutex RwLock RwApi BaseFacts ApiFacts EventFacts OwnUpd MutexWord MutexPaths LockLive MutexFrame
                       RwWord RwInv RwPaths BarrierInv.
From Coq Require Import Lia.

Definition lis0 (f : rfut) : option nat :=
  match rf_st f with FUpRead l => lock_lis l | FWrite _ (WAcquiring l) => lock_lis l | _ => None end.
Definition lis1 (f : rfut) : option nat :=
  match rf_st f with FWrite nr _ => nr | FUpgrade _ l => l | _ => None end.
Definition lis2 (f : rfut) : option nat :=
  match rf_st f with FRead _ l => l | _ => None end.
Definition rlook (x : rworld) : look_t rfut := fun k => alookup k (r_futs x).

(* shape of a future at rest, by poll status *)
Definition rshape1 (f : rfut) : Prop :=
  match rf_st f, fm_st (rf_meta f) with
  | FRead c l, FUnpolled => l = None /\ c <= isize_max
  | FRead c l, FPending => (exists id, l = Some id) /\ has_writer c = true /\ c <= isize_max
  | FRead c l, FDone => l = None
  | FUpRead l, FUnpolled => l = None
  | FUpRead l, FPending => lock_pending l
  | FUpRead l, FDone => lock_lis l = None
  | FWrite nr ws, FUnpolled => nr = None /\ ws = WAcquiring None
  | FWrite nr ws, FPending => (nr = None /\ exists l, ws = WAcquiring l /\ lock_pending l) \/ ((exists id, nr = Some id) /\ ws = WWaiting)
  | FWrite nr ws, FDone => nr = None /\ ws = WAcquired
  | FUpgrade hl l, FUnpolled => hl = true /\ l = None
  | FUpgrade hl l, FPending => hl = true /\ exists id, l = Some id
  | FUpgrade hl l, FDone => hl = false /\ l = None
  end.
Definition rshape (x : rworld) : Prop := forall fid f, alookup fid (r_futs x) = Some f -> rshape1 f.
Definition rkeys (x : rworld) : Prop :=
  NoDup (map fst (r_futs x)) /\ (forall k, In k (map fst (r_futs x)) -> (k < r_nf x)%nat).

Record RLiveW (wk : list waker) (x : rworld) : Prop := mkRLive {
  rl_e0 : InvB rfut lis0 rf_meta wk (se0 (r_sh x)) (snid (r_sh x)) (rlook x);
  rl_e1 : InvB rfut lis1 rf_meta wk (se1 (r_sh x)) (snid (r_sh x)) (rlook x);
  rl_e2 : InvB rfut lis2 rf_meta wk (se2 (r_sh x)) (snid (r_sh x)) (rlook x);
  rl_shape : rshape x;
  rl_keys : rkeys x;
  rl_err : serr (r_sh x) = false;
  rl_a0 : avail0 (r_sh x);
  rl_a1 : sw1 (r_sh x) = 1 -> se1 (r_sh x) = [] \/ has_notified (se1 (r_sh x)) = true;
  rl_a2 : has_writer (sw1 (r_sh x)) = false -> se2 (r_sh x) = [] \/ has_notified (se2 (r_sh x)) = true
}.
Definition RLive (x : rworld) : Prop := RLiveW [] x.

Definition quiescent (x : rworld) : Prop :=
  forall fid f, alookup fid (r_futs x) = Some f -> ~ (fm_st (rf_meta f) = FPending /\ fm_woken (rf_meta f) = true).

(* ---------- structural consequences ---------- *)
(* every listener on no_readers belongs to the one future that has announced itself as writer *)
Lemma lis1_hold f id : rshape1 f -> lis1 f = Some id -> fhold f = 1 /\ fm_st (rf_meta f) = FPending.
Proof.
  unfold rshape1, lis1, fhold. destruct (rf_st f) as [c l|l|nr ws|hl l]; try discriminate; intros S L.
  - destruct (fm_st (rf_meta f)).
    + destruct S as (-> & _). discriminate.
    + destruct S as [(-> & _)|(_ & ->)]; [discriminate|]. split; reflexivity.
    + destruct S as (-> & _). discriminate.
  - destruct (fm_st (rf_meta f)).
    + destruct S as (_ & ->). discriminate.
    + destruct S as (-> & _). split; reflexivity.
    + destruct S as (_ & ->). discriminate.
Qed.

Lemma no_holder_no_entries wk x : InvB rfut lis1 rf_meta wk (se1 (r_sh x)) (snid (r_sh x)) (rlook x) -> rshape x -> nH x = 0 ->
  se1 (r_sh x) = [].
Proof.
  intros I Sh Z. destruct (se1 (r_sh x)) as [|e r] eqn:Q; [reflexivity|]. exfalso.
  destruct (ib_owner _ _ _ _ _ _ _ I e (or_introl eq_refl)) as (g & fg & Lg & Sg & _). unfold rlook in Lg.
  destruct (lis1_hold fg (eid e) (Sh g fg Lg) Sg) as (H1 & _).
  pose proof (asum_In fhold g fg (r_futs x) (alookup_In _ _ _ Lg)) as LE. unfold nH in Z. rewrite Z, H1 in LE. lia.
Qed.

(* a starved ticket holder on the inner mutex is queued: the analogue of MutexLive.queue_nonempty *)
Lemma itick_pos_listener f : rshape1 f -> RwInv.fut_ok f -> itick f <> 0 -> exists id, lis0 f = Some id.
Proof.
  unfold rshape1, RwInv.fut_ok, itick, lis0. intros S Ok T.
  destruct (rf_st f) as [c l|l|nr ws|hl l]; try (exfalso; apply T; reflexivity).
  - destruct (fm_st (rf_meta f)).
    + subst l. exfalso. apply T. reflexivity.
    + destruct S as (id & st & ->). exists id. reflexivity.
    + destruct Ok as (Ok & _). unfold itick in Ok. cbn in Ok. contradiction.
  - destruct ws as [l| |]; try (exfalso; apply T; reflexivity). cbn [wtick] in T.
    destruct (fm_st (rf_meta f)).
    + destruct S as (_ & S). inversion S; subst. exfalso. apply T. reflexivity.
    + destruct S as [(_ & l' & E & (id & st & ->))|(_ & E)]; [|discriminate]. inversion E; subst. exists id. reflexivity.
    + destruct S as (_ & S). discriminate.
Qed.

Lemma rw_queue_nonempty x : RLive x -> RInv x -> sw0 (r_sh x) mod 2 = 0 -> 2 <= sw0 (r_sh x) -> se0 (r_sh x) <> [].
Proof.
  intros HL HI Ev Ge. pose proof (RInv_mutex_even x HI Ev) as Z. destruct HI as (_ & E0' & _ & _ & F).
  assert (T : nT x <> 0) by (rewrite E0' in Ge; lia). unfold nT in T.
  assert (exists fid f, In (fid, f) (r_futs x) /\ itick f <> 0) as (fid & f & Hi & Tf).
  { clear - T. induction (r_futs x) as [|[k v] l IH]; [exfalso; apply T; reflexivity|]. cbn [asum] in T.
    destruct (N.eq_dec (itick v) 0) as [Q|Q].
    - rewrite Q in T. destruct (IH T) as (a & b & c & d). exists a, b. split; [right; exact c | exact d].
    - exists k, v. split; [left; reflexivity | exact Q]. }
  destruct HL as [I0 _ _ Sh [K1 _] _ _ _ _].
  pose proof (In_alookup_nd fid f _ K1 Hi) as L.
  rewrite Forall_forall in F. specialize (F _ Hi). cbn [snd] in F.
  destruct (itick_pos_listener f (Sh fid f L) F Tf) as (id & Ls).
  pose proof (ib_listed _ _ _ _ _ _ _ I0 fid f id L Ls) as Hin. intro E. rewrite E in Hin. destruct Hin.
Qed.

(* ---------- what the invariant gives at rest ---------- *)
Lemma quiet_no_notified {lis} x l : InvB rfut lis rf_meta [] l (snid (r_sh x)) (rlook x) -> quiescent x -> has_notified l = true -> False.
Proof.
  intros I Q H. unfold has_notified in H. apply existsb_exists in H. destruct H as (e & He & Ne).
  destruct (InvB_notified_woken rfut lis rf_meta _ _ _ _ I He Ne) as (g & fg & Lg & Pg & Wg). apply (Q g fg Lg). split; assumption.
Qed.

Lemma quiet_listed_avail {lis} x l fid f id : InvB rfut lis rf_meta [] l (snid (r_sh x)) (rlook x) -> quiescent x ->
  (l = [] \/ has_notified l = true) -> alookup fid (r_futs x) = Some f -> lis f = Some id -> False.
Proof.
  intros I Q Av L Ls. pose proof (ib_listed _ _ _ _ _ _ _ I fid f id L Ls) as Hin.
  destruct Av as [E|H]; [rewrite E in Hin; destruct Hin | apply (quiet_no_notified x l I Q H)].
Qed.

(* pending future => it holds a listener on the event it waits on *)
Lemma pending_listener f : rshape1 f -> fm_st (rf_meta f) = FPending ->
  match rf_st f with
  | FRead _ _ => exists id, lis2 f = Some id
  | FUpRead _ => exists id, lis0 f = Some id
  | FWrite _ (WAcquiring _) => exists id, lis0 f = Some id
  | FWrite _ _ => (exists id, lis1 f = Some id) /\ fhold f = 1
  | FUpgrade _ _ => (exists id, lis1 f = Some id) /\ fhold f = 1
  end.
Proof.
  unfold rshape1, lis0, lis1, lis2, fhold. intros S P. rewrite P in S. destruct (rf_st f) as [c l|l|nr ws|hl l].
  - destruct S as ((id & ->) & _). exists id. reflexivity.
  - destruct S as (id & st & ->). exists id. reflexivity.
  - destruct S as [(-> & l & -> & (id & st & ->))|((id & ->) & ->)]; [exists id; reflexivity | split; [exists id; reflexivity | reflexivity]].
  - destruct S as (-> & id & ->). split; [exists id; reflexivity | reflexivity].
Qed.

(* an announced writer that is being polled is woken as soon as the last reader has left *)
Lemma no_idle_holder x : RLive x -> RInv x -> quiescent x -> nR x = 0 -> nU x = 0 -> nW x = 0 ->
  (forall fid f, alookup fid (r_futs x) = Some f -> fhold f = 1 -> fm_st (rf_meta f) = FPending) -> nH x = 0.
Proof.
  intros [I0 I1 I2 Sh K Er A0 A1 A2] (E1 & E0' & Le & Ex & F) Q ZR ZU ZW HP.
  destruct (N.eq_dec (nH x) 0) as [Z|NZ]; [exact Z|]. exfalso.
  assert (H1 : nH x = 1) by (clear - Le NZ ZU ZW; lia).
  assert (S1 : sw1 (r_sh x) = 1) by (rewrite E1, ZR, ZU, ZW, H1; reflexivity).
  assert (exists fid f, In (fid, f) (r_futs x) /\ fhold f <> 0) as (fid & f & Hi & Hf).
  { unfold nH in NZ. clear - NZ. induction (r_futs x) as [|[k v] l IH]; [exfalso; apply NZ; reflexivity|]. cbn [asum] in NZ.
    destruct (N.eq_dec (fhold v) 0) as [Q|Q].
    - rewrite Q in NZ. destruct (IH NZ) as (a & b & c & d). exists a, b. split; [right; exact c | exact d].
    - exists k, v. split; [left; reflexivity | exact Q]. }
  destruct K as (K1 & _). pose proof (In_alookup_nd fid f _ K1 Hi) as L.
  assert (Hf1 : fhold f = 1).
  { unfold fhold in *. destruct (rf_st f) as [c l|l|nr ws|hl l]; try contradiction. destruct ws; try contradiction; reflexivity. destruct hl; [reflexivity | contradiction]. }
  pose proof (HP fid f L Hf1) as P. pose proof (pending_listener f (Sh fid f L) P) as PL.
  assert (exists id, lis1 f = Some id) as (id & Ls).
  { unfold fhold in Hf1. destruct (rf_st f) as [c l|l|nr ws|hl l]; try discriminate.
    - destruct ws; try discriminate. destruct PL as (PL & _). exact PL.
    - destruct PL as (PL & _). exact PL. }
  apply (quiet_listed_avail x _ fid f id I1 Q (A1 S1) L Ls).
Qed.

Lemma mutex_free_no_lock_waiter x : RLive x -> RInv x -> quiescent x -> nU x = 0 -> nW x = 0 -> nH x = 0 ->
  forall fid f, alookup fid (r_futs x) = Some f -> lis0 f = None.
Proof.
  intros [I0 I1 I2 Sh K Er A0 A1 A2] (E1 & E0' & Le & Ex & F) Q ZU ZW ZH fid f L.
  destruct (lis0 f) as [id|] eqn:Ls; [|reflexivity]. exfalso.
  assert (Ev : sw0 (r_sh x) mod 2 = 0) by (rewrite E0', ZU, ZW, ZH; replace (nT x + 0 + 0 + 0) with (nT x) by lia; apply nT_even).
  apply (quiet_listed_avail x _ fid f id I0 Q (A0 Ev) L Ls).
Qed.

Lemma no_writer_no_read_waiter x : RLive x -> RInv x -> quiescent x -> nW x = 0 -> nH x = 0 ->
  forall fid f, alookup fid (r_futs x) = Some f -> lis2 f = None.
Proof.
  intros [I0 I1 I2 Sh K Er A0 A1 A2] (E1 & E0' & Le & Ex & F) Q ZW ZH fid f L.
  destruct (lis2 f) as [id|] eqn:Ls; [|reflexivity]. exfalso.
  assert (HW : has_writer (sw1 (r_sh x)) = false).
  { apply has_writer_even. rewrite E1, ZW, ZH. replace (2 * (nR x + nU x) + 0 + 0) with (2 * (nR x + nU x)) by lia.
    rewrite N.mul_comm. apply N.mod_mul. discriminate. }
  apply (quiet_listed_avail x _ fid f id I2 Q (A2 HW) L Ls).
Qed.

(* ---------- the ownership part of the invariant under store operations ---------- *)
Record Core (look : look_t rfut) (s : sh) : Prop := mkCore {
  c_e0 : InvB rfut lis0 rf_meta (swk s) (se0 s) (snid s) look;
  c_e1 : InvB rfut lis1 rf_meta (swk s) (se1 s) (snid s) look;
  c_e2 : InvB rfut lis2 rf_meta (swk s) (se2 s) (snid s) look;
  c_err : serr s = false
}.

Lemma Core_setw look w v s : Core look s -> Core look (setw w v s).
Proof. intros [A B C D]. destruct w; constructor; assumption. Qed.

Lemma Core_notify look e n a s : Core look s -> Core look (notify e n a s).
Proof.
  intros [A B C D]. unfold notify. destruct (ev_notify n a (gete e s)) as [l ws] eqn:Q.
  destruct e; cbn [gete] in Q; constructor; cbn [se0 se1 se2 swk snid serr set_wk sete]; try exact D.
  - pose proof (InvB_notify rfut lis0 rf_meta n a _ _ _ _ A) as H. rewrite Q in H. exact H.
  - apply (InvB_mono rfut lis1 rf_meta (swk s)); [apply incl_appl, incl_refl | exact B].
  - apply (InvB_mono rfut lis2 rf_meta (swk s)); [apply incl_appl, incl_refl | exact C].
  - apply (InvB_mono rfut lis0 rf_meta (swk s)); [apply incl_appl, incl_refl | exact A].
  - pose proof (InvB_notify rfut lis1 rf_meta n a _ _ _ _ B) as H. rewrite Q in H. exact H.
  - apply (InvB_mono rfut lis2 rf_meta (swk s)); [apply incl_appl, incl_refl | exact C].
  - apply (InvB_mono rfut lis0 rf_meta (swk s)); [apply incl_appl, incl_refl | exact A].
  - apply (InvB_mono rfut lis1 rf_meta (swk s)); [apply incl_appl, incl_refl | exact B].
  - pose proof (InvB_notify rfut lis2 rf_meta n a _ _ _ _ C) as H. rewrite Q in H. exact H.
Qed.

Lemma Core_cas look w e n s : Core look s -> Core look (fst (cas w e n s)).
Proof. intro H. rewrite cas_fst. destruct (getw w s =? e); [apply Core_setw; exact H | exact H]. Qed.
Lemma Core_fetch_add look w n s : Core look s -> Core look (fst (fetch_add w n s)). Proof. apply Core_setw. Qed.
Lemma Core_fetch_sub look w n s : Core look s -> Core look (fst (fetch_sub w n s)). Proof. apply Core_setw. Qed.
Lemma Core_fetch_or look w n s : Core look s -> Core look (fst (fetch_or w n s)). Proof. apply Core_setw. Qed.
Lemma Core_fetch_clear look w n s : Core look s -> Core look (fst (fetch_clear w n s)). Proof. apply Core_setw. Qed.
Lemma Core_try_lock look s : Core look s -> Core look (fst (try_lock W0 s)).
Proof. intro H. unfold try_lock. pose proof (Core_cas look W0 0 1 s H) as P. destruct (cas W0 0 1 s). exact P. Qed.
Lemma Core_unlock look s : Core look s -> Core look (unlock W0 E0 s).
Proof. intro H. unfold unlock. pose proof (Core_fetch_sub look W0 1 s H) as P. destruct (fetch_sub W0 1 s). apply Core_notify. exact P. Qed.

Lemma Core_of wk x : RLiveW wk x -> swk (r_sh x) = wk -> Core (rlook x) (r_sh x).
Proof. intros [I0 I1 I2 _ _ Er _ _ _] <-. constructor; assumption. Qed.

(* availability of an event: empty, or some entry is notified *)
Definition av (e : evid) (s : sh) : Prop := gete e s = [] \/ has_notified (gete e s) = true.

Lemma av_setw e w v s : av e s -> av e (setw w v s).
Proof. unfold av. rewrite gete_setw. auto. Qed.
Lemma av_notify_new e n s : 1 <= n -> av e (notify e n false s).
Proof.
  intro H. unfold av, notify. destruct (ev_notify n false (gete e s)) as [l ws] eqn:Q.
  assert (G : gete e (set_wk (swk s ++ ws) (sete e l s)) = l) by (destruct e; reflexivity). rewrite G.
  destruct (gete e s) as [|e0 r0] eqn:Q2.
  - left. unfold ev_notify in Q. cbn [count_notified mark] in Q. destruct (n <? N.of_nat 0); inversion Q; reflexivity.
  - right. pose proof (notify_has n (e0 :: r0) H ltac:(discriminate)) as P. rewrite Q in P. exact P.
Qed.
Lemma av_notify_keep e e' n a s : av e s -> av e (notify e' n a s).
Proof.
  intro H. unfold av, notify. destruct (ev_notify n a (gete e' s)) as [l ws] eqn:Q.
  destruct (evid_eq_dec e e') as [->|NE].
  - assert (G : gete e' (set_wk (swk s ++ ws) (sete e' l s)) = l) by (destruct e'; reflexivity). rewrite G.
    pose proof (notify_rel n a (gete e' s)) as R. rewrite Q in R. destruct H as [H|H].
    + rewrite H in R. inversion R. left. reflexivity.
    + right. apply (upd_has _ _ _ _ R H).
  - assert (G : gete e (set_wk (swk s ++ ws) (sete e' l s)) = gete e s) by (destruct e, e'; try reflexivity; contradiction). rewrite G. exact H.
Qed.

(* ---------- operations that change only the store: guard operations and the try_ family ---------- *)
Definition rsmall2 (x : rworld) : Prop :=
  2 * N.of_nat (length (r_futs x)) + 2 * N.of_nat (length (r_guards x)) + 8 <= isize_max.

Lemma rsmall2_small x : rsmall2 x -> small x.
Proof. unfold rsmall2, small. rewrite USZ_val. change isize_max with 9223372036854775807. lia. Qed.

Lemma word_bounds x : RInv x -> rsmall2 x -> sw1 (r_sh x) + 4 <= isize_max /\ sw0 (r_sh x) + 4 <= isize_max.
Proof.
  intros (E1 & E0 & Le & _) B. unfold rsmall2 in B.
  pose proof (asum_le itick 2 (r_futs x) itick_le) as TL.
  pose proof (guards_total (r_guards x)) as GT. unfold nR, nU, nW, nT, nH in *. split; lia.
Qed.

Lemma mk_store wk' x s' gu : rshape x -> rkeys x -> Core (rlook x) s' -> swk s' = wk' -> avail0 s' ->
  (sw1 s' = 1 -> av E1 s') -> (has_writer (sw1 s') = false -> av E2 s') ->
  RLiveW wk' (r_upd x s' (r_futs x) gu).
Proof. intros Sh K [A B C D] <- A0 A1 A2. constructor; cbn [r_sh r_upd r_futs]; assumption. Qed.

Lemma RLiveW_inc wk x : RLiveW wk x -> RLiveW wk (r_inc x).
Proof. intros [A B C D E F G H I]. constructor; assumption. Qed.
Lemma RLiveW_dec wk x : RLiveW wk x -> RLiveW wk (r_dec x).
Proof. intros [A B C D E F G H I]. constructor; assumption. Qed.
Lemma RLiveW_bump_g wk x : RLiveW wk x -> RLiveW wk (r_bump_g x).
Proof. intros [A B C D E F G H I]. constructor; assumption. Qed.
Lemma RLiveW_set_handles wk h x : RLiveW wk x -> RLiveW wk (r_set_handles h x).
Proof. intros [A B C D E F G H I]. constructor; assumption. Qed.
Lemma RLiveW_set_val wk v x : RLiveW wk x -> RLiveW wk (r_set_val v x).
Proof. intros [A B C D E F G H I]. constructor; assumption. Qed.

Lemma try_read_paths s : sw1 s <= isize_max ->
  rw_try_read s = if has_writer (sw1 s) then (s, false) else (setw W1 (wadd (sw1 s) 2) s, true).
Proof.
  intro B. unfold rw_try_read, RFUEL. cbn [try_read_loop getw]. destruct (has_writer (sw1 s)); [reflexivity|].
  destruct (isize_max <? sw1 s) eqn:Q; [apply N.ltb_lt in Q; lia|]. unfold cas. cbn [getw]. rewrite N.eqb_refl. rewrite N.eqb_refl. reflexivity.
Qed.
Lemma inc_readers_paths fuel s : inc_readers (S fuel) (sw1 s) s = setw W1 (wadd (sw1 s) 2) s.
Proof. cbn [inc_readers]. unfold cas. cbn [getw]. rewrite N.eqb_refl. rewrite N.eqb_refl. reflexivity. Qed.

Lemma avail0_keep s s' : sw0 s' = sw0 s -> se0 s' = se0 s -> avail0 s -> avail0 s'.
Proof. unfold avail0. intros -> ->. auto. Qed.
Lemma avail0_odd s : sw0 s mod 2 = 1 -> avail0 s.
Proof. unfold avail0. intros H E. rewrite H in E. discriminate. Qed.
Lemma avail0_unlock s : avail0 (unlock W0 E0 s).
Proof.
  unfold unlock. destruct (fetch_sub W0 1 s) as [s1 p]. intros _. exact (av_notify_new E0 1 s1 ltac:(lia)).
Qed.
Lemma av1_of x s' : se1 s' = se1 (r_sh x) -> RLive x -> nH x = 0 -> av E1 s'.
Proof. intros E HL Z. left. cbn [gete]. rewrite E. apply (no_holder_no_entries [] x (rl_e1 _ _ HL) (rl_shape _ _ HL) Z). Qed.
Lemma unlock_se s : se1 (unlock W0 E0 s) = se1 s /\ se2 (unlock W0 E0 s) = se2 s /\ sw1 (unlock W0 E0 s) = sw1 s.
Proof. destruct (oth_unlock s) as [A _ B C _ _]. auto. Qed.

Lemma hw_add2 v : has_writer (v + 2) = has_writer v.
Proof.
  destruct (has_writer v) eqn:Q.
  - apply has_writer_odd in Q. apply has_writer_odd. rewrite <- N.add_mod_idemp_l by discriminate. rewrite Q. reflexivity.
  - apply has_writer_even in Q. apply has_writer_even. rewrite <- N.add_mod_idemp_l by discriminate. rewrite Q. reflexivity.
Qed.

Definition postL (x1 : rworld) : Prop := RLiveW (swk (r_sh x1)) x1.

Lemma postL_same x : RLive x -> swk (r_sh x) = [] -> postL x.
Proof. intros H WK. unfold postL. rewrite WK. exact H. Qed.

Lemma live_try x k arc : RLive x -> RInv x -> rsmall2 x -> swk (r_sh x) = [] -> postL (fst (rstep_core x (RTry k arc))).
Proof.
  intros HL HI B WK. unfold rstep_core. destruct (Nat.eqb (r_handles x) 0); [apply postL_same; assumption|].
  destruct (word_bounds x HI B) as (B1 & B0).
  pose proof (Core_of [] x HL WK) as C. pose proof HL as [I0 I1 I2 Sh K Er A0 A1 A2].
  assert (FIN : forall (s' : sh) (ok : bool) (gk : gkind), Core (rlook x) s' -> avail0 s' -> (sw1 s' = 1 -> av E1 s') -> (has_writer (sw1 s') = false -> av E2 s') ->
     postL (fst (if ok then ((if arc then r_inc (r_bump_g (r_upd x s' (r_futs x) (r_guards x ++ [(r_ng x, (gk, arc))])))
                                    else r_bump_g (r_upd x s' (r_futs x) (r_guards x ++ [(r_ng x, (gk, arc))]))), RSome (r_ng x))
                      else (r_upd x s' (r_futs x) (r_guards x), RNone)))).
  { intros s' ok gk C' P0 P1 P2. unfold postL. destruct ok; [destruct arc|]; cbn [fst r_sh r_inc r_bump_g r_upd];
      [apply RLiveW_inc, RLiveW_bump_g | apply RLiveW_bump_g |]; apply mk_store; auto. }
  destruct k.
  - (* try_read *)
    rewrite try_read_paths by (clear - B1; lia). destruct (has_writer (sw1 (r_sh x))) eqn:HW.
    + apply (FIN (r_sh x) false GR C A0); [intro Z; apply A1; exact Z | intro Z; rewrite HW in Z; discriminate Z].
    + rewrite wadd_small by (rewrite USZ_val; change isize_max with 9223372036854775807 in B1; clear - B1; lia).
      apply (FIN _ true GR (Core_setw _ W1 _ _ C)).
      * exact A0.
      * intro Z. cbn [sw1 setw] in Z. exfalso. clear - Z. lia.
      * intros _. apply av_setw. apply A2. reflexivity.
  - (* try_upgradable_read *)
    unfold rw_try_upgradable_read. pose proof (try_lock_spec W0 (r_sh x)) as T. pose proof (Core_try_lock _ _ C) as C1.
    pose proof (oth_try_lock (r_sh x)) as [O1 O2 O3 O4 _ _].
    destruct (try_lock W0 (r_sh x)) as [s1 ok]. cbn [fst] in *. destruct T as (T1 & T2 & _ & RS). destruct ok; cbn [negb].
    + destruct (T1 eq_refl) as (Z0 & Od). cbn [getw] in *.
      destruct (isize_max <? sw1 s1) eqn:Q; [apply N.ltb_lt in Q; rewrite O1 in Q; clear - Q B1; lia|].
      change RFUEL with (S 7%nat). rewrite inc_readers_paths. rewrite O1.
      rewrite wadd_small by (rewrite USZ_val; change isize_max with 9223372036854775807 in B1; clear - B1; lia).
      apply (FIN _ true GU (Core_setw _ W1 _ _ C1)).
      * apply avail0_odd. cbn [sw0 setw]. rewrite Od. reflexivity.
      * intro Z. cbn [sw1 setw] in Z. exfalso. clear - Z. lia.
      * intro Z. change (sw1 (setw W1 (sw1 (r_sh x) + 2) s1)) with (sw1 (r_sh x) + 2) in Z. rewrite hw_add2 in Z. apply av_setw. unfold av. cbn [gete]. rewrite O4. apply A2. exact Z.
    + destruct (T2 eq_refl) as (_ & ->). apply (FIN (r_sh x) false GU C A0); [intro Z; apply A1; exact Z | intro Z; apply A2; exact Z].
  - (* try_write *)
    unfold rw_try_write. pose proof (try_lock_spec W0 (r_sh x)) as T. pose proof (Core_try_lock _ _ C) as C1.
    pose proof (oth_try_lock (r_sh x)) as [O1 O2 O3 O4 _ _].
    destruct (try_lock W0 (r_sh x)) as [s1 ok]. cbn [fst] in *. destruct T as (T1 & T2 & _ & RS). destruct ok; cbn [negb].
    + destruct (T1 eq_refl) as (Z0 & Od). cbn [getw] in *.
      unfold cas. cbn [getw]. rewrite O1. destruct (sw1 (r_sh x) =? 0) eqn:Q.
      * rewrite Q. apply (FIN _ true GW (Core_setw _ W1 _ _ C1)).
        -- apply avail0_odd. cbn [sw0 setw]. rewrite Od. reflexivity.
        -- intros _. apply av_setw. apply (av1_of x s1 O3 HL).
           pose proof (RInv_mutex_even x HI) as ME. rewrite Z0 in ME. specialize (ME eq_refl). clear - ME. lia.
        -- intro Z. cbn [sw1 setw] in Z. unfold WRITER_BIT in Z. discriminate Z.
      * rewrite Q. destruct (unlock_se s1) as (U1 & U2 & U3).
        apply (FIN _ false GW (Core_unlock _ _ C1)).
        -- apply avail0_unlock.
        -- rewrite U3, O1. intro Z. unfold av. cbn [gete]. rewrite U1, O3. apply A1. exact Z.
        -- rewrite U3, O1. intro Z. unfold av. cbn [gete]. rewrite U2, O4. apply A2. exact Z.
    + destruct (T2 eq_refl) as (_ & ->). apply (FIN (r_sh x) false GW C A0); [intro Z; apply A1; exact Z | intro Z; apply A2; exact Z].
Qed.

Lemma nU_pos_of x g arc : alookup g (r_guards x) = Some (GU, arc) -> 1 <= nU x.
Proof. intro L. pose proof (asum_In (isk GU) g (GU, arc) (r_guards x) (alookup_In _ _ _ L)) as H. unfold nU. rewrite isk_eval in H. cbn in H. exact H. Qed.
Lemma nW_pos_of x g arc : alookup g (r_guards x) = Some (GW, arc) -> 1 <= nW x.
Proof. intro L. pose proof (asum_In (isk GW) g (GW, arc) (r_guards x) (alookup_In _ _ _ L)) as H. unfold nW. rewrite isk_eval in H. cbn in H. exact H. Qed.
Lemma nR_pos_of x g arc : alookup g (r_guards x) = Some (GR, arc) -> 1 <= nR x.
Proof. intro L. pose proof (asum_In (isk GR) g (GR, arc) (r_guards x) (alookup_In _ _ _ L)) as H. unfold nR. rewrite isk_eval in H. cbn in H. exact H. Qed.

Lemma live_tryupgrade x g : RLive x -> RInv x -> rsmall2 x -> swk (r_sh x) = [] -> postL (fst (rstep_core x (RTryUpgrade g))).
Proof.
  intros HL HI B WK. unfold rstep_core.
  destruct (alookup g (r_guards x)) as [[[| |] arc]|] eqn:L; try (apply postL_same; assumption).
  pose proof (Core_of [] x HL WK) as C. pose proof HL as [I0 I1 I2 Sh K Er A0 A1 A2].
  pose proof (nU_pos_of x g arc L) as U1. destruct HI as (EQ1 & EQ0 & Le & Ex & F).
  unfold rw_try_upgrade, cas. cbn [getw]. unfold ONE_READER, WRITER_BIT. destruct (sw1 (r_sh x) =? 2) eqn:Q.
  - rewrite Q. cbn [fst]. unfold postL. cbn [r_sh r_upd]. apply mk_store; [exact Sh | exact K | | reflexivity | | |].
    + apply Core_setw. exact C.
    + exact A0.
    + intros _. apply av_setw. apply (av1_of x (r_sh x) eq_refl HL). clear - Le U1. lia.
    + intro Z. cbn [sw1 setw] in Z. discriminate Z.
  - rewrite Q. cbn [fst]. unfold postL. cbn [r_sh r_upd]. apply mk_store; [exact Sh | exact K | exact C | reflexivity | exact A0 | exact A1 | exact A2].
Qed.

Lemma live_downgrade x g : RLive x -> RInv x -> rsmall2 x -> swk (r_sh x) = [] -> postL (fst (rstep_core x (RDowngrade g))).
Proof.
  intros HL HI B WK. unfold rstep_core.
  destruct (alookup g (r_guards x)) as [[[| |] arc]|] eqn:L; try (apply postL_same; assumption).
  - (* upgradable -> read: release the inner mutex *)
    pose proof (Core_of [] x HL WK) as C. pose proof HL as [I0 I1 I2 Sh K Er A0 A1 A2].
    cbn [fst]. unfold postL, rw_downgrade_upgradable_read. cbn [r_sh r_upd].
    destruct (unlock_se (r_sh x)) as (U1 & U2 & U3). apply mk_store; [exact Sh | exact K | | reflexivity | | |].
    + apply Core_unlock. exact C.
    + apply avail0_unlock.
    + rewrite U3. intro Z. unfold av. cbn [gete]. rewrite U1. apply A1. exact Z.
    + rewrite U3. intro Z. unfold av. cbn [gete]. rewrite U2. apply A2. exact Z.
  - (* write -> read *)
    pose proof (Core_of [] x HL WK) as C. pose proof HL as [I0 I1 I2 Sh K Er A0 A1 A2].
    destruct (word_bounds x HI B) as (B1 & B0). pose proof (nW_pos_of x g arc L) as W1'.
    destruct (odd_when_held x HI ltac:(clear - W1'; lia)) as (Od & P0).
    cbn [fst]. unfold postL, rw_downgrade_write. cbn [r_sh r_upd].
    rewrite (surjective_pairing (fetch_add W1 (ONE_READER - WRITER_BIT) (r_sh x))). rewrite fetch_add_fst. cbn [getw].
    change (ONE_READER - WRITER_BIT) with 1.
    rewrite wadd_small by (rewrite USZ_val; change isize_max with 9223372036854775807 in B1; clear - B1; lia).
    set (s1 := setw W1 (sw1 (r_sh x) + 1) (r_sh x)).
    destruct (unlock_se s1) as (U1 & U2 & U3).
    assert (EV : has_writer (sw1 (r_sh x) + 1) = false).
    { apply has_writer_even. rewrite <- N.add_mod_idemp_l by discriminate. rewrite Od. reflexivity. }
    apply mk_store; [exact Sh | exact K | | reflexivity | | |].
    + apply Core_notify. apply Core_unlock. apply Core_setw. exact C.
    + apply (avail0_keep (unlock W0 E0 s1)); [rewrite sw0_notify; reflexivity | | apply avail0_unlock].
      unfold notify. cbn [gete]. destruct (ev_notify 1 false (se2 (unlock W0 E0 s1))); reflexivity.
    + rewrite sw1_notify, U3. unfold s1. cbn [sw1 setw]. intro Z. exfalso. apply has_writer_even in EV. rewrite Z in EV. discriminate EV.
    + intros _. apply av_notify_new. clear; lia.
Qed.

Lemma live_downgradeup x g : RLive x -> RInv x -> rsmall2 x -> swk (r_sh x) = [] -> postL (fst (rstep_core x (RDowngradeUp g))).
Proof.
  intros HL HI B WK. unfold rstep_core.
  destruct (alookup g (r_guards x)) as [[[| |] arc]|] eqn:L; try (apply postL_same; assumption).
  pose proof (Core_of [] x HL WK) as C. pose proof HL as [I0 I1 I2 Sh K Er A0 A1 A2].
  destruct (word_bounds x HI B) as (B1 & B0). pose proof (nW_pos_of x g arc L) as W1'.
  destruct (odd_when_held x HI ltac:(clear - W1'; lia)) as (Od & P0).
  cbn [fst]. unfold postL, rw_downgrade_to_upgradable. cbn [r_sh r_upd].
  rewrite (surjective_pairing (fetch_add W1 (ONE_READER - WRITER_BIT) (r_sh x))). rewrite fetch_add_fst. cbn [getw].
  change (ONE_READER - WRITER_BIT) with 1.
  rewrite wadd_small by (rewrite USZ_val; change isize_max with 9223372036854775807 in B1; clear - B1; lia).
  set (s1 := setw W1 (sw1 (r_sh x) + 1) (r_sh x)).
  assert (EV : has_writer (sw1 (r_sh x) + 1) = false).
  { apply has_writer_even. rewrite <- N.add_mod_idemp_l by discriminate. rewrite Od. reflexivity. }
  apply mk_store; [exact Sh | exact K | | reflexivity | | |].
  - apply Core_notify. apply Core_setw. exact C.
  - apply (avail0_keep (r_sh x)); [rewrite sw0_notify; reflexivity | | exact A0].
    unfold notify. cbn [gete]. destruct (ev_notify 1 false (se2 s1)); reflexivity.
  - rewrite sw1_notify. unfold s1. cbn [sw1 setw]. intro Z. exfalso. apply has_writer_even in EV. rewrite Z in EV. discriminate EV.
  - intros _. apply av_notify_new. clear; lia.
Qed.

(* the last reader leaving notifies no_readers *)
Lemma read_unlock_live look s : Core look s -> 2 <= sw1 s -> sw1 s <= isize_max ->
  Core look (rw_read_unlock s) /\ sw1 (rw_read_unlock s) = sw1 s - 2 /\ sw0 (rw_read_unlock s) = sw0 s /\
  se0 (rw_read_unlock s) = se0 s /\ se2 (rw_read_unlock s) = se2 s /\
  (sw1 s - 2 = 1 -> av E1 (rw_read_unlock s)).
Proof.
  intros C G B. unfold rw_read_unlock. rewrite (surjective_pairing (fetch_sub W1 ONE_READER s)).
  rewrite fetch_sub_fst, fetch_sub_snd. cbn [getw]. unfold ONE_READER.
  rewrite wsub_small by (try exact G; rewrite USZ_val; change isize_max with 9223372036854775807 in B; clear - B; lia).
  set (s1 := setw W1 (sw1 s - 2) s). unfold WRITER_BIT.
  destruct (N.ldiff (sw1 s) 1 =? 2) eqn:Q.
  - split; [apply Core_notify, Core_setw; exact C|]. rewrite sw1_notify, sw0_notify.
    split; [reflexivity|]. split; [reflexivity|].
    assert (EQ : forall n a s0, se0 (notify E1 n a s0) = se0 s0 /\ se2 (notify E1 n a s0) = se2 s0)
      by (intros n a s0; unfold notify; cbn [gete]; destruct (ev_notify n a (se1 s0)); split; reflexivity).
    destruct (EQ 1 false s1) as (Q0 & Q2). split; [exact Q0|]. split; [exact Q2|].
    intros _; apply av_notify_new; clear; lia.
  - split; [apply Core_setw; exact C|]. split; [reflexivity|]. split; [reflexivity|]. split; [reflexivity|]. split; [reflexivity|].
    intro E. exfalso. apply N.eqb_neq in Q. apply Q.
    assert (sw1 s = 3) by (clear - E G; lia). rewrite H. reflexivity.
Qed.

Lemma live_dropguard x g : RLive x -> RInv x -> rsmall2 x -> swk (r_sh x) = [] -> postL (fst (rstep_core x (RDropGuard g))).
Proof.
  intros HL HI B WK. unfold rstep_core.
  destruct (alookup g (r_guards x)) as [[gk arc]|] eqn:L; [|apply postL_same; assumption].
  pose proof (Core_of [] x HL WK) as C. pose proof HL as [I0 I1 I2 Sh K Er A0 A1 A2].
  destruct (word_bounds x HI B) as (B1 & B0). pose proof HI as (EQ1 & EQ0 & Le & Ex & F).
  assert (FIN : forall s', RLiveW (swk s') (r_upd x s' (r_futs x) (aremove g (r_guards x))) ->
     postL (fst ((if arc then r_dec (r_upd x s' (r_futs x) (aremove g (r_guards x))) else r_upd x s' (r_futs x) (aremove g (r_guards x))), RUnit))).
  { intros s' H. unfold postL. destruct arc; cbn [fst r_sh r_dec r_upd]; [apply RLiveW_dec|]; exact H. }
  destruct gk.
  - (* a reader leaves *)
    pose proof (nR_pos_of x g arc L) as R1.
    destruct (read_unlock_live _ _ C) as (C' & W1' & W0' & S0 & S2 & AV1); [rewrite EQ1; clear - R1; lia | clear - B1; lia|].
    apply FIN. apply mk_store; [exact Sh | exact K | exact C' | reflexivity | | |].
    + apply (avail0_keep (r_sh x)); [exact W0' | exact S0 | exact A0].
    + rewrite W1'. intro Z. apply AV1. exact Z.
    + rewrite W1'. intro Z. unfold av. cbn [gete]. rewrite S2. apply A2.
      apply has_writer_even. apply has_writer_even in Z. rewrite <- Z.
      assert (G2 : 2 <= sw1 (r_sh x)) by (rewrite EQ1; clear - R1; lia).
      replace (sw1 (r_sh x)) with ((sw1 (r_sh x) - 2) + 1 * 2) at 1 by (clear - G2; lia). rewrite N.mod_add by discriminate. reflexivity.
  - (* the upgradable reader leaves: reader count, then the inner mutex *)
    pose proof (nU_pos_of x g arc L) as U1.
    destruct (read_unlock_live _ _ C) as (C' & W1' & W0' & S0 & S2 & AV1); [rewrite EQ1; clear - U1; lia | clear - B1; lia|].
    unfold rw_upgradable_read_unlock. destruct (unlock_se (rw_read_unlock (r_sh x))) as (U1' & U2' & U3').
    apply FIN. apply mk_store; [exact Sh | exact K | apply Core_unlock; exact C' | reflexivity | | |].
    + apply avail0_unlock.
    + rewrite U3', W1'. intro Z. apply (av_notify_keep E1 E0 1 false) in AV1; [|exact Z].
      unfold unlock. destruct (fetch_sub W0 1 (rw_read_unlock (r_sh x))) as [s1 p] eqn:Q.
      assert (s1 = setw W0 (wsub (sw0 (rw_read_unlock (r_sh x))) 1) (rw_read_unlock (r_sh x))) by (unfold fetch_sub in Q; inversion Q; reflexivity).
      subst s1. apply av_notify_keep. apply av_setw. apply (read_unlock_live _ _ C); [rewrite EQ1; clear - U1; lia | clear - B1; lia | exact Z].
    + rewrite U3', W1'. intro Z. unfold av. cbn [gete]. rewrite U2', S2. apply A2.
      apply has_writer_even. apply has_writer_even in Z. rewrite <- Z.
      assert (G2 : 2 <= sw1 (r_sh x)) by (rewrite EQ1; clear - U1; lia).
      replace (sw1 (r_sh x)) with ((sw1 (r_sh x) - 2) + 1 * 2) at 1 by (clear - G2; lia). rewrite N.mod_add by discriminate. reflexivity.
  - (* the writer leaves: clear the bit, wake a reader, release the inner mutex *)
    pose proof (nW_pos_of x g arc L) as W1'.
    destruct (odd_when_held x HI ltac:(clear - W1'; lia)) as (Od & P0).
    unfold rw_write_unlock. rewrite (surjective_pairing (fetch_clear W1 WRITER_BIT (r_sh x))). rewrite fetch_clear_fst. cbn [getw].
    unfold WRITER_BIT. rewrite ldiff_1_odd by exact Od.
    set (s1 := setw W1 (sw1 (r_sh x) - 1) (r_sh x)).
    destruct (unlock_se (notify E2 1 false s1)) as (U1 & U2 & U3).
    apply FIN. apply mk_store; [exact Sh | exact K | apply Core_unlock, Core_notify, Core_setw; exact C | reflexivity | | |].
    + apply avail0_unlock.
    + rewrite U3, sw1_notify. unfold s1. cbn [sw1 setw]. intro Z. exfalso.
      assert (sw1 (r_sh x) = 2) by (clear - Z Od; destruct (N.eq_dec (sw1 (r_sh x)) 0) as [Q|Q]; [rewrite Q in Od; discriminate | lia]).
      rewrite H in Od. discriminate Od.
    + intros _. unfold unlock. destruct (fetch_sub W0 1 (notify E2 1 false s1)) as [s2 p] eqn:Q.
      assert (s2 = setw W0 (wsub (sw0 (notify E2 1 false s1)) 1) (notify E2 1 false s1)) by (unfold fetch_sub in Q; inversion Q; reflexivity).
      subst s2. apply av_notify_keep. apply av_setw. apply av_notify_new. clear; lia.
Qed.

(* ---------- operations that add a future ---------- *)
Lemma live_append wk x s' st0 arc own gu :
  rshape x -> rkeys x -> Core (rlook x) s' -> swk s' = wk ->
  lis0 (mkRfut arc st0 own meta0) = None -> lis1 (mkRfut arc st0 own meta0) = None -> lis2 (mkRfut arc st0 own meta0) = None ->
  rshape1 (mkRfut arc st0 own meta0) ->
  avail0 s' -> (sw1 s' = 1 -> av E1 s') -> (has_writer (sw1 s') = false -> av E2 s') ->
  RLiveW wk (r_bump_f (r_upd x s' (r_futs x ++ [(r_nf x, mkRfut arc st0 own meta0)]) gu)).
Proof.
  intros Sh [K1 K2] [C0 C1 C2 Er] <- N0 N1 N2 S0 A0 A1 A2.
  assert (NK : alookup (r_nf x) (r_futs x) = None) by (apply alookup_not_key; intro H; apply K2 in H; lia).
  constructor; cbn [r_sh r_bump_f r_upd r_futs r_nf]; try assumption.
  - apply (app_frame rfut lis0 rf_meta _ _ _ _ _ _ C0 NK N0).
  - apply (app_frame rfut lis1 rf_meta _ _ _ _ _ _ C1 NK N1).
  - apply (app_frame rfut lis2 rf_meta _ _ _ _ _ _ C2 NK N2).
  - intros g f L. cbn [r_futs r_bump_f r_upd] in L. rewrite alookup_app in L. destruct (alookup g (r_futs x)) eqn:Q; [inversion L; subst; apply (Sh g f Q)|].
    cbn in L. destruct (Nat.eqb g (r_nf x)); inversion L; subst. exact S0.
  - split; cbn [r_futs r_nf r_bump_f r_upd].
    + rewrite map_app. cbn. apply NoDup_app_fresh; [exact K1|]. intro H. apply K2 in H. lia.
    + intros k Hk. rewrite map_app in Hk. apply in_app_or in Hk. destruct Hk as [Hk|[<-|[]]]; [specialize (K2 k Hk); lia | cbn; lia].
Qed.

Lemma live_start x k arc : RLive x -> RInv x -> rsmall2 x -> swk (r_sh x) = [] -> postL (fst (rstep_core x (RStart k arc))).
Proof.
  intros HL HI B WK. unfold rstep_core. destruct (Nat.eqb (r_handles x) 0); [apply postL_same; assumption|].
  pose proof (Core_of [] x HL WK) as C. pose proof HL as [I0 I1 I2 Sh K Er A0 A1 A2].
  destruct (word_bounds x HI B) as (B1 & B0). cbn [fst]. unfold postL. cbn [r_sh r_bump_f r_upd].
  apply live_append; try assumption; try reflexivity.
  - destruct k; reflexivity.
  - destruct k; reflexivity.
  - destruct k; reflexivity.
  - unfold rshape1. destruct k; cbn; [split; [reflexivity | clear - B1; lia] | reflexivity | split; reflexivity].
Qed.

Lemma live_upgrade x g : RLive x -> RInv x -> rsmall2 x -> swk (r_sh x) = [] -> postL (fst (rstep_core x (RUpgrade g))).
Proof.
  intros HL HI B WK. unfold rstep_core.
  destruct (alookup g (r_guards x)) as [[[| |] arc]|] eqn:L; try (apply postL_same; assumption).
  pose proof (Core_of [] x HL WK) as C. pose proof HL as [I0 I1 I2 Sh K Er A0 A1 A2].
  pose proof (nU_pos_of x g arc L) as U1. pose proof HI as (EQ1 & EQ0 & Le & Ex & F).
  destruct (word_bounds x HI B) as (B1 & B0).
  cbn [fst]. unfold postL. cbn [r_sh r_bump_f r_upd]. unfold rw_upgrade_start. rewrite fetch_sub_fst. cbn [getw].
  change (ONE_READER - WRITER_BIT) with 1.
  assert (G1 : 1 <= sw1 (r_sh x)) by (rewrite EQ1; clear - U1; lia).
  rewrite wsub_small by (try exact G1; rewrite USZ_val; change isize_max with 9223372036854775807 in B1; clear - B1; lia).
  apply live_append; try assumption; try reflexivity.
  - apply Core_setw. exact C.
  - split; reflexivity.
  - intros _. apply av_setw. apply (av1_of x (r_sh x) eq_refl HL). clear - Le U1. lia.
  - cbn [sw1 setw]. intro Z. exfalso. apply has_writer_even in Z.
    assert (Ev : sw1 (r_sh x) mod 2 = 0).
    { rewrite EQ1. assert (nW x + nH x = 0) as Q by (clear - Le U1; lia). replace (2 * (nR x + nU x) + nW x + nH x) with (2 * (nR x + nU x)) by (clear - Q; lia).
      rewrite N.mul_comm. apply N.mod_mul. discriminate. }
    clear - Z Ev G1. assert (sw1 (r_sh x) = (sw1 (r_sh x) - 1) + 1) as Q by lia. rewrite Q in Ev.
    rewrite <- N.add_mod_idemp_l in Ev by discriminate. rewrite Z in Ev. discriminate Ev.
Qed.

(* ---------- operations on one future ---------- *)
Lemma live_upd wk x s' fid f f' gu : RLive x -> alookup fid (r_futs x) = Some f ->
  InvB rfut lis0 rf_meta wk (se0 s') (snid s') (lk rfut (aupdate fid f' (r_futs x))) ->
  InvB rfut lis1 rf_meta wk (se1 s') (snid s') (lk rfut (aupdate fid f' (r_futs x))) ->
  InvB rfut lis2 rf_meta wk (se2 s') (snid s') (lk rfut (aupdate fid f' (r_futs x))) ->
  rshape1 f' -> serr s' = false -> avail0 s' -> (sw1 s' = 1 -> av E1 s') -> (has_writer (sw1 s') = false -> av E2 s') ->
  RLiveW wk (r_upd x s' (aupdate fid f' (r_futs x)) gu).
Proof.
  intros [_ _ _ Sh [K1 K2] _ _ _ _] L J0 J1 J2 S' Er A0 A1 A2. constructor; cbn [r_sh r_upd r_futs r_nf]; try assumption.
  - intros g fg Lg. cbn [r_futs r_upd] in Lg. destruct (Nat.eq_dec g fid) as [->|N].
    + rewrite (alookup_aupdate_same _ _ _ _ L) in Lg. inversion Lg; subst. exact S'.
    + rewrite alookup_aupdate_other in Lg by exact N. apply (Sh g fg Lg).
  - split; cbn [r_futs r_upd r_nf]; rewrite keys_aupdate; assumption.
Qed.

Lemma live_rm wk x s' fid f gu : RLive x -> alookup fid (r_futs x) = Some f ->
  InvB rfut lis0 rf_meta wk (se0 s') (snid s') (lk rfut (aremove fid (r_futs x))) ->
  InvB rfut lis1 rf_meta wk (se1 s') (snid s') (lk rfut (aremove fid (r_futs x))) ->
  InvB rfut lis2 rf_meta wk (se2 s') (snid s') (lk rfut (aremove fid (r_futs x))) ->
  serr s' = false -> avail0 s' -> (sw1 s' = 1 -> av E1 s') -> (has_writer (sw1 s') = false -> av E2 s') ->
  RLiveW wk (r_upd x s' (aremove fid (r_futs x)) gu).
Proof.
  intros [_ _ _ Sh [K1 K2] _ _ _ _] L J0 J1 J2 Er A0 A1 A2. constructor; cbn [r_sh r_upd r_futs r_nf]; try assumption.
  - intros g fg Lg. cbn [r_futs r_upd] in Lg. destruct (Nat.eq_dec g fid) as [->|N]; [rewrite (alookup_aremove_same fid _ K1) in Lg; discriminate|].
    rewrite alookup_aremove_other in Lg by exact N. apply (Sh g fg Lg).
  - split; cbn [r_futs r_upd r_nf]; [apply NoDup_keys_aremove; exact K1 | intros k0 Hk; apply K2; apply (keys_aremove_incl fid); exact Hk].
Qed.

Lemma drop_proj e o s :
  gete e (drop_listener_opt e o s) = fst (ev_drop_opt o (gete e s)) /\
  swk (drop_listener_opt e o s) = swk s ++ snd (ev_drop_opt o (gete e s)) /\
  (forall e', e' <> e -> gete e' (drop_listener_opt e o s) = gete e' s) /\
  snid (drop_listener_opt e o s) = snid s /\ serr (drop_listener_opt e o s) = serr s /\
  sw0 (drop_listener_opt e o s) = sw0 s /\ sw1 (drop_listener_opt e o s) = sw1 s.
Proof.
  destruct o as [id|]; unfold drop_listener_opt, ev_drop_opt.
  - unfold drop_listener. destruct (ev_drop id (gete e s)) as [l ws]. cbn [fst snd].
    repeat split; try (destruct e; reflexivity). intros e' N. destruct e, e'; try reflexivity; contradiction.
  - cbn [fst snd]. rewrite app_nil_r. repeat split.
Qed.

Lemma incl_app_exists (a b : list waker) : (exists ws, b = a ++ ws) -> incl a b.
Proof. intros (ws & ->). apply incl_appl, incl_refl. Qed.

(* the other two events of a future that only touches one *)
Lemma frame_other lis (x : rworld) wk wk' l nid nid' fid f f' : InvB rfut lis rf_meta wk l nid (rlook x) -> alookup fid (r_futs x) = Some f ->
  lis f = None -> lis f' = None -> incl wk wk' -> (nid <= nid')%nat ->
  InvB rfut lis rf_meta wk' l nid' (lk rfut (aupdate fid f' (r_futs x))).
Proof.
  intros I L N N' Hi Hn. apply (InvB_mono rfut lis rf_meta wk); [exact Hi|]. apply (InvB_nid rfut lis rf_meta wk _ nid); [exact Hn|].
  apply (upd_frame rfut lis rf_meta wk l nid (r_futs x) fid f f' I L N N').
Qed.
Lemma frame_other_rm lis (x : rworld) wk wk' l nid nid' fid f : InvB rfut lis rf_meta wk l nid (rlook x) -> alookup fid (r_futs x) = Some f ->
  NoDup (map fst (r_futs x)) -> lis f = None -> incl wk wk' -> (nid <= nid')%nat ->
  InvB rfut lis rf_meta wk' l nid' (lk rfut (aremove fid (r_futs x))).
Proof.
  intros I L ND N Hi Hn. apply (InvB_mono rfut lis rf_meta wk); [exact Hi|]. apply (InvB_nid rfut lis rf_meta wk _ nid); [exact Hn|].
  apply (rm_frame rfut lis rf_meta wk l nid (r_futs x) fid f I L ND N).
Qed.

Lemma notify_world2 n a s :
  se2 (notify E2 n a s) = fst (ev_notify n a (se2 s)) /\ swk (notify E2 n a s) = swk s ++ snd (ev_notify n a (se2 s)) /\
  se0 (notify E2 n a s) = se0 s /\ se1 (notify E2 n a s) = se1 s /\ snid (notify E2 n a s) = snid s /\ serr (notify E2 n a s) = serr s /\
  sw0 (notify E2 n a s) = sw0 s /\ sw1 (notify E2 n a s) = sw1 s.
Proof. unfold notify. cbn [gete]. destruct (ev_notify n a (se2 s)); repeat split. Qed.

Lemma shape_of_read f c l : rshape1 f -> rf_st f = FRead c l -> fm_st (rf_meta f) <> FDone ->
  c <= isize_max /\ ((l = None /\ fm_st (rf_meta f) = FUnpolled) \/ (exists id, l = Some id /\ has_writer c = true)).
Proof.
  unfold rshape1. intros S St ND. rewrite St in S. destruct (fm_st (rf_meta f)).
  - destruct S as (-> & Bc). split; [exact Bc | left; split; reflexivity].
  - destruct S as ((id & ->) & HW & Bc). split; [exact Bc | right; exists id; split; [reflexivity | exact HW]].
  - exfalso. apply ND. reflexivity.
Qed.

Lemma live_poll_read x fid f c l w gu : RLive x -> RInv x -> rsmall2 x -> swk (r_sh x) = [] ->
  alookup fid (r_futs x) = Some f -> rf_st f = FRead c l -> fm_st (rf_meta f) <> FDone ->
  match read_spec w c l (r_sh x) with
  | PReady (c', l') s' => RLiveW (swk s') (r_upd x s' (aupdate fid (mkRfut (rf_arc f) (FRead c' l') false (mkMeta FDone (Some w) false)) (r_futs x)) gu)
  | PPending (c', l') s' => RLiveW (swk s') (r_upd x s' (aupdate fid (mkRfut (rf_arc f) (FRead c' l') (rf_owns f) (mkMeta FPending (Some w) false)) (r_futs x)) gu)
  | PFuel _ _ => True
  end.
Proof.
  intros HL HI B WK L St ND. pose proof HL as [I0 I1 I2 Sh K Er A0 A1 A2]. destruct K as (K1 & K2).
  destruct (word_bounds x HI B) as (B1 & B0).
  destruct (shape_of_read f c l (Sh fid f L) St ND) as (Bc & SH).
  assert (N0 : lis0 f = None) by (unfold lis0; rewrite St; reflexivity).
  assert (N1 : lis1 f = None) by (unfold lis1; rewrite St; reflexivity).
  assert (WB : wadd (sw1 (r_sh x)) 2 = sw1 (r_sh x) + 2) by (apply wadd_small; rewrite USZ_val; change isize_max with 9223372036854775807 in B1; clear - B1; lia).
  unfold read_spec. destruct SH as [(-> & UP)|(id & -> & HC)].
  - (* first poll *)
    assert (N2 : lis2 f = None) by (unfold lis2; rewrite St; reflexivity).
    destruct (has_writer (sw1 (r_sh x))) eqn:HW.
    + unfold RwPaths.reg. cbn [gete]. apply (live_upd _ x _ fid f _ gu HL L); cbn [se0 se1 se2 snid swk serr sw0 sw1 set_nid sete]; rewrite ?WK.
      * apply (frame_other lis0 x [] [] _ _ _ fid f _ I0 L N0); [reflexivity | apply incl_refl | lia].
      * apply (frame_other lis1 x [] [] _ _ _ fid f _ I1 L N1); [reflexivity | apply incl_refl | lia].
      * apply (upd_append rfut lis2 rf_meta [] _ _ _ fid f _ w I2 L N2); reflexivity.
      * unfold rshape1. cbn. split; [eexists; reflexivity | split; [exact HW | clear - B1; lia]].
      * exact Er.
      * exact A0.
      * intro Z. apply A1. exact Z.
      * intro Z. rewrite HW in Z. discriminate Z.
    + rewrite WB. apply (live_upd _ x _ fid f _ gu HL L); cbn [se0 se1 se2 snid swk serr sw0 sw1 set_nid setw]; rewrite ?WK.
      * apply (frame_other lis0 x [] [] _ _ _ fid f _ I0 L N0); [reflexivity | apply incl_refl | destruct (has_writer c); lia].
      * apply (frame_other lis1 x [] [] _ _ _ fid f _ I1 L N1); [reflexivity | apply incl_refl | destruct (has_writer c); lia].
      * apply (frame_other lis2 x [] [] _ _ _ fid f _ I2 L N2); [reflexivity | apply incl_refl | destruct (has_writer c); lia].
      * unfold rshape1. cbn. reflexivity.
      * exact Er.
      * exact A0.
      * intro Z. exfalso. clear - Z. lia.
      * intros _. apply A2. reflexivity.
  - (* a registered reader *)
    assert (N2 : lis2 f = Some id) by (unfold lis2; rewrite St; reflexivity).
    pose proof (ib_listed _ _ _ _ _ _ _ I2 fid f id L N2) as Hin.
    destruct (ev_find id (se2 (r_sh x))) as [[|w0|a]|] eqn:Fd; [| | |exfalso; apply ev_find_None in Fd; contradiction].
    1,2: apply (live_upd _ x _ fid f _ gu HL L); cbn [se0 se1 se2 snid swk serr sw0 sw1 sete]; rewrite ?WK;
      [ apply (frame_other lis0 x [] [] _ _ _ fid f _ I0 L N0); [reflexivity | apply incl_refl | lia]
      | apply (frame_other lis1 x [] [] _ _ _ fid f _ I1 L N1); [reflexivity | apply incl_refl | lia]
      | apply (upd_set_task rfut lis2 rf_meta [] _ _ _ fid f _ id w I2 L N2); reflexivity
      | unfold rshape1; cbn; split; [eexists; reflexivity | split; [exact HC | exact Bc]]
      | exact Er | exact A0 | intro Z; apply A1; exact Z
      | intro Z; destruct (A2 Z) as [E|H]; [rewrite E in Fd; discriminate|]; right; cbn [gete se2 sete];
        apply (has_notified_set id w _ (ib_nodup _ _ _ _ _ _ _ I2) H); rewrite Fd; exact I ].
    (* notified *)
    cbv zeta. destruct (has_writer (sw1 (r_sh x))) eqn:HW.
    + unfold RwPaths.reg. cbn [gete se2 sete snid]. apply (live_upd _ x _ fid f _ gu HL L); cbn [se0 se1 se2 snid swk serr sw0 sw1 set_nid sete]; rewrite ?WK.
      * apply (frame_other lis0 x [] [] _ _ _ fid f _ I0 L N0); [reflexivity | apply incl_refl | lia].
      * apply (frame_other lis1 x [] [] _ _ _ fid f _ I1 L N1); [reflexivity | apply incl_refl | lia].
      * apply (upd_remove_append rfut lis2 rf_meta [] _ _ _ fid f _ id w I2 L N2); try reflexivity.
        intros _. exists (mkRfut false (FUpRead None) false meta0). reflexivity.
      * unfold rshape1. cbn. split; [eexists; reflexivity | split; [exact HW | clear - B1; lia]].
      * exact Er.
      * exact A0.
      * intro Z. apply A1. exact Z.
      * intro Z. rewrite HW in Z. discriminate Z.
    + rewrite WB. set (s1 := sete E2 (ev_remove id (se2 (r_sh x))) (r_sh x)).
      destruct (notify_world2 1 false s1) as (Q2 & Qk & Q0 & Q1 & Qn & Qe & Qw0 & Qw1).
      apply (live_upd _ x _ fid f _ gu HL L); cbn [se0 se1 se2 snid swk serr sw0 sw1 setw]; rewrite ?Q2, ?Qk, ?Q0, ?Q1, ?Qn, ?Qe, ?Qw0, ?Qw1; unfold s1; cbn [se0 se1 se2 snid swk serr sw0 sw1 sete]; rewrite ?WK; cbn [app].
      * apply (frame_other lis0 x [] _ _ _ _ fid f _ I0 L N0); [reflexivity | intros a0 [] | lia].
      * apply (frame_other lis1 x [] _ _ _ _ fid f _ I1 L N1); [reflexivity | intros a0 [] | lia].
      * apply (InvB_notify rfut lis2 rf_meta 1 false [] _ _ _). apply (upd_remove rfut lis2 rf_meta [] _ _ _ fid f _ id I2 L N2). reflexivity.
      * unfold rshape1. cbn. reflexivity.
      * exact Er.
      * exact A0.
      * intro Z. exfalso. clear - Z. lia.
      * intros _. unfold av. cbn [gete se2].
        destruct (ev_remove id (se2 (r_sh x))) as [|e0 r0] eqn:QQ; [left; unfold ev_notify; cbn; destruct (1 <? N.of_nat 0); reflexivity|].
        right. apply notify_has; [clear; lia | discriminate].
Qed.

(* waiting on no_readers: the WaitingReaders phase of write() and the whole of upgrade() *)
Lemma live_wait x fid f w l gu (fP : option nat -> rfut) (fD : rfut) : RLive x -> RInv x -> swk (r_sh x) = [] ->
  alookup fid (r_futs x) = Some f -> lis1 f = l -> lis0 f = None -> lis2 f = None ->
  (forall l', lis1 (fP l') = l' /\ lis0 (fP l') = None /\ lis2 (fP l') = None /\ fm_st (rf_meta (fP l')) = FPending /\ fm_w (rf_meta (fP l')) = Some w /\
              (l' <> None -> rshape1 (fP l'))) ->
  lis1 fD = None -> lis0 fD = None -> lis2 fD = None -> rshape1 fD ->
  let '(l', s', b) := wait_spec w l (r_sh x) in
  RLiveW (swk s') (r_upd x s' (aupdate fid (if b then fD else fP l') (r_futs x)) gu).
Proof.
  intros HL HI WK L Ls N0 N2 HP D1 D0 D2 SD. pose proof HL as [I0 I1 I2 Sh K Er A0 A1 A2]. destruct K as (K1 & K2).
  unfold wait_spec. destruct (sw1 (r_sh x) =? 1) eqn:Q.
  - (* no reader left: done; the listener (if any) is dropped *)
    apply N.eqb_eq in Q. destruct (drop_proj E1 l (r_sh x)) as (P1 & P2 & P3 & P4 & P5 & P6 & P7). cbn [gete] in P1, P2.
    pose proof (P3 E0 ltac:(discriminate)) as P30. pose proof (P3 E2 ltac:(discriminate)) as P32. cbn [gete] in P30, P32.
    destruct (upd_drop_own rfut lis1 rf_meta [] _ _ _ fid f fD I1 L D1) as (J1 & JA). rewrite Ls in J1, JA. cbn [app] in J1.
    apply (live_upd _ x _ fid f _ gu HL L); rewrite ?P1, ?P2, ?P30, ?P32, ?P4, ?P5, ?P6, ?P7, ?WK; cbn [app].
    + apply (frame_other lis0 x [] _ _ _ _ fid f _ I0 L N0 D0); [intros a0 [] | lia].
    + exact J1.
    + apply (frame_other lis2 x [] _ _ _ _ fid f _ I2 L N2 D2); [intros a0 [] | lia].
    + exact SD.
    + exact Er.
    + apply (avail0_keep (r_sh x)); [exact P6 | exact P30 | exact A0].
    + intros _. unfold av. cbn [gete]. rewrite P1. apply JA. apply A1. exact Q.
    + intro Z. unfold av. cbn [gete]. rewrite P32. apply A2. exact Z.
  - apply N.eqb_neq in Q. destruct l as [id|].
    + pose proof (ib_listed _ _ _ _ _ _ _ I1 fid f id L Ls) as Hin.
      destruct (HP (Some id)) as (Q1 & Q0 & Q2 & QP & QW & QS).
      destruct (ev_find id (se1 (r_sh x))) as [[|w0|a]|] eqn:Fd; [| | |exfalso; apply ev_find_None in Fd; contradiction].
      1,2: apply (live_upd _ x _ fid f _ gu HL L); cbn [se0 se1 se2 snid swk serr sw0 sw1 sete]; rewrite ?WK;
        [ apply (frame_other lis0 x [] [] _ _ _ fid f _ I0 L N0 Q0); [apply incl_refl | lia]
        | apply (upd_set_task rfut lis1 rf_meta [] _ _ _ fid f _ id w I1 L Ls Q1 QP QW)
        | apply (frame_other lis2 x [] [] _ _ _ fid f _ I2 L N2 Q2); [apply incl_refl | lia]
        | apply QS; discriminate | exact Er | exact A0 | intro Z; contradiction | intro Z; apply A2; exact Z ].
      (* notified although a reader is still there (e.g. a new reader slipped in): register again *)
      destruct (HP (Some (snid (r_sh x)))) as (R1 & R0 & R2 & RP & RW & RS).
      unfold RwPaths.reg. cbn [gete se1 sete snid]. apply (live_upd _ x _ fid f _ gu HL L); cbn [se0 se1 se2 snid swk serr sw0 sw1 set_nid sete]; rewrite ?WK.
      * apply (frame_other lis0 x [] [] _ _ _ fid f _ I0 L N0 R0); [apply incl_refl | lia].
      * apply (upd_remove_append rfut lis1 rf_meta [] _ _ _ fid f _ id w I1 L Ls R1 RP RW). intros _. exists fD. exact D1.
      * apply (frame_other lis2 x [] [] _ _ _ fid f _ I2 L N2 R2); [apply incl_refl | lia].
      * apply RS. discriminate.
      * exact Er.
      * exact A0.
      * intro Z. contradiction.
      * intro Z. apply A2. exact Z.
    + destruct (HP (Some (snid (r_sh x)))) as (R1 & R0 & R2 & RP & RW & RS).
      unfold RwPaths.reg. cbn [gete]. apply (live_upd _ x _ fid f _ gu HL L); cbn [se0 se1 se2 snid swk serr sw0 sw1 set_nid sete]; rewrite ?WK.
      * apply (frame_other lis0 x [] [] _ _ _ fid f _ I0 L N0 R0); [apply incl_refl | lia].
      * apply (upd_append rfut lis1 rf_meta [] _ _ _ fid f _ w I1 L Ls R1 RP RW).
      * apply (frame_other lis2 x [] [] _ _ _ fid f _ I2 L N2 R2); [apply incl_refl | lia].
      * apply RS. discriminate.
      * exact Er.
      * exact A0.
      * intro Z. contradiction.
      * intro Z. apply A2. exact Z.
Qed.

(* ---------- futures that go through the inner mutex ---------- *)
Lemma lock_step x fid f w l : RLive x -> RInv x -> rsmall2 x -> swk (r_sh x) = [] ->
  alookup fid (r_futs x) = Some f -> lis0 f = lock_lis l -> (l = None \/ lock_pending l) -> lticket l <= sw0 (r_sh x) ->
  let '(l', s1, r) := lock_poll W0 E0 w l (r_sh x) in
  oth (r_sh x) s1 /\ serr s1 = false /\ avail0 s1 /\ (if r then lock_lis l' = None else lock_pending l') /\
  (forall f', lis0 f' = lock_lis l' -> (r = false -> fm_st (rf_meta f') = FPending /\ fm_w (rf_meta f') = Some w) ->
     InvB rfut lis0 rf_meta (swk s1) (se0 s1) (snid s1) (lk rfut (aupdate fid f' (r_futs x)))) /\
  (r = true -> sw0 (r_sh x) mod 2 = 0).
Proof.
  intros HL HI B WK L Ls Hl Ht. pose proof HL as [I0 I1 I2 Sh K Er A0 A1 A2].
  destruct (word_bounds x HI B) as (B1 & B0).
  assert (Bd : sw0 (r_sh x) <= usize_max / 2) by (change (usize_max / 2) with 9223372036854775807; change isize_max with 9223372036854775807 in B0; clear - B0; lia).
  pose proof (fun f' => lock_poll_live rfut lis0 rf_meta [] (rlook x) (lk rfut (aupdate fid f' (r_futs x))) fid f f' w l (r_sh x)
                           I0 WK L Ls Hl A0 (rw_queue_nonempty x HL HI) Bd Er Ht) as LP.
  pose proof (oth_lock_poll w l (r_sh x)) as OT.
  pose proof (lock_poll_spec W0 E0 w l (r_sh x)) as SP.
  destruct (lock_poll W0 E0 w l (r_sh x)) as [[l' s1] r]. cbn [fst snd] in OT.
  assert (D : serr s1 = false /\ avail0 s1 /\ (if r then lock_lis l' = None else lock_pending l')).
  { destruct (LP (mkRfut false (FUpRead l') false (mkMeta FPending (Some w) false))) as (_ & Q1 & Q2 & Q3).
    - intros g N. apply alookup_aupdate_other. exact N.
    - unfold lk. apply (alookup_aupdate_same _ _ _ _ L).
    - reflexivity.
    - intros _. split; reflexivity.
    - repeat split; assumption. }
  destruct D as (D1 & D2 & D3). split; [exact OT|]. split; [exact D1|]. split; [exact D2|]. split; [exact D3|]. split.
  - intros f' Lf HP. destruct (LP f') as (Q0 & _); auto.
    + intros g N. apply alookup_aupdate_other. exact N.
    + unfold lk. apply (alookup_aupdate_same _ _ _ _ L).
  - intros ->. assert (LL : lock_live l) by (destruct Hl as [->|(id & st & ->)]; cbn; reflexivity).
    cbn [getw] in SP. destruct SP as ((Ev & _) & _); [exact LL | exact Ht | rewrite USZ_val; change isize_max with 9223372036854775807 in B0; clear - B0; lia | exact Ev].
Qed.

Definition poll_post (x : rworld) (fid : nat) (f : rfut) (w : waker) gu1 gu2 (res : rfutst * sh * option gkind) : Prop :=
  let '(st', s', r) := res in
  match r with
  | Some _ => RLiveW (swk s') (r_upd x s' (aupdate fid (mkRfut (rf_arc f) st' false (mkMeta FDone (Some w) false)) (r_futs x)) gu1)
  | None => RLiveW (swk s') (r_upd x s' (aupdate fid (mkRfut (rf_arc f) st' (rf_owns f) (mkMeta FPending (Some w) false)) (r_futs x)) gu2)
  end.

Lemma oth_incl s s1 : oth s s1 -> swk s = [] -> incl [] (swk s1).
Proof. intros _ _ a []. Qed.

Lemma live_poll_upread x fid f l w gu1 gu2 : RLive x -> RInv x -> rsmall2 x -> swk (r_sh x) = [] ->
  alookup fid (r_futs x) = Some f -> rf_st f = FUpRead l -> fm_st (rf_meta f) <> FDone ->
  poll_post x fid f w gu1 gu2 (rfut_poll w (rf_st f) (r_sh x)).
Proof.
  intros HL HI B WK L St ND. pose proof HL as [I0 I1 I2 Sh K Er A0 A1 A2].
  destruct (word_bounds x HI B) as (B1 & B0).
  assert (V : fstatus_eqb (fm_st (rf_meta f)) FDone = false) by (destruct (fm_st (rf_meta f)); try reflexivity; exfalso; apply ND; reflexivity).
  destruct (fut_live_of x fid f HI L V) as (_ & Ti & _). unfold itick in Ti. rewrite St in Ti.
  assert (Hl : l = None \/ lock_pending l).
  { pose proof (Sh fid f L) as S0. unfold rshape1 in S0. rewrite St in S0. destruct (fm_st (rf_meta f)); [left; exact S0 | right; exact S0 | exfalso; apply ND; reflexivity]. }
  assert (Ls : lis0 f = lock_lis l) by (unfold lis0; rewrite St; reflexivity).
  assert (N1 : lis1 f = None) by (unfold lis1; rewrite St; reflexivity).
  assert (N2 : lis2 f = None) by (unfold lis2; rewrite St; reflexivity).
  pose proof (lock_step x fid f w l HL HI B WK L Ls Hl Ti) as LS.
  rewrite St. unfold rfut_poll, upread_poll. destruct (lock_poll W0 E0 w l (r_sh x)) as [[l' s1] r].
  destruct LS as ([O1 O2 O3 O4 O5 O6] & E1' & AV & LL & J0 & _). pose proof (incl_app_exists _ _ O6) as IW. rewrite WK in IW.
  destruct r; cbn [negb]; unfold poll_post.
  - (* acquired the inner mutex: count as a reader *)
    cbn [getw]. rewrite O1. destruct (isize_max <? sw1 (r_sh x)) eqn:Q; [apply N.ltb_lt in Q; clear - Q B1; lia|].
    change RFUEL with (S 7%nat). rewrite <- O1. rewrite inc_readers_paths. rewrite O1.
    rewrite wadd_small by (rewrite USZ_val; change isize_max with 9223372036854775807 in B1; clear - B1; lia).
    apply (live_upd _ x _ fid f _ gu1 HL L); cbn [se0 se1 se2 snid swk serr sw0 sw1 setw]; rewrite ?O3, ?O4.
    + apply J0; [reflexivity | intro H; discriminate H].
    + apply (frame_other lis1 x [] _ _ _ _ fid f _ I1 L N1); [reflexivity | exact IW | exact O5].
    + apply (frame_other lis2 x [] _ _ _ _ fid f _ I2 L N2); [reflexivity | exact IW | exact O5].
    + unfold rshape1. cbn. exact LL.
    + exact E1'.
    + exact AV.
    + intro Z. exfalso. clear - Z. lia.
    + rewrite hw_add2. intro Z. unfold av. cbn [gete se2 setw]. rewrite ?O4. apply A2. exact Z.
  - apply (live_upd _ x _ fid f _ gu2 HL L); rewrite ?O1, ?O3, ?O4.
    + apply J0; [reflexivity | intros _; split; reflexivity].
    + apply (frame_other lis1 x [] _ _ _ _ fid f _ I1 L N1); [reflexivity | exact IW | exact O5].
    + apply (frame_other lis2 x [] _ _ _ _ fid f _ I2 L N2); [reflexivity | exact IW | exact O5].
    + unfold rshape1. cbn. exact LL.
    + exact E1'.
    + exact AV.
    + intro Z. unfold av. cbn [gete]. rewrite ?O3. apply A1. exact Z.
    + intro Z. unfold av. cbn [gete]. rewrite ?O4. apply A2. exact Z.
Qed.

Lemma lor1_even v : v mod 2 = 0 -> N.lor v 1 = v + 1.
Proof. intro H. apply lor_1_even. exact H. Qed.

Lemma live_poll_write x fid f nr ws w gu1 gu2 : RLive x -> RInv x -> rsmall2 x -> swk (r_sh x) = [] ->
  alookup fid (r_futs x) = Some f -> rf_st f = FWrite nr ws -> fm_st (rf_meta f) <> FDone ->
  poll_post x fid f w gu1 gu2 (rfut_poll w (rf_st f) (r_sh x)).
Proof.
  intros HL HI B WK L St ND. pose proof HL as [I0 I1 I2 Sh K Er A0 A1 A2].
  destruct (word_bounds x HI B) as (B1 & B0).
  assert (V : fstatus_eqb (fm_st (rf_meta f)) FDone = false) by (destruct (fm_st (rf_meta f)); try reflexivity; exfalso; apply ND; reflexivity).
  destruct (fut_live_of x fid f HI L V) as (_ & Ti & _). unfold itick in Ti. rewrite St in Ti.
  assert (N2 : lis2 f = None) by (unfold lis2; rewrite St; reflexivity).
  assert (CASES : (nr = None /\ exists l, ws = WAcquiring l /\ (l = None \/ lock_pending l)) \/ ((exists id, nr = Some id) /\ ws = WWaiting)).
  { pose proof (Sh fid f L) as S0. unfold rshape1 in S0. rewrite St in S0. destruct (fm_st (rf_meta f)).
    - destruct S0 as (-> & ->). left. split; [reflexivity|]. exists None. split; [reflexivity | left; reflexivity].
    - destruct S0 as [(-> & l & -> & LP)|(E & ->)]; [left; split; [reflexivity|]; exists l; split; [reflexivity | right; exact LP] | right; split; [exact E | reflexivity]].
    - exfalso. apply ND. reflexivity. }
  rewrite St. unfold rfut_poll. change RWFUEL with (S (S (S (S 6%nat)))).
  destruct CASES as [(-> & l & -> & Hl)|((id & ->) & ->)].
  - (* still acquiring the inner mutex *)
    cbn [wtick] in Ti.
    assert (Ls : lis0 f = lock_lis l) by (unfold lis0; rewrite St; reflexivity).
    assert (N1 : lis1 f = None) by (unfold lis1; rewrite St; reflexivity).
    pose proof (lock_step x fid f w l HL HI B WK L Ls Hl Ti) as LS.
    rewrite write_acq_paths.
    2:{ intros l' s1 E. pose proof (oth_lock_poll w l (r_sh x)) as OT. rewrite E in OT. cbn [fst snd] in OT. destruct OT as [_ _ O3 _ O5 _].
        intros i Hi. cbn [gete] in Hi. rewrite O3 in Hi. apply (ib_fresh _ _ _ _ _ _ _ I1) in Hi. lia. }
    destruct (lock_poll W0 E0 w l (r_sh x)) as [[l' s1] r].
    destruct LS as ([O1 O2 O3 O4 O5 O6] & E1' & AV & LL & J0 & EV). pose proof (incl_app_exists _ _ O6) as IW. rewrite WK in IW.
    destruct r; cbn [negb]; unfold poll_post.
    + (* got the mutex: announce; then wait for the readers *)
      pose proof (RInv_mutex_even x HI (EV eq_refl)) as ZZ. pose proof HI as (EQ1 & _).
      assert (Ev1 : sw1 (r_sh x) mod 2 = 0).
      { rewrite EQ1. replace (2 * (nR x + nU x) + nW x + nH x) with (2 * (nR x + nU x)) by (clear - ZZ; lia). rewrite N.mul_comm. apply N.mod_mul. discriminate. }
      assert (ZH : nH x = 0) by (clear - ZZ; lia).
      unfold announce. rewrite O1. destruct (sw1 (r_sh x) =? 1) eqn:Q1; [apply N.eqb_eq in Q1; rewrite Q1 in Ev1; discriminate Ev1|].
      rewrite (lor1_even _ Ev1). destruct (sw1 (r_sh x) + 1 =? 1) eqn:Q2.
      * apply (live_upd _ x _ fid f _ gu1 HL L); cbn [se0 se1 se2 snid swk serr sw0 sw1 setw set_nid]; rewrite ?O3, ?O4.
        -- apply (InvB_nid rfut lis0 rf_meta _ _ (snid s1)); [lia|]. apply J0; [cbn; exact (eq_sym LL) | intro H; discriminate H].
        -- apply (frame_other lis1 x [] _ _ _ _ fid f _ I1 L N1); [reflexivity | exact IW | lia].
        -- apply (frame_other lis2 x [] _ _ _ _ fid f _ I2 L N2); [reflexivity | exact IW | lia].
        -- unfold rshape1. cbn. split; reflexivity.
        -- exact E1'.
        -- exact AV.
        -- intros _. left. cbn [gete se1]. apply (no_holder_no_entries [] x I1 Sh ZH).
        -- intro Z. exfalso. apply N.eqb_eq in Q2. rewrite Q2 in Z. discriminate Z.
      * unfold RwPaths.reg. cbn [gete se1 setw snid].
        apply (live_upd _ x _ fid f _ gu2 HL L); cbn [se0 se1 se2 snid swk serr sw0 sw1 setw set_nid sete]; rewrite ?O3, ?O4.
        -- apply (InvB_nid rfut lis0 rf_meta _ _ (snid s1)); [lia|]. apply J0; [cbn; exact (eq_sym LL) | intro H; discriminate H].
        -- apply (upd_append rfut lis1 rf_meta _ _ _ _ fid f _ w); try reflexivity; [|exact L | exact N1].
           apply (InvB_mono rfut lis1 rf_meta []); [exact IW|]. apply (InvB_nid rfut lis1 rf_meta [] _ (snid (r_sh x))); [exact O5 | exact I1].
        -- apply (frame_other lis2 x [] _ _ _ _ fid f _ I2 L N2); [reflexivity | exact IW | lia].
        -- unfold rshape1. cbn. right. split; [eexists; reflexivity | reflexivity].
        -- exact E1'.
        -- exact AV.
        -- intro Z. exfalso. apply N.eqb_neq in Q2. apply Q2. exact Z.
        -- intro Z. exfalso. apply has_writer_even in Z. rewrite <- N.add_mod_idemp_l in Z by discriminate. rewrite Ev1 in Z. discriminate Z.
    + apply (live_upd _ x _ fid f _ gu2 HL L); rewrite ?O1, ?O3, ?O4.
      * apply J0; [reflexivity | intros _; split; reflexivity].
      * apply (frame_other lis1 x [] _ _ _ _ fid f _ I1 L N1); [reflexivity | exact IW | exact O5].
      * apply (frame_other lis2 x [] _ _ _ _ fid f _ I2 L N2); [reflexivity | exact IW | exact O5].
      * unfold rshape1. cbn. left. split; [reflexivity|]. exists l'. split; [reflexivity | exact LL].
      * exact E1'.
      * exact AV.
      * intro Z. unfold av. cbn [gete]. rewrite ?O3. apply A1. exact Z.
      * intro Z. unfold av. cbn [gete]. rewrite ?O4. apply A2. exact Z.
  - (* announced: waiting for the readers to leave *)
    assert (N0 : lis0 f = None) by (unfold lis0; rewrite St; reflexivity).
    assert (Ls : lis1 f = Some id) by (unfold lis1; rewrite St; reflexivity).
    rewrite write_wait_paths by exact (ib_fresh _ _ _ _ _ _ _ I1).
    pose proof (live_wait x fid f w (Some id) gu2 (fun l' => mkRfut (rf_arc f) (FWrite l' WWaiting) (rf_owns f) (mkMeta FPending (Some w) false))
                 (mkRfut (rf_arc f) (FWrite None WAcquired) false (mkMeta FDone (Some w) false)) HL HI WK L Ls N0 N2) as LW.
    pose proof (live_wait x fid f w (Some id) gu1 (fun l' => mkRfut (rf_arc f) (FWrite l' WWaiting) (rf_owns f) (mkMeta FPending (Some w) false))
                 (mkRfut (rf_arc f) (FWrite None WAcquired) false (mkMeta FDone (Some w) false)) HL HI WK L Ls N0 N2) as LW1.
    assert (HP : forall l' : option nat,
       lis1 (mkRfut (rf_arc f) (FWrite l' WWaiting) (rf_owns f) (mkMeta FPending (Some w) false)) = l' /\
       lis0 (mkRfut (rf_arc f) (FWrite l' WWaiting) (rf_owns f) (mkMeta FPending (Some w) false)) = None /\
       lis2 (mkRfut (rf_arc f) (FWrite l' WWaiting) (rf_owns f) (mkMeta FPending (Some w) false)) = None /\
       fm_st (rf_meta (mkRfut (rf_arc f) (FWrite l' WWaiting) (rf_owns f) (mkMeta FPending (Some w) false))) = FPending /\
       fm_w (rf_meta (mkRfut (rf_arc f) (FWrite l' WWaiting) (rf_owns f) (mkMeta FPending (Some w) false))) = Some w /\
       (l' <> None -> rshape1 (mkRfut (rf_arc f) (FWrite l' WWaiting) (rf_owns f) (mkMeta FPending (Some w) false)))).
    { intro l'. repeat split. intro NN. unfold rshape1. cbn. right. destruct l' as [i|]; [split; [exists i; reflexivity | reflexivity] | contradiction]. }
    specialize (LW HP eq_refl eq_refl eq_refl ltac:(unfold rshape1; cbn; split; reflexivity)).
    specialize (LW1 HP eq_refl eq_refl eq_refl ltac:(unfold rshape1; cbn; split; reflexivity)).
    destruct (wait_spec w (Some id) (r_sh x)) as [[l' s'] b]. unfold wpres_of, poll_post. destruct b; [exact LW1 | exact LW].
Qed.

Lemma live_poll_upgrade x fid f hl l w gu1 gu2 : RLive x -> RInv x -> rsmall2 x -> swk (r_sh x) = [] ->
  alookup fid (r_futs x) = Some f -> rf_st f = FUpgrade hl l -> fm_st (rf_meta f) <> FDone ->
  poll_post x fid f w gu1 gu2 (rfut_poll w (rf_st f) (r_sh x)).
Proof.
  intros HL HI B WK L St ND. pose proof HL as [I0 I1 I2 Sh K Er A0 A1 A2].
  assert (HT : hl = true).
  { pose proof (Sh fid f L) as S0. unfold rshape1 in S0. rewrite St in S0. destruct (fm_st (rf_meta f)); [destruct S0 as (-> & _); reflexivity | destruct S0 as (-> & _); reflexivity | exfalso; apply ND; reflexivity]. }
  subst hl. rewrite St. unfold rfut_poll. cbn [negb]. change RWFUEL with (S (S (S 7%nat))).
  assert (N0 : lis0 f = None) by (unfold lis0; rewrite St; reflexivity).
  assert (N2 : lis2 f = None) by (unfold lis2; rewrite St; reflexivity).
  assert (Ls : lis1 f = l) by (unfold lis1; rewrite St; reflexivity).
  rewrite upgrade_paths by exact (ib_fresh _ _ _ _ _ _ _ I1).
  pose proof (live_wait x fid f w l gu2 (fun l' => mkRfut (rf_arc f) (FUpgrade true l') (rf_owns f) (mkMeta FPending (Some w) false))
               (mkRfut (rf_arc f) (FUpgrade false None) false (mkMeta FDone (Some w) false)) HL HI WK L Ls N0 N2) as LW.
  pose proof (live_wait x fid f w l gu1 (fun l' => mkRfut (rf_arc f) (FUpgrade true l') (rf_owns f) (mkMeta FPending (Some w) false))
               (mkRfut (rf_arc f) (FUpgrade false None) false (mkMeta FDone (Some w) false)) HL HI WK L Ls N0 N2) as LW1.
  assert (HP : forall l' : option nat,
     lis1 (mkRfut (rf_arc f) (FUpgrade true l') (rf_owns f) (mkMeta FPending (Some w) false)) = l' /\
     lis0 (mkRfut (rf_arc f) (FUpgrade true l') (rf_owns f) (mkMeta FPending (Some w) false)) = None /\
     lis2 (mkRfut (rf_arc f) (FUpgrade true l') (rf_owns f) (mkMeta FPending (Some w) false)) = None /\
     fm_st (rf_meta (mkRfut (rf_arc f) (FUpgrade true l') (rf_owns f) (mkMeta FPending (Some w) false))) = FPending /\
     fm_w (rf_meta (mkRfut (rf_arc f) (FUpgrade true l') (rf_owns f) (mkMeta FPending (Some w) false))) = Some w /\
     (l' <> None -> rshape1 (mkRfut (rf_arc f) (FUpgrade true l') (rf_owns f) (mkMeta FPending (Some w) false)))).
  { intro l'. split; [reflexivity|]. split; [reflexivity|]. split; [reflexivity|]. split; [reflexivity|]. split; [reflexivity|]. intro NN. unfold rshape1. cbn. destruct l' as [i|]; [split; [reflexivity | exists i; reflexivity] | contradiction]. }
  specialize (LW HP eq_refl eq_refl eq_refl ltac:(unfold rshape1; cbn; split; reflexivity)).
  specialize (LW1 HP eq_refl eq_refl eq_refl ltac:(unfold rshape1; cbn; split; reflexivity)).
  unfold wait_spec in *. destruct (sw1 (r_sh x) =? 1).
  - unfold pres_of, poll_post. exact LW1.
  - destruct l as [id|].
    + destruct (ev_find id (se1 (r_sh x))) as [[|w0|a]|]; unfold pres_of, poll_post; exact LW.
    + unfold pres_of, poll_post. exact LW.
Qed.

Lemma read_spec_nofuel w c l s a s' : read_spec w c l s <> PFuel a s'.
Proof.
  unfold read_spec. destruct l as [id|].
  - destruct (ev_find id (se2 s)) as [[|w0|b]|]; try discriminate. cbv zeta. destruct (has_writer (sw1 s)); discriminate.
  - destruct (has_writer (sw1 s)); discriminate.
Qed.

Lemma live_poll x fid k : RLive x -> RInv x -> rsmall2 x -> swk (r_sh x) = [] -> postL (fst (rstep_core x (RPoll fid k))).
Proof.
  intros HL HI B WK. unfold rstep_core.
  destruct (alookup fid (r_futs x)) as [f|] eqn:L; [|apply postL_same; assumption].
  destruct (fstatus_eqb (fm_st (rf_meta f)) FDone || Nat.leb 4 k) eqn:V; [apply postL_same; assumption|].
  apply Bool.orb_false_iff in V. destruct V as (V1 & _).
  assert (ND : fm_st (rf_meta f) <> FDone) by (intro Q; rewrite Q in V1; discriminate).
  assert (PP : poll_post x fid f (wtag fid k) (r_guards x ++ [(r_ng x, (match rf_st f with FRead _ _ => GR | FUpRead _ => GU | _ => GW end, rf_arc f))]) (r_guards x)
                 (rfut_poll (wtag fid k) (rf_st f) (r_sh x))).
  { destruct (rf_st f) as [c l|l|nr ws|hl l] eqn:St.
    - pose proof (live_poll_read x fid f c l (wtag fid k)) as P. unfold rfut_poll. change RWFUEL with (S (S (S (S 6%nat)))).
      pose proof HL as [_ _ I2 Sh _ _ _ _ _]. destruct (word_bounds x HI B) as (B1 & _).
      destruct (shape_of_read f c l (Sh fid f L) St ND) as (Bc & SH).
      rewrite read_paths; [|exact (ib_fresh _ _ _ _ _ _ _ I2) | clear - B1; lia | exact Bc | ].
      2:{ intro NE. destruct SH as [(-> & _)|(id & _ & HC)]; [contradiction | exact HC]. }
      pose proof (P (r_guards x ++ [(r_ng x, (GR, rf_arc f))]) HL HI B WK L St ND) as P1.
      pose proof (P (r_guards x) HL HI B WK L St ND) as P2.
      destruct (read_spec (wtag fid k) c l (r_sh x)) as [[c' l'] s'|[c' l'] s'|[c' l'] s'] eqn:RS; unfold poll_post; [exact P1 | exact P2 | exfalso; apply (read_spec_nofuel _ _ _ _ _ _ RS)].
    - rewrite <- St. apply (live_poll_upread x fid f l); assumption.
    - rewrite <- St. apply (live_poll_write x fid f nr ws); assumption.
    - rewrite <- St. apply (live_poll_upgrade x fid f hl l); assumption. }
  unfold poll_post in PP. destruct (rfut_poll (wtag fid k) (rf_st f) (r_sh x)) as [[st' s'] r]. destruct r as [gk|].
  - assert (GK : gk = match rf_st f with FRead _ _ => GR | FUpRead _ => GU | _ => GW end \/ True) by (right; exact I).
    unfold postL. destruct (rf_arc f && negb (rf_owns f)); cbn [fst r_sh r_inc r_bump_g r_upd]; [apply RLiveW_inc|]; apply RLiveW_bump_g.
    all: destruct PP as [J0 J1 J2 JS JK JE JA0 JA1 JA2]; constructor; assumption.
  - cbn [fst]. exact PP.
Qed.

(* ---------- cancellation ---------- *)
Lemma rm_post wk x s' fid f gu : RLiveW wk (r_upd x s' (aremove fid (r_futs x)) gu) -> swk s' = wk ->
  postL (fst ((if rf_owns f then r_dec (r_upd x s' (aremove fid (r_futs x)) gu) else r_upd x s' (aremove fid (r_futs x)) gu), RUnit)).
Proof. intros H <-. unfold postL. destruct (rf_owns f); cbn [fst r_sh r_dec r_upd]; [apply RLiveW_dec|]; exact H. Qed.

(* an announced writer (waiting write() or upgrade()) is cancelled: the bit is cleared, a reader woken,
   the inner mutex released, its listener on no_readers dropped *)
Lemma live_drop_holder x fid f l gu : RLive x -> RInv x -> rsmall2 x -> swk (r_sh x) = [] ->
  alookup fid (r_futs x) = Some f -> lis1 f = l -> lis0 f = None -> lis2 f = None -> fhold f = 1 ->
  RLiveW (swk (drop_listener_opt E1 l (rw_write_unlock (r_sh x)))) (r_upd x (drop_listener_opt E1 l (rw_write_unlock (r_sh x))) (aremove fid (r_futs x)) gu).
Proof.
  intros HL HI B WK L Ls N0 N2 HF. pose proof (Core_of [] x HL WK) as C. pose proof HL as [I0 I1 I2 Sh K Er A0 A1 A2]. destruct K as (K1 & K2).
  pose proof (asum_In fhold fid f (r_futs x) (alookup_In _ _ _ L)) as HH. rewrite HF in HH.
  destruct (odd_when_held x HI ltac:(unfold nH; clear - HH; lia)) as (Od & P0).
  set (s1 := rw_write_unlock (r_sh x)).
  assert (C1 : Core (rlook x) s1).
  { unfold s1, rw_write_unlock. rewrite (surjective_pairing (fetch_clear W1 WRITER_BIT (r_sh x))). apply Core_unlock, Core_notify, Core_fetch_clear. exact C. }
  assert (AV0 : avail0 s1).
  { unfold s1, rw_write_unlock. destruct (fetch_clear W1 WRITER_BIT (r_sh x)) as [s0 p]. apply avail0_unlock. }
  assert (AV2 : av E2 s1).
  { unfold s1, rw_write_unlock. destruct (fetch_clear W1 WRITER_BIT (r_sh x)) as [s0 p]. unfold unlock.
    destruct (fetch_sub W0 1 (notify E2 1 false s0)) as [s2 p2] eqn:Q.
    assert (s2 = setw W0 (wsub (sw0 (notify E2 1 false s0)) 1) (notify E2 1 false s0)) by (unfold fetch_sub in Q; inversion Q; reflexivity).
    subst s2. apply av_notify_keep. apply av_setw. apply av_notify_new. clear; lia. }
  assert (W1' : sw1 s1 = sw1 (r_sh x) - 1).
  { destruct (word_bounds x HI B) as (B1 & B0). destruct (write_unlock_spec (r_sh x) Od P0) as (Q1 & _); [rewrite USZ_val; change isize_max with 9223372036854775807 in B0; clear - B0; lia | exact Q1]. }
  destruct (drop_proj E1 l s1) as (P1 & P2 & P3 & P4 & P5 & P6 & P7). cbn [gete] in P1, P2.
  pose proof (P3 E0 ltac:(discriminate)) as P30. pose proof (P3 E2 ltac:(discriminate)) as P32. cbn [gete] in P30, P32.
  destruct C1 as [D0 D1 D2 DE].
  destruct (rm_drop_own rfut lis1 rf_meta _ _ _ _ fid f D1 L K1) as (J1 & _). rewrite Ls in J1.
  apply (live_rm _ x _ fid f gu HL L); rewrite ?P1, ?P2, ?P30, ?P32, ?P4, ?P5, ?P6, ?P7.
  - apply (frame_other_rm lis0 x _ _ _ _ _ fid f D0 L K1 N0); [apply incl_appl, incl_refl | lia].
  - exact J1.
  - apply (frame_other_rm lis2 x _ _ _ _ _ fid f D2 L K1 N2); [apply incl_appl, incl_refl | lia].
  - exact DE.
  - apply (avail0_keep s1); [exact P6 | exact P30 | exact AV0].
  - rewrite W1'. intro Z. exfalso. assert (sw1 (r_sh x) = 2) by (clear - Z Od; destruct (N.eq_dec (sw1 (r_sh x)) 0) as [Q|Q]; [rewrite Q in Od; discriminate | lia]).
    rewrite H in Od. discriminate Od.
  - intros _. unfold av. cbn [gete]. rewrite P32. exact AV2.
Qed.

Lemma live_dropfut x fid : RLive x -> RInv x -> rsmall2 x -> swk (r_sh x) = [] -> postL (fst (rstep_core x (RDropFut fid))).
Proof.
  intros HL HI B WK. unfold rstep_core.
  destruct (alookup fid (r_futs x)) as [f|] eqn:L; [|apply postL_same; assumption].
  pose proof HL as [I0 I1 I2 Sh K Er A0 A1 A2]. destruct K as (K1 & K2).
  destruct (word_bounds x HI B) as (B1 & B0). pose proof HI as (EQ1 & EQ0 & Le & Ex & F).
  pose proof (asum_In itick fid f (r_futs x) (alookup_In _ _ _ L)) as TI.
  assert (TI0 : itick f <= sw0 (r_sh x)) by (rewrite EQ0; unfold nT; clear - TI; lia).
  pose proof (Sh fid f L) as S0. unfold rshape1 in S0.
  (* no store change at all *)
  assert (PLAIN : lis0 f = None -> lis1 f = None -> lis2 f = None -> RLiveW [] (r_upd x (r_sh x) (aremove fid (r_futs x)) (r_guards x))).
  { intros N0 N1 N2. apply (live_rm _ x _ fid f _ HL L).
    - apply (frame_other_rm lis0 x [] [] _ _ _ fid f I0 L K1 N0); [apply incl_refl | lia].
    - apply (frame_other_rm lis1 x [] [] _ _ _ fid f I1 L K1 N1); [apply incl_refl | lia].
    - apply (frame_other_rm lis2 x [] [] _ _ _ fid f I2 L K1 N2); [apply incl_refl | lia].
    - exact Er.
    - exact A0.
    - intro Z. apply A1. exact Z.
    - intro Z. apply A2. exact Z. }
  (* a queued lock operation on the inner mutex is cancelled *)
  assert (LOCKD : forall l, lis0 f = lock_lis l -> lis1 f = None -> lis2 f = None -> lticket l <= sw0 (r_sh x) ->
            RLiveW (swk (lock_drop W0 E0 l (r_sh x))) (r_upd x (lock_drop W0 E0 l (r_sh x)) (aremove fid (r_futs x)) (r_guards x))).
  { intros l Ls N1 N2 Ht.
    destruct (lock_drop_live rfut lis0 rf_meta [] (rlook x) (lk rfut (aremove fid (r_futs x))) fid f l (r_sh x) I0 WK L Ls Ht) as (J0 & AV & ER).
    - rewrite USZ_val. change isize_max with 9223372036854775807 in B0. clear - B0. lia.
    - exact A0.
    - intros g N. apply alookup_aremove_other. exact N.
    - intros f0 L0. unfold lk in L0. rewrite (alookup_aremove_same fid _ K1) in L0. discriminate.
    - destruct (oth_lock_drop l (r_sh x)) as [O1 O2 O3 O4 O5 O6]. pose proof (incl_app_exists _ _ O6) as IW. rewrite WK in IW.
      apply (live_rm _ x _ fid f _ HL L); rewrite ?O1, ?O3, ?O4.
      + exact J0.
      + apply (frame_other_rm lis1 x [] _ _ _ _ fid f I1 L K1 N1); [exact IW | exact O5].
      + apply (frame_other_rm lis2 x [] _ _ _ _ fid f I2 L K1 N2); [exact IW | exact O5].
      + rewrite ER. exact Er.
      + exact AV.
      + intro Z. unfold av. cbn [gete]. rewrite ?O3. apply A1. exact Z.
      + intro Z. unfold av. cbn [gete]. rewrite ?O4. apply A2. exact Z. }
  unfold rfut_drop. destruct (rf_st f) as [c l|l|nr ws|hl l] eqn:St.
  - (* read(): its listener on no_writer goes; a notification it holds is passed on *)
    assert (N0 : lis0 f = None) by (unfold lis0; rewrite St; reflexivity).
    assert (N1 : lis1 f = None) by (unfold lis1; rewrite St; reflexivity).
    assert (Ls : lis2 f = l) by (unfold lis2; rewrite St; reflexivity).
    destruct (drop_proj E2 l (r_sh x)) as (P1 & P2 & P3 & P4 & P5 & P6 & P7). cbn [gete] in P1, P2.
    pose proof (P3 E0 ltac:(discriminate)) as P30. pose proof (P3 E1 ltac:(discriminate)) as P31. cbn [gete] in P30, P31.
    destruct (rm_drop_own rfut lis2 rf_meta [] _ _ _ fid f I2 L K1) as (J2 & JA). rewrite Ls in J2, JA. cbn [app] in J2.
    refine (rm_post _ x _ fid f _ _ eq_refl). apply (live_rm _ x _ fid f _ HL L); rewrite ?P1, ?P2, ?P30, ?P31, ?P4, ?P5, ?P6, ?P7, ?WK; cbn [app].
    + apply (frame_other_rm lis0 x [] _ _ _ _ fid f I0 L K1 N0); [intros a0 [] | lia].
    + apply (frame_other_rm lis1 x [] _ _ _ _ fid f I1 L K1 N1); [intros a0 [] | lia].
    + exact J2.
    + exact Er.
    + apply (avail0_keep (r_sh x)); [exact P6 | exact P30 | exact A0].
    + intro Z. unfold av. cbn [gete]. rewrite P31. apply A1. exact Z.
    + intro Z. unfold av. cbn [gete]. rewrite P1. apply JA. apply A2. exact Z.
  - refine (rm_post _ x _ fid f _ _ eq_refl). apply LOCKD; [unfold lis0; rewrite St; reflexivity | unfold lis1; rewrite St; reflexivity | unfold lis2; rewrite St; reflexivity|].
    unfold itick in TI0. rewrite St in TI0. exact TI0.
  - unfold write_drop. destruct ws as [l| |].
    + (* still acquiring *)
      assert (NR : nr = None) by (destruct (fm_st (rf_meta f)); [destruct S0 as (-> & _); reflexivity | destruct S0 as [(-> & _)|(_ & Q)]; [reflexivity | discriminate Q] | destruct S0 as (-> & _); reflexivity]).
      subst nr. change (drop_listener_opt E1 None (r_sh x)) with (r_sh x).
      refine (rm_post _ x _ fid f _ _ eq_refl). apply LOCKD; [unfold lis0; rewrite St; reflexivity | unfold lis1; rewrite St; reflexivity | unfold lis2; rewrite St; reflexivity|].
      unfold itick in TI0. rewrite St in TI0. exact TI0.
    + refine (rm_post _ x _ fid f _ _ eq_refl). apply (live_drop_holder x fid f nr); try assumption; [unfold lis1 | unfold lis0 | unfold lis2 | unfold fhold]; rewrite St; reflexivity.
    + assert (NR : nr = None) by (destruct (fm_st (rf_meta f)); [destruct S0 as (_ & Q); discriminate Q | destruct S0 as [(_ & l0 & Q & _)|(_ & Q)]; discriminate Q | destruct S0 as (-> & _); reflexivity]).
      subst nr. change (drop_listener_opt E1 None (r_sh x)) with (r_sh x).
      refine (rm_post [] x _ fid f _ _ WK). apply PLAIN; [unfold lis0 | unfold lis1 | unfold lis2]; rewrite St; reflexivity.
  - unfold upgrade_drop. destruct hl.
    + refine (rm_post _ x _ fid f _ _ eq_refl). apply (live_drop_holder x fid f l); try assumption; [unfold lis1 | unfold lis0 | unfold lis2 | unfold fhold]; rewrite St; reflexivity.
    + assert (NL : l = None) by (destruct (fm_st (rf_meta f)); [destruct S0 as (Q & _); discriminate Q | destruct S0 as (Q & _); discriminate Q | destruct S0 as (_ & ->); reflexivity]).
      subst l. change (drop_listener_opt E1 None (r_sh x)) with (r_sh x).
      refine (rm_post [] x _ fid f _ _ WK). apply PLAIN; [unfold lis0 | unfold lis1 | unfold lis2]; rewrite St; reflexivity.
Qed.

(* ---------- assembling ---------- *)
Lemma step_core_RLive x o : RLive x -> RInv x -> rsmall2 x -> swk (r_sh x) = [] -> postL (fst (rstep_core x o)).
Proof.
  intros HL HI B WK. destruct o.
  - apply live_start; assumption.
  - apply live_upgrade; assumption.
  - apply live_poll; assumption.
  - apply live_dropfut; assumption.
  - apply live_try; assumption.
  - apply live_tryupgrade; assumption.
  - apply live_downgrade; assumption.
  - apply live_downgradeup; assumption.
  - apply live_dropguard; assumption.
  - unfold rstep_core. cbv beta iota zeta. destruct (alookup g (r_guards x)); apply postL_same; assumption.
  - unfold rstep_core. cbv beta iota zeta. destruct (alookup g (r_guards x)) as [[[| |] a]|]; cbn [fst]; try (apply postL_same; assumption).
    unfold postL. apply RLiveW_set_val. cbn [r_sh r_set_val]. rewrite WK. exact HL.
  - unfold rstep_core. cbv beta iota zeta. destruct (Nat.eqb (r_handles x) 0); cbn [fst]; [apply postL_same; assumption|].
    unfold postL. apply RLiveW_inc, RLiveW_set_handles. cbn [r_sh r_inc r_set_handles]. rewrite WK. exact HL.
  - unfold rstep_core. cbv beta iota zeta. destruct (Nat.eqb (r_handles x) 0); [apply postL_same; assumption|].
    destruct (Nat.eqb (r_handles x) 1 && r_borrowed_alive x); cbn [fst]; [apply postL_same; assumption|].
    unfold postL. apply RLiveW_dec, RLiveW_set_handles. cbn [r_sh r_dec r_set_handles]. rewrite WK. exact HL.
Qed.

Lemma RLiveW_wake x : RLiveW (swk (r_sh x)) x -> RLive (r_wake_all (swk (r_sh x)) x).
Proof.
  intros [I0 I1 I2 Sh [K1 K2] Er A0 A1 A2]. unfold RLive, r_wake_all.
  set (wk := swk (r_sh x)) in *.
  set (h := fun f => mkRfut (rf_arc f) (rf_st f) (rf_owns f) (meta_wake wk (rf_meta f))).
  constructor; cbn [r_sh r_upd r_futs r_nf]; try assumption.
  - apply (InvB_wake rfut lis0 rf_meta wk _ _ (rlook x) _ h); auto. intro k. unfold rlook. cbn [r_futs r_upd]. exact (alookup_map h k (r_futs x)).
  - apply (InvB_wake rfut lis1 rf_meta wk _ _ (rlook x) _ h); auto. intro k. unfold rlook. cbn [r_futs r_upd]. exact (alookup_map h k (r_futs x)).
  - apply (InvB_wake rfut lis2 rf_meta wk _ _ (rlook x) _ h); auto. intro k. unfold rlook. cbn [r_futs r_upd]. exact (alookup_map h k (r_futs x)).
  - intros fid f L. cbn [r_futs r_upd] in L. pose proof (alookup_map h fid (r_futs x)) as AM. cbv beta in AM. unfold h in AM at 1. rewrite AM in L. clear AM.
    destruct (alookup fid (r_futs x)) as [f0|] eqn:L0; [|discriminate]. inversion L; subst.
    pose proof (Sh fid f0 L0) as S0. unfold rshape1 in *. cbn [h rf_meta rf_st]. rewrite meta_wake_st. exact S0.
  - split; cbn [r_futs r_upd r_nf]; rewrite map_map; cbn [fst]; [exact K1 | exact K2].
Qed.

Lemma step_RLive x o : RLive x -> RInv x -> rsmall2 x -> RLive (fst (rstep x o)).
Proof.
  intros HL HI B. unfold rstep.
  set (x0 := r_upd x (set_wk [] (r_sh x)) (r_futs x) (r_guards x)).
  assert (H0 : RLive x0) by (destruct HL; constructor; assumption).
  assert (I0 : RInv x0) by exact HI. assert (B0 : rsmall2 x0) by exact B. assert (K0 : swk (r_sh x0) = []) by reflexivity.
  pose proof (step_core_RLive x0 o H0 I0 B0 K0) as P. unfold postL in P.
  destruct (rstep_core x0 o) as [x1 r]. cbn [fst] in *. apply RLiveW_wake. exact P.
Qed.

Lemma RLive_init : RLive rw0.
Proof.
  constructor; cbn.
  - constructor; cbn; try tauto; try constructor; intros; discriminate.
  - constructor; cbn; try tauto; try constructor; intros; discriminate.
  - constructor; cbn; try tauto; try constructor; intros; discriminate.
  - intros g f L. discriminate L.
  - split; [constructor | intros k []].
  - reflexivity.
  - intros _. left. reflexivity.
  - intros _. left. reflexivity.
  - intros _. left. reflexivity.
Qed.

Definition RLIVE_BOUND : N := 2305843009213693952.   (* 2^61 *)

Lemma run_RLive_gen ops : forall x, RLive x -> RInv x ->
  2 * N.of_nat (length ops + (length (r_futs x) + length (r_guards x))) + 8 <= isize_max ->
  RLive (fold_left (fun x o => fst (rstep x o)) ops x) /\ RInv (fold_left (fun x o => fst (rstep x o)) ops x).
Proof.
  induction ops as [|o ops IH]; intros x HL HI B; cbn [fold_left]; [split; assumption|].
  assert (B2 : rsmall2 x) by (unfold rsmall2; cbn [length] in B; clear - B; lia).
  apply IH.
  - apply step_RLive; assumption.
  - apply step_RInv; [exact HI | apply rsmall2_small; exact B2].
  - pose proof (sizes_grow x o) as G. cbn [length] in B. clear - B G. lia.
Qed.

Theorem run_RLive ops : N.of_nat (length ops) < RLIVE_BOUND -> RLive (rrun ops) /\ RInv (rrun ops).
Proof.
  intro B. apply run_RLive_gen; [apply RLive_init | apply RInv_init|].
  cbn [rw0 r_futs r_guards length]. unfold RLIVE_BOUND in B. change isize_max with 9223372036854775807. clear - B. lia.
Qed.

(* ---------- the theorems ---------- *)
Definition no_unpolled_upgrade (x : rworld) : Prop :=
  forall fid f hl l, alookup fid (r_futs x) = Some f -> rf_st f = FUpgrade hl l -> fm_st (rf_meta f) <> FUnpolled.

Lemma holder_is_pending x : RLive x -> RInv x -> no_unpolled_upgrade x ->
  forall fid f, alookup fid (r_futs x) = Some f -> fhold f = 1 -> fm_st (rf_meta f) = FPending.
Proof.
  intros HL HI NU fid f L HF. pose proof (rl_shape _ _ HL fid f L) as S0. unfold rshape1 in S0.
  destruct HI as (_ & _ & _ & _ & F). pose proof (Forall_lookup _ _ _ _ F L) as Ok. cbn [snd] in Ok. unfold RwInv.fut_ok in Ok.
  unfold fhold in *. destruct (rf_st f) as [c l|l|nr ws|hl l] eqn:St; try discriminate.
  - destruct ws; try discriminate. destruct (fm_st (rf_meta f)); [destruct S0 as (_ & Q); discriminate Q | reflexivity | destruct S0 as (_ & Q); discriminate Q].
  - destruct hl; [|discriminate]. destruct (fm_st (rf_meta f)) eqn:P; [exfalso; apply (NU fid f true l L St P) | reflexivity | destruct S0 as (Q & _); discriminate Q].
Qed.

(* C06 (a): no guard alive (and every upgrade future has been polled) => nothing is pending *)
Theorem rw_idle_nothing_pending ops : N.of_nat (length ops) < RLIVE_BOUND ->
  let x := rrun ops in quiescent x -> r_guards x = [] -> no_unpolled_upgrade x ->
  forall fid f, alookup fid (r_futs x) = Some f -> fm_st (rf_meta f) <> FPending.
Proof.
  intros B x Q G NU fid f L P. destruct (run_RLive ops B) as (HL & HI). fold x in HL, HI.
  assert (ZR : nR x = 0) by (unfold nR; rewrite G; reflexivity).
  assert (ZU : nU x = 0) by (unfold nU; rewrite G; reflexivity).
  assert (ZW : nW x = 0) by (unfold nW; rewrite G; reflexivity).
  pose proof (no_idle_holder x HL HI Q ZR ZU ZW (holder_is_pending x HL HI NU)) as ZH.
  pose proof (pending_listener f (rl_shape _ _ HL fid f L) P) as PL.
  pose proof (mutex_free_no_lock_waiter x HL HI Q ZU ZW ZH fid f L) as M0.
  pose proof (no_writer_no_read_waiter x HL HI Q ZW ZH fid f L) as M2.
  pose proof (asum_In fhold fid f (r_futs x) (alookup_In _ _ _ L)) as LE. unfold nH in ZH. rewrite ZH in LE.
  destruct (rf_st f) as [c l|l|nr ws|hl l] eqn:St.
  - destruct PL as (id & E). rewrite E in M2. discriminate.
  - destruct PL as (id & E). rewrite E in M0. discriminate.
  - destruct ws as [l| |]; [destruct PL as (id & E); rewrite E in M0; discriminate | | ]; destruct PL as (_ & E); rewrite E in LE; clear - LE; lia.
  - destruct PL as (_ & E). rewrite E in LE. clear - LE. lia.
Qed.

(* C06 (b): no write guard and no announced writer / upgrader => no read() is pending *)
Theorem rw_readers_not_blocked ops : N.of_nat (length ops) < RLIVE_BOUND ->
  let x := rrun ops in quiescent x -> nW x = 0 -> nH x = 0 ->
  forall fid f c l, alookup fid (r_futs x) = Some f -> rf_st f = FRead c l -> fm_st (rf_meta f) <> FPending.
Proof.
  intros B x Q ZW ZH fid f c l L St P. destruct (run_RLive ops B) as (HL & HI). fold x in HL, HI.
  pose proof (pending_listener f (rl_shape _ _ HL fid f L) P) as PL. rewrite St in PL. destruct PL as (id & E).
  rewrite (no_writer_no_read_waiter x HL HI Q ZW ZH fid f L) in E. discriminate.
Qed.

(* C06 (c): no write / upgradable guard and no announced writer => the inner mutex is free: no upgradable_read()
   and no write() still queued for it is pending *)
Theorem rw_mutex_waiters_not_blocked ops : N.of_nat (length ops) < RLIVE_BOUND ->
  let x := rrun ops in quiescent x -> nU x = 0 -> nW x = 0 -> nH x = 0 ->
  forall fid f, alookup fid (r_futs x) = Some f -> fm_st (rf_meta f) = FPending ->
  match rf_st f with FUpRead _ => False | FWrite _ _ => False | FUpgrade _ _ => False | FRead _ _ => False end.
Proof.
  intros B x Q ZU ZW ZH fid f L P. destruct (run_RLive ops B) as (HL & HI). fold x in HL, HI.
  pose proof (pending_listener f (rl_shape _ _ HL fid f L) P) as PL.
  pose proof (mutex_free_no_lock_waiter x HL HI Q ZU ZW ZH fid f L) as M0.
  pose proof (no_writer_no_read_waiter x HL HI Q ZW ZH fid f L) as M2.
  pose proof (asum_In fhold fid f (r_futs x) (alookup_In _ _ _ L)) as LE. unfold nH in ZH. rewrite ZH in LE.
  destruct (rf_st f) as [c l|l|nr ws|hl l] eqn:St.
  - destruct PL as (id & E). rewrite E in M2. discriminate.
  - destruct PL as (id & E). rewrite E in M0. discriminate.
  - destruct ws as [l| |]; [destruct PL as (id & E); rewrite E in M0; discriminate | | ]; destruct PL as (_ & E); rewrite E in LE; clear - LE; lia.
  - destruct PL as (_ & E). rewrite E in LE. clear - LE. lia.
Qed.

(* C06 (d): an announced writer that is being polled has completed once no reader is left *)
Theorem rw_writer_not_blocked ops : N.of_nat (length ops) < RLIVE_BOUND ->
  let x := rrun ops in quiescent x -> nR x = 0 -> nU x = 0 -> nW x = 0 -> no_unpolled_upgrade x -> nH x = 0.
Proof.
  intros B x Q ZR ZU ZW NU. destruct (run_RLive ops B) as (HL & HI). fold x in HL, HI.
  apply (no_idle_holder x HL HI Q ZR ZU ZW (holder_is_pending x HL HI NU)).
Qed.

(* C12: a pending write() / upgrade with no write or upgradable guard alive => a writer has announced itself *)
Theorem rw_writer_announced ops : N.of_nat (length ops) < RLIVE_BOUND ->
  let x := rrun ops in quiescent x -> nU x = 0 -> nW x = 0 ->
  forall fid f, alookup fid (r_futs x) = Some f -> fm_st (rf_meta f) = FPending ->
  (exists nr ws, rf_st f = FWrite nr ws) \/ (exists hl l, rf_st f = FUpgrade hl l) ->
  nH x = 1 /\ has_writer (sw1 (r_sh x)) = true.
Proof.
  intros B x Q ZU ZW fid f L P K. destruct (run_RLive ops B) as (HL & HI). fold x in HL, HI.
  assert (H1 : nH x = 1).
  { pose proof HI as (_ & _ & Le & _). destruct (N.eq_dec (nH x) 0) as [ZH|NZ]; [|clear - Le NZ ZU ZW; lia]. exfalso.
    pose proof (rw_mutex_waiters_not_blocked ops B Q ZU ZW ZH fid f L P) as F0. fold x in F0.
    destruct K as [(nr & ws & E)|(hl & l & E)]; rewrite E in F0; exact F0. }
  split; [exact H1|]. destruct HI as (EQ1 & _). apply has_writer_odd. rewrite EQ1, ZW, H1.
  replace (2 * (nR x + nU x) + 0 + 1) with (1 + (nR x + nU x) * 2) by lia. rewrite N.mod_add by discriminate. reflexivity.
Qed.

(* C12: while the writer bit is set no read() future completes *)
Theorem rw_reader_blocked ops : N.of_nat (length ops) < RLIVE_BOUND ->
  let x := rrun ops in has_writer (sw1 (r_sh x)) = true ->
  forall fid f c l k, alookup fid (r_futs x) = Some f -> rf_st f = FRead c l -> fm_st (rf_meta f) <> FDone -> (k < 4)%nat ->
  o_res (snd (rstep x (RPoll fid k))) = RPending.
Proof.
  intros B x HW fid f c l k L St ND K4. destruct (run_RLive ops B) as (HL & HI). fold x in HL, HI.
  assert (B2 : rsmall2 x).
  { unfold rsmall2, x, rrun. pose proof (run_sizes ops rw0) as S. cbn [rw0 r_futs r_guards length] in S.
    unfold RLIVE_BOUND in B. change isize_max with 9223372036854775807. clear - B S. lia. }
  destruct (word_bounds x HI B2) as (B1 & _).
  pose proof HL as [_ _ I2 Sh _ _ _ _ _].
  destruct (shape_of_read f c l (Sh fid f L) St ND) as (Bc & SH).
  unfold rstep. set (x0 := r_upd x (set_wk [] (r_sh x)) (r_futs x) (r_guards x)).
  unfold rstep_core. cbv zeta. change (r_futs x0) with (r_futs x). rewrite L.
  assert (V : fstatus_eqb (fm_st (rf_meta f)) FDone || Nat.leb 4 k = false).
  { apply Bool.orb_false_iff. split; [destruct (fm_st (rf_meta f)); try reflexivity; exfalso; apply ND; reflexivity | apply Nat.leb_gt; exact K4]. }
  rewrite V. rewrite St. unfold rfut_poll. change RWFUEL with (S (S (S (S 6%nat)))).
  rewrite read_paths; [| | | exact Bc |].
  2:{ intros i Hi. apply (ib_fresh _ _ _ _ _ _ _ I2). exact Hi. }
  2:{ change (sw1 (r_sh x0)) with (sw1 (r_sh x)). clear - B1. lia. }
  2:{ intro NE. destruct SH as [(-> & _)|(id & _ & HC)]; [contradiction | exact HC]. }
  unfold read_spec. change (sw1 (r_sh x0)) with (sw1 (r_sh x)). rewrite HW.
  destruct l as [id|]; [|reflexivity].
  destruct (ev_find id (se2 (r_sh x0))) as [[|w0|a]|]; reflexivity.
Qed.

(* C10 for the RwLock: with no future alive none of the three events holds an entry *)
Theorem rw_idle_events ops : N.of_nat (length ops) < RLIVE_BOUND ->
  r_futs (rrun ops) = [] -> se0 (r_sh (rrun ops)) = [] /\ se1 (r_sh (rrun ops)) = [] /\ se2 (r_sh (rrun ops)) = [].
Proof.
  intros B F. destruct (run_RLive ops B) as ([I0 I1 I2 _ _ _ _ _ _] & _). unfold rlook in *. rewrite F in I0, I1, I2.
  split; [apply (no_futs_no_entries rfut lis0 rf_meta _ _ _ I0)|]. split; [apply (no_futs_no_entries rfut lis1 rf_meta _ _ _ I1) | apply (no_futs_no_entries rfut lis2 rf_meta _ _ _ I2)].
Qed.

Theorem rw_no_error ops : N.of_nat (length ops) < RLIVE_BOUND -> serr (r_sh (rrun ops)) = false.
Proof. intro B. destruct (run_RLive ops B) as (HL & _). exact (rl_err _ _ HL). Qed.
