(* ApiFacts.v — facts about the assoc-list helpers of Api.v *)
From AL Require Import Base Api.
From Coq Require Import Lia.

Lemma alookup_aremove_length {A} k (l : list (nat * A)) v :
  alookup k l = Some v -> S (length (aremove k l)) = length l.
Proof.
  induction l as [|[k' v'] r IH]; cbn; [discriminate|].
  destruct (Nat.eqb k k'); [reflexivity|]. intro H. cbn. rewrite IH; auto.
Qed.
Lemma aupdate_length {A} k (v : A) l : length (aupdate k v l) = length l.
Proof. induction l as [|[k' v'] r IH]; cbn; [reflexivity|]. destruct (Nat.eqb k k'); cbn; congruence. Qed.
Lemma alookup_In {A} k (l : list (nat * A)) v : alookup k l = Some v -> In (k, v) l.
Proof.
  induction l as [|[k' v'] r IH]; cbn; [discriminate|].
  destruct (Nat.eqb k k') eqn:E.
  - intro H; inversion H; subst. apply Nat.eqb_eq in E; subst. left; reflexivity.
  - intro H. right. auto.
Qed.
Lemma map_fst_aupdate {A} k (v : A) l : map fst (aupdate k v l) = map fst l.
Proof.
  induction l as [|[k' v'] r IH]; cbn; [reflexivity|].
  destruct (Nat.eqb k k') eqn:E; cbn; [apply Nat.eqb_eq in E; subst; reflexivity | congruence].
Qed.

(* sums over assoc lists *)
Fixpoint asum {A} (g : A -> N) (l : list (nat * A)) : N :=
  match l with [] => 0 | (_, v) :: r => g v + asum g r end.
Lemma asum_app {A} (g : A -> N) l1 l2 : asum g (l1 ++ l2) = asum g l1 + asum g l2.
Proof. induction l1 as [|[k v] r IH]; cbn [asum app]; [lia|]. rewrite IH. lia. Qed.
Lemma asum_aupdate {A} (g : A -> N) k v v' l : alookup k l = Some v ->
  asum g (aupdate k v' l) + g v = asum g l + g v'.
Proof.
  induction l as [|[k' u] r IH]; cbn [alookup aupdate asum]; [discriminate|].
  destruct (Nat.eqb k k').
  - intro H; inversion H; subst. cbn [asum]. lia.
  - intro H. cbn [asum]. specialize (IH H). lia.
Qed.
Lemma asum_aremove {A} (g : A -> N) k v l : alookup k l = Some v -> asum g (aremove k l) + g v = asum g l.
Proof.
  induction l as [|[k' u] r IH]; cbn [alookup aremove asum]; [discriminate|].
  destruct (Nat.eqb k k').
  - intro H; inversion H; subst. lia.
  - intro H. cbn [asum]. specialize (IH H). lia.
Qed.
Lemma asum_In {A} (g : A -> N) k v l : In (k, v) l -> g v <= asum g l.
Proof.
  induction l as [|[k' u] r IH]; cbn [In asum]; [contradiction|].
  intros [H|H]; [inversion H; subst; lia | specialize (IH H); lia].
Qed.
Lemma asum_le {A} (g : A -> N) c l : (forall v, g v <= c) -> asum g l <= c * N.of_nat (length l).
Proof. intro H. induction l as [|[k v] r IH]; cbn [asum length]; [lia|]. specialize (H v). lia. Qed.
Lemma asum_map {A} (g : A -> N) (h : A -> A) l : (forall v, g (h v) = g v) ->
  asum g (map (fun p => (fst p, h (snd p))) l) = asum g l.
Proof. intro H. induction l as [|[k v] r IH]; cbn; [reflexivity|]. rewrite H, IH. reflexivity. Qed.

Lemma Forall_aupdate {A} (P : nat * A -> Prop) k v l :
  Forall P l -> P (k, v) -> Forall P (aupdate k v l).
Proof.
  induction l as [|[k' v'] r IH]; cbn [aupdate]; intros F Pv; [constructor|].
  inversion F; subst. destruct (Nat.eqb k k'); constructor; auto.
Qed.
Lemma Forall_aremove {A} (P : nat * A -> Prop) k l : Forall P l -> Forall P (aremove k l).
Proof.
  induction l as [|[k' v'] r IH]; cbn [aremove]; intros F; [constructor|].
  inversion F; subst. destruct (Nat.eqb k k'); [assumption | constructor; auto].
Qed.
Lemma Forall_lookup {A} (P : nat * A -> Prop) k v l : Forall P l -> alookup k l = Some v -> P (k, v).
Proof. intros F L. rewrite Forall_forall in F. apply F. apply alookup_In. exact L. Qed.

(* alookup under the list operations *)
Lemma alookup_app {A} k (l1 l2 : list (nat * A)) :
  alookup k (l1 ++ l2) = match alookup k l1 with Some v => Some v | None => alookup k l2 end.
Proof. induction l1 as [|[k' v] r IH]; cbn; [reflexivity|]. destruct (Nat.eqb k k'); [reflexivity | exact IH]. Qed.
Lemma alookup_aupdate_same {A} k (v v' : A) l : alookup k l = Some v -> alookup k (aupdate k v' l) = Some v'.
Proof.
  induction l as [|[k' u] r IH]; cbn; [discriminate|]. destruct (Nat.eqb k k') eqn:E; cbn.
  - rewrite Nat.eqb_refl. reflexivity.
  - rewrite E. exact IH.
Qed.
Lemma alookup_aupdate_other {A} k k' (v' : A) l : k <> k' -> alookup k (aupdate k' v' l) = alookup k l.
Proof.
  intro N. induction l as [|[k2 u] r IH]; cbn; [reflexivity|]. destruct (Nat.eqb k' k2) eqn:E; cbn.
  - apply Nat.eqb_eq in E. subst. destruct (Nat.eqb k k2) eqn:E2; [apply Nat.eqb_eq in E2; contradiction | reflexivity].
  - destruct (Nat.eqb k k2); [reflexivity | exact IH].
Qed.
Lemma alookup_aremove_other {A} k k' (l : list (nat * A)) : k <> k' -> alookup k (aremove k' l) = alookup k l.
Proof.
  intro N. induction l as [|[k2 u] r IH]; cbn; [reflexivity|]. destruct (Nat.eqb k' k2) eqn:E; cbn.
  - apply Nat.eqb_eq in E. subst. destruct (Nat.eqb k k2) eqn:E2; [apply Nat.eqb_eq in E2; contradiction | reflexivity].
  - destruct (Nat.eqb k k2); [reflexivity | exact IH].
Qed.
Lemma alookup_keys {A} k (l : list (nat * A)) v : alookup k l = Some v -> In k (map fst l).
Proof. intro H. apply alookup_In in H. apply (in_map fst) in H. exact H. Qed.
Lemma alookup_not_key {A} k (l : list (nat * A)) : ~ In k (map fst l) -> alookup k l = None.
Proof. intro N. destruct (alookup k l) eqn:E; [apply alookup_keys in E; contradiction | reflexivity]. Qed.
Lemma alookup_aremove_same {A} k (l : list (nat * A)) : NoDup (map fst l) -> alookup k (aremove k l) = None.
Proof.
  induction l as [|[k2 u] r IH]; cbn; [reflexivity|]. intro ND. inversion ND; subst.
  destruct (Nat.eqb k k2) eqn:E.
  - apply Nat.eqb_eq in E. subst. apply alookup_not_key. exact H1.
  - cbn. rewrite E. apply IH. exact H2.
Qed.
Lemma keys_aupdate {A} k (v : A) l : map fst (aupdate k v l) = map fst l.
Proof. apply map_fst_aupdate. Qed.
Lemma keys_aremove_incl {A} k (l : list (nat * A)) : incl (map fst (aremove k l)) (map fst l).
Proof.
  induction l as [|[k2 u] r IH]; cbn; [apply incl_refl|]. destruct (Nat.eqb k k2); [apply incl_tl, incl_refl|].
  cbn. apply incl_cons; [left; reflexivity | apply incl_tl, IH].
Qed.
Lemma NoDup_keys_aremove {A} k (l : list (nat * A)) : NoDup (map fst l) -> NoDup (map fst (aremove k l)).
Proof.
  induction l as [|[k2 u] r IH]; cbn; [auto|]. intro ND. inversion ND; subst. destruct (Nat.eqb k k2); [assumption|].
  cbn. constructor; [|auto]. intro H. apply H1. apply (keys_aremove_incl k r). exact H.
Qed.
Lemma alookup_map {A B} (h : A -> B) k (l : list (nat * A)) :
  alookup k (map (fun p => (fst p, h (snd p))) l) = option_map h (alookup k l).
Proof. induction l as [|[k2 u] r IH]; cbn; [reflexivity|]. destruct (Nat.eqb k k2); [reflexivity | exact IH]. Qed.

Lemma In_alookup_nd {A} k (v : A) l : NoDup (map fst l) -> In (k, v) l -> alookup k l = Some v.
Proof.
  induction l as [|[k' v'] l IH]; intros ND Hi; [destruct Hi|]. cbn [alookup]. cbn [map fst] in ND. inversion ND as [|? ? Nk NDl]; subst.
  destruct Hi as [Hi|Hi].
  - inversion Hi; subst. rewrite Nat.eqb_refl. reflexivity.
  - destruct (Nat.eqb k k') eqn:Q.
    + apply Nat.eqb_eq in Q. subst. exfalso. apply Nk. apply in_map_iff. exists (k', v). split; [reflexivity | exact Hi].
    + apply IH; assumption.
Qed.
