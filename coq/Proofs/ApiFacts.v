(* ApiFacts.v — facts about the assoc-list helpers of Api.v *)
From AL Require Import Base Api.
From Coq Require Import Lia.

Lemma alookup_aremove_length {A} k (l : list (nat * A)) v :
  alookup k l = Some v -> S (length (aremove k l)) = length l.
Proof.
  induction l as [|[k' v'] r IH]; cbn; [discriminate|].
  destruct (Nat.eqb k k'); [reflexivity|]. intro H. cbn. rewrite IH; auto.
Qed.
Lemma aupdate_length {A} k (v : A) l : length (aupdate k v l) = length l.
Proof. induction l as [|[k' v'] r IH]; cbn; [reflexivity|]. destruct (Nat.eqb k k'); cbn; congruence. Qed.
Lemma alookup_In {A} k (l : list (nat * A)) v : alookup k l = Some v -> In (k, v) l.
Proof.
  induction l as [|[k' v'] r IH]; cbn; [discriminate|].
  destruct (Nat.eqb k k') eqn:E.
  - intro H; inversion H; subst. apply Nat.eqb_eq in E; subst. left; reflexivity.
  - intro H. right. auto.
Qed.
Lemma map_fst_aupdate {A} k (v : A) l : map fst (aupdate k v l) = map fst l.
Proof.
  induction l as [|[k' v'] r IH]; cbn; [reflexivity|].
  destruct (Nat.eqb k k') eqn:E; cbn; [apply Nat.eqb_eq in E; subst; reflexivity | congruence].
Qed.

(* sums over assoc lists *)
Fixpoint asum {A} (g : A -> N) (l : list (nat * A)) : N :=
  match l with [] => 0 | (_, v) :: r => g v + asum g r end.
Lemma asum_app {A} (g : A -> N) l1 l2 : asum g (l1 ++ l2) = asum g l1 + asum g l2.
Proof. induction l1 as [|[k v] r IH]; cbn [asum app]; [lia|]. rewrite IH. lia. Qed.
Lemma asum_aupdate {A} (g : A -> N) k v v' l : alookup k l = Some v ->
  asum g (aupdate k v' l) + g v = asum g l + g v'.
Proof.
  induction l as [|[k' u] r IH]; cbn [alookup aupdate asum]; [discriminate|].
  destruct (Nat.eqb k k').
  - intro H; inversion H; subst. cbn [asum]. lia.
  - intro H. cbn [asum]. specialize (IH H). lia.
Qed.
Lemma asum_aremove {A} (g : A -> N) k v l : alookup k l = Some v -> asum g (aremove k l) + g v = asum g l.
Proof.
  induction l as [|[k' u] r IH]; cbn [alookup aremove asum]; [discriminate|].
  destruct (Nat.eqb k k').
  - intro H; inversion H; subst. lia.
  - intro H. cbn [asum]. specialize (IH H). lia.
Qed.
Lemma asum_In {A} (g : A -> N) k v l : In (k, v) l -> g v <= asum g l.
Proof.
  induction l as [|[k' u] r IH]; cbn [In asum]; [contradiction|].
  intros [H|H]; [inversion H; subst; lia | specialize (IH H); lia].
Qed.
Lemma asum_le {A} (g : A -> N) c l : (forall v, g v <= c) -> asum g l <= c * N.of_nat (length l).
Proof. intro H. induction l as [|[k v] r IH]; cbn [asum length]; [lia|]. specialize (H v). lia. Qed.
Lemma asum_map {A} (g : A -> N) (h : A -> A) l : (forall v, g (h v) = g v) ->
  asum g (map (fun p => (fst p, h (snd p))) l) = asum g l.
Proof. intro H. induction l as [|[k v] r IH]; cbn; [reflexivity|]. rewrite H, IH. reflexivity. Qed.

Lemma Forall_aupdate {A} (P : nat * A -> Prop) k v l :
  Forall P l -> P (k, v) -> Forall P (aupdate k v l).
Proof.
  induction l as [|[k' v'] r IH]; cbn [aupdate]; intros F Pv; [constructor|].
  inversion F; subst. destruct (Nat.eqb k k'); constructor; auto.
Qed.
Lemma Forall_aremove {A} (P : nat * A -> Prop) k l : Forall P l -> Forall P (aremove k l).
Proof.
  induction l as [|[k' v'] r IH]; cbn [aremove]; intros F; [constructor|].
  inversion F; subst. destruct (Nat.eqb k k'); [assumption | constructor; auto].
Qed.
Lemma Forall_lookup {A} (P : nat * A -> Prop) k v l : Forall P l -> alookup k l = Some v -> P (k, v).
Proof. intros F L. rewrite Forall_forall in F. apply F. apply alookup_In. exact L. Qed.
