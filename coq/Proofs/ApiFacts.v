(* ApiFacts.v — facts about the assoc-list helpers of Api.v *)
From AL Require Import Base Api.
From Coq Require Import Lia.

Lemma alookup_aremove_length {A} k (l : list (nat * A)) v :
  alookup k l = Some v -> S (length (aremove k l)) = length l.
Proof.
  induction l as [|[k' v'] r IH]; cbn; [discriminate|].
  destruct (Nat.eqb k k'); [reflexivity|]. intro H. cbn. rewrite IH; auto.
Qed.
Lemma aupdate_length {A} k (v : A) l : length (aupdate k v l) = length l.
Proof. induction l as [|[k' v'] r IH]; cbn; [reflexivity|]. destruct (Nat.eqb k k'); cbn; congruence. Qed.
Lemma alookup_In {A} k (l : list (nat * A)) v : alookup k l = Some v -> In (k, v) l.
Proof.
  induction l as [|[k' v'] r IH]; cbn; [discriminate|].
  destruct (Nat.eqb k k') eqn:E.
  - intro H; inversion H; subst. apply Nat.eqb_eq in E; subst. left; reflexivity.
  - intro H. right. auto.
Qed.
Lemma map_fst_aupdate {A} k (v : A) l : map fst (aupdate k v l) = map fst l.
Proof.
  induction l as [|[k' v'] r IH]; cbn; [reflexivity|].
  destruct (Nat.eqb k k') eqn:E; cbn; [apply Nat.eqb_eq in E; subst; reflexivity | congruence].
Qed.
