(* RwWord.v — what the raw RwLock operations do to the state word (W1) and to the
   inner mutex word (W0). *)
From AL Require Import Base Mutex RwLock BaseFacts MutexWord.
From Coq Require Import Lia.

Arguments lock_poll : simpl never.
Arguments lock_drop : simpl never.
Arguments try_lock : simpl never.
Arguments unlock : simpl never.
Arguments notify : simpl never.
Arguments drop_listener_opt : simpl never.

Lemma has_writer_odd v : has_writer v = true <-> v mod 2 = 1.
Proof.
  unfold has_writer, WRITER_BIT. rewrite land_1_mod.
  destruct (mod2_cases v) as [H|H]; rewrite H; cbn; split; intro; try discriminate; auto; lia.
Qed.
Lemma has_writer_even v : has_writer v = false <-> v mod 2 = 0.
Proof.
  unfold has_writer, WRITER_BIT. rewrite land_1_mod.
  destruct (mod2_cases v) as [H|H]; rewrite H; cbn; split; intro; try discriminate; auto; lia.
Qed.

(* [mframe]: W1 and W2 untouched (what the inner mutex's operations guarantee) *)
Lemma wframe_W0_sw1 s s' : wframe W0 s s' -> sw1 s' = sw1 s.
Proof. intro H. apply (H W1). discriminate. Qed.

(* increment of the reader count when the expected value is current *)
Lemma inc_readers_spec fuel s : sw1 s + 2 < USZ ->
  sw1 (inc_readers (S fuel) (sw1 s) s) = sw1 s + 2 /\ sw0 (inc_readers (S fuel) (sw1 s) s) = sw0 s /\
  same_events s (inc_readers (S fuel) (sw1 s) s).
Proof.
  intro B. cbn [inc_readers]. unfold cas. cbn [getw]. rewrite N.eqb_refl. cbn. rewrite N.eqb_refl.
  unfold ONE_READER. rewrite wadd_small by exact B. repeat split.
Qed.

Lemma try_read_spec s : sw1 s + 2 < USZ ->
  let '(s', ok) := rw_try_read s in
  (ok = true -> sw1 s mod 2 = 0 /\ sw1 s' = sw1 s + 2) /\
  (ok = false -> sw1 s mod 2 = 1 /\ sw1 s' = sw1 s) /\ sw0 s' = sw0 s /\ same_events s s'.
Proof.
  intro B. unfold rw_try_read, RFUEL. cbn [try_read_loop getw].
  destruct (has_writer (sw1 s)) eqn:HW.
  - apply has_writer_odd in HW. repeat split; auto; discriminate.
  - apply has_writer_even in HW.
    set (s1 := if isize_max <? sw1 s then set_err s else s).
    assert (E1 : sw1 s1 = sw1 s) by (unfold s1; destruct (isize_max <? sw1 s); reflexivity).
    assert (E0 : sw0 s1 = sw0 s) by (unfold s1; destruct (isize_max <? sw1 s); reflexivity).
    assert (EE : same_events s s1) by (unfold s1; destruct (isize_max <? sw1 s); repeat split).
    unfold cas. cbn [getw]. rewrite E1, N.eqb_refl. cbn. rewrite N.eqb_refl.
    unfold ONE_READER. rewrite wadd_small by exact B.
    repeat split; auto; try discriminate; destruct EE as (A1 & A2 & A3); cbn; congruence.
Qed.

Lemma try_upgrade_spec s :
  let '(s', ok) := rw_try_upgrade s in
  (ok = true -> sw1 s = 2 /\ sw1 s' = 1) /\ (ok = false -> sw1 s <> 2 /\ s' = s) /\ sw0 s' = sw0 s.
Proof.
  unfold rw_try_upgrade, cas, ONE_READER, WRITER_BIT. cbn [getw].
  destruct (sw1 s =? 2) eqn:E; cbn; rewrite E; repeat split; auto; try discriminate; lia.
Qed.

(* ---- RawRead ---- *)
Lemma read_loop_spec fuel w : forall c l s, sw1 s + 2 < USZ ->
  match read_loop fuel w c l s with
  | PReady _ s' => sw1 s mod 2 = 0 /\ sw1 s' = sw1 s + 2 /\ sw0 s' = sw0 s
  | PPending _ s' | PFuel _ s' => sw1 s' = sw1 s /\ sw0 s' = sw0 s
  end.
Proof.
  induction fuel as [|fuel IH]; intros c l s B; cbn [read_loop]; [split; reflexivity|].
  destruct (has_writer c) eqn:HW; cbn [negb].
  - destruct l as [id|].
    + dstep (poll_listener E2 id w s) s1 r.
      destruct (snd (poll_listener E2 id w s)); cbn [negb].
      2:{ autorewrite with sw. split; reflexivity. }
      set (s1 := fst (poll_listener E2 id w s)).
      assert (A1 : sw1 s1 = sw1 s) by (unfold s1; autorewrite with sw; reflexivity).
      assert (A0 : sw0 s1 = sw0 s) by (unfold s1; autorewrite with sw; reflexivity).
      set (s2 := if has_writer (getw W1 s1) then s1 else notify E2 1 false s1).
      assert (C1 : sw1 s2 = sw1 s) by (unfold s2; destruct (has_writer (getw W1 s1)); autorewrite with sw; exact A1).
      assert (C0 : sw0 s2 = sw0 s) by (unfold s2; destruct (has_writer (getw W1 s1)); autorewrite with sw; exact A0).
      specialize (IH (getw W1 s1) None s2). rewrite C1 in IH. specialize (IH B).
      destruct (read_loop fuel w (getw W1 s1) None s2) as [a s'|a s'|a s']; rewrite ?C1, ?C0 in IH; exact IH.
    + dstep (listen E2 s) s1 lid.
      set (s1 := fst (listen E2 s)).
      assert (A1 : sw1 s1 = sw1 s) by (unfold s1; autorewrite with sw; reflexivity).
      assert (A0 : sw0 s1 = sw0 s) by (unfold s1; autorewrite with sw; reflexivity).
      specialize (IH (getw W1 s1) (Some (snd (listen E2 s))) s1). rewrite A1 in IH. specialize (IH B).
      destruct (read_loop fuel w (getw W1 s1) (Some (snd (listen E2 s))) s1) as [a s'|a s'|a s'];
        rewrite ?A1, ?A0 in IH; exact IH.
  - apply has_writer_even in HW.
    set (s1 := if isize_max <? c then set_err s else s).
    assert (A1 : sw1 s1 = sw1 s) by (unfold s1; destruct (isize_max <? c); reflexivity).
    assert (A0 : sw0 s1 = sw0 s) by (unfold s1; destruct (isize_max <? c); reflexivity).
    dstep (cas W1 c (wadd c ONE_READER) s1) s2 prev. rewrite cas_snd, cas_fst. cbn [getw]. rewrite A1.
    destruct (sw1 s =? c) eqn:E.
    + assert (c = sw1 s) by lia. subst c. autorewrite with sw. cbn.
      unfold ONE_READER. rewrite wadd_small by exact B. repeat split; auto.
    + specialize (IH (sw1 s) l s1). rewrite A1 in IH. specialize (IH B).
      destruct (read_loop fuel w (sw1 s) l s1) as [a s'|a s'|a s']; rewrite ?A1, ?A0 in IH; exact IH.
Qed.

(* ---- RawUpgradableRead ---- *)
Lemma upread_poll_spec w l s :
  lock_live l -> lticket l <= sw0 s -> sw0 s + 2 < USZ -> sw1 s + 2 < USZ ->
  let '(l', s', r) := upread_poll w l s in
  if r then sw0 s mod 2 = 0 /\ sw0 s' + lticket l = sw0 s + 1 /\ lticket l' = 0 /\ sw1 s' = sw1 s + 2
  else sw0 s' + lticket l = sw0 s + lticket l' /\ lock_live l' /\ l' <> None /\ sw1 s' = sw1 s.
Proof.
  intros Hl Ht B0 B1. unfold upread_poll.
  pose proof (lock_poll_spec W0 E0 w l s Hl Ht B0) as P. cbn [getw] in P.
  destruct (lock_poll W0 E0 w l s) as [[l' s1] r]. destruct P as (P & F).
  pose proof (wframe_W0_sw1 _ _ F) as A1.
  destruct r; cbn [negb].
  - destruct P as (P1 & P2 & P3).
    set (s2 := if isize_max <? getw W1 s1 then set_err s1 else s1).
    assert (C1 : sw1 s2 = sw1 s1) by (unfold s2; destruct (isize_max <? getw W1 s1); reflexivity).
    assert (C0 : sw0 s2 = sw0 s1) by (unfold s2; destruct (isize_max <? getw W1 s1); reflexivity).
    assert (Eq : getw W1 s1 = sw1 s2) by (cbn [getw]; congruence). rewrite Eq.
    unfold RFUEL.
    assert (B2 : sw1 s2 + 2 < USZ) by (rewrite C1, A1; exact B1).
    pose proof (inc_readers_spec 7 s2 B2) as (I1 & I0 & _).
    rewrite I1, I0, C1, C0, A1. repeat split; auto.
  - destruct P as (P1 & P2 & P3). repeat split; auto.
Qed.

(* ---- RawWrite ---- *)
Definition hold_ws (ws : wstate) : N := match ws with WWaiting => 1 | _ => 0 end.
Definition wtick (ws : wstate) : N := match ws with WAcquiring l => lticket l | _ => 0 end.
Definition ws_live (ws : wstate) : Prop := match ws with WAcquiring l => lock_live l | _ => True end.

Definition held_after {A} (r : pres (A * wstate)) : N :=
  match r with
  | PReady _ _ => 1
  | PPending (_, ws) _ | PFuel (_, ws) _ => hold_ws ws
  end.
Definition ws_after {A} (r : pres (A * wstate)) : wstate :=
  match r with PReady (_, ws) _ | PPending (_, ws) _ | PFuel (_, ws) _ => ws end.
Definition sh_after {A} (r : pres A) : sh :=
  match r with PReady _ s | PPending _ s | PFuel _ s => s end.

Lemma write_loop_spec fuel w : forall nr ws s,
  ws_live ws -> ws <> WAcquired -> wtick ws <= sw0 s ->
  (ws <> WWaiting -> sw0 s + 2 < USZ /\ sw1 s + 2 < USZ /\ (sw0 s mod 2 = 0 -> sw1 s mod 2 = 0)) ->
  let r := write_loop fuel w nr ws s in
  sw0 (sh_after r) + wtick ws + hold_ws ws = sw0 s + wtick (ws_after r) + held_after r /\
  sw1 (sh_after r) + hold_ws ws = sw1 s + held_after r /\
  ws_live (ws_after r) /\
  (hold_ws ws = 0 -> held_after r = 1 -> sw0 s mod 2 = 0) /\
  (ws = WWaiting -> held_after r = 1) /\
  match r with PReady (_, ws') s' => ws' = WAcquired /\ sw1 s' = 1 | _ => ws_after r <> WAcquired end.
Proof.
  induction fuel as [|fuel IH]; intros nr ws s Hl Hna Ht HB; cbn [write_loop].
  { cbn. repeat split; auto; try lia. all: try (intros _ H; destruct ws; cbn in H; try discriminate; contradiction). all: try (intros ->; reflexivity). }
  destruct ws as [l| |]; [| |contradiction].
  - (* Acquiring *)
    destruct HB as (B0 & B1 & Hev); [discriminate|].
    cbn [ws_live wtick hold_ws] in *.
    pose proof (lock_poll_spec W0 E0 w l s Hl Ht B0) as P. cbn [getw] in P.
    destruct (lock_poll W0 E0 w l s) as [[l' s1] r]. destruct P as (P & F).
    pose proof (wframe_W0_sw1 _ _ F) as A1.
    destruct r; cbn [negb].
    + destruct P as (P1 & P2 & P3). specialize (Hev P1).
      dstep (fetch_or W1 WRITER_BIT s1) s2 prev. rewrite fetch_or_snd, fetch_or_fst. cbn [getw]. rewrite A1.
      unfold WRITER_BIT. rewrite lor_1_even by exact Hev.
      destruct (sw1 s =? 1) eqn:Q1; [assert (sw1 s = 1) by lia; rewrite H in Hev; discriminate|].
      set (s2 := setw W1 (sw1 s + 1) s1).
      dstep (listen E1 s2) s3 lid.
      set (s4 := drop_listener_opt E1 nr (fst (listen E1 s2))).
      assert (D1 : sw1 s4 = sw1 s + 1) by (unfold s4, s2; autorewrite with sw; reflexivity).
      assert (D0 : sw0 s4 = sw0 s1) by (unfold s4, s2; autorewrite with sw; reflexivity).
      specialize (IH (Some (snd (listen E1 s2))) WWaiting s4). cbn [ws_live wtick hold_ws] in IH.
      rewrite D1, D0 in IH.
      assert (X1 : WWaiting <> WAcquired) by discriminate.
      assert (X2 : 0 <= sw0 s1) by lia.
      assert (X3 : WWaiting <> WWaiting -> sw0 s1 + 2 < USZ /\ sw1 s + 1 + 2 < USZ /\ (sw0 s1 mod 2 = 0 -> (sw1 s + 1) mod 2 = 0))
        by (intro Q; contradiction).
      specialize (IH I X1 X2 X3).
      set (r := write_loop fuel w (Some (snd (listen E1 s2))) WWaiting s4) in *.
      destruct IH as (J0 & J1 & J2 & J3 & J5 & J4).
      assert (HA : held_after r = 1) by (apply J5; reflexivity).
      rewrite HA in *.
      repeat split; auto; try lia.
    + destruct P as (P1 & P2 & P3). cbn. repeat split; auto; try lia; try discriminate.
  - (* WaitingReaders *)
    cbn [ws_live wtick hold_ws] in *. cbn [getw].
    destruct (sw1 s =? WRITER_BIT) eqn:Q1.
    + unfold WRITER_BIT in Q1. cbn. autorewrite with sw. repeat split; auto; try lia.
    + destruct nr as [id|].
      * dstep (poll_listener E1 id w s) s1 r.
        destruct (snd (poll_listener E1 id w s)); cbn [negb].
        2:{ cbn. autorewrite with sw. repeat split; auto; try lia; try discriminate. }
        set (s1 := fst (poll_listener E1 id w s)).
        assert (A1 : sw1 s1 = sw1 s) by (unfold s1; autorewrite with sw; reflexivity).
        assert (A0 : sw0 s1 = sw0 s) by (unfold s1; autorewrite with sw; reflexivity).
        specialize (IH None WWaiting s1). cbn [ws_live wtick hold_ws] in IH. rewrite A1, A0 in IH.
        assert (X1 : WWaiting <> WAcquired) by discriminate.
        specialize (IH I X1 Ht HB).
        destruct IH as (J0 & J1 & J2 & J3 & J5 & J4). repeat split; auto.
      * dstep (listen E1 s) s1 lid.
        set (s1 := fst (listen E1 s)).
        assert (A1 : sw1 s1 = sw1 s) by (unfold s1; autorewrite with sw; reflexivity).
        assert (A0 : sw0 s1 = sw0 s) by (unfold s1; autorewrite with sw; reflexivity).
        specialize (IH (Some (snd (listen E1 s))) WWaiting s1). cbn [ws_live wtick hold_ws] in IH. rewrite A1, A0 in IH.
        assert (X1 : WWaiting <> WAcquired) by discriminate.
        specialize (IH I X1 Ht HB).
        destruct IH as (J0 & J1 & J2 & J3 & J5 & J4). repeat split; auto.
Qed.

(* ---- releases and conversions ---- *)
Lemma unlock_W0 s : 1 <= sw0 s -> sw0 s < USZ ->
  sw0 (unlock W0 E0 s) = sw0 s - 1 /\ sw1 (unlock W0 E0 s) = sw1 s.
Proof.
  intros H1 H2. pose proof (unlock_word W0 E0 s H1 H2) as (A & F). cbn [getw] in A.
  split; [exact A | apply (wframe_W0_sw1 _ _ F)].
Qed.

Lemma write_unlock_spec s : sw1 s mod 2 = 1 -> 1 <= sw0 s -> sw0 s < USZ ->
  sw1 (rw_write_unlock s) = sw1 s - 1 /\ sw0 (rw_write_unlock s) = sw0 s - 1.
Proof.
  intros Od H1 H2. unfold rw_write_unlock. rewrite (surjective_pairing (fetch_clear W1 WRITER_BIT s)).
  rewrite fetch_clear_fst. cbn [getw]. unfold WRITER_BIT. rewrite ldiff_1_odd by exact Od.
  set (s1 := notify E2 1 false (setw W1 (sw1 s - 1) s)).
  assert (A1 : sw1 s1 = sw1 s - 1) by (unfold s1; autorewrite with sw; reflexivity).
  assert (A0 : sw0 s1 = sw0 s) by (unfold s1; autorewrite with sw; reflexivity).
  destruct (unlock_W0 s1) as (U0 & U1); [lia | lia |]. rewrite U0, U1, A0, A1. split; reflexivity.
Qed.

Lemma read_unlock_spec s : 2 <= sw1 s -> sw1 s < USZ ->
  sw1 (rw_read_unlock s) = sw1 s - 2 /\ sw0 (rw_read_unlock s) = sw0 s.
Proof.
  intros H1 H2. unfold rw_read_unlock. rewrite (surjective_pairing (fetch_sub W1 ONE_READER s)).
  rewrite fetch_sub_fst, fetch_sub_snd. cbn [getw]. unfold ONE_READER. rewrite wsub_small by auto.
  destruct (N.ldiff (sw1 s) WRITER_BIT =? 2); autorewrite with sw; split; reflexivity.
Qed.

Lemma upgradable_read_unlock_spec s : 2 <= sw1 s -> sw1 s < USZ -> 1 <= sw0 s -> sw0 s < USZ ->
  sw1 (rw_upgradable_read_unlock s) = sw1 s - 2 /\ sw0 (rw_upgradable_read_unlock s) = sw0 s - 1.
Proof.
  intros H1 H2 H3 H4. unfold rw_upgradable_read_unlock.
  destruct (read_unlock_spec s H1 H2) as (A1 & A0).
  destruct (unlock_W0 (rw_read_unlock s)) as (U0 & U1); [lia | lia |]. rewrite U0, U1, A0, A1. split; reflexivity.
Qed.

Lemma downgrade_upgradable_read_spec s : 1 <= sw0 s -> sw0 s < USZ ->
  sw1 (rw_downgrade_upgradable_read s) = sw1 s /\ sw0 (rw_downgrade_upgradable_read s) = sw0 s - 1.
Proof. intros. unfold rw_downgrade_upgradable_read. destruct (unlock_W0 s); auto. Qed.

Lemma downgrade_write_spec s : sw1 s + 1 < USZ -> 1 <= sw0 s -> sw0 s < USZ ->
  sw1 (rw_downgrade_write s) = sw1 s + 1 /\ sw0 (rw_downgrade_write s) = sw0 s - 1.
Proof.
  intros B H1 H2. unfold rw_downgrade_write. rewrite (surjective_pairing (fetch_add W1 (ONE_READER - WRITER_BIT) s)).
  rewrite fetch_add_fst. cbn [getw]. change (ONE_READER - WRITER_BIT) with 1. rewrite wadd_small by exact B.
  set (s1 := setw W1 (sw1 s + 1) s).
  destruct (unlock_W0 s1) as (U0 & U1); [cbn; lia | cbn; lia |].
  autorewrite with sw. rewrite U0, U1. split; reflexivity.
Qed.

Lemma downgrade_to_upgradable_spec s : sw1 s + 1 < USZ ->
  sw1 (rw_downgrade_to_upgradable s) = sw1 s + 1 /\ sw0 (rw_downgrade_to_upgradable s) = sw0 s.
Proof.
  intros B. unfold rw_downgrade_to_upgradable. rewrite (surjective_pairing (fetch_add W1 (ONE_READER - WRITER_BIT) s)).
  rewrite fetch_add_fst. cbn [getw]. change (ONE_READER - WRITER_BIT) with 1. rewrite wadd_small by exact B.
  autorewrite with sw. split; reflexivity.
Qed.

Lemma upgrade_start_spec s : 1 <= sw1 s -> sw1 s < USZ ->
  sw1 (rw_upgrade_start s) = sw1 s - 1 /\ sw0 (rw_upgrade_start s) = sw0 s.
Proof.
  intros H1 H2. unfold rw_upgrade_start. rewrite fetch_sub_fst. cbn [getw].
  change (ONE_READER - WRITER_BIT) with 1. rewrite wsub_small by auto. split; reflexivity.
Qed.

Lemma try_write_spec s : sw0 s < USZ ->
  let '(s', ok) := rw_try_write s in
  (ok = true -> sw0 s = 0 /\ sw0 s' = 1 /\ sw1 s = 0 /\ sw1 s' = 1) /\
  (ok = false -> sw0 s' = sw0 s /\ sw1 s' = sw1 s).
Proof.
  intro B. unfold rw_try_write.
  pose proof (try_lock_spec W0 s) as T. destruct (try_lock W0 s) as [s1 ok].
  destruct T as (T1 & T2 & F & _). pose proof (wframe_W0_sw1 _ _ F) as A1. cbn [getw] in *.
  destruct ok; cbn [negb].
  - destruct (T1 eq_refl) as (Z & O).
    rewrite (surjective_pairing (cas W1 0 WRITER_BIT s1)). rewrite cas_snd, cas_fst. cbn [getw]. rewrite A1.
    destruct (sw1 s =? 0) eqn:Q.
    + split; [intros _|discriminate]. assert (sw1 s = 0) by lia. repeat split; auto.
    + split; [discriminate|intros _].
      destruct (unlock_W0 s1) as (U0 & U1); [lia | rewrite O, USZ_val; lia |]. rewrite U0, U1, O, Z, A1. split; reflexivity.
  - destruct (T2 eq_refl) as (_ & ->). split; [discriminate | split; reflexivity].
Qed.

Lemma try_upgradable_read_spec s : sw1 s + 2 < USZ ->
  let '(s', ok) := rw_try_upgradable_read s in
  (ok = true -> sw0 s = 0 /\ sw0 s' = 1 /\ sw1 s' = sw1 s + 2) /\
  (ok = false -> sw0 s' = sw0 s /\ sw1 s' = sw1 s).
Proof.
  intro B. unfold rw_try_upgradable_read.
  pose proof (try_lock_spec W0 s) as T. destruct (try_lock W0 s) as [s1 ok].
  destruct T as (T1 & T2 & F & _). pose proof (wframe_W0_sw1 _ _ F) as A1. cbn [getw] in *.
  destruct ok; cbn [negb].
  - destruct (T1 eq_refl) as (Z & O). split; [intros _|discriminate].
    set (s2 := if isize_max <? sw1 s1 then set_err s1 else s1).
    assert (C1 : sw1 s2 = sw1 s1) by (unfold s2; destruct (isize_max <? sw1 s1); reflexivity).
    assert (C0 : sw0 s2 = sw0 s1) by (unfold s2; destruct (isize_max <? sw1 s1); reflexivity).
    rewrite <- C1. unfold RFUEL.
    assert (B2 : sw1 s2 + 2 < USZ) by (rewrite C1, A1; exact B).
    pose proof (inc_readers_spec 7 s2 B2) as (I1 & I0 & _). rewrite I1, I0, C1, C0, A1. repeat split; auto.
  - destruct (T2 eq_refl) as (_ & ->). split; [discriminate | split; reflexivity].
Qed.

(* ---- RawUpgrade ---- *)
Lemma upgrade_loop_spec fuel w : forall l s,
  match upgrade_loop fuel w l s with
  | PReady _ s' => sw1 s = 1 /\ sw1 s' = sw1 s /\ sw0 s' = sw0 s
  | PPending _ s' | PFuel _ s' => sw1 s' = sw1 s /\ sw0 s' = sw0 s
  end.
Proof.
  induction fuel as [|fuel IH]; intros l s; cbn [upgrade_loop]; [split; reflexivity|]. cbn [getw].
  destruct (sw1 s =? WRITER_BIT) eqn:Q.
  - unfold WRITER_BIT in Q. autorewrite with sw. repeat split; auto. lia.
  - destruct l as [id|].
    + dstep (poll_listener E1 id w s) s1 r.
      destruct (snd (poll_listener E1 id w s)); cbn [negb].
      2:{ autorewrite with sw. split; reflexivity. }
      set (s1 := fst (poll_listener E1 id w s)).
      assert (A1 : sw1 s1 = sw1 s) by (unfold s1; autorewrite with sw; reflexivity).
      assert (A0 : sw0 s1 = sw0 s) by (unfold s1; autorewrite with sw; reflexivity).
      specialize (IH None s1).
      destruct (upgrade_loop fuel w None s1); rewrite ?A1, ?A0 in IH; exact IH.
    + dstep (listen E1 s) s1 lid.
      set (s1 := fst (listen E1 s)).
      assert (A1 : sw1 s1 = sw1 s) by (unfold s1; autorewrite with sw; reflexivity).
      assert (A0 : sw0 s1 = sw0 s) by (unfold s1; autorewrite with sw; reflexivity).
      specialize (IH (Some (snd (listen E1 s))) s1).
      destruct (upgrade_loop fuel w (Some (snd (listen E1 s))) s1); rewrite ?A1, ?A0 in IH; exact IH.
Qed.

(* ---- cancellation ---- *)
Lemma write_drop_spec nr ws s :
  wtick ws <= sw0 s -> sw0 s < USZ -> (ws = WWaiting -> sw1 s mod 2 = 1 /\ 1 <= sw0 s) ->
  sw0 (write_drop nr ws s) + wtick ws + hold_ws ws = sw0 s /\
  sw1 (write_drop nr ws s) + hold_ws ws = sw1 s.
Proof.
  intros Ht B HW. unfold write_drop. destruct ws as [l| |]; cbn [wtick hold_ws] in *.
  - pose proof (lock_drop_spec W0 E0 l (drop_listener_opt E1 nr s)) as D. cbn [getw] in D.
    autorewrite with sw in D. destruct D as (D0 & F); [exact Ht | exact B |].
    pose proof (wframe_W0_sw1 _ _ F) as A1. autorewrite with sw in A1. rewrite D0, A1. split; lia.
  - destruct (HW eq_refl) as (Od & H1).
    destruct (write_unlock_spec s Od H1 B) as (A1 & A0). autorewrite with sw. rewrite A1, A0.
    pose proof (N.mod_upper_bound (sw1 s) 2). split; [lia|].
    assert (1 <= sw1 s). { destruct (sw1 s) eqn:Q; [discriminate|lia]. } lia.
  - autorewrite with sw. split; lia.
Qed.

Lemma upgrade_drop_spec hl l s :
  sw0 s < USZ -> (hl = true -> sw1 s mod 2 = 1 /\ 1 <= sw0 s) ->
  sw0 (upgrade_drop hl l s) + (if hl then 1 else 0) = sw0 s /\
  sw1 (upgrade_drop hl l s) + (if hl then 1 else 0) = sw1 s.
Proof.
  intros B HW. unfold upgrade_drop. destruct hl.
  - destruct (HW eq_refl) as (Od & H1).
    destruct (write_unlock_spec s Od H1 B) as (A1 & A0). autorewrite with sw. rewrite A1, A0.
    assert (1 <= sw1 s). { destruct (sw1 s) eqn:Q; [discriminate|lia]. } split; lia.
  - autorewrite with sw. split; lia.
Qed.
