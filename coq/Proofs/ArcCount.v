(* ArcCount.v — C15: the Arc strong count equals handles + owned guards + owning futures,
   and the lock is dropped exactly once, when that count reaches zero. For the Mutex,
   Semaphore and RwLock machines, every history. *)
From AL Require Import Base Api Mutex MutexApi Semaphore SemApi RwLock RwApi BaseFacts ApiFacts.
From Coq Require Import Lia.

Arguments lock_poll : simpl never.
Arguments lock_drop : simpl never.
Arguments try_lock : simpl never.
Arguments unlock : simpl never.
Arguments wtag : simpl never.
Arguments sem_poll : simpl never.
Arguments sem_try : simpl never.
Arguments sem_release : simpl never.
Arguments sem_add : simpl never.
Arguments drop_listener_opt : simpl never.
Arguments rfut_poll : simpl never.
Arguments rfut_drop : simpl never.
Arguments rw_try_read : simpl never.
Arguments rw_try_write : simpl never.
Arguments rw_try_upgradable_read : simpl never.
Arguments rw_try_upgrade : simpl never.
Arguments rw_upgrade_start : simpl never.
Arguments rw_downgrade_upgradable_read : simpl never.
Arguments rw_downgrade_write : simpl never.
Arguments rw_downgrade_to_upgradable : simpl never.
Arguments rw_read_unlock : simpl never.
Arguments rw_upgradable_read_unlock : simpl never.
Arguments rw_write_unlock : simpl never.

Definition b2n (b : bool) : N := if b then 1 else 0.

(* ================= Mutex ================= *)
Definition m_ag (x : mworld) : N := asum b2n (m_guards x).
Definition m_of (x : mworld) : N := asum (fun f => b2n (mf_owns f)) (m_futs x).
Definition m_fut_ok (f : mfut) : Prop :=
  match fm_st (mf_meta f) with FDone => mf_owns f = false | _ => mf_owns f = mf_arc f end.

Definition MArc (x : mworld) : Prop :=
  N.of_nat (m_strong x) = N.of_nat (m_handles x) + m_ag x + m_of x /\
  m_dropped x = (if Nat.eqb (m_strong x) 0 then 1 else 0)%nat /\
  Forall (fun p => m_fut_ok (snd p)) (m_futs x).

Lemma MArc_wake wk x : MArc x -> MArc (m_wake_all wk x).
Proof.
  intros (E & D & F). unfold MArc, m_wake_all, m_set_futs, m_ag, m_of in *. cbn [m_strong m_handles m_guards m_futs m_dropped].
  rewrite (asum_map (fun f => b2n (mf_owns f)) (fun f => mkMfut (mf_arc f) (mf_lock f) (mf_owns f) (meta_wake wk (mf_meta f)))) by reflexivity.
  repeat split; auto.
  rewrite Forall_forall in *. intros p Hp. apply in_map_iff in Hp. destruct Hp as ([k f] & <- & Hin).
  specialize (F (k, f) Hin). cbn [snd fst] in *. unfold m_fut_ok, meta_wake in *. cbn.
  destruct (mf_meta f) as [st w wo]. cbn in *. destruct st; auto. destruct w as [w0|]; auto. destruct (mem_nat w0 wk); auto.
Qed.

Lemma m_dec_ok x h ag of_ :
  N.of_nat (m_strong x) = h + ag + of_ + 1 -> m_dropped x = (if Nat.eqb (m_strong x) 0 then 1 else 0)%nat ->
  N.of_nat (m_strong (m_dec x)) = h + ag + of_ /\ m_dropped (m_dec x) = (if Nat.eqb (m_strong (m_dec x)) 0 then 1 else 0)%nat.
Proof.
  intros E D. unfold m_dec. cbn [m_strong m_dropped].
  destruct (m_strong x) as [|n] eqn:S; [lia|]. cbn [pred]. split; [lia|].
  rewrite D. cbn. destruct (Nat.eqb n 0); reflexivity.
Qed.

Lemma step_core_MArc x o : MArc x -> MArc (fst (mstep_core x o)).
Proof.
  intros (E & D & F). unfold mstep_core. destruct o; cbv beta iota zeta.
  - (* MLock *)
    destruct (Nat.eqb (m_handles x) 0) eqn:H0; [repeat split; auto|].
    apply Nat.eqb_neq in H0.
    destruct arc; cbn [fst]; unfold MArc, m_inc, m_ag, m_of in *; cbn [m_strong m_handles m_guards m_futs m_dropped];
      rewrite asum_app; cbn [asum mf_owns b2n].
    + split; [lia|]. split; [destruct (m_strong x); [lia|rewrite D; reflexivity]|].
      apply Forall_app. split; [exact F|]. constructor; [reflexivity|constructor].
    + split; [lia|]. split; [exact D|]. apply Forall_app. split; [exact F|]. constructor; [reflexivity|constructor].
  - (* MPoll *)
    destruct (alookup f (m_futs x)) as [fu|] eqn:L; [|repeat split; auto].
    destruct (fstatus_eqb (fm_st (mf_meta fu)) FDone || Nat.leb 4 k) eqn:V; [repeat split; auto|].
    apply Bool.orb_false_iff in V. destruct V as (V1 & _).
    pose proof (Forall_lookup _ _ _ _ F L) as Ok. cbn [snd] in Ok. unfold m_fut_ok in Ok.
    assert (Ow : mf_owns fu = mf_arc fu) by (destruct (fm_st (mf_meta fu)); [exact Ok | exact Ok | discriminate]).
    destruct (lock_poll W0 E0 (wtag f k) (mf_lock fu) (m_sh x)) as [[l s'] r]. destruct r; cbn [fst].
    + pose proof (asum_aupdate (fun f => b2n (mf_owns f)) f fu
                   (mkMfut (mf_arc fu) l false (mkMeta FDone (Some (wtag f k)) false)) _ L) as U. cbn [mf_owns b2n] in U.
      unfold MArc, m_ag, m_of in *. cbn [m_strong m_handles m_guards m_futs m_dropped].
      rewrite asum_app. cbn [asum]. rewrite Ow in U.
      split; [lia|]. split; [exact D|]. apply Forall_aupdate; [exact F|]. reflexivity.
    + pose proof (asum_aupdate (fun f => b2n (mf_owns f)) f fu
                   (mkMfut (mf_arc fu) l (mf_owns fu) (mkMeta FPending (Some (wtag f k)) false)) _ L) as U. cbn [mf_owns] in U.
      unfold MArc, m_set_futs, m_set_sh, m_ag, m_of in *. cbn [m_strong m_handles m_guards m_futs m_dropped].
      split; [lia|]. split; [exact D|]. apply Forall_aupdate; [exact F|]. exact Ow.
  - (* MDropFut *)
    destruct (alookup f (m_futs x)) as [fu|] eqn:L; [|repeat split; auto].
    pose proof (asum_aremove (fun f => b2n (mf_owns f)) f fu _ L) as U.
    set (x1 := m_set_futs (aremove f (m_futs x)) (m_set_sh (lock_drop W0 E0 (mf_lock fu) (m_sh x)) x)).
    assert (F1 : Forall (fun p => m_fut_ok (snd p)) (m_futs x1)) by (apply Forall_aremove; exact F).
    cbv beta in U. destruct (mf_owns fu) eqn:Ow; rewrite ?Ow in U; cbn [fst b2n] in *.
    + destruct (m_dec_ok x1 (N.of_nat (m_handles x)) (m_ag x) (asum (fun f => b2n (mf_owns f)) (aremove f (m_futs x)))) as (A & B).
      { subst x1. unfold m_of in E. cbn. lia. } { exact D. }
      unfold MArc. split; [exact A|]. split; [exact B|]. exact F1.
    + unfold MArc, m_of, m_ag in *. cbn. split; [lia|]. split; [exact D | exact F1].
  - (* MTry *)
    destruct (Nat.eqb (m_handles x) 0) eqn:H0; [repeat split; auto|]. apply Nat.eqb_neq in H0.
    destruct (try_lock W0 (m_sh x)) as [s' ok]. destruct ok; [|repeat split; auto].
    destruct arc; cbn [fst]; unfold MArc, m_inc, m_ag, m_of in *; cbn [m_strong m_handles m_guards m_futs m_dropped];
      rewrite asum_app; cbn [asum b2n].
    + split; [lia|]. split; [destruct (m_strong x); [lia|rewrite D; reflexivity] | exact F].
    + split; [lia|]. split; [exact D | exact F].
  - (* MDropGuard *)
    destruct (alookup g (m_guards x)) as [arc|] eqn:L; [|repeat split; auto].
    pose proof (asum_aremove b2n g arc _ L) as U.
    set (x1 := mkMw (unlock W0 E0 (m_sh x)) (m_futs x) (aremove g (m_guards x)) (m_nf x) (m_ng x) (m_handles x) (m_strong x) (m_dropped x)).
    destruct arc; cbn [fst b2n] in *.
    + destruct (m_dec_ok x1 (N.of_nat (m_handles x)) (asum b2n (aremove g (m_guards x))) (m_of x)) as (A & B).
      { subst x1. unfold m_ag in E. cbn. lia. } { exact D. }
      unfold MArc. split; [exact A|]. split; [exact B | exact F].
    + unfold MArc, m_of, m_ag in *. cbn. split; [lia|]. split; [exact D | exact F].
  - (* MSetOracle *) repeat split; auto.
  - (* MCloneArc *)
    destruct (Nat.eqb (m_handles x) 0) eqn:H0; [repeat split; auto|]. apply Nat.eqb_neq in H0.
    cbn [fst]. unfold MArc, m_inc, m_ag, m_of in *; cbn [m_strong m_handles m_guards m_futs m_dropped].
    split; [lia|]. split; [destruct (m_strong x); [lia|rewrite D; reflexivity] | exact F].
  - (* MDropArc *)
    destruct (Nat.eqb (m_handles x) 0) eqn:H0; [repeat split; auto|]. apply Nat.eqb_neq in H0.
    destruct (Nat.eqb (m_handles x) 1 && borrowed_alive x); [repeat split; auto|]. cbn [fst].
    set (x1 := mkMw (m_sh x) (m_futs x) (m_guards x) (m_nf x) (m_ng x) (pred (m_handles x)) (m_strong x) (m_dropped x)).
    destruct (m_dec_ok x1 (N.of_nat (pred (m_handles x))) (m_ag x) (m_of x)) as (A & B).
    { subst x1. cbn. lia. } { exact D. }
    unfold MArc. split; [exact A|]. split; [exact B | exact F].
Qed.

Lemma step_MArc x o : MArc x -> MArc (fst (mstep x o)).
Proof.
  intro I. unfold mstep.
  set (x0 := m_set_sh (set_wk [] (m_sh x)) x). assert (I0 : MArc x0) by exact I.
  pose proof (step_core_MArc x0 o I0) as H. destruct (mstep_core x0 o) as [x1 r]. cbn [fst] in *.
  apply MArc_wake. exact H.
Qed.
Lemma run_MArc ops : MArc (mrun ops).
Proof.
  unfold mrun. assert (I : MArc mw0) by (unfold MArc, m_ag, m_of; cbn; repeat split; auto).
  revert I. generalize mw0. induction ops as [|o l IH]; intros x I; cbn [fold_left]; [exact I|].
  apply IH. apply step_MArc. exact I.
Qed.

(* ================= Semaphore ================= *)
Definition s_ag (x : sworld) : N := asum b2n (s_guards x).
Definition s_of (x : sworld) : N := asum (fun f => b2n (sf_arc f)) (s_futs x).
Definition SArc (x : sworld) : Prop :=
  N.of_nat (s_strong x) = N.of_nat (s_handles x) + s_ag x + s_of x /\
  s_dropped x = (if Nat.eqb (s_strong x) 0 then 1 else 0)%nat.

Lemma SArc_wake wk x : SArc x -> SArc (s_wake_all wk x).
Proof.
  intros (E & D). unfold SArc, s_wake_all, s_upd, s_ag, s_of in *. cbn [s_strong s_handles s_guards s_futs s_dropped].
  rewrite (asum_map (fun f => b2n (sf_arc f)) (fun f => mkSfut (sf_arc f) (sf_lis f) (meta_wake wk (sf_meta f)))) by reflexivity.
  split; auto.
Qed.
Lemma s_dec_ok x h ag of_ :
  N.of_nat (s_strong x) = h + ag + of_ + 1 -> s_dropped x = (if Nat.eqb (s_strong x) 0 then 1 else 0)%nat ->
  N.of_nat (s_strong (s_dec x)) = h + ag + of_ /\ s_dropped (s_dec x) = (if Nat.eqb (s_strong (s_dec x)) 0 then 1 else 0)%nat.
Proof.
  intros E D. unfold s_dec. cbn [s_strong s_dropped].
  destruct (s_strong x) as [|n] eqn:S; [lia|]. cbn [pred]. split; [lia|].
  rewrite D. cbn. destruct (Nat.eqb n 0); reflexivity.
Qed.
Lemma s_inc_ok x : s_dropped x = (if Nat.eqb (s_strong x) 0 then 1 else 0)%nat -> (1 <= s_strong x)%nat ->
  s_dropped (s_inc x) = (if Nat.eqb (s_strong (s_inc x)) 0 then 1 else 0)%nat.
Proof. intros D H. unfold s_inc. cbn. destruct (s_strong x); [lia | rewrite D; reflexivity]. Qed.

Lemma step_core_SArc x o : SArc x -> SArc (fst (sstep_core x o)).
Proof.
  intros (E & D). unfold sstep_core. destruct o; cbv beta iota zeta.
  - destruct (Nat.eqb (s_handles x) 0) eqn:H0; [split; auto|]. apply Nat.eqb_neq in H0.
    destruct arc; cbn [fst]; unfold SArc, s_inc, s_bump_f, s_upd, s_ag, s_of in *; cbn [s_strong s_handles s_guards s_futs s_dropped];
      rewrite asum_app; cbn [asum sf_arc b2n].
    + split; [lia|]. destruct (s_strong x); [lia|rewrite D; reflexivity].
    + split; [lia | exact D].
  - destruct (alookup f (s_futs x)) as [fu|] eqn:L; [|split; auto].
    destruct (fstatus_eqb (fm_st (sf_meta fu)) FDone || Nat.leb 4 k); [split; auto|].
    destruct (sem_poll (wtag f k) (sf_lis fu) (s_sh x)) as [[l s'] r]. destruct r; cbn [fst].
    + pose proof (asum_aupdate (fun f => b2n (sf_arc f)) f fu
                   (mkSfut (sf_arc fu) l (mkMeta FDone (Some (wtag f k)) false)) _ L) as U. cbv beta in U. cbn [sf_arc] in U.
      pose proof (asum_In (fun f => b2n (sf_arc f)) _ _ _ (alookup_In _ _ _ L)) as Hin. cbv beta in Hin.
      destruct (sf_arc fu) eqn:A; cbn [b2n] in *;
        unfold SArc, s_inc, s_bump_g, s_upd, s_ag, s_of in *; cbn [s_strong s_handles s_guards s_futs s_dropped];
        rewrite asum_app; cbn [asum b2n].
      * split; [lia|]. destruct (s_strong x); [lia|rewrite D; reflexivity].
      * split; [lia | exact D].
    + pose proof (asum_aupdate (fun f => b2n (sf_arc f)) f fu
                   (mkSfut (sf_arc fu) l (mkMeta FPending (Some (wtag f k)) false)) _ L) as U. cbv beta in U. cbn [sf_arc] in U.
      unfold SArc, s_upd, s_ag, s_of in *; cbn [s_strong s_handles s_guards s_futs s_dropped]. split; [lia | exact D].
  - destruct (alookup f (s_futs x)) as [fu|] eqn:L; [|split; auto].
    pose proof (asum_aremove (fun f => b2n (sf_arc f)) f fu _ L) as U. cbv beta in U.
    set (x1 := s_upd x (drop_listener_opt E0 (sf_lis fu) (s_sh x)) (aremove f (s_futs x)) (s_guards x)).
    destruct (sf_arc fu) eqn:A; cbn [fst b2n] in *.
    + destruct (s_dec_ok x1 (N.of_nat (s_handles x)) (s_ag x) (asum (fun f => b2n (sf_arc f)) (aremove f (s_futs x)))) as (P & Q).
      { subst x1. unfold s_of in E. cbn. lia. } { exact D. } split; assumption.
    + unfold SArc, s_of, s_ag in *. cbn. split; [lia | exact D].
  - destruct (Nat.eqb (s_handles x) 0) eqn:H0; [split; auto|]. apply Nat.eqb_neq in H0.
    destruct (sem_try (s_sh x)) as [s' ok]. destruct ok; [|split; auto].
    destruct arc; cbn [fst]; unfold SArc, s_inc, s_bump_g, s_upd, s_ag, s_of in *; cbn [s_strong s_handles s_guards s_futs s_dropped];
      rewrite asum_app; cbn [asum b2n].
    + split; [lia|]. destruct (s_strong x); [lia|rewrite D; reflexivity].
    + split; [lia | exact D].
  - destruct (alookup g (s_guards x)) as [arc|] eqn:L; [|split; auto].
    pose proof (asum_aremove b2n g arc _ L) as U.
    set (x1 := s_upd x (sem_release (s_sh x)) (s_futs x) (aremove g (s_guards x))).
    destruct arc; cbn [fst b2n] in *.
    + destruct (s_dec_ok x1 (N.of_nat (s_handles x)) (asum b2n (aremove g (s_guards x))) (s_of x)) as (P & Q).
      { subst x1. unfold s_ag in E. cbn. lia. } { exact D. } split; assumption.
    + unfold SArc, s_of, s_ag in *. cbn. split; [lia | exact D].
  - destruct (alookup g (s_guards x)) as [arc|] eqn:L; [|split; auto].
    pose proof (asum_aremove b2n g arc _ L) as U.
    set (x1 := mkSw (s_sh x) (s_futs x) (aremove g (s_guards x)) (s_nf x) (s_ng x) (s_handles x)
                    (s_strong x) (s_dropped x) (S (s_forgot x)) (s_total x)).
    destruct arc; cbn [fst b2n] in *.
    + destruct (s_dec_ok x1 (N.of_nat (s_handles x)) (asum b2n (aremove g (s_guards x))) (s_of x)) as (P & Q).
      { subst x1. unfold s_ag in E. cbn. lia. } { exact D. } split; assumption.
    + unfold SArc, s_of, s_ag in *. cbn. split; [lia | exact D].
  - destruct (Nat.eqb (s_handles x) 0); split; auto.
  - destruct (Nat.eqb (s_handles x) 0) eqn:H0; [split; auto|]. apply Nat.eqb_neq in H0.
    cbn [fst]. unfold SArc, s_inc, s_set_handles, s_ag, s_of in *; cbn [s_strong s_handles s_guards s_futs s_dropped].
    split; [lia|]. destruct (s_strong x); [lia|rewrite D; reflexivity].
  - destruct (Nat.eqb (s_handles x) 0) eqn:H0; [split; auto|]. apply Nat.eqb_neq in H0.
    destruct (Nat.eqb (s_handles x) 1 && s_borrowed_alive x); [split; auto|]. cbn [fst].
    set (x1 := s_set_handles (pred (s_handles x)) x).
    destruct (s_dec_ok x1 (N.of_nat (pred (s_handles x))) (s_ag x) (s_of x)) as (P & Q).
    { subst x1. cbn. lia. } { exact D. } split; assumption.
Qed.

Lemma step_SArc x o : SArc x -> SArc (fst (sstep x o)).
Proof.
  intro I. unfold sstep.
  set (x0 := s_upd x (set_wk [] (s_sh x)) (s_futs x) (s_guards x)). assert (I0 : SArc x0) by exact I.
  pose proof (step_core_SArc x0 o I0) as H. destruct (sstep_core x0 o) as [x1 r]. cbn [fst] in *.
  apply SArc_wake. exact H.
Qed.
Lemma run_SArc n ops : SArc (srun n ops).
Proof.
  unfold srun. assert (I : SArc (sw_init n)) by (unfold SArc, s_ag, s_of; cbn; split; auto).
  revert I. generalize (sw_init n). induction ops as [|o l IH]; intros x I; cbn [fold_left]; [exact I|].
  apply IH. apply step_SArc. exact I.
Qed.

(* ================= RwLock ================= *)
Definition r_ag (x : rworld) : N := asum (fun v : gkind * bool => b2n (snd v)) (r_guards x).
Definition r_of (x : rworld) : N := asum (fun f => b2n (rf_owns f)) (r_futs x).
Definition r_fut_ok (f : rfut) : Prop :=
  (fm_st (rf_meta f) = FDone -> rf_owns f = false) /\ (rf_owns f = true -> rf_arc f = true).
Definition RArc (x : rworld) : Prop :=
  N.of_nat (r_strong x) = N.of_nat (r_handles x) + r_ag x + r_of x /\
  Forall (fun p => r_fut_ok (snd p)) (r_futs x).

Lemma RArc_wake wk x : RArc x -> RArc (r_wake_all wk x).
Proof.
  intros (E & F). unfold RArc, r_wake_all, r_upd, r_ag, r_of in *. cbn [r_strong r_handles r_guards r_futs].
  rewrite (asum_map (fun f => b2n (rf_owns f)) (fun f => mkRfut (rf_arc f) (rf_st f) (rf_owns f) (meta_wake wk (rf_meta f)))) by reflexivity.
  repeat split; auto.
  rewrite Forall_forall in *. intros p Hp. apply in_map_iff in Hp. destruct Hp as ([k f] & <- & Hin).
  specialize (F (k, f) Hin). cbn [snd fst] in *. unfold r_fut_ok, meta_wake in *. cbn.
  destruct (rf_meta f) as [st w wo]. cbn in *. destruct st; auto. destruct w as [w0|]; auto. destruct (mem_nat w0 wk); auto.
Qed.
Lemma r_dec_ok x h ag of_ :
  N.of_nat (r_strong x) = h + ag + of_ + 1 -> N.of_nat (r_strong (r_dec x)) = h + ag + of_.
Proof.
  intros E. unfold r_dec. cbn [r_strong].
  destruct (r_strong x) as [|n] eqn:S; [lia|]. cbn [pred]. lia.
Qed.

Ltac rarc_simpl := unfold RArc, r_inc, r_dec, r_bump_g, r_bump_f, r_upd, r_set_handles, r_set_val, r_ag, r_of in *;
  cbn [r_strong r_handles r_guards r_futs]; rewrite ?asum_app; cbn [asum b2n snd rf_owns].

Lemma step_core_RArc x o : RArc x -> RArc (fst (rstep_core x o)).
Proof.
  intros (E & F). unfold rstep_core. destruct o; cbv beta iota zeta.
  - (* RStart *)
    destruct (Nat.eqb (r_handles x) 0); [repeat split; auto|]. cbn [fst]. rarc_simpl.
    split; [lia|]. apply Forall_app. split; [exact F|].
    constructor; [|constructor]. split; cbn; intro; discriminate.
  - (* RUpgrade *)
    destruct (alookup g (r_guards x)) as [[[| |] arc]|] eqn:L; try (repeat split; auto; fail). cbn [fst].
    pose proof (asum_aremove (fun v : gkind * bool => b2n (snd v)) g _ _ L) as U. cbv beta in U. cbn [snd] in U.
    rarc_simpl. split; [lia|]. apply Forall_app. split; [exact F|].
    constructor; [|constructor]. split; cbn; [intro; discriminate | auto].
  - (* RPoll *)
    destruct (alookup f (r_futs x)) as [fu|] eqn:L; [|repeat split; auto].
    destruct (fstatus_eqb (fm_st (rf_meta fu)) FDone || Nat.leb 4 k); [repeat split; auto|].
    pose proof (Forall_lookup _ _ _ _ F L) as (Ok1 & Ok2). cbn [snd] in Ok1, Ok2.
    destruct (rfut_poll (wtag f k) (rf_st fu) (r_sh x)) as [[st s'] r]. destruct r as [gk|]; cbn [fst].
    + assert (U : forall a, asum (fun f => b2n (rf_owns f))
                   (aupdate f (mkRfut a st false (mkMeta FDone (Some (wtag f k)) false)) (r_futs x)) + b2n (rf_owns fu)
                   = asum (fun f => b2n (rf_owns f)) (r_futs x) + 0).
      { intro a. exact (asum_aupdate (fun f => b2n (rf_owns f)) f fu
                   (mkRfut a st false (mkMeta FDone (Some (wtag f k)) false)) _ L). }
      assert (F' : forall a, Forall (fun p => r_fut_ok (snd p))
                    (aupdate f (mkRfut a st false (mkMeta FDone (Some (wtag f k)) false)) (r_futs x))).
      { intro a. apply Forall_aupdate; [exact F|]. split; cbn; [reflexivity | intro; discriminate]. }
      destruct (rf_owns fu) eqn:Ow.
      * assert (A : rf_arc fu = true) by (apply Ok2; reflexivity). rewrite A. specialize (U true).
        cbn [andb negb b2n] in *. rarc_simpl. cbn [b2n]. split; [lia|]. apply F'.
      * destruct (rf_arc fu) eqn:A; [specialize (U true) | specialize (U false)]; cbn [andb negb b2n] in *; rarc_simpl; cbn [b2n].
        -- split; [lia|]. apply F'.
        -- split; [lia|]. apply F'.
    + pose proof (asum_aupdate (fun f => b2n (rf_owns f)) f fu
                   (mkRfut (rf_arc fu) st (rf_owns fu) (mkMeta FPending (Some (wtag f k)) false)) _ L) as U. cbv beta in U. cbn [rf_owns] in U.
      rarc_simpl. split; [lia|]. apply Forall_aupdate; [exact F|].
      split; cbn; [intro; discriminate | exact Ok2].
  - (* RDropFut *)
    destruct (alookup f (r_futs x)) as [fu|] eqn:L; [|repeat split; auto].
    pose proof (asum_aremove (fun f => b2n (rf_owns f)) f fu _ L) as U. cbv beta in U.
    set (x1 := r_upd x (rfut_drop (rf_st fu) (r_sh x)) (aremove f (r_futs x)) (r_guards x)).
    assert (F1 : Forall (fun p => r_fut_ok (snd p)) (r_futs x1)) by (apply Forall_aremove; exact F).
    destruct (rf_owns fu) eqn:Ow; cbn [fst b2n] in *.
    + pose proof (r_dec_ok x1 (N.of_nat (r_handles x)) (r_ag x) (asum (fun f => b2n (rf_owns f)) (aremove f (r_futs x)))) as P.
      split; [apply P; subst x1; unfold r_of in E; cbn; rewrite ?Ow in U; cbn [b2n] in U; lia | exact F1].
    + unfold RArc, r_of, r_ag in *. cbn. split; [lia|]. exact F1.
  - (* RTry *)
    destruct (Nat.eqb (r_handles x) 0) eqn:H0; [repeat split; auto|]. apply Nat.eqb_neq in H0.
    destruct (match k with KRead => rw_try_read (r_sh x) | KUpRead => rw_try_upgradable_read (r_sh x) | KWrite => rw_try_write (r_sh x) end) as [s' ok].
    destruct ok; [|repeat split; auto].
    destruct arc; cbn [fst]; rarc_simpl.
    + split; [lia|]. exact F.
    + split; [lia|]. exact F.
  - (* RTryUpgrade *)
    destruct (alookup g (r_guards x)) as [[[| |] arc]|] eqn:L; try (repeat split; auto; fail).
    destruct (rw_try_upgrade (r_sh x)) as [s' ok]. destruct ok; cbn [fst]; [|repeat split; auto].
    pose proof (asum_aupdate (fun v : gkind * bool => b2n (snd v)) g _ (GW, arc) _ L) as U. cbv beta in U. cbn [snd] in U.
    rarc_simpl. split; [lia|]. exact F.
  - (* RDowngrade *)
    destruct (alookup g (r_guards x)) as [[[| |] arc]|] eqn:L; try (repeat split; auto; fail); cbn [fst];
      pose proof (asum_aupdate (fun v : gkind * bool => b2n (snd v)) g _ (GR, arc) _ L) as U; cbv beta in U; cbn [snd] in U;
      rarc_simpl; (split; [lia|]; exact F).
  - (* RDowngradeUp *)
    destruct (alookup g (r_guards x)) as [[[| |] arc]|] eqn:L; try (repeat split; auto; fail); cbn [fst];
      pose proof (asum_aupdate (fun v : gkind * bool => b2n (snd v)) g _ (GU, arc) _ L) as U; cbv beta in U; cbn [snd] in U;
      rarc_simpl; (split; [lia|]; exact F).
  - (* RDropGuard *)
    destruct (alookup g (r_guards x)) as [[gk arc]|] eqn:L; [|repeat split; auto].
    pose proof (asum_aremove (fun v : gkind * bool => b2n (snd v)) g _ _ L) as U. cbv beta in U. cbn [snd] in U.
    set (x1 := r_upd x match gk with GR => rw_read_unlock (r_sh x) | GU => rw_upgradable_read_unlock (r_sh x) | GW => rw_write_unlock (r_sh x) end
                     (r_futs x) (aremove g (r_guards x))).
    destruct arc; cbn [fst b2n] in *.
    + pose proof (r_dec_ok x1 (N.of_nat (r_handles x)) (asum (fun v : gkind * bool => b2n (snd v)) (aremove g (r_guards x))) (r_of x)) as P.
      split; [apply P; subst x1; unfold r_ag in E; cbn; lia | exact F].
    + unfold RArc, r_of, r_ag in *. cbn. split; [lia|]. exact F.
  - destruct (alookup g (r_guards x)); repeat split; auto.
  - destruct (alookup g (r_guards x)) as [[[| |] a]|]; cbn [fst]; repeat split; auto.
  - (* RCloneArc *)
    destruct (Nat.eqb (r_handles x) 0) eqn:H0; [repeat split; auto|]. apply Nat.eqb_neq in H0.
    cbn [fst]. rarc_simpl. split; [lia|]. exact F.
  - (* RDropArc *)
    destruct (Nat.eqb (r_handles x) 0) eqn:H0; [repeat split; auto|]. apply Nat.eqb_neq in H0.
    destruct (Nat.eqb (r_handles x) 1 && r_borrowed_alive x); [repeat split; auto|]. cbn [fst].
    set (x1 := r_set_handles (pred (r_handles x)) x).
    pose proof (r_dec_ok x1 (N.of_nat (pred (r_handles x))) (r_ag x) (r_of x)) as P.
    split; [apply P; subst x1; cbn; lia | exact F].
Qed.

Lemma step_RArc x o : RArc x -> RArc (fst (rstep x o)).
Proof.
  intro I. unfold rstep.
  set (x0 := r_upd x (set_wk [] (r_sh x)) (r_futs x) (r_guards x)). assert (I0 : RArc x0) by exact I.
  pose proof (step_core_RArc x0 o I0) as H. destruct (rstep_core x0 o) as [x1 r]. cbn [fst] in *.
  apply RArc_wake. exact H.
Qed.
Lemma run_RArc ops : RArc (rrun ops).
Proof.
  unfold rrun. assert (I : RArc rw0) by (unfold RArc, r_ag, r_of; cbn; repeat split; auto).
  revert I. generalize rw0. induction ops as [|o l IH]; intros x I; cbn [fold_left]; [exact I|].
  apply IH. apply step_RArc. exact I.
Qed.
