(* BaseFacts.v — frame lemmas for the store and arithmetic facts used by all proofs. *)
From AL Require Import Base.
From Coq Require Import Lia ZifyN ZifyNat ZifyBool.

Arguments wadd : simpl never.
Arguments wsub : simpl never.
Arguments wrap : simpl never.
Arguments N.add : simpl never.
Arguments N.sub : simpl never.
Arguments N.mul : simpl never.
Arguments N.eqb : simpl never.
Arguments N.ltb : simpl never.
Arguments N.leb : simpl never.
Arguments N.modulo : simpl never.
Arguments N.div : simpl never.
Arguments N.lor : simpl never.
Arguments N.land : simpl never.
Arguments N.ldiff : simpl never.
Arguments N.of_nat : simpl never.

Lemma USZ_pos : 0 < USZ. Proof. reflexivity. Qed.
Lemma USZ_val : USZ = 18446744073709551616. Proof. reflexivity. Qed.
Global Opaque USZ.

Lemma wrap_small n : n < USZ -> wrap n = n.
Proof. intro H. unfold wrap. apply N.mod_small. exact H. Qed.
Lemma wrap_lt n : wrap n < USZ.
Proof. unfold wrap. apply N.mod_lt. pose proof USZ_pos. lia. Qed.
Lemma wadd_small a b : a + b < USZ -> wadd a b = a + b.
Proof. intro H. unfold wadd. apply wrap_small. exact H. Qed.
Lemma wadd_lt a b : wadd a b < USZ.
Proof. apply wrap_lt. Qed.
Lemma wsub_small a b : b <= a -> a < USZ -> wsub a b = a - b.
Proof.
  intros H1 H2. unfold wsub. rewrite (wrap_small b) by lia.
  unfold wrap. replace (a + USZ - b) with ((a - b) + 1 * USZ) by lia.
  rewrite N.mod_add by (pose proof USZ_pos; lia). apply N.mod_small. lia.
Qed.
Lemma wsub_lt a b : wsub a b < USZ.
Proof. apply wrap_lt. Qed.

(* parity survives wrapping because 2^64 is even *)
Lemma USZ_even : USZ mod 2 = 0.
Proof. rewrite USZ_val. reflexivity. Qed.
Lemma wrap_parity n : (wrap n) mod 2 = n mod 2.
Proof.
  unfold wrap. rewrite USZ_val.
  replace 18446744073709551616 with (2 * 9223372036854775808) by reflexivity.
  rewrite N.mod_mul_r by lia.
  rewrite N.add_mod by lia. rewrite N.mul_comm, N.mod_mul by lia.
  rewrite N.add_0_r. rewrite N.mod_mod by lia. rewrite N.mod_mod by lia. reflexivity.
Qed.

(* ---- store projections ---- *)
Lemma getw_setw_same w v s : getw w (setw w v s) = v.
Proof. destruct w; reflexivity. Qed.
Lemma getw_setw_other w w' v s : w <> w' -> getw w (setw w' v s) = getw w s.
Proof. destruct w, w'; try reflexivity; congruence. Qed.
Lemma gete_setw e w v s : gete e (setw w v s) = gete e s.
Proof. destruct e, w; reflexivity. Qed.
Lemma getw_sete w e v s : getw w (sete e v s) = getw w s.
Proof. destruct e, w; reflexivity. Qed.
Lemma gete_sete_same e v s : gete e (sete e v s) = v.
Proof. destruct e; reflexivity. Qed.
Lemma gete_sete_other e e' v s : e <> e' -> gete e (sete e' v s) = gete e s.
Proof. destruct e, e'; try reflexivity; congruence. Qed.

(* ---- which parts of the store an action can change ---- *)
(* [same_words s s']: all words equal; [same_events]: all events equal *)
Definition same_words (s s' : sh) : Prop := sw0 s' = sw0 s /\ sw1 s' = sw1 s /\ sw2 s' = sw2 s.
Definition same_events (s s' : sh) : Prop := se0 s' = se0 s /\ se1 s' = se1 s /\ se2 s' = se2 s.

Lemma same_words_refl s : same_words s s. Proof. repeat split. Qed.
Lemma same_words_trans a b c : same_words a b -> same_words b c -> same_words a c.
Proof. unfold same_words. intuition congruence. Qed.

Lemma listen_words e s : same_words s (fst (listen e s)).
Proof. destruct e; repeat split. Qed.
Lemma notify_words e n add s : same_words s (notify e n add s).
Proof. unfold notify. destruct (ev_notify n add (gete e s)); destruct e; repeat split. Qed.
Lemma poll_listener_words e id w s : same_words s (fst (poll_listener e id w s)).
Proof. unfold poll_listener. destruct (ev_poll id w (gete e s)) as [[l r]|]; destruct e; repeat split. Qed.
Lemma drop_listener_words e id s : same_words s (drop_listener e id s).
Proof. unfold drop_listener. destruct (ev_drop id (gete e s)); destruct e; repeat split. Qed.
Lemma drop_listener_opt_words e o s : same_words s (drop_listener_opt e o s).
Proof. destruct o; [apply drop_listener_words | apply same_words_refl]. Qed.
Lemma oracle_words s : same_words s (fst (oracle s)).
Proof. unfold oracle. destruct (sorc s); repeat split. Qed.
Lemma set_err_words s : same_words s (set_err s).
Proof. repeat split. Qed.
Lemma set_wk_words k s : same_words s (set_wk k s).
Proof. repeat split. Qed.

Lemma same_words_getw s s' w : same_words s s' -> getw w s' = getw w s.
Proof. intros (A & B & C). destruct w; assumption. Qed.

Global Hint Resolve listen_words notify_words poll_listener_words drop_listener_words
  drop_listener_opt_words oracle_words set_err_words set_wk_words same_words_refl : sw.

(* rewrite rules: the event actions leave the words alone *)
Lemma sw0_notify e n a s : sw0 (notify e n a s) = sw0 s. Proof. apply notify_words. Qed.
Lemma sw1_notify e n a s : sw1 (notify e n a s) = sw1 s. Proof. apply notify_words. Qed.
Lemma sw2_notify e n a s : sw2 (notify e n a s) = sw2 s. Proof. apply notify_words. Qed.
Lemma sw0_listen e s : sw0 (fst (listen e s)) = sw0 s. Proof. apply listen_words. Qed.
Lemma sw1_listen e s : sw1 (fst (listen e s)) = sw1 s. Proof. apply listen_words. Qed.
Lemma sw2_listen e s : sw2 (fst (listen e s)) = sw2 s. Proof. apply listen_words. Qed.
Lemma sw0_poll_listener e i w s : sw0 (fst (poll_listener e i w s)) = sw0 s. Proof. apply poll_listener_words. Qed.
Lemma sw1_poll_listener e i w s : sw1 (fst (poll_listener e i w s)) = sw1 s. Proof. apply poll_listener_words. Qed.
Lemma sw2_poll_listener e i w s : sw2 (fst (poll_listener e i w s)) = sw2 s. Proof. apply poll_listener_words. Qed.
Lemma sw0_drop_listener e i s : sw0 (drop_listener e i s) = sw0 s. Proof. apply drop_listener_words. Qed.
Lemma sw1_drop_listener e i s : sw1 (drop_listener e i s) = sw1 s. Proof. apply drop_listener_words. Qed.
Lemma sw2_drop_listener e i s : sw2 (drop_listener e i s) = sw2 s. Proof. apply drop_listener_words. Qed.
Lemma sw0_drop_listener_opt e o s : sw0 (drop_listener_opt e o s) = sw0 s. Proof. apply drop_listener_opt_words. Qed.
Lemma sw1_drop_listener_opt e o s : sw1 (drop_listener_opt e o s) = sw1 s. Proof. apply drop_listener_opt_words. Qed.
Lemma sw2_drop_listener_opt e o s : sw2 (drop_listener_opt e o s) = sw2 s. Proof. apply drop_listener_opt_words. Qed.
Lemma sw0_oracle s : sw0 (fst (oracle s)) = sw0 s. Proof. apply oracle_words. Qed.
Lemma sw1_oracle s : sw1 (fst (oracle s)) = sw1 s. Proof. apply oracle_words. Qed.
Lemma sw2_oracle s : sw2 (fst (oracle s)) = sw2 s. Proof. apply oracle_words. Qed.
Lemma getw_notify w e n a s : getw w (notify e n a s) = getw w s.
Proof. apply same_words_getw, notify_words. Qed.
Lemma getw_listen w e s : getw w (fst (listen e s)) = getw w s.
Proof. apply same_words_getw, listen_words. Qed.
Lemma getw_poll_listener w e i k s : getw w (fst (poll_listener e i k s)) = getw w s.
Proof. apply same_words_getw, poll_listener_words. Qed.
Lemma getw_drop_listener w e i s : getw w (drop_listener e i s) = getw w s.
Proof. apply same_words_getw, drop_listener_words. Qed.
Lemma getw_drop_listener_opt w e o s : getw w (drop_listener_opt e o s) = getw w s.
Proof. apply same_words_getw, drop_listener_opt_words. Qed.
Lemma getw_oracle w s : getw w (fst (oracle s)) = getw w s.
Proof. apply same_words_getw, oracle_words. Qed.
Lemma getw_set_err w s : getw w (set_err s) = getw w s. Proof. destruct w; reflexivity. Qed.
Lemma getw_set_wk w k s : getw w (set_wk k s) = getw w s. Proof. destruct w; reflexivity. Qed.
Lemma getw_set_orc w k s : getw w (set_orc k s) = getw w s. Proof. destruct w; reflexivity. Qed.

Global Hint Rewrite sw0_notify sw1_notify sw2_notify sw0_listen sw1_listen sw2_listen
  sw0_poll_listener sw1_poll_listener sw2_poll_listener sw0_drop_listener sw1_drop_listener sw2_drop_listener
  sw0_drop_listener_opt sw1_drop_listener_opt sw2_drop_listener_opt sw0_oracle sw1_oracle sw2_oracle
  getw_notify getw_listen getw_poll_listener getw_drop_listener getw_drop_listener_opt getw_oracle
  getw_set_err getw_set_wk getw_set_orc getw_setw_same : sw.

(* ---- atomic operations: value read and value written ---- *)
Definition rest_same (s s' : sh) : Prop :=
  se0 s' = se0 s /\ se1 s' = se1 s /\ se2 s' = se2 s /\ snid s' = snid s /\ sorc s' = sorc s /\
  swk s' = swk s /\ serr s' = serr s.
Lemma rest_same_setw w v s : rest_same s (setw w v s).
Proof. destruct w; repeat split. Qed.

Lemma cas_fst w e n s : fst (cas w e n s) = if getw w s =? e then setw w n s else s.
Proof. unfold cas. destruct (getw w s =? e); reflexivity. Qed.
Lemma cas_snd w e n s : snd (cas w e n s) = getw w s.
Proof. unfold cas. destruct (getw w s =? e); reflexivity. Qed.
Lemma fetch_add_fst w n s : fst (fetch_add w n s) = setw w (wadd (getw w s) n) s. Proof. reflexivity. Qed.
Lemma fetch_add_snd w n s : snd (fetch_add w n s) = getw w s. Proof. reflexivity. Qed.
Lemma fetch_sub_fst w n s : fst (fetch_sub w n s) = setw w (wsub (getw w s) n) s. Proof. reflexivity. Qed.
Lemma fetch_sub_snd w n s : snd (fetch_sub w n s) = getw w s. Proof. reflexivity. Qed.
Lemma fetch_or_fst w n s : fst (fetch_or w n s) = setw w (N.lor (getw w s) n) s. Proof. reflexivity. Qed.
Lemma fetch_or_snd w n s : snd (fetch_or w n s) = getw w s. Proof. reflexivity. Qed.
Lemma fetch_clear_fst w n s : fst (fetch_clear w n s) = setw w (N.ldiff (getw w s) n) s. Proof. reflexivity. Qed.
Lemma fetch_clear_snd w n s : snd (fetch_clear w n s) = getw w s. Proof. reflexivity. Qed.

Lemma wid_eq_dec (a b : wid) : {a = b} + {a <> b}.
Proof. decide equality. Qed.
Lemma evid_eq_dec (a b : evid) : {a = b} + {a <> b}.
Proof. decide equality. Qed.

(* bit 0 arithmetic *)
Lemma mod2_cases v : v mod 2 = 0 \/ v mod 2 = 1.
Proof. pose proof (N.mod_upper_bound v 2). lia. Qed.
Lemma lor_1_even v : v mod 2 = 0 -> N.lor v 1 = v + 1.
Proof.
  intro H. rewrite <- N.bit0_mod in H.
  destruct v as [|[p|p|]]; cbn in H; try discriminate; reflexivity.
Qed.
Lemma lor_1_odd v : v mod 2 = 1 -> N.lor v 1 = v.
Proof.
  intro H. rewrite <- N.bit0_mod in H.
  destruct v as [|[p|p|]]; cbn in H; try discriminate; reflexivity.
Qed.
Lemma ldiff_1_odd v : v mod 2 = 1 -> N.ldiff v 1 = v - 1.
Proof.
  intro H. rewrite <- N.bit0_mod in H.
  destruct v as [|[p|p|]]; cbn in H; try discriminate; reflexivity.
Qed.
Lemma ldiff_1_even v : v mod 2 = 0 -> N.ldiff v 1 = v.
Proof.
  intro H. rewrite <- N.bit0_mod in H.
  destruct v as [|[p|p|]]; cbn in H; try discriminate; reflexivity.
Qed.
Lemma land_1_mod v : N.land v 1 = v mod 2.
Proof. change 1 with (N.ones 1). rewrite N.land_ones. reflexivity. Qed.

(* parity helpers (kept as lemmas: lia is slow in large contexts) *)
Lemma plus2_mod v : (v + 2) mod 2 = v mod 2.
Proof. replace (v + 2) with (v + 1 * 2) by lia. apply N.mod_add. lia. Qed.
Lemma even_plus1_odd v : v mod 2 = 0 -> (v + 1) mod 2 = 1.
Proof. intro H. pose proof (N.div_mod v 2). replace (v + 1) with (1 + (v / 2) * 2) by lia. rewrite N.mod_add by lia. reflexivity. Qed.
Lemma even_minus1_odd v : v mod 2 = 0 -> 1 <= v -> (v - 1) mod 2 = 1.
Proof.
  intros H L. pose proof (N.div_mod v 2). replace (v - 1) with (1 + (v / 2 - 1) * 2) by lia. rewrite N.mod_add by lia. reflexivity.
Qed.
Lemma odd_not_even v : v mod 2 = 1 -> v mod 2 = 0 -> False.
Proof. intros A B. rewrite A in B. discriminate. Qed.
