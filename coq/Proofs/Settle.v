(* Settle.v — counting the wake-ups of one operation (for C17): with wakers that identify their future,
   the end-of-operation wake-up pass flags at most one pending future per waker called. Generic in the
   type of futures. *)
From AL Require Import Base Api BaseFacts ApiFacts.
From Coq Require Import Lia.

Lemma wtag_inj k j k' j' : (j < 4)%nat -> (j' < 4)%nat -> wtag k j = wtag k' j' -> k = k'.
Proof. unfold wtag. lia. Qed.

Lemma mem_nat_In x l : mem_nat x l = true <-> In x l.
Proof.
  unfold mem_nat. rewrite existsb_exists. split.
  - intros (y & Hy & E). apply Nat.eqb_eq in E. subst. exact Hy.
  - intro H. exists x. split; [exact H | apply Nat.eqb_refl].
Qed.
Lemma mem_nat_remove x y l : x <> y -> mem_nat x (remove Nat.eq_dec y l) = mem_nat x l.
Proof.
  intro N. induction l as [|a l IH]; [reflexivity|]. cbn [remove]. destruct (Nat.eq_dec y a) as [->|Q].
  - rewrite IH. unfold mem_nat. cbn. destruct (Nat.eqb x a) eqn:E; [apply Nat.eqb_eq in E; contradiction | reflexivity].
  - unfold mem_nat in *. cbn. rewrite IH. reflexivity.
Qed.
Lemma remove_shorter x (l : list nat) : In x l -> (length (remove Nat.eq_dec x l) < length l)%nat.
Proof.
  induction l as [|a l IH]; [intros []|]. cbn [remove]. destruct (Nat.eq_dec x a) as [->|Q]; intro H.
  - pose proof (remove_length_le Nat.eq_dec l a). cbn. lia.
  - destruct H as [H|H]; [congruence|]. specialize (IH H). cbn. lia.
Qed.

Section Settle.
Variable F : Type.
Variable meta : F -> fmeta.
Variable h : list waker -> F -> F.
Hypothesis h_meta : forall wk f, meta (h wk f) = meta_wake wk (meta f).

Definition pendb (m : fmeta) : bool := match fm_st m with FPending => true | _ => false end.
Definition wP (f : F) : N := if pendb (meta f) then 1 else 0.
Definition wW (f : F) : N := if pendb (meta f) && fm_woken (meta f) then 1 else 0.
Definition cP (l : list (nat * F)) : N := asum wP l.
Definition cW (l : list (nat * F)) : N := asum wW l.
(* futures whose current waker is among [wk] *)
Definition hit (wk : list waker) (f : F) : N :=
  if pendb (meta f) then match fm_w (meta f) with Some w => if mem_nat w wk then 1 else 0 | None => 0 end else 0.

Definition wakers_ok (l : list (nat * F)) : Prop :=
  forall k f w, In (k, f) l -> fm_w (meta f) = Some w -> exists j, (j < 4)%nat /\ w = wtag k j.

Definition wake_all (wk : list waker) (l : list (nat * F)) : list (nat * F) := map (fun p => (fst p, h wk (snd p))) l.

Lemma wW_wake wk f : wW (h wk f) <= wW f + hit wk f.
Proof.
  unfold wW, hit, pendb. rewrite h_meta. unfold meta_wake. destruct (fm_st (meta f)) eqn:S; try (rewrite S; cbn; lia).
  destruct (fm_w (meta f)) as [w|] eqn:Wq; [|rewrite S; cbn; destruct (fm_woken (meta f)); lia].
  destruct (mem_nat w wk); [cbn; destruct (fm_woken (meta f)); cbn; lia | rewrite S; cbn; destruct (fm_woken (meta f)); lia].
Qed.
Lemma wP_wake wk f : wP (h wk f) = wP f.
Proof.
  unfold wP, pendb. rewrite h_meta. unfold meta_wake. destruct (fm_st (meta f)) eqn:S; try (rewrite S; reflexivity).
  destruct (fm_w (meta f)) as [w|]; [|rewrite S; reflexivity]. destruct (mem_nat w wk); [reflexivity | rewrite S; reflexivity].
Qed.

Lemma cP_wake wk l : cP (wake_all wk l) = cP l.
Proof. unfold cP, wake_all. induction l as [|[k f] l IH]; cbn; [reflexivity|]. rewrite wP_wake, IH. reflexivity. Qed.

Lemma cW_wake_hit wk l : cW (wake_all wk l) <= cW l + asum (hit wk) l.
Proof. unfold cW, wake_all. induction l as [|[k f] l IH]; cbn; [lia|]. pose proof (wW_wake wk f). lia. Qed.

Lemma hit_le wk f : hit wk f <= 1.
Proof. unfold hit. destruct (pendb (meta f)); [|lia]. destruct (fm_w (meta f)); [|lia]. destruct (mem_nat _ _); lia. Qed.

Lemma hit_remove_eq l k j wk : ~ In k (map fst l) -> wakers_ok l -> (j < 4)%nat ->
  asum (hit wk) l = asum (hit (remove Nat.eq_dec (wtag k j) wk)) l.
Proof.
  induction l as [|[k0 f0] l IHl]; intros Nk WOl Hj; [reflexivity|]. cbn [asum].
  assert (Nk' : ~ In k (map fst l)) by (intro H; apply Nk; right; exact H).
  assert (WOl' : wakers_ok l) by (intros k1 f1 w1 Hi Hw; apply (WOl k1 f1 w1); [right; exact Hi | exact Hw]).
  rewrite (IHl Nk' WOl' Hj). f_equal. unfold hit. destruct (pendb (meta f0)); [|reflexivity].
  destruct (fm_w (meta f0)) as [w0|] eqn:W0; [|reflexivity].
  destruct (WOl k0 f0 w0 (or_introl eq_refl) W0) as (j0 & Hj0 & ->).
  rewrite mem_nat_remove; [reflexivity|]. intro E. apply wtag_inj in E; [|assumption|assumption]. subst k0. apply Nk. left. reflexivity.
Qed.

Lemma hits_bounded l : NoDup (map fst l) -> wakers_ok l -> forall wk, asum (hit wk) l <= N.of_nat (length wk).
Proof.
  induction l as [|[k f] l IH]; intros ND WO wk; cbn [asum]; [lia|].
  cbn [map fst] in ND. inversion ND as [|? ? Nk NDl]; subst.
  assert (WOl : wakers_ok l) by (intros k0 f0 w0 Hi Hw; apply (WO k0 f0 w0); [right; exact Hi | exact Hw]).
  destruct (N.eq_dec (hit wk f) 0) as [Z|NZ]; [rewrite Z; specialize (IH NDl WOl wk); lia|].
  pose proof (hit_le wk f) as HL.
  assert (exists j, (j < 4)%nat /\ In (wtag k j) wk) as (j & Hj & M).
  { unfold hit in NZ. destruct (pendb (meta f)) eqn:P; [|contradiction NZ; reflexivity].
    destruct (fm_w (meta f)) as [w|] eqn:Wq; [|contradiction NZ; reflexivity].
    destruct (mem_nat w wk) eqn:M; [|contradiction NZ; reflexivity]. apply mem_nat_In in M.
    destruct (WO k f w (or_introl eq_refl) Wq) as (j & Hj & ->). exists j. split; assumption. }
  rewrite (hit_remove_eq l k j wk Nk WOl Hj). specialize (IH NDl WOl (remove Nat.eq_dec (wtag k j) wk)). pose proof (remove_shorter _ _ M) as H.
  set (r := remove Nat.eq_dec (wtag k j) wk) in *. clearbody r. clear - IH HL H. revert IH HL. generalize (hit wk f) (asum (hit r) l). intros a b IH HL. change waker with nat in *. lia.
Qed.

(* the wake-up pass of an operation that called the wakers [wk] flags at most |wk| more pending futures *)
Theorem cW_wake wk l : NoDup (map fst l) -> wakers_ok l -> cW (wake_all wk l) <= cW l + N.of_nat (length wk).
Proof. intros ND WO. pose proof (cW_wake_hit wk l). pose proof (hits_bounded l ND WO wk). lia. Qed.

Lemma in_aupdate_key {A} k (v : A) l k0 v0 : In (k0, v0) (aupdate k v l) -> (k0 = k /\ v0 = v) \/ In (k0, v0) l.
Proof.
  induction l as [|[k' v'] l IH]; cbn; [tauto|]. destruct (Nat.eqb k k') eqn:Q.
  - intros [H|H]; [inversion H; left; split; reflexivity | right; right; exact H].
  - intros [H|H]; [right; left; exact H|]. destruct (IH H) as [H1|H1]; [left; exact H1 | right; right; exact H1].
Qed.
Lemma in_aremove_sub {A} k (l : list (nat * A)) p : In p (aremove k l) -> In p l.
Proof. induction l as [|[k' v'] l IH]; cbn; [tauto|]. destruct (Nat.eqb k k'); [intro H; right; exact H | intros [H|H]; [left; exact H | right; apply IH; exact H]]. Qed.

Lemma wakers_ok_aupdate l k v : wakers_ok l -> (forall w, fm_w (meta v) = Some w -> exists j, (j < 4)%nat /\ w = wtag k j) -> wakers_ok (aupdate k v l).
Proof. intros WO Hv k0 f0 w Hi Hw. apply in_aupdate_key in Hi. destruct Hi as [(-> & ->)|Hi]; [apply Hv; exact Hw | apply (WO k0 f0 w Hi Hw)]. Qed.
Lemma wakers_ok_aremove l k : wakers_ok l -> wakers_ok (aremove k l).
Proof. intros WO k0 f0 w Hi Hw. apply (WO k0 f0 w); [apply (in_aremove_sub k); exact Hi | exact Hw]. Qed.
Lemma wakers_ok_app l k v : wakers_ok l -> fm_w (meta v) = None -> wakers_ok (l ++ [(k, v)]).
Proof. intros WO Hv k0 f0 w Hi Hw. apply in_app_or in Hi. destruct Hi as [Hi|[Hi|[]]]; [apply (WO k0 f0 w Hi Hw) | inversion Hi; subst; rewrite Hv in Hw; discriminate Hw]. Qed.

Lemma wakers_ok_wake wk l : wakers_ok l -> wakers_ok (wake_all wk l).
Proof.
  intros WO k f w Hi Hw. unfold wake_all in Hi. apply in_map_iff in Hi. destruct Hi as ([k0 f0] & E & Hin). cbn in E. inversion E; subst.
  rewrite h_meta in Hw. apply (WO k f0 w Hin). unfold meta_wake in Hw. destruct (fm_st (meta f0)); try exact Hw.
  destruct (fm_w (meta f0)) as [w0|] eqn:Q; [|rewrite Q in Hw; exact Hw]. destruct (mem_nat w0 wk); [cbn in Hw; exact Hw | rewrite Q in Hw; exact Hw].
Qed.
(* the counts after one poll of the future [fid] (replaced by [f']) followed by the wake-up pass for [wk] *)
Lemma upd_wake_counts l fid k f f' wk : NoDup (map fst l) -> wakers_ok l -> (k < 4)%nat ->
  alookup fid l = Some f -> fm_w (meta f') = Some (wtag fid k) ->
  cW (wake_all wk (aupdate fid f' l)) + wW f <= cW l + wW f' + N.of_nat (length wk) /\
  cP (wake_all wk (aupdate fid f' l)) + wP f = cP l + wP f'.
Proof.
  intros ND WO K4 L Hw.
  assert (ND' : NoDup (map fst (aupdate fid f' l))) by (rewrite keys_aupdate; exact ND).
  assert (WO' : wakers_ok (aupdate fid f' l)).
  { apply wakers_ok_aupdate; [exact WO|]. intros w E. rewrite Hw in E. inversion E. exists k. split; [exact K4 | reflexivity]. }
  pose proof (cW_wake wk _ ND' WO') as CW. rewrite cP_wake.
  pose proof (asum_aupdate wW fid f f' l L) as UW. pose proof (asum_aupdate wP fid f f' l L) as UP. unfold cW, cP in *. split; lia.
Qed.

End Settle.

(* ---------- counting notified entries ---------- *)
Definition cN (l : event) : N := N.of_nat (count_notified l).

Lemma cN_app l e : cN (l ++ [e]) = cN l + (if is_notified e then 1 else 0).
Proof. unfold cN. induction l as [|x r IH]; cbn [app count_notified]; [destruct (is_notified e); cbn; lia|]. destruct (is_notified x); lia. Qed.

Definition notified_at (id : nat) (l : event) : N := match ev_find id l with Some (Notified _) => 1 | _ => 0 end.

Lemma cN_remove id l : cN (ev_remove id l) + notified_at id l = cN l.
Proof.
  unfold cN, notified_at. induction l as [|x r IH]; cbn [ev_remove ev_find count_notified]; [reflexivity|].
  destruct (Nat.eqb (eid x) id).
  - unfold is_notified. destruct (est x); lia.
  - cbn [count_notified]. destruct (is_notified x); lia.
Qed.

Lemma cN_set_task id w l : notified_at id l = 0 -> cN (ev_set id (Task w) l) = cN l.
Proof.
  unfold cN, notified_at. induction l as [|x r IH]; cbn [ev_set ev_find count_notified]; [reflexivity|].
  destruct (Nat.eqb (eid x) id).
  - intro H. cbn [count_notified is_notified est]. unfold is_notified. destruct (est x); [reflexivity | reflexivity | discriminate H].
  - intro H. cbn [count_notified]. specialize (IH H). destruct (is_notified x); lia.
Qed.

Lemma count_le_len l : (count_notified l <= length l)%nat.
Proof. induction l as [|e r IH]; cbn; [lia|]. destruct (is_notified e); lia. Qed.

Lemma mark_count add k l : let '(l', ws) := mark add k l in
  N.of_nat (length ws) + cN l <= cN l' /\ cN l' <= cN l + k /\ cN l' <= N.of_nat (length l).
Proof.
  unfold cN. revert k. induction l as [|e r IH]; intro k; cbn [mark]; [cbn; lia|].
  destruct (is_notified e) eqn:Ne.
  - specialize (IH k). destruct (mark add k r) as [r' ws]. cbn [count_notified length]. rewrite Ne. lia.
  - destruct (k =? 0) eqn:Z.
    + cbn [count_notified length]. rewrite Ne. pose proof (count_le_len r). cbn. lia.
    + apply N.eqb_neq in Z. specialize (IH (k - 1)). destruct (mark add (k - 1) r) as [r' ws]. cbn [count_notified length is_notified est].
      rewrite Ne. rewrite app_length. unfold wake_of. destruct (est e); cbn [length]; lia.
Qed.

Lemma notify_count n add l : let '(l', ws) := ev_notify n add l in
  N.of_nat (length ws) + cN l <= cN l' /\ cN l' <= cN l + n /\ (add = false -> cN l' <= N.max (cN l) n).
Proof.
  unfold ev_notify. destruct add.
  - pose proof (mark_count true n l) as M. destruct (mark true n l) as [l' ws]. destruct M as (A & B & _). split; [exact A|]. split; [exact B | intro H; discriminate H].
  - destruct (n <? N.of_nat (count_notified l)) eqn:Q.
    + cbn. unfold cN. split; [lia|]. split; [lia|]. intros _. lia.
    + apply N.ltb_ge in Q. pose proof (mark_count false (n - N.of_nat (count_notified l)) l) as M.
      destruct (mark false (n - N.of_nat (count_notified l)) l) as [l' ws]. destruct M as (A & B & _). unfold cN in *. split; [exact A|]. split; [lia|]. intros _. lia.
Qed.

Lemma notify1_count l : let '(l', ws) := ev_notify 1 false l in
  N.of_nat (length ws) + cN l <= cN l' /\ (1 <= cN l -> cN l' = cN l) /\ (cN l = 0 -> cN l' <= 1).
Proof.
  pose proof (notify_count 1 false l) as M. destruct (ev_notify 1 false l) as [l' ws]. destruct M as (A & B & C). specialize (C eq_refl).
  split; [exact A|]. split; intro H; lia.
Qed.

Lemma drop_count id l : let '(l', ws) := ev_drop id l in
  N.of_nat (length ws) + cN l <= cN l' + notified_at id l /\ cN l' <= cN l.
Proof.
  unfold ev_drop. pose proof (cN_remove id l) as R. unfold notified_at in *. destruct (ev_find id l) as [[|w|a]|] eqn:Fd.
  - cbn [length]. lia.
  - cbn [length]. lia.
  - pose proof (notify_count 1 a (ev_remove id l)) as M. destruct (ev_notify 1 a (ev_remove id l)) as [l' ws]. destruct M as (A & B & _). lia.
  - cbn [length]. lia.
Qed.
