(* OnceSet.v — C04, the clause about `set`: "set hands its argument back exactly when it was not the one that
   initialised the cell" — for every history.
   A poll of a set(v) future that completes either
     returns Ok(&v): this very poll moved the cell from empty to initialised with v (one more initialisation), nothing is
     dropped; or
     returns Err(v): the cell is initialised, this poll did not touch the stored value and did not initialise anything;
     the argument v comes back to the caller (who drops it: one more drop).
   A poll that does not complete changes neither the value nor the counters. A set future never runs a closure across
   polls (its closure completes at once): it is never in the IRunning stage and its gate is never resolved. *)
From AL Require Import Base Api OnceApi BaseFacts ApiFacts OnceInv.
From Coq Require Import Lia.

Definition not_running (st : ist) : Prop := match st with IRunning _ => False | _ => True end.

(* what a poll of initialize_or_wait on behalf of set(v) did *)
Definition SetSpec (v : N) (x x' : oworld) (ir : ires) : Prop :=
  o_drops x' = o_drops x /\ o_futs x' = o_futs x /\ o_alive x' = o_alive x /\
  match ir with
  | IRPending st => o_value x' = o_value x /\ o_inits x' = o_inits x /\ not_running st
  | IRDone r true => r = RVal v /\ o_value x' = Some v /\ o_inits x' = S (o_inits x) /\ sw0 (o_sh x') = ST_INIT
  | IRDone r false => r = RVal (cell_val x) /\ o_value x' = o_value x /\ o_inits x' = o_inits x /\ sw0 (o_sh x') = ST_INIT
  end.

Lemma SetSpec_sh v x s x' ir : SetSpec v (o_upd x s (o_value x) (o_futs x)) x' ir -> SetSpec v x x' ir.
Proof. exact (fun H => H). Qed.

Lemma init_loop_set fuel : forall w v gate el x, SetSpec v x (fst (init_loop fuel w (IKSet v) gate el x)) (snd (init_loop fuel w (IKSet v) gate el x)).
Proof.
  induction fuel as [|fuel IH]; intros w v gate el x.
  - cbn [init_loop fst snd]. unfold SetSpec. cbn. repeat split.
  - rewrite iloop_S. cbv zeta. change (getw W0 (o_sh x)) with (sw0 (o_sh x)).
    destruct (sw0 (o_sh x) =? ST_INIT) eqn:E2.
    + cbn [fst snd]. unfold SetSpec. cbn [o_drops o_futs o_alive o_value o_inits o_sh o_upd]. rewrite sw0_drop_listener_opt.
      apply N.eqb_eq in E2. repeat split; auto.
    + destruct (sw0 (o_sh x) =? ST_INITING) eqn:E1.
      * destruct el as [id|].
        -- destruct (poll_listener E0 id w (o_sh x)) as [s r]. destruct r.
           ++ apply (SetSpec_sh v x s). apply IH.
           ++ cbn [fst snd]. unfold SetSpec. cbn. repeat split.
        -- destruct (listen E0 (o_sh x)) as [s id]. apply (SetSpec_sh v x s). apply IH.
      * destruct (sw0 (o_sh x) =? ST_UNINIT) eqn:E0.
        -- apply N.eqb_eq in E0. unfold ST_UNINIT in E0.
           unfold cas. cbn [getw]. rewrite E0. change (0 =? ST_UNINIT) with true. cbv iota. change (0 =? ST_UNINIT) with true. cbn [negb]. cbv iota.
           unfold init_finish. cbn [fst snd]. unfold SetSpec.
           cbn [o_drops o_futs o_alive o_value o_inits o_sh o_upd o_note_init o_note_start].
           rewrite sw0_drop_listener_opt, !sw0_notify. cbn [store setw sw0]. repeat split; reflexivity.
        -- cbn [fst snd]. unfold SetSpec. cbn. repeat split.
Qed.

Lemma init_poll_set w v ist gate x : not_running ist ->
  SetSpec v x (fst (init_poll w (IKSet v) ist gate x)) (snd (init_poll w (IKSet v) ist gate x)) \/
  (ist = IFin /\ snd (init_poll w (IKSet v) ist gate x) = IRPending IFin /\
   let x' := fst (init_poll w (IKSet v) ist gate x) in
   o_drops x' = o_drops x /\ o_futs x' = o_futs x /\ o_alive x' = o_alive x /\ o_value x' = o_value x /\ o_inits x' = o_inits x).
Proof.
  intro NR. unfold init_poll. destruct ist as [|id|el|].
  - left. change (getw W0 (o_sh x)) with (sw0 (o_sh x)). destruct (sw0 (o_sh x) =? ST_INIT) eqn:E2.
    + cbn [fst snd]. unfold SetSpec. apply N.eqb_eq in E2. repeat split; auto.
    + apply init_loop_set.
  - left. destruct (poll_listener E0 id w (o_sh x)) as [s r]. destruct r.
    + apply (SetSpec_sh v x s). apply init_loop_set.
    + cbn [fst snd]. unfold SetSpec. cbn. repeat split.
  - contradiction.
  - right. cbn [fst snd]. repeat split.
Qed.

(* ---------- frame: a poll / a drop of an init future does not add or remove futures ---------- *)
Lemma init_finish_futs' k r el y : o_futs (fst (init_finish k r el y)) = o_futs y.
Proof. unfold init_finish. destruct r; reflexivity. Qed.
Lemma init_loop_futs fuel : forall w k gate el x, o_futs (fst (init_loop fuel w k gate el x)) = o_futs x.
Proof.
  induction fuel as [|fuel IH]; intros w k gate el x; [reflexivity|]. rewrite iloop_S. cbv zeta.
  destruct (getw W0 (o_sh x) =? ST_INIT); [reflexivity|]. destruct (getw W0 (o_sh x) =? ST_INITING).
  - destruct el as [id|].
    + destruct (poll_listener E0 id w (o_sh x)) as [s r]. destruct r; [rewrite IH|]; reflexivity.
    + destruct (listen E0 (o_sh x)) as [s id]. rewrite IH. reflexivity.
  - destruct (getw W0 (o_sh x) =? ST_UNINIT); [|reflexivity].
    destruct (cas W0 ST_UNINIT ST_INITING (o_sh x)) as [s prev]. destruct (negb (prev =? ST_UNINIT)); [rewrite IH; reflexivity|].
    destruct k as [| |v]; [destruct gate | destruct gate |]; try rewrite init_finish_futs'; reflexivity.
Qed.
Lemma init_poll_futs w k ist gate x : o_futs (fst (init_poll w k ist gate x)) = o_futs x.
Proof.
  unfold init_poll. destruct ist as [|id|el|].
  - destruct (getw W0 (o_sh x) =? ST_INIT); [reflexivity | apply init_loop_futs].
  - destruct (poll_listener E0 id w (o_sh x)) as [s r]. destruct r; [rewrite init_loop_futs|]; reflexivity.
  - destruct gate; [apply init_finish_futs' | reflexivity].
  - reflexivity.
Qed.
Lemma ofut_drop_futs st x : o_futs (ofut_drop st x) = o_futs x.
Proof. unfold ofut_drop. destruct st as [[|id|]|k ist g]; try reflexivity. destruct ist, k; reflexivity. Qed.

(* ---------- the invariant: a set future never runs a closure across polls ---------- *)
Definition set_ok (f : ofut) : Prop :=
  match of_st f with OFInit (IKSet _) st gate => not_running st /\ gate = None | _ => True end.
Definition SetOK (x : oworld) : Prop := Forall (fun p => set_ok (snd p)) (o_futs x).

Lemma SetOK_futs x x' : o_futs x' = o_futs x -> SetOK x -> SetOK x'.
Proof. unfold SetOK. intros ->. auto. Qed.
Lemma SetOK_update x s v fid f' : SetOK x -> set_ok f' -> SetOK (o_upd x s v (aupdate fid f' (o_futs x))).
Proof. unfold SetOK. cbn [o_futs o_upd]. intros H Hf. apply Forall_aupdate; assumption. Qed.
Lemma SetOK_lookup x fid f : SetOK x -> alookup fid (o_futs x) = Some f -> set_ok f.
Proof. intros H L. apply (Forall_lookup _ _ _ _ H L). Qed.

Lemma step_core_SetOK x o : SetOK x -> SetOK (fst (ostep_core x o)).
Proof.
  intro H. unfold ostep_core. destruct (negb (o_alive x)); [exact H|]. destruct o as [|k|fid kk|fid r|fid| | |]; cbv beta iota zeta.
  - unfold SetOK. cbn [fst o_futs]. apply Forall_app. split; [exact H|]. constructor; [exact I | constructor].
  - unfold SetOK. cbn [fst o_futs]. apply Forall_app. split; [exact H|]. constructor; [|constructor].
    unfold set_ok. cbn. destruct k; try exact I. split; [exact I | reflexivity].
  - destruct (alookup fid (o_futs x)) as [f|] eqn:L; [|exact H].
    destruct (fstatus_eqb (fm_st (of_meta f)) FDone || Nat.leb 4 kk); [exact H|].
    pose proof (SetOK_lookup x fid f H L) as Hf. unfold set_ok in Hf.
    destruct (of_st f) as [[|id|]|k ist gate] eqn:St.
    + destruct (getw W0 (o_sh x) =? ST_INIT); [apply SetOK_update; [exact H | exact I]|].
      destruct (listen E1 (o_sh x)) as [s id]. destruct (getw W0 s =? ST_INIT).
      * cbn [fst]. apply SetOK_update; [apply (SetOK_futs x); [reflexivity | exact H] | exact I].
      * destruct (poll_listener E1 id (wtag fid kk) s) as [s' r]. destruct r; cbn [fst]; (apply SetOK_update; [apply (SetOK_futs x); [reflexivity | exact H] | exact I]).
    + destruct (poll_listener E1 id (wtag fid kk) (o_sh x)) as [s' r]. destruct r; cbn [fst]; (apply SetOK_update; [apply (SetOK_futs x); [reflexivity | exact H] | exact I]).
    + exact H.
    + destruct k as [| |v].
      * pose proof (init_poll_futs (wtag fid kk) IKTry ist gate x) as F. destruct (init_poll (wtag fid kk) IKTry ist gate x) as [x' ir]. cbn [fst] in F.
        destruct ir; cbn [fst]; (apply SetOK_update; [apply (SetOK_futs x); [exact F | exact H] | exact I]).
      * pose proof (init_poll_futs (wtag fid kk) IKInit ist gate x) as F. destruct (init_poll (wtag fid kk) IKInit ist gate x) as [x' ir]. cbn [fst] in F.
        destruct ir; cbn [fst]; (apply SetOK_update; [apply (SetOK_futs x); [exact F | exact H] | exact I]).
      * destruct Hf as (NR & ->).
        pose proof (init_poll_set (wtag fid kk) v ist None x NR) as SP.
        pose proof (init_poll_futs (wtag fid kk) (IKSet v) ist None x) as F.
        destruct (init_poll (wtag fid kk) (IKSet v) ist None x) as [x' ir]. cbn [fst snd] in SP, F.
        destruct ir as [st|r ran].
        -- assert (NR' : not_running st).
           { destruct SP as [(_ & _ & _ & _ & _ & NR')|(_ & E & _)]; [exact NR' | inversion E; exact I]. }
           cbn [fst]. apply SetOK_update; [apply (SetOK_futs x); [exact F | exact H] | unfold set_ok; cbn; split; [exact NR' | reflexivity]].
        -- destruct ran; cbn [fst]; (apply SetOK_update; [apply (SetOK_futs x); [cbn; exact F | exact H] | unfold set_ok; cbn; split; [exact I | reflexivity]]).
  - destruct (alookup fid (o_futs x)) as [[st m]|] eqn:L; [|exact H]. destruct st as [|k ist [g|]]; try exact H.
    pose proof (SetOK_lookup x fid _ H L) as Hf. unfold set_ok in Hf. cbn in Hf.
    destruct k as [| |v].
    + destruct (true && match ist with IFin => false | _ => true end); [|exact H]. cbn [fst]. apply SetOK_update; [exact H | exact I].
    + destruct ((match r with OErr _ => false | _ => true end) && match ist with IFin => false | _ => true end); [|exact H]. cbn [fst]. apply SetOK_update; [exact H | exact I].
    + cbn [andb]. exact H.
  - destruct (alookup fid (o_futs x)) as [f|] eqn:L; [|exact H]. cbn [fst]. unfold SetOK. cbn [o_futs o_upd].
    rewrite ofut_drop_futs. apply Forall_aremove. exact H.
  - destruct (getw W0 (o_sh x) =? ST_INIT); exact H.
  - destruct (o_futs x) eqn:F; [|exact H]. destruct (getw W0 (o_sh x) =? ST_INIT); [|exact H]. constructor.
  - destruct (o_futs x) eqn:F; [|exact H]. constructor.
Qed.

Lemma step_SetOK x o : SetOK x -> SetOK (fst (ostep x o)).
Proof.
  intro H. unfold ostep.
  assert (H0 : SetOK (o_upd x (set_wk [] (o_sh x)) (o_value x) (o_futs x))) by exact H.
  pose proof (step_core_SetOK _ o H0) as H1. destruct (ostep_core (o_upd x (set_wk [] (o_sh x)) (o_value x) (o_futs x)) o) as [x1 r]. cbn [fst] in *.
  unfold SetOK, o_wake_all. cbn [o_futs o_upd]. apply Forall_forall. intros p Hp. apply in_map_iff in Hp. destruct Hp as ([k f] & <- & Hin).
  unfold SetOK in H1. rewrite Forall_forall in H1. specialize (H1 _ Hin). exact H1.
Qed.

Theorem run_SetOK ops : SetOK (orun ops).
Proof.
  unfold orun. assert (H : SetOK ow0) by constructor. revert H. generalize ow0.
  induction ops as [|o ops IH]; intros x H; cbn [fold_left]; [exact H|]. apply IH. apply step_SetOK. exact H.
Qed.

(* ---------- the theorem: one poll of a set(v) future ---------- *)
Definition set_poll_spec (v : N) (x x' : oworld) (r : res) : Prop :=
  match r with
  | RVal r0 => r0 = v /\ o_value x' = Some v /\ sw0 (o_sh x') = ST_INIT /\ o_inits x' = S (o_inits x) /\ o_drops x' = o_drops x
  | RErr e => e = v /\ o_value x' = o_value x /\ sw0 (o_sh x') = ST_INIT /\ o_inits x' = o_inits x /\ o_drops x' = S (o_drops x)
  | RPending | RInvalid => o_value x' = o_value x /\ o_inits x' = o_inits x /\ o_drops x' = o_drops x
  | _ => False
  end.

Lemma set_poll_core x fid kk v ist m : SetOK x ->
  alookup fid (o_futs x) = Some (mkOfut (OFInit (IKSet v) ist None) m) -> not_running ist ->
  set_poll_spec v x (fst (ostep_core x (OPoll fid kk))) (snd (ostep_core x (OPoll fid kk))).
Proof.
  intros H L NR. unfold ostep_core. destruct (negb (o_alive x)); [cbn; repeat split|]. rewrite L. cbn [of_meta of_st].
  destruct (fstatus_eqb (fm_st m) FDone || Nat.leb 4 kk); [cbn; repeat split|].
  pose proof (init_poll_set (wtag fid kk) v ist None x NR) as SP.
  destruct (init_poll (wtag fid kk) (IKSet v) ist None x) as [x' ir]. cbn [fst snd] in SP.
  destruct SP as [(D & F & A & SP)|(-> & -> & D & F & A & V & Ii)].
  - destruct ir as [st|r ran].
    + destruct SP as (V & Ii & _). cbn. repeat split; assumption.
    + destruct ran.
      * destruct SP as (-> & V & Ii & S2). cbn. repeat split; assumption.
      * destruct SP as (-> & V & Ii & S2). cbn. repeat split; try assumption. rewrite D. reflexivity.
  - cbn. repeat split; assumption.
Qed.

(* ... in every reachable state, through the public step function (waking does not touch value, counters, word) *)
Theorem set_hand_back ops fid kk v ist gate m :
  alookup fid (o_futs (orun ops)) = Some (mkOfut (OFInit (IKSet v) ist gate) m) ->
  set_poll_spec v (orun ops) (fst (ostep (orun ops) (OPoll fid kk))) (o_res (snd (ostep (orun ops) (OPoll fid kk)))).
Proof.
  intro L. pose proof (run_SetOK ops) as H. set (x := orun ops) in *.
  pose proof (SetOK_lookup x fid _ H L) as Hf. unfold set_ok in Hf. cbn in Hf. destruct Hf as (NR & ->).
  unfold ostep. set (x0 := o_upd x (set_wk [] (o_sh x)) (o_value x) (o_futs x)).
  pose proof (set_poll_core x0 fid kk v ist m H L NR) as SP.
  destruct (ostep_core x0 (OPoll fid kk)) as [x1 r]. cbn [fst snd o_res] in *.
  unfold set_poll_spec in *. destruct r; auto.
Qed.
