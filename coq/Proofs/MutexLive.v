(* MutexLive.v — Mutex: no lost wake-up (C05), nothing left behind (C10), polls terminate (C17),
   for every history. *)
From AL Require Import Base Api Mutex MutexApi BaseFacts ApiFacts EventFacts MutexWord MutexInv MutexPaths LockLive.
From Coq Require Import Lia.

Arguments lock_poll : simpl never.
Arguments lock_drop : simpl never.
Arguments try_lock : simpl never.
Arguments unlock : simpl never.
Arguments notify : simpl never.
Arguments wtag : simpl never.

Definition mlis (f : mfut) : option nat := lock_lis (mf_lock f).
Definition mlook (x : mworld) : look_t mfut := fun k => alookup k (m_futs x).
Definition shape_ok (x : mworld) : Prop :=
  forall fid f, alookup fid (m_futs x) = Some f ->
    match fm_st (mf_meta f) with
    | FUnpolled => mf_lock f = None
    | FPending => lock_pending (mf_lock f)
    | FDone => lock_lis (mf_lock f) = None
    end.
Definition keys_ok (x : mworld) : Prop :=
  NoDup (map fst (m_futs x)) /\ (forall k, In k (map fst (m_futs x)) -> (k < m_nf x)%nat).

Definition MLiveW (wk : list waker) (x : mworld) : Prop :=
  InvB mfut mlis mf_meta wk (se0 (m_sh x)) (snid (m_sh x)) (mlook x) /\ shape_ok x /\ avail0 (m_sh x) /\
  serr (m_sh x) = false /\ keys_ok x.
Definition MLive (x : mworld) : Prop := MLiveW [] x.

Definition quiescent (x : mworld) : Prop :=
  forall fid f, alookup fid (m_futs x) = Some f -> ~ (fm_st (mf_meta f) = FPending /\ fm_woken (mf_meta f) = true).

(* C05 on a state satisfying the invariants *)
Lemma no_pending_when_unlocked x : MLive x -> WInv x -> quiescent x -> m_guards x = [] ->
  forall fid f, alookup fid (m_futs x) = Some f -> fm_st (mf_meta f) <> FPending.
Proof.
  intros (I & Sh & Av & _ & _) (E & _) Q G fid f L Pend.
  pose proof (Sh fid f L) as S. rewrite Pend in S. destruct S as (id & st & Lk).
  assert (Ls : mlis f = Some id) by (unfold mlis; rewrite Lk; reflexivity).
  pose proof (ib_listed _ _ _ _ _ _ _ I fid f id L Ls) as Hin.
  assert (Ev : sw0 (m_sh x) mod 2 = 0) by (rewrite E, G; cbn [length N.of_nat]; rewrite N.add_0_r; apply tickets_even).
  destruct (Av Ev) as [E0'|H]; [rewrite E0' in Hin; contradiction|].
  unfold has_notified in H. apply existsb_exists in H. destruct H as (e & He & Ne).
  destruct (InvB_notified_woken _ _ _ _ _ _ e I He Ne) as (g & fg & Lg & Pg & Wg).
  apply (Q g fg Lg). split; assumption.
Qed.

Lemma MLiveW_wake x : MLiveW (swk (m_sh x)) x -> MLive (m_wake_all (swk (m_sh x)) x).
Proof.
  intros (I & Sh & Av & Er & K1 & K2). unfold MLive, MLiveW, m_wake_all, m_set_futs. cbn [m_sh].
  set (wk := swk (m_sh x)) in *.
  set (h := fun f => mkMfut (mf_arc f) (mf_lock f) (mf_owns f) (meta_wake wk (mf_meta f))).
  split; [|split; [|split; [exact Av | split; [exact Er | unfold keys_ok; cbn [m_futs m_nf]; rewrite map_map; cbn [fst]; split; [exact K1 | exact K2]]]]].
  - apply (InvB_wake mfut mlis mf_meta wk _ _ (mlook x) _ h); auto.
    intro k. unfold mlook. cbn [m_futs]. exact (alookup_map h k (m_futs x)).
  - intros fid f L. cbn [m_futs] in L. pose proof (alookup_map h fid (m_futs x)) as AM. cbv beta in AM. unfold h in AM at 1. rewrite AM in L. clear AM.
    destruct (alookup fid (m_futs x)) as [f0|] eqn:L0; [|discriminate]. inversion L; subst.
    pose proof (Sh fid f0 L0) as S. cbn [h mf_meta mf_lock]. unfold meta_wake.
    destruct (mf_meta f0) as [st w wo]. cbn in *. destruct st; auto. destruct w as [w0|]; auto. destruct (mem_nat w0 wk); auto.
Qed.

(* a starved ticket in the word means a pending future with a listener: the queue is not empty *)
Lemma tickets_pos l : 2 <= tickets l -> exists k f, In (k, f) l /\ ftick f = 2.
Proof.
  induction l as [|[k f] r IH]; cbn [tickets]; [lia|]. intro H.
  pose proof (ftick_le f). pose proof (ftick_even f).
  destruct (N.eq_dec (ftick f) 2) as [E|N]; [exists k, f; split; [left; reflexivity | exact E]|].
  assert (ftick f = 0).
  { destruct (N.eq_dec (ftick f) 0); [assumption|]. assert (ftick f = 1) by lia. rewrite H2 in H1. discriminate. }
  destruct IH as (k' & f' & Hin & T); [lia|]. exists k', f'. split; [right; exact Hin | exact T].
Qed.
Lemma In_alookup {A} k (v : A) l : NoDup (map fst l) -> In (k, v) l -> alookup k l = Some v.
Proof.
  induction l as [|[k' v'] r IH]; cbn; [tauto|]. intros ND [H|H].
  - inversion H; subst. rewrite Nat.eqb_refl. reflexivity.
  - inversion ND; subst. destruct (Nat.eqb k k') eqn:E.
    + apply Nat.eqb_eq in E. subst. exfalso. apply H2. apply (in_map fst) in H. exact H.
    + apply IH; assumption.
Qed.

Lemma queue_nonempty x : MLive x -> WInv x -> sw0 (m_sh x) mod 2 = 0 -> 2 <= sw0 (m_sh x) -> se0 (m_sh x) <> [].
Proof.
  intros (I & Sh & _ & _ & K1 & _) W Ev T E0'.
  pose proof (WInv_even x W Ev) as G0. destruct W as (E & _ & F).
  rewrite E, G0 in T. cbn in T. rewrite N.add_0_r in T.
  destruct (tickets_pos _ T) as (k & f & Hin & Tk).
  pose proof (In_alookup k f _ K1 Hin) as L.
  pose proof (Sh k f L) as S. rewrite Forall_forall in F. pose proof (F (k, f) Hin) as Ok. cbn [snd] in Ok. unfold fut_ok in Ok.
  unfold ftick in Tk.
  destruct (fm_st (mf_meta f)).
  - rewrite S in Tk. discriminate.
  - destruct S as (id & st & Lk). assert (Ls : mlis f = Some id) by (unfold mlis; rewrite Lk; reflexivity).
    pose proof (ib_listed _ _ _ _ _ _ _ I k f id L Ls) as H. rewrite E0' in H. contradiction.
  - unfold ftick in Ok. rewrite Ok in Tk. discriminate.
Qed.

Definition small2 (x : mworld) : Prop := 2 * N.of_nat (length (m_futs x)) + 4 <= usize_max / 2.

Lemma look_aupd x fid f' : forall g, g <> fid -> alookup g (aupdate fid f' (m_futs x)) = mlook x g.
Proof. intros g N. apply alookup_aupdate_other. exact N. Qed.

Lemma step_core_MLiveW x o : MLive x -> WInv x -> small2 x -> swk (m_sh x) = [] ->
  MLiveW (swk (m_sh (fst (mstep_core x o)))) (fst (mstep_core x o)).
Proof.
  intros HX W B WK. pose proof HX as (I & Sh & Av & Er & K1 & K2).
  pose proof W as (E & G & FO). pose proof (tickets_le (m_futs x)) as TL.
  assert (Bw : sw0 (m_sh x) <= usize_max / 2) by (unfold small2 in B; rewrite E; lia).
  assert (Bu : sw0 (m_sh x) < USZ). { rewrite USZ_val. change (usize_max / 2) with 9223372036854775807 in Bw. lia. }
  unfold mstep_core. destruct o; cbv beta iota zeta.
  - (* MLock *)
    destruct (Nat.eqb (m_handles x) 0); [unfold m_invalid; cbn [fst]; rewrite WK; exact HX|].
    assert (NK : alookup (m_nf x) (m_futs x) = None) by (apply alookup_not_key; intro H; apply K2 in H; lia).
    assert (GG : MLiveW [] (mkMw (m_sh x) (m_futs x ++ [(m_nf x, mkMfut arc lock_new arc meta0)]) (m_guards x) (S (m_nf x)) (m_ng x) (m_handles x) (m_strong x) (m_dropped x))).
    { unfold MLiveW, mlook, shape_ok, keys_ok. cbn [m_sh m_futs m_nf].
      split; [|split; [|split; [exact Av | split; [exact Er|]]]].
      - apply (InvB_frame mfut mlis mf_meta [] _ _ (mlook x) _ (m_nf x)); auto.
        + intros f L. unfold mlook in L. congruence.
        + intros g N. rewrite alookup_app. unfold mlook. destruct (alookup g (m_futs x)); [reflexivity|].
          cbn. destruct (Nat.eqb g (m_nf x)) eqn:Q; [apply Nat.eqb_eq in Q; contradiction | reflexivity].
        + intros f' L. rewrite alookup_app, NK in L. cbn in L. rewrite Nat.eqb_refl in L. inversion L. reflexivity.
      - intros fid f L. rewrite alookup_app in L. destruct (alookup fid (m_futs x)) eqn:Q; [inversion L; subst; apply (Sh fid f Q)|].
        cbn in L. destruct (Nat.eqb fid (m_nf x)); inversion L; subst. reflexivity.
      - split.
        + rewrite map_app. cbn. apply NoDup_app_fresh; [exact K1|]. intro H. apply K2 in H. lia.
        + intros k Hk. rewrite map_app in Hk. apply in_app_or in Hk. destruct Hk as [Hk|[<-|[]]]; [specialize (K2 k Hk); lia | cbn; lia]. }
    destruct arc; cbn [fst]; unfold m_inc; cbn [m_sh]; rewrite WK; exact GG.
  - (* MPoll *)
    destruct (alookup f (m_futs x)) as [fu|] eqn:L; [|unfold m_invalid; cbn [fst]; rewrite WK; exact HX].
    destruct (fstatus_eqb (fm_st (mf_meta fu)) FDone || Nat.leb 4 k) eqn:V; [unfold m_invalid; cbn [fst]; rewrite WK; exact HX|].
    apply Bool.orb_false_iff in V. destruct V as (V1 & _).
    pose proof (Sh f fu L) as S.
    assert (Hl : mf_lock fu = None \/ lock_pending (mf_lock fu)).
    { destruct (fm_st (mf_meta fu)); [left; exact S | right; exact S | discriminate]. }
    pose proof (tickets_In _ _ _ (alookup_In _ _ _ L)) as Tin. unfold ftick in Tin.
    assert (Tw : lticket (mf_lock fu) <= sw0 (m_sh x)) by (rewrite E; lia).
    pose proof (lock_poll_live mfut mlis mf_meta [] (mlook x)) as LP.
    specialize (LP (fun g => alookup g (aupdate f (mkMfut (mf_arc fu) (fst (fst (lock_poll W0 E0 (wtag f k) (mf_lock fu) (m_sh x))))
                                               (if snd (lock_poll W0 E0 (wtag f k) (mf_lock fu) (m_sh x)) then false else mf_owns fu)
                                               (mkMeta (if snd (lock_poll W0 E0 (wtag f k) (mf_lock fu) (m_sh x)) then FDone else FPending) (Some (wtag f k)) false)) (m_futs x)))
                   f fu
                   (mkMfut (mf_arc fu) (fst (fst (lock_poll W0 E0 (wtag f k) (mf_lock fu) (m_sh x))))
                           (if snd (lock_poll W0 E0 (wtag f k) (mf_lock fu) (m_sh x)) then false else mf_owns fu)
                           (mkMeta (if snd (lock_poll W0 E0 (wtag f k) (mf_lock fu) (m_sh x)) then FDone else FPending) (Some (wtag f k)) false))
                   (wtag f k) (mf_lock fu) (m_sh x) I WK L eq_refl Hl Av (queue_nonempty x HX W) Bw Er Tw).
    destruct (lock_poll W0 E0 (wtag f k) (mf_lock fu) (m_sh x)) as [[l' s'] r]. cbn [fst snd] in LP.
    destruct LP as (I' & Av' & Er' & Fin).
    + apply look_aupd.
    + apply (alookup_aupdate_same _ _ _ _ L).
    + reflexivity.
    + intros ->. cbn. split; reflexivity.
    + destruct r; cbn [fst].
      * unfold MLiveW, mlook, shape_ok, keys_ok. cbn [m_sh m_futs m_nf].
        split; [exact I'|]. split; [|split; [exact Av' | split; [exact Er' | rewrite keys_aupdate; split; assumption]]].
        intros g fg Lg. destruct (Nat.eq_dec g f) as [->|N].
        -- rewrite (alookup_aupdate_same _ _ _ _ L) in Lg. inversion Lg; subst. cbn. exact Fin.
        -- rewrite alookup_aupdate_other in Lg by exact N. apply (Sh g fg Lg).
      * unfold MLiveW, m_set_futs, m_set_sh, mlook, shape_ok, keys_ok. cbn [m_sh m_futs m_nf].
        split; [exact I'|]. split; [|split; [exact Av' | split; [exact Er' | rewrite keys_aupdate; split; assumption]]].
        intros g fg Lg. destruct (Nat.eq_dec g f) as [->|N].
        -- rewrite (alookup_aupdate_same _ _ _ _ L) in Lg. inversion Lg; subst. cbn. exact Fin.
        -- rewrite alookup_aupdate_other in Lg by exact N. apply (Sh g fg Lg).
  - (* MDropFut *)
    destruct (alookup f (m_futs x)) as [fu|] eqn:L; [|unfold m_invalid; cbn [fst]; rewrite WK; exact HX].
    pose proof (tickets_In _ _ _ (alookup_In _ _ _ L)) as Tin. unfold ftick in Tin.
    assert (Tw : lticket (mf_lock fu) <= sw0 (m_sh x)) by (rewrite E; lia).
    destruct (lock_drop_live mfut mlis mf_meta [] (mlook x) (fun g => alookup g (aremove f (m_futs x))) f fu (mf_lock fu) (m_sh x) I WK L eq_refl Tw Bu Av) as (I' & Av' & Er').
    + intros g N. apply alookup_aremove_other. exact N.
    + intros f0 L0. rewrite (alookup_aremove_same f (m_futs x) K1) in L0. discriminate.
    + assert (GG : MLiveW (swk (lock_drop W0 E0 (mf_lock fu) (m_sh x))) (m_set_futs (aremove f (m_futs x)) (m_set_sh (lock_drop W0 E0 (mf_lock fu) (m_sh x)) x))).
      { unfold MLiveW, m_set_futs, m_set_sh, mlook, shape_ok, keys_ok. cbn [m_sh m_futs m_nf].
        split; [exact I'|]. split; [|split; [exact Av' | split; [congruence|]]].
        - intros g fg Lg. destruct (Nat.eq_dec g f) as [->|N].
          + rewrite (alookup_aremove_same f (m_futs x) K1) in Lg. discriminate.
          + rewrite alookup_aremove_other in Lg by exact N. apply (Sh g fg Lg).
        - split; [apply NoDup_keys_aremove; exact K1 | intros k0 Hk; apply K2; apply (keys_aremove_incl f); exact Hk]. }
      destruct (mf_owns fu); cbn [fst]; unfold m_dec; cbn [m_sh m_set_futs m_set_sh]; exact GG.
  - (* MTry *)
    destruct (Nat.eqb (m_handles x) 0); [unfold m_invalid; cbn [fst]; rewrite WK; exact HX|].
    pose proof (try_lock_spec W0 (m_sh x)) as T. destruct (try_lock W0 (m_sh x)) as [s' ok].
    destruct T as (T1 & T2 & _ & RS). cbn [getw] in *. destruct ok.
    + destruct (T1 eq_refl) as (Z & O). destruct RS as (Q0 & _ & _ & QN & _ & QK & QE).
      assert (GG : MLiveW [] (mkMw s' (m_futs x) (m_guards x ++ [(m_ng x, arc)]) (m_nf x) (S (m_ng x)) (m_handles x) (m_strong x) (m_dropped x))).
      { unfold MLiveW, mlook, shape_ok, keys_ok, avail0. cbn [m_sh m_futs m_nf]. rewrite Q0, QN, QE.
        split; [exact I|]. split; [exact Sh|]. split; [intro Ev; rewrite O in Ev; discriminate | split; [exact Er | split; assumption]]. }
      destruct arc; cbn [fst]; unfold m_inc; cbn [m_sh]; rewrite QK, WK; exact GG.
    + destruct (T2 eq_refl) as (_ & ->). cbn [fst]. unfold m_set_sh. cbn [m_sh]. rewrite WK. exact HX.
  - (* MDropGuard *)
    destruct (alookup g (m_guards x)) as [arc|] eqn:L; [|unfold m_invalid; cbn [fst]; rewrite WK; exact HX].
    assert (GG : MLiveW (swk (unlock W0 E0 (m_sh x))) (mkMw (unlock W0 E0 (m_sh x)) (m_futs x) (aremove g (m_guards x)) (m_nf x) (m_ng x) (m_handles x) (m_strong x) (m_dropped x))).
    { unfold unlock. rewrite (surjective_pairing (fetch_sub W0 1 (m_sh x))). rewrite fetch_sub_fst. cbn [getw].
      set (s1 := setw W0 (wsub (sw0 (m_sh x)) 1) (m_sh x)).
      destruct (notify_proj 1 false s1) as (N1 & N2 & N3 & N4 & N5 & _).
      unfold MLiveW, mlook, shape_ok, keys_ok, avail0. cbn [m_sh m_futs m_nf].
      rewrite N1, N2, N3, N5. unfold s1. cbn [se0 swk snid serr setw]. rewrite WK. cbn [app].
      split; [apply (InvB_notify mfut mlis mf_meta 1 false [] _ _ _ I)|].
      split; [exact Sh|]. split; [|split; [exact Er | split; assumption]].
      intros _. destruct (se0 (m_sh x)) as [|e r] eqn:Q; [left; reflexivity|]. right. apply notify_has; [clear; lia | discriminate]. }
    destruct arc; cbn [fst]; unfold m_dec; cbn [m_sh]; exact GG.
  - (* MSetOracle *)
    cbn [fst]. unfold m_set_sh. cbn [m_sh]. unfold MLiveW, mlook, shape_ok, keys_ok, avail0. cbn [m_sh m_futs m_nf se0 snid swk serr sw0 set_orc].
    rewrite WK. split; [exact I|]. split; [exact Sh|]. split; [exact Av | split; [exact Er | split; assumption]].
  - (* MCloneArc *)
    destruct (Nat.eqb (m_handles x) 0); unfold m_invalid; cbn [fst]; unfold m_inc; cbn [m_sh]; rewrite WK; exact HX.
  - (* MDropArc *)
    destruct (Nat.eqb (m_handles x) 0); [unfold m_invalid; cbn [fst]; rewrite WK; exact HX|].
    destruct (Nat.eqb (m_handles x) 1 && borrowed_alive x); unfold m_invalid; cbn [fst]; unfold m_dec; cbn [m_sh]; rewrite WK; exact HX.
Qed.

Lemma small2_small x : small2 x -> small x.
Proof. unfold small2, small. rewrite USZ_val. change (usize_max / 2) with 9223372036854775807. clear. lia. Qed.

Lemma step_MLive x o : MLive x -> WInv x -> small2 x -> MLive (fst (mstep x o)).
Proof.
  intros HX W B. unfold mstep.
  set (x0 := m_set_sh (set_wk [] (m_sh x)) x).
  assert (H0 : MLive x0) by exact HX.
  assert (W0' : WInv x0) by exact W.
  assert (B0 : small2 x0) by exact B.
  assert (K0 : swk (m_sh x0) = []) by reflexivity.
  pose proof (step_core_MLiveW x0 o H0 W0' B0 K0) as H.
  destruct (mstep_core x0 o) as [x1 r]. cbn [fst] in *. apply MLiveW_wake. exact H.
Qed.

Lemma MLive_init : MLive mw0.
Proof.
  unfold MLive, MLiveW, mw0, mlook, shape_ok, avail0, keys_ok. cbn.
  split; [constructor; cbn; try tauto; try constructor; intros; discriminate|].
  split; [intros; discriminate|]. split; [intros _; left; reflexivity|]. split; [reflexivity|]. split; [constructor | tauto].
Qed.

Definition LIVE_BOUND : N := 2305843009213693952.   (* 2^61 *)

Lemma run_MLive_gen ops : forall x, MLive x -> WInv x ->
  2 * N.of_nat (length ops + length (m_futs x)) + 4 <= usize_max / 2 ->
  MLive (fold_left (fun x o => fst (mstep x o)) ops x) /\ WInv (fold_left (fun x o => fst (mstep x o)) ops x).
Proof.
  induction ops as [|o ops IH]; intros x I W B; cbn [fold_left]; [split; assumption|].
  assert (B2 : small2 x) by (unfold small2; cbn [length] in B; clear - B; lia).
  apply IH.
  - apply step_MLive; assumption.
  - apply step_WInv; [exact W | apply small2_small; exact B2].
  - pose proof (futs_grow x o) as G. cbn [length] in B. clear - B G. lia.
Qed.

Theorem run_MLive ops : N.of_nat (length ops) < LIVE_BOUND -> MLive (mrun ops) /\ WInv (mrun ops).
Proof.
  intro B. apply run_MLive_gen; [apply MLive_init | apply WInv_init |].
  cbn [mw0 m_futs length]. unfold LIVE_BOUND in B. change (usize_max / 2) with 9223372036854775807. clear - B. lia.
Qed.

(* ---------- the theorems ---------- *)
(* C05: mutex unlocked (no guard alive) and every woken task re-polled  ==>  no lock future is pending *)
Theorem mutex_no_lost_wakeup ops : N.of_nat (length ops) < LIVE_BOUND ->
  let x := mrun ops in
  quiescent x -> m_guards x = [] ->
  forall fid f, alookup fid (m_futs x) = Some f -> fm_st (mf_meta f) <> FPending.
Proof. intros B x Q G. destruct (run_MLive ops B) as (L & W). apply no_pending_when_unlocked; assumption. Qed.

(* nothing alive: no listener is left registered and the word is 0 *)
Theorem mutex_idle_event ops : N.of_nat (length ops) < LIVE_BOUND ->
  m_futs (mrun ops) = [] -> se0 (m_sh (mrun ops)) = [].
Proof.
  intros B F. destruct (run_MLive ops B) as ((I & _) & _).
  pose proof (ib_owner _ _ _ _ _ _ _ I) as Ow.
  destruct (se0 (m_sh (mrun ops))) as [|e r]; [reflexivity|].
  destruct (Ow e (or_introl eq_refl)) as (g & fg & Lg & _).
  unfold mlook in Lg. rewrite F in Lg. discriminate.
Qed.

Theorem mutex_no_error ops : N.of_nat (length ops) < LIVE_BOUND -> serr (m_sh (mrun ops)) = false.
Proof. intro B. destruct (run_MLive ops B) as ((_ & _ & _ & E & _) & _). exact E. Qed.
